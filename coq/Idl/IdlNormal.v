(* The canonical rendering (Display) of a description is a legal layout (IdlComplete.v) of its
   NORMALISED form: the parser strips the blanks and tabs that follow `#`, so a comment text with
   leading blanks (as the derive macros produce from `/// text`: " text") comes back without
   them. Hence, for ALL comment texts without line breaks,
       parse (render t) = Accept (normalise t),
   and the identity C14_parse_render is the special case of texts without leading blanks. *)
From Coq Require Import Ascii String.
From ZV Require Import Common.Base gen.IdlKeywords Idl.Idl Idl.IdlParse Idl.Utf8 Idl.IdlSafe Idl.IdlExec
  Idl.IdlRoundTrip Idl.IdlComplete Idl.IdlSound.
Local Open Scope N_scope.

(* ------------------------------------------------------------------ normal form *)

Definition normc (c : comment) : comment := snd (span is_sp_tab c).
Definition ncs (cs : list comment) : list comment := List.map normc cs.
Definition nfield (f : field) : field := mkField (fname f) (fty f) (ncs (fcomments f)).
Definition nvariant (v : variant) : variant := mkVariant (vname v) (ncs (vcomments v)).
Definition ncustom (c : custom) : custom :=
  match c with
  | CObject n fs cs => CObject n (List.map nfield fs) (ncs cs)
  | CEnum n vs cs => CEnum n (List.map nvariant vs) (ncs cs)
  end.
Definition nmethod (m : method) : method :=
  mkMethod (mname m) (List.map nfield (minputs m)) (List.map nfield (moutputs m)) (ncs (mcomments m)).
Definition nerror (e : error) : error := mkError (ename e) (List.map nfield (efields e)) (ncs (ecomments e)).
Definition nmember (m : member) : member :=
  match m with MType c => MType (ncustom c) | MMethod m => MMethod (nmethod m) | MError e => MError (nerror e) end.
Definition normalise (t : interface) : interface :=
  mkInterface (iname t) (List.map nmethod (imethods t)) (List.map ncustom (itypes t))
              (List.map nerror (ierrors t)) (ncs (icomments t)).

(* ------------------------------------------------------------------ hypotheses: as interface_wf, but a
   comment text only has to be valid UTF-8 without line break (LF, CR) *)

Definition comment_nl (c : comment) : bool :=
  utf8_valid c && negb (existsb (fun b => (b =? 10) || (b =? 13)) c).
Definition comments_nl (cs : list comment) : bool := forallb comment_nl cs.

Definition field_wf_nl (f : field) : bool := comments_nl (fcomments f) && ty_wf (fty f).
Definition custom_wf_nl (c : custom) : bool :=
  match c with
  | CObject _ fs cs => comments_nl cs && forallb field_wf_nl fs
  | CEnum _ vs cs =>
      comments_nl cs && match vs with [] => false | _ => true end
      && forallb (fun v => comments_nl (vcomments v)) vs
  end.
Definition interface_wf_nl (t : interface) : bool :=
  names_ok t && comments_nl (icomments t) && forallb custom_wf_nl (itypes t)
  && forallb (fun m => comments_nl (mcomments m) && forallb field_wf_nl (minputs m)
                       && forallb field_wf_nl (moutputs m)) (imethods t)
  && forallb (fun e => comments_nl (ecomments e) && forallb field_wf_nl (efields e)) (ierrors t).

Lemma comment_ok_nl c : comment_ok c = true -> comment_nl c = true /\ normc c = c.
Proof.
  unfold comment_ok, comment_nl, normc. intros H. apply andb_true_iff in H. destruct H as [H Hl].
  split; [exact H|]. destruct c as [|b c]; [reflexivity|]. apply negb_true_iff in Hl. cbn. now rewrite Hl.
Qed.

(* ------------------------------------------------------------------ comment lines *)

Lemma comment_nl_norm c : comment_nl c = true ->
  exists lead, c = lead ++ normc c /\ Forall (fun b => is_sp_tab b = true) lead /\ comment_ok (normc c) = true.
Proof.
  unfold comment_nl, normc. intros H. apply andb_true_iff in H. destruct H as [Hv Hn].
  destruct (span is_sp_tab c) as [lead c'] eqn:Es. cbn [snd].
  destruct (span_inv _ _ _ _ Es) as (E & Hlead & Hstop). exists lead.
  split; [exact E|]. split; [exact Hlead|]. subst c. unfold comment_ok.
  apply andb_true_iff. split; [apply andb_true_iff; split|].
  - assert (Ha : Forall ascii lead).
    { eapply Forall_impl; [|exact Hlead]. intros b Hb. now apply is_sp_tab_ascii. }
    now rewrite (valid_app_ascii lead c' Ha) in Hv.
  - apply negb_true_iff. apply negb_true_iff in Hn. rewrite existsb_app in Hn. now apply orb_false_iff in Hn.
  - destruct c' as [|b c']; [reflexivity|]. cbn in Hstop. rewrite Hstop. reflexivity.
Qed.

Lemma clines_block g cs : blanks g -> comments_nl cs = true -> clines (ncs cs) (comment_block g cs).
Proof.
  intros Hg. induction cs as [|c cs IH]; intros H; [constructor|].
  cbn [comments_nl forallb] in H. apply andb_true_iff in H. destruct H as [Hc Hcs].
  destruct (comment_nl_norm c Hc) as (lead & E & Hlead & Hok).
  pose proof (comment_block_cons g c cs []) as Eb. rewrite !app_nil_r in Eb. rewrite Eb. clear Eb.
  cbn [ncs List.map]. rewrite E at 2. bsnorm. cbn [app]. rewrite <- app_assoc.
  change (35 :: 32 :: lead ++ normc c ++ 10 :: g ++ comment_block g cs)
    with (35 :: (32 :: lead) ++ normc c ++ 10 :: g ++ comment_block g cs).
  apply cl_cons; auto; try (constructor; [reflexivity | exact Hlead]).
Qed.

Lemma clines_render cs : comments_nl cs = true -> clines (ncs cs) (render_comments cs).
Proof. intros H. rewrite render_comments_block. apply clines_block; [constructor | exact H]. Qed.

(* ------------------------------------------------------------------ comma-separated tails as Display writes them *)

Lemma Ltail_display {X Y} (G2 : list byte -> Prop) (LX : Y -> list byte -> Prop) (h : X -> Y)
      (rend : X -> list byte) (l : list X) :
  G2 [32] -> (forall y, In y l -> LX (h y) (rend y)) ->
  Ltail G2 LX (List.map h l) (flat_map (fun y => bs ", " ++ rend y) l).
Proof.
  intros HG. induction l as [|y l IH]; intros H; [reflexivity|].
  cbn [List.map flat_map Ltail]. exists [], [32], (rend y), (flat_map (fun y0 => bs ", " ++ rend y0) l).
  split; [constructor|]. split; [exact HG|]. split; [apply H; left; reflexivity|].
  split; [apply IH; intros z Hz; apply H; right; exact Hz|].
  bsnorm. cbn [app]. reflexivity.
Qed.

Lemma wsgap_sp : wsgap [32]. Proof. apply blanks_wsgap. repeat constructor. Qed.
Lemma blanks_sp : blanks [32]. Proof. repeat constructor. Qed.

Ltac eqnorm :=
  bsnorm; unfold kw_method, kw_error, kw_type, kw_interface, kw_arrow, kw_optional, kw_array, kw_map,
    kw_display_optional, kw_display_array, kw_display_map, NL;
  repeat (progress (rewrite <- ?app_assoc; cbn [app])); reflexivity.

(* ------------------------------------------------------------------ types *)

Lemma Lty_render : forall t, tywf t = true -> Lty t (render_ty t).
Proof.
  induction t as [p | t IH | t IH | t IH | n | vs | fs IH] using ty_ind2; intros Hw.
  - reflexivity.
  - unfold tywf in Hw. cbn [ty_names_ok ty_wf] in Hw. apply andb_true_iff in Hw. destruct Hw as [Hn Hw].
    assert (Hno : is_topt t = false /\ tywf t = true).
    { unfold tywf. rewrite Hn. destruct t; try discriminate; auto. }
    destruct Hno as [Hno Hwt]. cbn [Lty render_ty]. split; [exact Hno|]. exists (render_ty t). split; [now apply IH | reflexivity].
  - cbn [Lty render_ty]. exists (render_ty t). split; [now apply IH | reflexivity].
  - cbn [Lty render_ty]. exists (render_ty t). split; [now apply IH | reflexivity].
  - unfold tywf in Hw. cbn in Hw. apply andb_true_iff in Hw. destruct Hw as [Hn _]. cbn [Lty render_ty]. auto.
  - destruct (tywf_enum vs Hw) as (Hne & Hnc & Hnames). destruct vs as [|v vs]; [congruence|].
    cbn [Lty render_ty]. split; [exact Hnc|]. split; [exact Hnames|].
    exists [], (names_tail (List.map vname vs)), []. split; [constructor|]. split; [constructor|]. split.
    + unfold names_tail. rewrite flat_map_map.
      rewrite <- (List.map_id (List.map vname vs)) at 1. rewrite List.map_map.
      apply (Ltail_display wsgap Lname (fun v0 => vname v0) vname vs wsgap_sp). intros y _. reflexivity.
    + rewrite render_enum_single by exact Hnc. cbn [List.map]. rewrite join_names. eqnorm.
  - pose proof (tywf_struct fs Hw) as Hfs. cbn [render_ty]. fold render_field. fold (render_fields fs).
    destruct fs as [|f fs].
    + cbn [Lty]. exists []. split; [constructor | reflexivity].
    + assert (Hall : forall g, In g (f :: fs) -> Lfield g (render_field g)).
      { intros g Hg. rewrite Forall_forall in IH, Hfs. destruct (Hfs g Hg) as (H1 & H2 & H3).
        split; [exact H1|]. split; [exact H2|].
        exists [], [32], (render_ty (fty g)). split; [constructor|]. split; [apply blanks_sp|].
        split; [now apply (IH g Hg)|]. rewrite (render_field_nocomment g H2). eqnorm. }
      cbn [Lty]. exists [], (render_field f), (fields_tail fs), [].
      split; [constructor|]. split; [constructor|]. split; [apply Hall; left; reflexivity|]. split.
      * unfold fields_tail. rewrite <- (List.map_id fs) at 1.
        apply (Ltail_display wsgap Lfield (fun g => g) render_field fs wsgap_sp).
        intros y Hy. apply Hall. right. exact Hy.
      * rewrite render_fields_cons. eqnorm.
Qed.
