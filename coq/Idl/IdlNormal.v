(* The canonical rendering (Display) of a description is a legal layout (IdlComplete.v) of its
   NORMALISED form: the parser strips the blanks and tabs that follow `#`, so a comment text with
   leading blanks (as the derive macros produce from `/// text`: " text") comes back without
   them. Hence, for ALL comment texts without line breaks,
       parse (render t) = Accept (normalise t),
   and the identity C14_parse_render is the special case of texts without leading blanks. *)
From Coq Require Import Ascii String.
From ZV Require Import Common.Base gen.IdlKeywords Idl.Idl Idl.IdlParse Idl.Utf8 Idl.IdlSafe Idl.IdlExec
  Idl.IdlRoundTrip Idl.IdlComplete Idl.IdlSound.
Local Open Scope N_scope.

(* ------------------------------------------------------------------ normal form *)

Definition normc (c : comment) : comment := snd (span is_sp_tab c).
Definition ncs (cs : list comment) : list comment := List.map normc cs.
Definition nfield (f : field) : field := mkField (fname f) (fty f) (ncs (fcomments f)).
Definition nvariant (v : variant) : variant := mkVariant (vname v) (ncs (vcomments v)).
Definition ncustom (c : custom) : custom :=
  match c with
  | CObject n fs cs => CObject n (List.map nfield fs) (ncs cs)
  | CEnum n vs cs => CEnum n (List.map nvariant vs) (ncs cs)
  end.
Definition nmethod (m : method) : method :=
  mkMethod (mname m) (List.map nfield (minputs m)) (List.map nfield (moutputs m)) (ncs (mcomments m)).
Definition nerror (e : error) : error := mkError (ename e) (List.map nfield (efields e)) (ncs (ecomments e)).
Definition nmember (m : member) : member :=
  match m with MType c => MType (ncustom c) | MMethod m => MMethod (nmethod m) | MError e => MError (nerror e) end.
Definition normalise (t : interface) : interface :=
  mkInterface (iname t) (List.map nmethod (imethods t)) (List.map ncustom (itypes t))
              (List.map nerror (ierrors t)) (ncs (icomments t)).

(* ------------------------------------------------------------------ hypotheses: as interface_wf, but a
   comment text only has to be valid UTF-8 without line break (LF, CR) *)

Definition comment_nl (c : comment) : bool :=
  utf8_valid c && negb (existsb (fun b => (b =? 10) || (b =? 13)) c).
Definition comments_nl (cs : list comment) : bool := forallb comment_nl cs.

Definition field_wf_nl (f : field) : bool := comments_nl (fcomments f) && ty_wf (fty f).
Definition custom_wf_nl (c : custom) : bool :=
  match c with
  | CObject _ fs cs => comments_nl cs && forallb field_wf_nl fs
  | CEnum _ vs cs =>
      comments_nl cs && match vs with [] => false | _ => true end
      && forallb (fun v => comments_nl (vcomments v)) vs
  end.
Definition interface_wf_nl (t : interface) : bool :=
  names_ok t && comments_nl (icomments t) && forallb custom_wf_nl (itypes t)
  && forallb (fun m => comments_nl (mcomments m) && forallb field_wf_nl (minputs m)
                       && forallb field_wf_nl (moutputs m)) (imethods t)
  && forallb (fun e => comments_nl (ecomments e) && forallb field_wf_nl (efields e)) (ierrors t).

Lemma comment_ok_nl c : comment_ok c = true -> comment_nl c = true /\ normc c = c.
Proof.
  unfold comment_ok, comment_nl, normc. intros H. apply andb_true_iff in H. destruct H as [H Hl].
  split; [exact H|]. destruct c as [|b c]; [reflexivity|]. apply negb_true_iff in Hl. cbn. now rewrite Hl.
Qed.

(* ------------------------------------------------------------------ comment lines *)

Lemma comment_nl_norm c : comment_nl c = true ->
  exists lead, c = lead ++ normc c /\ Forall (fun b => is_sp_tab b = true) lead /\ comment_ok (normc c) = true.
Proof.
  unfold comment_nl, normc. intros H. apply andb_true_iff in H. destruct H as [Hv Hn].
  destruct (span is_sp_tab c) as [lead c'] eqn:Es. cbn [snd].
  destruct (span_inv _ _ _ _ Es) as (E & Hlead & Hstop). exists lead.
  split; [exact E|]. split; [exact Hlead|]. subst c. unfold comment_ok.
  apply andb_true_iff. split; [apply andb_true_iff; split|].
  - assert (Ha : Forall ascii lead).
    { eapply Forall_impl; [|exact Hlead]. intros b Hb. now apply is_sp_tab_ascii. }
    now rewrite (valid_app_ascii lead c' Ha) in Hv.
  - apply negb_true_iff. apply negb_true_iff in Hn. rewrite existsb_app in Hn. now apply orb_false_iff in Hn.
  - destruct c' as [|b c']; [reflexivity|]. cbn in Hstop. rewrite Hstop. reflexivity.
Qed.

Lemma clines_block g cs : blanks g -> comments_nl cs = true -> clines (ncs cs) (comment_block g cs).
Proof.
  intros Hg. induction cs as [|c cs IH]; intros H; [constructor|].
  cbn [comments_nl forallb] in H. apply andb_true_iff in H. destruct H as [Hc Hcs].
  destruct (comment_nl_norm c Hc) as (lead & E & Hlead & Hok).
  pose proof (comment_block_cons g c cs []) as Eb. rewrite !app_nil_r in Eb. rewrite Eb. clear Eb.
  cbn [ncs List.map]. rewrite E at 2. bsnorm. cbn [app]. rewrite <- app_assoc.
  change (35 :: 32 :: lead ++ normc c ++ 10 :: g ++ comment_block g cs)
    with (35 :: (32 :: lead) ++ normc c ++ 10 :: g ++ comment_block g cs).
  apply cl_cons; auto; try (constructor; [reflexivity | exact Hlead]).
Qed.

Lemma clines_render cs : comments_nl cs = true -> clines (ncs cs) (render_comments cs).
Proof. intros H. rewrite render_comments_block. apply clines_block; [constructor | exact H]. Qed.

(* ------------------------------------------------------------------ comma-separated tails as Display writes them *)

Lemma Ltail_display {X Y} (G2 : list byte -> Prop) (LX : Y -> list byte -> Prop) (h : X -> Y)
      (rend : X -> list byte) (l : list X) :
  G2 [32] -> (forall y, In y l -> LX (h y) (rend y)) ->
  Ltail G2 LX (List.map h l) (flat_map (fun y => bs ", " ++ rend y) l).
Proof.
  intros HG. induction l as [|y l IH]; intros H; [reflexivity|].
  cbn [List.map flat_map Ltail]. exists [], [32], (rend y), (flat_map (fun y0 => bs ", " ++ rend y0) l).
  split; [constructor|]. split; [exact HG|]. split; [apply H; left; reflexivity|].
  split; [apply IH; intros z Hz; apply H; right; exact Hz|].
  bsnorm. cbn [app]. reflexivity.
Qed.

Lemma wsgap_sp : wsgap [32]. Proof. apply blanks_wsgap. repeat constructor. Qed.
Lemma blanks_sp : blanks [32]. Proof. repeat constructor. Qed.

Ltac eqnorm :=
  bsnorm; unfold kw_method, kw_error, kw_type, kw_interface, kw_arrow, kw_optional, kw_array, kw_map,
    kw_display_optional, kw_display_array, kw_display_map, NL;
  repeat (progress (rewrite <- ?app_assoc; cbn [app])); rewrite ?app_nil_r; reflexivity.

(* ------------------------------------------------------------------ types *)

Lemma Lty_render : forall t, tywf t = true -> Lty t (render_ty t).
Proof.
  induction t as [p | t IH | t IH | t IH | n | vs | fs IH] using ty_ind2; intros Hw.
  - reflexivity.
  - unfold tywf in Hw. cbn [ty_names_ok ty_wf] in Hw. apply andb_true_iff in Hw. destruct Hw as [Hn Hw].
    assert (Hno : is_topt t = false /\ tywf t = true).
    { unfold tywf. rewrite Hn. destruct t; try discriminate; auto. }
    destruct Hno as [Hno Hwt]. cbn [Lty render_ty]. split; [exact Hno|]. exists (render_ty t). split; [now apply IH | reflexivity].
  - cbn [Lty render_ty]. exists (render_ty t). split; [now apply IH | reflexivity].
  - cbn [Lty render_ty]. exists (render_ty t). split; [now apply IH | reflexivity].
  - unfold tywf in Hw. cbn in Hw. apply andb_true_iff in Hw. destruct Hw as [Hn _]. cbn [Lty render_ty]. auto.
  - destruct (tywf_enum vs Hw) as (Hne & Hnc & Hnames). destruct vs as [|v vs]; [congruence|].
    cbn [Lty render_ty]. split; [exact Hnc|]. split; [exact Hnames|].
    exists [], (names_tail (List.map vname vs)), []. split; [constructor|]. split; [constructor|]. split.
    + unfold names_tail. rewrite flat_map_map.
      rewrite <- (List.map_id (List.map vname vs)) at 1. rewrite List.map_map.
      apply (Ltail_display wsgap Lname (fun v0 => vname v0) vname vs wsgap_sp). intros y _. reflexivity.
    + rewrite render_enum_single by exact Hnc. cbn [List.map]. rewrite join_names. eqnorm.
  - pose proof (tywf_struct fs Hw) as Hfs. cbn [render_ty]. fold render_field. fold (render_fields fs).
    destruct fs as [|f fs].
    + cbn [Lty]. exists []. split; [constructor | reflexivity].
    + assert (Hall : forall g, In g (f :: fs) -> Lfield g (render_field g)).
      { intros g Hg. rewrite Forall_forall in IH, Hfs. destruct (Hfs g Hg) as (H1 & H2 & H3).
        split; [exact H1|]. split; [exact H2|].
        exists [], [32], (render_ty (fty g)). split; [constructor|]. split; [apply blanks_sp|].
        split; [now apply (IH g Hg)|]. rewrite (render_field_nocomment g H2). eqnorm. }
      cbn [Lty]. exists [], (render_field f), (fields_tail fs), [].
      split; [constructor|]. split; [constructor|]. split; [apply Hall; left; reflexivity|]. split.
      * unfold fields_tail. rewrite <- (List.map_id fs) at 1.
        apply (Ltail_display wsgap Lfield (fun g => g) render_field fs wsgap_sp).
        intros y Hy. apply Hall. right. exact Hy.
      * rewrite render_fields_cons. eqnorm.
Qed.

(* ------------------------------------------------------------------ direct fields, lists, members *)

Definition dfield_nl (f : field) : bool := field_names_ok f && field_wf_nl f.

Lemma Ldfield_render f : dfield_nl f = true -> Ldfield (nfield f) (render_field f).
Proof.
  unfold dfield_nl, field_names_ok, field_wf_nl. intros H.
  apply andb_true_iff in H. destruct H as [H1 H2]. apply andb_true_iff in H1. destruct H1 as [Hn Htn].
  apply andb_true_iff in H2. destruct H2 as [Hc Htw].
  split; [exact Hn|]. cbn [nfield fname fty fcomments].
  exists (render_comments (fcomments f)), [], [32], (render_ty (fty f)).
  split; [now apply clines_render|]. split; [constructor|]. split; [apply blanks_sp|].
  split; [apply Lty_render; unfold tywf; now rewrite Htn, Htw|].
  rewrite render_field_eq. eqnorm.
Qed.

Lemma Llist_display {X Y} (LX : Y -> list byte -> Prop) (h : X -> Y) (rend : X -> list byte) (l : list X) :
  (forall y, In y l -> LX (h y) (rend y)) ->
  Llist LX (List.map h l) (40 :: join comma_sp (List.map rend l) ++ [41]).
Proof.
  intros H. destruct l as [|a l].
  - cbn. exists []. split; [constructor | reflexivity].
  - cbn [List.map Llist]. exists [], (rend a), (flat_map (fun y => bs ", " ++ rend y) l), [].
    split; [constructor|]. split; [constructor|]. split; [apply H; left; reflexivity|]. split.
    + apply (Ltail_display blanks LX h rend l blanks_sp). intros y Hy. apply H. right. exact Hy.
    + unfold join. rewrite flat_map_map. unfold comma_sp. eqnorm.
Qed.

Lemma Lplist_render fs : forallb dfield_nl fs = true ->
  Lplist (List.map nfield fs) (40 :: render_fields fs ++ [41]).
Proof.
  intros H. unfold Lplist, render_fields. apply Llist_display.
  intros y Hy. apply Ldfield_render. rewrite forallb_forall in H. now apply H.
Qed.

Definition method_nl (m : method) : bool :=
  type_name_ok (mname m) && comments_nl (mcomments m)
  && forallb dfield_nl (minputs m) && forallb dfield_nl (moutputs m).
Definition error_nl (e : error) : bool :=
  type_name_ok (ename e) && comments_nl (ecomments e) && forallb dfield_nl (efields e).
Definition variant_nl (v : variant) : bool := field_name_ok (vname v) && comments_nl (vcomments v).
Definition custom_nl (c : custom) : bool :=
  match c with
  | CObject n fs cs => type_name_ok n && comments_nl cs && forallb dfield_nl fs
  | CEnum n vs cs => type_name_ok n && comments_nl cs && forallb variant_nl vs && enum_shape_ok vs
  end.
Definition member_nl (m : member) : bool :=
  match m with MType c => custom_nl c | MMethod m => method_nl m | MError e => error_nl e end.

Lemma blanks1_sp : blanks1 [32]. Proof. split; [apply blanks_sp | discriminate]. Qed.

Lemma Lmethod_render m : method_nl m = true -> Lmethod (nmethod m) (render_method m).
Proof.
  unfold method_nl. intros H. apply andb_true_iff in H. destruct H as [H Houts].
  apply andb_true_iff in H. destruct H as [H Hins]. apply andb_true_iff in H. destruct H as [Hn Hc].
  split; [exact Hn|]. cbn [nmethod mname minputs moutputs mcomments].
  exists (render_comments (mcomments m)), [32], [], (40 :: render_fields (minputs m) ++ [41]), [32], [32],
    (40 :: render_fields (moutputs m) ++ [41]).
  split; [now apply clines_render|]. split; [apply blanks1_sp|]. split; [constructor|].
  split; [apply blanks_sp|]. split; [apply blanks_sp|].
  split; [now apply Lplist_render|]. split; [now apply Lplist_render|].
  unfold render_method. eqnorm.
Qed.

Lemma Lerror_render e : error_nl e = true -> Lerror (nerror e) (render_error e).
Proof.
  unfold error_nl. intros H. apply andb_true_iff in H. destruct H as [H Hfs].
  apply andb_true_iff in H. destruct H as [Hn Hc].
  split; [exact Hn|]. cbn [nerror ename efields ecomments].
  exists (render_comments (ecomments e)), [32], [32], (40 :: render_fields (efields e) ++ [41]).
  split; [now apply clines_render|]. split; [apply blanks1_sp|]. split; [apply blanks_sp|].
  split; [now apply Lplist_render|]. unfold render_error. eqnorm.
Qed.

Lemma Lcustom_render c : custom_nl c = true -> Lcustom (ncustom c) (render_custom c).
Proof.
  destruct c as [n fs cs | n vs cs]; cbn [custom_nl ncustom render_custom Lcustom]; intros H.
  - apply andb_true_iff in H. destruct H as [H Hfs]. apply andb_true_iff in H. destruct H as [Hn Hc].
    split; [exact Hn|].
    exists (render_comments cs), [32], [32], (40 :: render_fields fs ++ [41]).
    split; [now apply clines_render|]. split; [apply blanks1_sp|]. split; [apply blanks_sp|].
    split; [now apply Lplist_render|]. unfold render_object. eqnorm.
  - apply andb_true_iff in H. destruct H as [H Hshape]. apply andb_true_iff in H. destruct H as [H Hvs].
    apply andb_true_iff in H. destruct H as [Hn Hc].
    split; [exact Hn|]. split; [destruct vs; [discriminate | discriminate]|].
    destruct (existsb has_comments vs) eqn:Eex.
    + (* one commented variant: the multi-line form *)
      assert (Hone : exists v, vs = [v]).
      { destruct vs as [|v [|v2 vs]]; [discriminate | eauto |].
        cbn [enum_shape_ok] in Hshape. apply forallb_negb_existsb in Hshape. congruence. }
      destruct Hone as [v ->]. cbn [forallb] in Hvs. apply andb_true_iff in Hvs. destruct Hvs as [Hv _].
      unfold variant_nl in Hv. apply andb_true_iff in Hv. destruct Hv as [Hvn Hvc].
      assert (Hhc : has_comments v = true) by (cbn in Eex; now rewrite orb_false_r in Eex).
      exists (render_comments cs), [32], [32],
        (40 :: [10; 9] ++ (comment_block [9] (vcomments v) ++ vname v) ++ [] ++ [10] ++ [41]).
      split; [now apply clines_render|]. split; [apply blanks1_sp|]. split; [apply blanks_sp|]. split.
      * cbn [List.map Llist]. exists [10; 9], (comment_block [9] (vcomments v) ++ vname v), [], [10].
        split; [repeat constructor|]. split; [repeat constructor|]. split; [|split; reflexivity].
        split; [exact Hvn|]. cbn [nvariant vname vcomments]. exists (comment_block [9] (vcomments v)).
        split; [apply clines_block; [repeat constructor | exact Hvc] | reflexivity].
      * unfold render_cenum. pose proof (render_enum_one v [] Hhc) as E. rewrite app_nil_r in E. rewrite E.
        unfold variant_line. cbn [entries_tail flat_map]. eqnorm.
    + (* single-line form: no variant is commented *)
      pose proof (existsb_false_forallb _ _ Eex) as Hnc.
      destruct vs as [|v vs]; [discriminate|].
      assert (Hvar : forall w, In w (v :: vs) -> Lvariant (nvariant w) (vname w)).
      { intros w Hw. rewrite forallb_forall in Hvs, Hnc. specialize (Hvs w Hw). specialize (Hnc w Hw).
        unfold variant_nl in Hvs. apply andb_true_iff in Hvs. destruct Hvs as [Hwn _].
        apply negb_true_iff in Hnc. unfold has_comments in Hnc.
        split; [exact Hwn|]. cbn [nvariant vname vcomments]. exists [].
        destruct (vcomments w); [split; [constructor | reflexivity] | discriminate]. }
      exists (render_comments cs), [32], [32], (40 :: join comma_sp (List.map vname (v :: vs)) ++ [41]).
      split; [now apply clines_render|]. split; [apply blanks1_sp|]. split; [apply blanks_sp|]. split.
      * apply (Llist_display Lvariant nvariant vname (v :: vs)). exact Hvar.
      * unfold render_cenum. rewrite render_enum_single by exact Hnc. eqnorm.
Qed.

Lemma Lmember_render m : member_nl m = true -> Lmember (nmember m) (render_member m).
Proof.
  destruct m as [c | m | e]; cbn [member_nl nmember render_member Lmember]; intros H.
  - now apply Lcustom_render. - now apply Lmethod_render. - now apply Lerror_render.
Qed.

Lemma Lmembers_render : forall ms, forallb member_nl ms = true ->
  Lmembers (List.map nmember ms) (members_text ms).
Proof.
  induction ms as [|m ms IH]; intros H; [reflexivity|].
  cbn [forallb] in H. apply andb_true_iff in H. destruct H as [Hm Hms].
  cbn [List.map Lmembers members_text flat_map]. fold (members_text ms).
  exists [10; 10], (render_member m), (members_text ms).
  split; [split; [repeat constructor | discriminate]|]. split; [now apply Lmember_render|].
  split; [now apply IH|]. eqnorm.
Qed.

(* ------------------------------------------------------------------ the interface *)

Definition iface_nl (t : interface) : bool :=
  interface_name_ok (iname t) && comments_nl (icomments t)
  && forallb custom_nl (itypes t) && forallb method_nl (imethods t) && forallb error_nl (ierrors t).

Lemma members_nl t : iface_nl t = true -> forallb member_nl (members_of t) = true.
Proof.
  unfold iface_nl, members_of. intros H.
  apply andb_true_iff in H. destruct H as [H He]. apply andb_true_iff in H. destruct H as [H Hm].
  apply andb_true_iff in H. destruct H as [_ Ht].
  rewrite !forallb_app, !forallb_map_eq.
  apply andb_true_iff; split; [exact Ht | apply andb_true_iff; split; [exact Hm | exact He]].
Qed.

Lemma Linterface_render t : iface_nl t = true ->
  Linterface (iname t) (ncs (icomments t)) (List.map nmember (members_of t)) (render t).
Proof.
  intros Hok. pose proof (members_nl t Hok) as Hms. unfold iface_nl in Hok.
  apply andb_true_iff in Hok. destruct Hok as [Hok _]. apply andb_true_iff in Hok. destruct Hok as [Hok _].
  apply andb_true_iff in Hok. destruct Hok as [Hok _]. apply andb_true_iff in Hok. destruct Hok as [Hn Hc].
  split; [exact Hn|].
  exists [], (render_comments (icomments t)), [32], (members_text (members_of t)), [].
  split; [constructor|]. split; [constructor|]. split; [now apply clines_render|].
  split; [apply blanks1_sp|]. split; [now apply Lmembers_render|].
  rewrite render_members. eqnorm.
Qed.

Lemma interface_of_normalise t :
  interface_of (iname t) (ncs (icomments t)) (List.map nmember (members_of t)) = normalise t.
Proof.
  unfold interface_of, members_of, normalise. rewrite !List.map_app, !List.map_map.
  rewrite !mem_types_app, !mem_methods_app, !mem_errors_app.
  change (List.map (fun x => nmember (MType x)) (itypes t)) with (List.map (fun x => MType (ncustom x)) (itypes t)).
  change (List.map (fun x => nmember (MMethod x)) (imethods t)) with (List.map (fun x => MMethod (nmethod x)) (imethods t)).
  change (List.map (fun x => nmember (MError x)) (ierrors t)) with (List.map (fun x => MError (nerror x)) (ierrors t)).
  rewrite <- (List.map_map ncustom MType), <- (List.map_map nmethod MMethod), <- (List.map_map nerror MError).
  rewrite mem_types_T, mem_types_M, mem_types_E, mem_methods_T, mem_methods_M, mem_methods_E,
    mem_errors_T, mem_errors_M, mem_errors_E.
  cbn [app]. now rewrite !app_nil_r.
Qed.

Theorem parse_render_normalise t : iface_nl t = true -> parse_interface (render t) = Accept (normalise t).
Proof.
  intros H. rewrite <- interface_of_normalise. apply parse_layout. now apply Linterface_render.
Qed.

(* ------------------------------------------------------------------ from the executable hypotheses *)

Lemma wf_nl_custom c :
  custom_names_ok c = true -> custom_wf_nl c = true ->
  (match c with CEnum _ ((_ :: _ :: _) as vs) _ => existsb has_comments vs | _ => false end) = false ->
  custom_nl c = true.
Proof.
  destruct c as [n fs cs | n vs cs]; cbn [custom_names_ok custom_wf_nl custom_nl]; intros Hn Hw Hk.
  - apply andb_true_iff in Hn. destruct Hn as [Hn1 Hn2]. apply andb_true_iff in Hw. destruct Hw as [Hw1 Hw2].
    rewrite Hn1, Hw1. cbn [andb]. unfold dfield_nl. now apply forallb_and.
  - apply andb_true_iff in Hn. destruct Hn as [Hn1 Hn2].
    apply andb_true_iff in Hw. destruct Hw as [Hw Hw3]. apply andb_true_iff in Hw. destruct Hw as [Hw1 Hw2].
    rewrite Hn1, Hw1. cbn [andb]. apply andb_true_iff. split.
    + unfold variant_nl. apply forallb_and; [exact Hn2 | exact Hw3].
    + destruct vs as [|v [|v2 vs]]; [discriminate | reflexivity |].
      cbn [enum_shape_ok]. now apply existsb_false_forallb.
Qed.

Lemma wf_nl_iface t :
  interface_wf_nl t = true -> known_commented_enum t = false -> iface_nl t = true.
Proof.
  unfold interface_wf_nl, names_ok, known_commented_enum, iface_nl. intros Hw Hk.
  apply andb_true_iff in Hw. destruct Hw as [Hw He]. apply andb_true_iff in Hw. destruct Hw as [Hw Hm].
  apply andb_true_iff in Hw. destruct Hw as [Hw Ht]. apply andb_true_iff in Hw. destruct Hw as [Hn Hc].
  apply andb_true_iff in Hn. destruct Hn as [Hn Hne]. apply andb_true_iff in Hn. destruct Hn as [Hn Hnm].
  apply andb_true_iff in Hn. destruct Hn as [Hni Hnt].
  rewrite Hni, Hc. cbn [andb].
  apply andb_true_iff. split; [apply andb_true_iff; split|].
  - apply forallb_forall. intros c Hin. rewrite forallb_forall in Hnt, Ht.
    apply wf_nl_custom; [now apply Hnt | now apply Ht|].
    destruct (match c with CEnum _ ((_ :: _ :: _) as vs) _ => existsb has_comments vs | _ => false end) eqn:E;
      [|reflexivity].
    assert (Hex : existsb (fun c0 => match c0 with CEnum _ ((_ :: _ :: _) as vs) _ => existsb has_comments vs
                                                | _ => false end) (itypes t) = true)
      by (apply existsb_exists; exists c; auto).
    congruence.
  - apply forallb_forall. intros m Hin. rewrite forallb_forall in Hnm, Hm.
    specialize (Hnm m Hin). specialize (Hm m Hin). unfold method_names_ok in Hnm. unfold method_nl.
    apply andb_true_iff in Hnm. destruct Hnm as [Hnm Hn3]. apply andb_true_iff in Hnm. destruct Hnm as [Hn1 Hn2].
    apply andb_true_iff in Hm. destruct Hm as [Hm Hm3]. apply andb_true_iff in Hm. destruct Hm as [Hm1 Hm2].
    rewrite Hn1, Hm1. cbn [andb]. unfold dfield_nl. apply andb_true_iff. split; now apply forallb_and.
  - apply forallb_forall. intros e Hin. rewrite forallb_forall in Hne, He.
    specialize (Hne e Hin). specialize (He e Hin). unfold error_names_ok in Hne. unfold error_nl.
    apply andb_true_iff in Hne. destruct Hne as [Hn1 Hn2]. apply andb_true_iff in He. destruct He as [He1 He2].
    rewrite Hn1, He1. cbn [andb]. unfold dfield_nl. now apply forallb_and.
Qed.

Theorem parse_render_normalise_wf t :
  interface_wf_nl t = true -> known_commented_enum t = false ->
  parse_interface (render t) = Accept (normalise t).
Proof. intros Hw Hk. apply parse_render_normalise. now apply wf_nl_iface. Qed.

(* the stricter hypotheses of C14_parse_render: no leading blanks, so normalise is the identity *)
Lemma ncs_id cs : comments_ok cs = true -> comments_nl cs = true /\ ncs cs = cs.
Proof.
  unfold comments_ok, comments_nl, ncs. induction cs as [|c cs IH]; intros H; [auto|].
  cbn [forallb] in H. apply andb_true_iff in H. destruct H as [Hc Hcs].
  destruct (comment_ok_nl c Hc) as [H1 H2]. destruct (IH Hcs) as [H3 H4].
  cbn [forallb List.map]. now rewrite H1, H2, H3, H4.
Qed.

Lemma map_id_in {X} (f : X -> X) l : (forall x, In x l -> f x = x) -> List.map f l = l.
Proof. intros H. rewrite <- (List.map_id l) at 2. apply List.map_ext_in. exact H. Qed.

Lemma fields_id fs : forallb field_wf fs = true ->
  forallb field_wf_nl fs = true /\ List.map nfield fs = fs.
Proof.
  intros H. split.
  - apply forallb_forall. intros f Hf. rewrite forallb_forall in H. specialize (H f Hf).
    unfold field_wf in H. unfold field_wf_nl. apply andb_true_iff in H. destruct H as [H1 H2].
    destruct (ncs_id _ H1) as [H3 _]. now rewrite H3, H2.
  - apply map_id_in. intros f Hf. rewrite forallb_forall in H. specialize (H f Hf).
    unfold field_wf in H. apply andb_true_iff in H. destruct H as [H1 _].
    destruct (ncs_id _ H1) as [_ H4]. destruct f as [n t cs]. unfold nfield. cbn in *. now rewrite H4.
Qed.

Lemma wf_strict t : interface_wf t = true -> interface_wf_nl t = true /\ normalise t = t.
Proof.
  unfold interface_wf, interface_wf_nl. intros H.
  apply andb_true_iff in H. destruct H as [H He]. apply andb_true_iff in H. destruct H as [H Hm].
  apply andb_true_iff in H. destruct H as [H Ht]. apply andb_true_iff in H. destruct H as [Hn Hc].
  destruct (ncs_id _ Hc) as [Hc1 Hc2].
  assert (Ht' : forallb custom_wf_nl (itypes t) = true /\ List.map ncustom (itypes t) = itypes t).
  { split.
    - apply forallb_forall. intros c Hin. rewrite forallb_forall in Ht. specialize (Ht c Hin).
      destruct c as [n fs cs | n vs cs]; cbn [custom_wf custom_wf_nl] in *.
      + apply andb_true_iff in Ht. destruct Ht as [A B]. destruct (ncs_id _ A) as [A1 _].
        destruct (fields_id _ B) as [B1 _]. now rewrite A1, B1.
      + apply andb_true_iff in Ht. destruct Ht as [Ht C]. apply andb_true_iff in Ht. destruct Ht as [A B].
        destruct (ncs_id _ A) as [A1 _]. rewrite A1, B. cbn [andb].
        apply forallb_forall. intros v Hv. rewrite forallb_forall in C. now destruct (ncs_id _ (C v Hv)).
    - apply map_id_in. intros c Hin. rewrite forallb_forall in Ht. specialize (Ht c Hin).
      destruct c as [n fs cs | n vs cs]; cbn [custom_wf ncustom] in *.
      + apply andb_true_iff in Ht. destruct Ht as [A B]. destruct (ncs_id _ A) as [_ A2].
        destruct (fields_id _ B) as [_ B2]. now rewrite A2, B2.
      + apply andb_true_iff in Ht. destruct Ht as [Ht C]. apply andb_true_iff in Ht. destruct Ht as [A B].
        destruct (ncs_id _ A) as [_ A2]. rewrite A2. f_equal.
        apply map_id_in. intros v Hv. rewrite forallb_forall in C. destruct (ncs_id _ (C v Hv)) as [_ E].
        destruct v as [vn vcs]. unfold nvariant. cbn in *. now rewrite E. }
  assert (Hm' : forallb (fun m => comments_nl (mcomments m) && forallb field_wf_nl (minputs m)
                                  && forallb field_wf_nl (moutputs m)) (imethods t) = true
                /\ List.map nmethod (imethods t) = imethods t).
  { split.
    - apply forallb_forall. intros m Hin. rewrite forallb_forall in Hm. specialize (Hm m Hin).
      apply andb_true_iff in Hm. destruct Hm as [Hm C]. apply andb_true_iff in Hm. destruct Hm as [A B].
      destruct (ncs_id _ A) as [A1 _]. destruct (fields_id _ B) as [B1 _]. destruct (fields_id _ C) as [C1 _].
      now rewrite A1, B1, C1.
    - apply map_id_in. intros m Hin. rewrite forallb_forall in Hm. specialize (Hm m Hin).
      apply andb_true_iff in Hm. destruct Hm as [Hm C]. apply andb_true_iff in Hm. destruct Hm as [A B].
      destruct (ncs_id _ A) as [_ A2]. destruct (fields_id _ B) as [_ B2]. destruct (fields_id _ C) as [_ C2].
      destruct m. unfold nmethod. cbn in *. now rewrite A2, B2, C2. }
  assert (He' : forallb (fun e => comments_nl (ecomments e) && forallb field_wf_nl (efields e)) (ierrors t) = true
                /\ List.map nerror (ierrors t) = ierrors t).
  { split.
    - apply forallb_forall. intros e Hin. rewrite forallb_forall in He. specialize (He e Hin).
      apply andb_true_iff in He. destruct He as [A B].
      destruct (ncs_id _ A) as [A1 _]. destruct (fields_id _ B) as [B1 _]. now rewrite A1, B1.
    - apply map_id_in. intros e Hin. rewrite forallb_forall in He. specialize (He e Hin).
      apply andb_true_iff in He. destruct He as [A B].
      destruct (ncs_id _ A) as [_ A2]. destruct (fields_id _ B) as [_ B2].
      destruct e. unfold nerror. cbn in *. now rewrite A2, B2. }
  destruct Ht' as [T1 T2]. destruct Hm' as [M1 M2]. destruct He' as [E1 E2].
  split.
  - now rewrite Hn, Hc1, T1, M1, E1.
  - unfold normalise. rewrite T2, M2, E2, Hc2. destruct t. reflexivity.
Qed.

Corollary parse_render_from_normalise t :
  interface_wf t = true -> known_commented_enum t = false -> parse_interface (render t) = Accept t.
Proof.
  intros Hw Hk. destruct (wf_strict t Hw) as [Hnl Hid].
  rewrite <- Hid at 2. now apply parse_render_normalise_wf.
Qed.
