(* The GetInterfaceDescription path (zlink-core/src/varlink_service/interface_description.rs):
   the service serialises the description as its Display string inside a JSON string
   (Description::Parsed => serializer.collect_str(interface), 107-118), the client deserialises the
   JSON string into a String (Description::Raw) and parses it lazily (parse, 24-33).

   Printer: `SerdeModel.ref_string` — the reference JSON string encoding that the C03 development
   proves equal to what json_ser.rs writes (Ser/SerdeProofs.v `equal`; the escape table is
   translated into gen/Escape.v on every run).
   Reader: serde_json's string parsing (read.rs parse_str / parse_escape): raw bytes >= 0x20 other
   than '"' and '\' are copied, the escapes \" \\ \/ \b \f \n \r \t and \uXXXX (with surrogate
   pairs; lone surrogates are errors) are decoded, the result must be valid UTF-8. *)
From Coq Require Import Ascii String.
From ZV Require Import Common.Base gen.IdlKeywords gen.Escape Ser.SerdeModel
  Idl.Idl Idl.IdlParse Idl.Utf8 Idl.IdlSafe Idl.IdlExec Idl.IdlRoundTrip Idl.IdlComplete Idl.IdlSound
  Idl.IdlNormal.
Local Open Scope N_scope.

Definition print_string (s : list byte) : list byte := ref_string s.

(* ------------------------------------------------------------------ the reader *)

Definition hexval (c : byte) : option N :=
  if (48 <=? c) && (c <=? 57) then Some (c - 48)
  else if (97 <=? c) && (c <=? 102) then Some (c - 87)
  else if (65 <=? c) && (c <=? 70) then Some (c - 55)
  else None.

Definition hex4 (a b c d : byte) : option N :=
  match hexval a, hexval b, hexval c, hexval d with
  | Some x, Some y, Some z, Some w => Some (((x * 16 + y) * 16 + z) * 16 + w)
  | _, _, _, _ => None
  end.

(* char::encode_utf8 *)
Definition enc_utf8 (c : N) : list byte :=
  if c <? 128 then [c]
  else if c <? 2048 then [192 + c / 64; 128 + c mod 64]
  else if c <? 65536 then [224 + c / 4096; 128 + (c / 64) mod 64; 128 + c mod 64]
  else [240 + c / 262144; 128 + (c / 4096) mod 64; 128 + (c / 64) mod 64; 128 + c mod 64].

(* after a backslash: the decoded bytes and the remaining input *)
Definition unescape (r : list byte) : option (list byte * list byte) :=
  match r with
  | [] => None
  | e :: r' =>
    if e =? 34 then Some ([34], r')
    else if e =? 92 then Some ([92], r')
    else if e =? 47 then Some ([47], r')
    else if e =? 98 then Some ([8], r')
    else if e =? 102 then Some ([12], r')
    else if e =? 110 then Some ([10], r')
    else if e =? 114 then Some ([13], r')
    else if e =? 116 then Some ([9], r')
    else if e =? 117 then
      match r' with
      | h1 :: h2 :: h3 :: h4 :: r2 =>
        match hex4 h1 h2 h3 h4 with
        | None => None
        | Some n =>
          if (55296 <=? n) && (n <=? 56319) then
            (* a leading surrogate must be followed by \uDC00..\uDFFF *)
            match r2 with
            | b1 :: b2 :: k1 :: k2 :: k3 :: k4 :: r3 =>
              if (b1 =? 92) && (b2 =? 117) then
                match hex4 k1 k2 k3 k4 with
                | Some m =>
                    if (56320 <=? m) && (m <=? 57343)
                    then Some (enc_utf8 (65536 + (n - 55296) * 1024 + (m - 56320)), r3)
                    else None
                | None => None
                end
              else None
            | _ => None
            end
          else if (56320 <=? n) && (n <=? 57343) then None      (* lone trailing surrogate *)
          else Some (enc_utf8 n, r2)
        end
      | _ => None
      end
    else None
  end.

(* the content up to the closing quote, and what follows it *)
Fixpoint read_body (fuel : nat) (l : list byte) : option (list byte * list byte) :=
  match fuel with
  | O => None
  | S fuel =>
    match l with
    | [] => None                                   (* EOF while parsing a string *)
    | c :: r =>
      if c =? 34 then Some ([], r)
      else if c =? 92 then
        match unescape r with
        | Some (d, r') =>
            match read_body fuel r' with Some (s, rest) => Some (d ++ s, rest) | None => None end
        | None => None
        end
      else if c <? 32 then None                    (* control character inside a string *)
      else match read_body fuel r with Some (s, rest) => Some (c :: s, rest) | None => None end
    end
  end.

(* a complete JSON string value *)
Definition read_string (l : list byte) : option (list byte) :=
  match l with
  | c :: r =>
    if c =? 34 then
      match read_body (S (length r)) r with
      | Some (s, []) => if utf8_valid s then Some s else None
      | _ => None
      end
    else None
  | [] => None
  end.

(* ------------------------------------------------------------------ read (print s) = s *)

Lemma ctl_bytes b : b < 32 -> In b (List.map N.of_nat (seq 0 32)).
Proof. intros H. rewrite <- (N2Nat.id b). apply in_map. apply in_seq. lia. Qed.

(* every control character is written as an escape that the reader decodes to that byte *)
Lemma unescape_ctl b tail : b < 32 ->
  exists e, rfc_escape b = 92 :: e /\ unescape (e ++ tail) = Some ([b], tail).
Proof.
  intros H. apply ctl_bytes in H. cbn in H.
  repeat (destruct H as [<-|H]; [eexists; split; reflexivity|]). destruct H.
Qed.

Lemma ref_byte_cases b :
  (needs_escape b = false /\ ref_byte b = [b] /\ (b =? 34) = false /\ (b =? 92) = false /\ (b <? 32) = false)
  \/ (b = 34 /\ ref_byte b = [92; 34]) \/ (b = 92 /\ ref_byte b = [92; 92])
  \/ (b < 32 /\ ref_byte b = rfc_escape b).
Proof.
  unfold ref_byte. destruct (needs_escape b) eqn:E.
  - apply needs_escape_spec in E. destruct E as [E|[E|E]].
    + right. right. right. auto.
    + right. left. subst. auto.
    + right. right. left. subst. auto.
  - left. split; [reflexivity|]. split; [reflexivity|]. unfold needs_escape in E.
    apply orb_false_iff in E. destruct E as [E E3]. apply orb_false_iff in E. destruct E as [E1 E2]. auto.
Qed.

Lemma read_body_print : forall s fuel rest,
  (length (flat_map ref_byte s ++ 34%N :: rest) < fuel)%nat ->
  read_body fuel (flat_map ref_byte s ++ 34 :: rest) = Some (s, rest).
Proof.
  induction s as [|b s IH]; intros fuel rest Hf; (destruct fuel as [|fuel]; [lia|]).
  - reflexivity.
  - cbn [flat_map] in *. rewrite <- app_assoc in *.
    destruct (ref_byte_cases b) as [(Hn & E & H34 & H92 & H32) | [[-> E] | [[-> E] | [Hlt E]]]]; rewrite E in *.
    + cbn [app read_body]. rewrite H34, H92, H32. rewrite IH; [reflexivity|]. cbn [app length] in Hf. lia.
    + cbn [app read_body]. cbn. rewrite IH; [reflexivity|]. cbn [app length] in Hf. lia.
    + cbn [app read_body]. cbn. rewrite IH; [reflexivity|]. cbn [app length] in Hf. lia.
    + destruct (unescape_ctl b (flat_map ref_byte s ++ 34 :: rest) Hlt) as (e & Ee & Hu).
      rewrite Ee in *. cbn [app read_body]. change (92 =? 34) with false. change (92 =? 92) with true. cbv iota.
      unfold byte in *. rewrite Hu. rewrite IH; [reflexivity|]. cbn [app length] in Hf. rewrite app_length in Hf. lia.
Qed.

Theorem read_print s : utf8_valid s = true -> read_string (print_string s) = Some s.
Proof.
  intros Hv. unfold print_string, ref_string, read_string. cbn [app]. change (34 =? 34) with true. cbv iota.
  change (flat_map ref_byte s ++ [34]) with (flat_map ref_byte s ++ 34 :: []).
  rewrite read_body_print by lia. now rewrite Hv.
Qed.

(* ------------------------------------------------------------------ the rendering is valid UTF-8 *)

Lemma valid_app_len : forall n a b, (length a <= n)%nat -> utf8_valid a = true ->
  utf8_valid (a ++ b) = utf8_valid b.
Proof.
  induction n as [|n IH]; intros a b Hl Hv.
  - destruct a; [reflexivity | cbn in Hl; lia].
  - destruct a as [|b0 a]; [reflexivity|]. cbn [length] in Hl. cbn [app]. cbn [utf8_valid] in Hv |- *.
    destruct (b0 <? 128); [apply IH; [lia | exact Hv]|].
    destruct ((194 <=? b0) && (b0 <=? 223)).
    { destruct a as [|b1 a]; [discriminate|]. cbn [app]. cbn [length] in Hl.
      apply andb_true_iff in Hv. destruct Hv as [Hc Hv]. rewrite Hc. cbn [andb]. apply IH; [lia | exact Hv]. }
    destruct ((224 <=? b0) && (b0 <=? 239)).
    { destruct a as [|b1 [|b2 a]]; try discriminate. cbn [app]. cbn [length] in Hl.
      apply andb_true_iff in Hv. destruct Hv as [Hc Hv]. rewrite Hc. cbn [andb]. apply IH; [lia | exact Hv]. }
    destruct ((240 <=? b0) && (b0 <=? 244)); [|discriminate].
    destruct a as [|b1 [|b2 [|b3 a]]]; try discriminate. cbn [app]. cbn [length] in Hl.
    apply andb_true_iff in Hv. destruct Hv as [Hc Hv]. rewrite Hc. cbn [andb]. apply IH; [lia | exact Hv].
Qed.

(* a block that can be dropped from the front without changing validity *)
Definition vpre (a : list byte) : Prop := forall r, utf8_valid (a ++ r) = utf8_valid r.

Lemma vpre_nil : vpre []. Proof. intros r. reflexivity. Qed.
Lemma vpre_app a b : vpre a -> vpre b -> vpre (a ++ b).
Proof. intros Ha Hb r. rewrite <- app_assoc. now rewrite Ha, Hb. Qed.
Lemma vpre_ascii a : Forall ascii a -> vpre a.
Proof. intros H r. now apply valid_app_ascii. Qed.
Lemma vpre_valid a : utf8_valid a = true -> vpre a.
Proof. intros H r. now apply (valid_app_len (length a)). Qed.
Lemma vpre_cons b a : b < 128 -> vpre a -> vpre (b :: a).
Proof. intros Hb Ha r. cbn [app]. rewrite valid_cons_ascii by exact Hb. apply Ha. Qed.
Lemma vpre_flat_map {X} (f : X -> list byte) l : (forall x, In x l -> vpre (f x)) -> vpre (flat_map f l).
Proof.
  induction l as [|x l IH]; intros H; [apply vpre_nil|]. cbn [flat_map].
  apply vpre_app; [apply H; left; reflexivity | apply IH; intros y Hy; apply H; right; exact Hy].
Qed.
Lemma vpre_join sep (l : list (list byte)) : vpre sep -> (forall x, In x l -> vpre x) -> vpre (join sep l).
Proof.
  intros Hs H. destruct l as [|x l]; [apply vpre_nil|]. cbn [join].
  apply vpre_app; [apply H; left; reflexivity|]. apply vpre_flat_map. intros y Hy.
  apply vpre_app; [exact Hs | apply H; right; exact Hy].
Qed.
Lemma vpre_bs s : forallb (fun b => b <? 128) (bs s) = true -> vpre (bs s).
Proof.
  intros H. apply vpre_ascii. apply Forall_forall. intros x Hx. rewrite forallb_forall in H.
  apply N.ltb_lt. now apply H.
Qed.
Ltac vbs := apply vpre_bs; reflexivity.

Lemma wordc_ascii c : is_wordc c = true -> c < 128.
Proof.
  unfold is_wordc. intros H. apply orb_true_iff in H. destruct H as [H|H]; [|nb; subst; reflexivity].
  apply orb_true_iff in H. destruct H as [H|H]; [|nb; subst; reflexivity].
  apply orb_true_iff in H. destruct H as [H|H]; [now apply is_alnum_ascii | nb; subst; reflexivity].
Qed.

Lemma vpre_word n :
  (exists b w, n = b :: w /\ is_alpha b = true /\ Forall (fun c => is_wordc c = true) w) -> vpre n.
Proof.
  intros (b & w & -> & Hb & Hw). apply vpre_ascii. constructor; [now apply is_alpha_ascii|].
  eapply Forall_impl; [|exact Hw]. intros c Hc. now apply wordc_ascii.
Qed.
Lemma vpre_field_name n : field_name_ok n = true -> vpre n.
Proof. intros H. now apply vpre_word, field_name_ok_word. Qed.
Lemma vpre_type_name n : type_name_ok n = true -> vpre n.
Proof. intros H. now apply vpre_word, type_name_ok_word. Qed.
Lemma vpre_interface_name n : interface_name_ok n = true -> vpre n.
Proof. intros H. now apply vpre_word, interface_name_ok_word. Qed.

Lemma vpre_render_prim p : vpre (render_prim p).
Proof. destruct p; apply vpre_ascii; repeat constructor. Qed.

Lemma vpre_comment c : comment_nl c = true -> vpre c.
Proof. unfold comment_nl. intros H. apply andb_true_iff in H. destruct H as [H _]. now apply vpre_valid. Qed.

Lemma vpre_render_comments cs : comments_nl cs = true -> vpre (render_comments cs).
Proof.
  intros H. unfold render_comments. apply vpre_flat_map. intros c Hc. unfold comments_nl in H.
  rewrite forallb_forall in H. unfold render_comment, NL.
  apply vpre_app; [apply vpre_app; [vbs | now apply vpre_comment, H]|]. apply vpre_ascii. repeat constructor.
Qed.

Lemma vpre_render_variant v : variant_nl v = true -> vpre (render_variant v).
Proof.
  unfold variant_nl. intros H. apply andb_true_iff in H. destruct H as [Hn Hc]. unfold render_variant.
  apply vpre_app; [now apply vpre_render_comments | now apply vpre_field_name].
Qed.

Lemma vpre_enum_body vs : forallb variant_nl vs = true -> vpre (render_enum_body vs).
Proof.
  intros H. rewrite forallb_forall in H. unfold render_enum_body. destruct (existsb has_comments vs).
  - apply vpre_app; [vbs|]. apply vpre_app; [apply vpre_ascii; repeat constructor|].
    apply vpre_app; [|vbs]. apply vpre_flat_map. intros v Hv. specialize (H v Hv).
    unfold variant_nl in H. apply andb_true_iff in H. destruct H as [Hn Hc].
    apply vpre_app.
    + apply vpre_flat_map. intros c Hcc. unfold comments_nl in Hc. rewrite forallb_forall in Hc.
      unfold render_comment, NL. apply vpre_app; [apply vpre_ascii; repeat constructor|].
      apply vpre_app; [apply vpre_app; [vbs | now apply vpre_comment, Hc]|]. apply vpre_ascii. repeat constructor.
    + apply vpre_app; [apply vpre_ascii; repeat constructor|].
      apply vpre_app; [now apply vpre_field_name | apply vpre_ascii; repeat constructor].
  - apply vpre_app; [vbs|]. apply vpre_app; [|vbs]. apply vpre_join; [vbs|].
    intros x Hx. apply in_map_iff in Hx. destruct Hx as (v & <- & Hv). now apply vpre_render_variant, H.
Qed.

Lemma vpre_render_ty : forall t, tywf t = true -> vpre (render_ty t).
Proof.
  induction t as [p | t IH | t IH | t IH | n | vs | fs IH] using ty_ind2; intros Hw; cbn [render_ty].
  - apply vpre_render_prim.
  - unfold tywf in Hw. cbn [ty_names_ok ty_wf] in Hw. apply andb_true_iff in Hw. destruct Hw as [Hn Hw].
    apply vpre_app; [apply vpre_ascii; repeat constructor|]. apply IH. unfold tywf. rewrite Hn.
    destruct t; try discriminate; auto.
  - apply vpre_app; [apply vpre_ascii; repeat constructor | now apply IH].
  - apply vpre_app; [apply vpre_ascii; repeat constructor | now apply IH].
  - unfold tywf in Hw. cbn in Hw. apply andb_true_iff in Hw. destruct Hw as [Hn _]. now apply vpre_type_name.
  - destruct (tywf_enum vs Hw) as (_ & Hnc & Hnames). apply vpre_enum_body.
    apply forallb_forall. intros v Hv. unfold variant_nl.
    rewrite forallb_map_eq in Hnames. rewrite forallb_forall in Hnames, Hnc.
    rewrite (Hnames v Hv). specialize (Hnc v Hv). apply negb_true_iff in Hnc. unfold has_comments in Hnc.
    destruct (vcomments v); [reflexivity | discriminate].
  - pose proof (tywf_struct fs Hw) as Hfs. apply vpre_app; [vbs|]. apply vpre_app; [|vbs].
    apply vpre_join; [vbs|]. intros x Hx. apply in_map_iff in Hx. destruct Hx as (f & <- & Hf).
    rewrite Forall_forall in IH, Hfs. destruct (Hfs f Hf) as (H1 & H2 & H3).
    unfold render_field_with. rewrite H2. cbn [render_comments flat_map app].
    apply vpre_app; [now apply vpre_field_name|]. apply vpre_app; [vbs | now apply (IH f Hf)].
Qed.

Lemma vpre_render_field f : dfield_nl f = true -> vpre (render_field f).
Proof.
  unfold dfield_nl, field_names_ok, field_wf_nl. intros H.
  apply andb_true_iff in H. destruct H as [H1 H2]. apply andb_true_iff in H1. destruct H1 as [Hn Htn].
  apply andb_true_iff in H2. destruct H2 as [Hc Htw]. rewrite render_field_eq.
  apply vpre_app; [now apply vpre_render_comments|]. apply vpre_app; [now apply vpre_field_name|].
  apply vpre_app; [vbs|]. apply vpre_render_ty. unfold tywf. now rewrite Htn, Htw.
Qed.

Lemma vpre_render_fields fs : forallb dfield_nl fs = true -> vpre (render_fields fs).
Proof.
  intros H. unfold render_fields. apply vpre_join; [vbs|]. intros x Hx. apply in_map_iff in Hx.
  destruct Hx as (f & <- & Hf). rewrite forallb_forall in H. now apply vpre_render_field, H.
Qed.

Lemma vpre_render_member m : member_nl m = true -> vpre (render_member m).
Proof.
  destruct m as [[n fs cs | n vs cs] | m | e]; cbn [member_nl custom_nl render_member render_custom]; intros H.
  - apply andb_true_iff in H. destruct H as [H Hfs]. apply andb_true_iff in H. destruct H as [Hn Hc].
    unfold render_object.
    repeat (apply vpre_app; [first [vbs | now apply vpre_render_comments | now apply vpre_type_name
                                    | now apply vpre_render_fields]|]). vbs.
  - apply andb_true_iff in H. destruct H as [H _]. apply andb_true_iff in H. destruct H as [H Hvs].
    apply andb_true_iff in H. destruct H as [Hn Hc]. unfold render_cenum.
    repeat (apply vpre_app; [first [vbs | now apply vpre_render_comments | now apply vpre_type_name]|]).
    now apply vpre_enum_body.
  - unfold method_nl in H. apply andb_true_iff in H. destruct H as [H Houts].
    apply andb_true_iff in H. destruct H as [H Hins]. apply andb_true_iff in H. destruct H as [Hn Hc].
    unfold render_method.
    repeat (apply vpre_app; [first [vbs | now apply vpre_render_comments | now apply vpre_type_name
                                    | now apply vpre_render_fields]|]). vbs.
  - unfold error_nl in H. apply andb_true_iff in H. destruct H as [H Hfs].
    apply andb_true_iff in H. destruct H as [Hn Hc]. unfold render_error.
    repeat (apply vpre_app; [first [vbs | now apply vpre_render_comments | now apply vpre_type_name
                                    | now apply vpre_render_fields]|]). vbs.
Qed.

Theorem render_valid t : iface_nl t = true -> utf8_valid (render t) = true.
Proof.
  intros Hok. pose proof (members_nl t Hok) as Hms. unfold iface_nl in Hok.
  apply andb_true_iff in Hok. destruct Hok as [Hok _]. apply andb_true_iff in Hok. destruct Hok as [Hok _].
  apply andb_true_iff in Hok. destruct Hok as [Hok _]. apply andb_true_iff in Hok. destruct Hok as [Hn Hc].
  assert (Hv : vpre (render t)).
  { rewrite render_members. apply vpre_app; [now apply vpre_render_comments|].
    apply vpre_app; [vbs|]. apply vpre_app; [now apply vpre_interface_name|].
    unfold members_text. apply vpre_flat_map. intros m Hm. rewrite forallb_forall in Hms. unfold NL.
    apply vpre_app; [apply vpre_ascii; repeat constructor|].
    apply vpre_app; [apply vpre_ascii; repeat constructor | now apply vpre_render_member, Hms]. }
  specialize (Hv []). rewrite app_nil_r in Hv. exact Hv.
Qed.

(* ------------------------------------------------------------------ the description round trip *)

(* what the client gets from the JSON string the service wrote *)
Definition description_roundtrip (t : interface) : outcome :=
  match read_string (print_string (render t)) with
  | Some s => parse_interface s
  | None => Reject
  end.

Theorem description_roundtrip_normalise t :
  interface_wf_nl t = true -> known_commented_enum t = false ->
  read_string (print_string (render t)) = Some (render t)
  /\ description_roundtrip t = Accept (normalise t).
Proof.
  intros Hw Hk. pose proof (wf_nl_iface t Hw Hk) as Hok.
  assert (E : read_string (print_string (render t)) = Some (render t)) by (apply read_print; now apply render_valid).
  split; [exact E|]. unfold description_roundtrip. rewrite E. now apply parse_render_normalise.
Qed.

Corollary description_roundtrip_id t :
  interface_wf t = true -> known_commented_enum t = false -> description_roundtrip t = Accept t.
Proof.
  intros Hw Hk. destruct (wf_strict t Hw) as [Hnl Hid].
  rewrite <- Hid at 2. now apply description_roundtrip_normalise.
Qed.
