(* Round trip: parsing the rendering of a description gives the description back
   (per-nonterminal lemmas on the canonical layout, then C14_parse_render). *)
From Coq Require Import Ascii String.
From ZV Require Import Common.Base gen.IdlKeywords Idl.Idl Idl.IdlParse Idl.Utf8 Idl.IdlSafe Idl.IdlExec.
Local Open Scope N_scope.

(* normalise closed string constants to byte lists *)
Ltac bsnorm :=
  repeat match goal with
         | |- context [bs ?s] => let v := eval vm_compute in (bs s) in change (bs s) with v
         end.
Ltac bsnorm_in H :=
  repeat match type of H with
         | context [bs ?s] => let v := eval vm_compute in (bs s) in change (bs s) with v in H
         end.

(* list-length arithmetic (byte and N are the same type; make that syntactic first) *)
Ltac lens := unfold byte in *; do 4 (repeat rewrite app_length in *; cbn [length] in *); lia.

(* the next byte, if any, does not satisfy P *)
Definition nhd (P : byte -> bool) (r : list byte) : Prop :=
  match r with b :: _ => P b = false | [] => True end.

Definition is_ms_or_hash (b : byte) : bool := is_ms b || (b =? 35).
Definition is_name_cont (b : byte) : bool := is_alnum b || (b =? 95).

Definition startok := nhd is_ms_or_hash.     (* ws / whitespace_only / comments stop here *)
Definition nfollow := nhd is_name_cont.      (* a field name ends here *)
Definition tfollow := nhd is_alnum.          (* a type name ends here *)

(* ------------------------------------------------------------------ monad equations *)

Lemma bind_ok {A B} (p : parser A) (f : A -> parser B) i a i' :
  p i = (Ok a, i') -> bind p f i = f a i'.
Proof. intros H. unfold bind. now rewrite H. Qed.

Lemma bind_back {A B} (p : parser A) (f : A -> parser B) i i' :
  p i = (Back, i') -> bind p f i = (Back, i').
Proof. intros H. unfold bind. now rewrite H. Qed.

Lemma alt2_ok {A} (p q : parser A) i a i' : p i = (Ok a, i') -> alt2 p q i = (Ok a, i').
Proof. intros H. unfold alt2. now rewrite H. Qed.

Lemma alt2_back {A} (p q : parser A) i i' : p i = (Back, i') -> alt2 p q i = q i.
Proof. intros H. unfold alt2. now rewrite H. Qed.

Lemma pmap_ok {A B} (f : A -> B) (p : parser A) i a i' : p i = (Ok a, i') -> pmap f p i = (Ok (f a), i').
Proof. intros H. unfold pmap. erewrite bind_ok by exact H. reflexivity. Qed.

Lemma pmap_back {A B} (f : A -> B) (p : parser A) i i' : p i = (Back, i') -> pmap f p i = (Back, i').
Proof. intros H. unfold pmap. now apply bind_back. Qed.

(* one step of symbolic execution: the first parser of a bind succeeds, as shown by t *)
Tactic Notation "step" tactic3(t) := (erewrite bind_ok; [ | solve [t] ]); cbv beta iota.
Tactic Notation "stepback" tactic3(t) := (erewrite bind_back; [ | solve [t] ]); cbv beta.

(* ------------------------------------------------------------------ literals *)

Lemma strip_prefix_self p r : strip_prefix p (p ++ r) = Some r.
Proof. induction p as [|a p IH]; cbn; [reflexivity|]. now rewrite N.eqb_refl. Qed.

Lemma literal_app p r : literal p (p ++ r) = (Ok tt, r).
Proof. unfold literal. now rewrite strip_prefix_self. Qed.

Lemma try_literal_app p r : try_literal p (p ++ r) = (Ok true, r).
Proof. unfold try_literal. now rewrite strip_prefix_self. Qed.

(* first byte differs *)
Lemma literal_hd_fail a p b r : (a =? b) = false -> literal (a :: p) (b :: r) = (Back, b :: r).
Proof. intros H. unfold literal. cbn. now rewrite H. Qed.

Lemma try_literal_hd_fail a p b r : (a =? b) = false -> try_literal (a :: p) (b :: r) = (Ok false, b :: r).
Proof. intros H. unfold try_literal. cbn. now rewrite H. Qed.

Lemma try_literal_nhd a p i : match i with b :: _ => (a =? b) = false | [] => True end ->
  try_literal (a :: p) i = (Ok false, i).
Proof. destruct i as [|b r]; [reflexivity|]. apply try_literal_hd_fail. Qed.

Lemma literal_nil_fail a p : literal (a :: p) [] = (Back, []).
Proof. reflexivity. Qed.

(* ------------------------------------------------------------------ blanks *)

Lemma span_all f a r : Forall (fun c => f c = true) a -> nhd f r -> span f (a ++ r) = (a, r).
Proof.
  induction 1 as [|c a Hc Ha IH]; cbn; intros Hr.
  - destruct r as [|b r]; cbn in *; [reflexivity|]. now rewrite Hr.
  - rewrite Hc, IH; auto.
Qed.

Lemma span_none f r : nhd f r -> span f r = ([], r).
Proof. intros H. apply (span_all f [] r); [constructor | exact H]. Qed.

Lemma take_while0_all f a r :
  Forall (fun c => f c = true) a -> nhd f r -> take_while0 f (a ++ r) = (Ok a, r).
Proof. intros. unfold take_while0. now rewrite span_all. Qed.

Lemma take_while1_all f a r :
  a <> [] -> Forall (fun c => f c = true) a -> nhd f r -> take_while1 f (a ++ r) = (Ok a, r).
Proof. intros Hne Ha Hr. unfold take_while1. rewrite span_all; auto. destruct a; [congruence | reflexivity]. Qed.

Definition blanks (g : list byte) : Prop := Forall (fun c => is_ms c = true) g.

Lemma startok_ms r : startok r -> nhd is_ms r.
Proof.
  destruct r as [|b r]; cbn; [auto|]. unfold is_ms_or_hash. intros H. apply orb_false_iff in H. tauto.
Qed.

Lemma skip_ms_blanks g r : blanks g -> nhd is_ms r -> skip_ms (g ++ r) = r.
Proof. intros Hg Hr. unfold skip_ms. now rewrite span_all. Qed.

Lemma skip_ms_none r : nhd is_ms r -> skip_ms r = r.
Proof. intros Hr. apply (skip_ms_blanks [] r); [constructor | exact Hr]. Qed.

Lemma whitespace_only_blanks g r : blanks g -> nhd is_ms r -> whitespace_only (g ++ r) = (Ok tt, r).
Proof. intros. unfold whitespace_only. now rewrite skip_ms_blanks. Qed.

Lemma whitespace_only_none r : nhd is_ms r -> whitespace_only r = (Ok tt, r).
Proof. intros. unfold whitespace_only. now rewrite skip_ms_none. Qed.

Lemma ws_loop_stop fuel r : startok r -> ws_loop (S fuel) r = (Ok tt, r).
Proof.
  intros H. cbn [ws_loop]. rewrite skip_ms_none by now apply startok_ms.
  destruct r as [|b r]; [reflexivity|].
  cbn in H. unfold is_ms_or_hash in H. apply orb_false_iff in H. destruct H as [_ H]. rewrite H.
  now rewrite Nat.eqb_refl.
Qed.

Lemma ws_none r : startok r -> ws r = (Ok tt, r).
Proof. intros H. unfold ws. now apply ws_loop_stop. Qed.

Lemma ws_blanks g r : blanks g -> startok r -> ws (g ++ r) = (Ok tt, r).
Proof.
  intros Hg Hr. destruct g as [|c g]; [now apply ws_none|].
  unfold ws. cbn [ws_loop]. rewrite skip_ms_blanks; auto using startok_ms.
  assert (E : (match r with b :: r0 => if b =? 35 then skip_line r0 else r | [] => r end) = r).
  { destruct r as [|b r]; [reflexivity|]. cbn in Hr. unfold is_ms_or_hash in Hr.
    apply orb_false_iff in Hr. destruct Hr as [_ Hr]. now rewrite Hr. }
  rewrite E.
  destruct (Nat.eqb (length r) (length ((c :: g) ++ r))) eqn:El.
  { apply Nat.eqb_eq in El. rewrite app_length in El. cbn in El. lia. }
  destruct (length ((c :: g) ++ r)) eqn:En; [cbn in En; lia|].
  now apply ws_loop_stop.
Qed.

(* ------------------------------------------------------------------ names *)

Lemma valid_alnum_list l : forallb is_alnum l = true -> Forall ascii l.
Proof.
  intros H. apply Forall_forall. intros x Hx. rewrite forallb_forall in H.
  apply is_alnum_ascii. now apply H.
Qed.

Lemma type_name_app n r : type_name_ok n = true -> tfollow r -> type_name (n ++ r) = (Ok n, r).
Proof.
  destruct n as [|b n]; cbn; [discriminate|]. intros H Hr. apply andb_true_iff in H. destruct H as [Hb Hn].
  rewrite Hb. rewrite span_all; auto.
  - unfold bytes_to_str. rewrite valid_ascii; [reflexivity|].
    constructor; [now apply is_upper_ascii | now apply valid_alnum_list].
  - apply Forall_forall. intros x Hx. rewrite forallb_forall in Hn. now apply Hn.
Qed.

Lemma type_name_fail b r : is_upper b = false -> type_name (b :: r) = (Back, b :: r).
Proof. intros H. cbn. now rewrite H. Qed.

(* field_tail consumes exactly a legal tail *)
Lemma field_tail_app : forall k n r, (length n <= k)%nat ->
  field_tail_ok n = true -> nfollow r -> field_tail (n ++ r) = (n, r) /\ Forall ascii n.
Proof.
  induction k as [|k IH]; intros n r Hk Hn Hr.
  - destruct n; [|cbn in Hk; lia]. cbn [app]. split; [|constructor].
    destruct r as [|b r]; [reflexivity|]. cbn in Hr |- *. unfold is_name_cont in Hr.
    apply orb_false_iff in Hr. destruct Hr as [H1 H2]. rewrite H1, H2. reflexivity.
  - destruct n as [|b n].
    { cbn [app]. split; [|constructor].
      destruct r as [|c r]; [reflexivity|]. cbn in Hr |- *. unfold is_name_cont in Hr.
      apply orb_false_iff in Hr. destruct Hr as [H1 H2]. rewrite H1, H2. reflexivity. }
    cbn [length] in Hk. cbn [field_tail_ok] in Hn. cbn [app field_tail].
    destruct (is_alnum b) eqn:Eb.
    + destruct (IH n r ltac:(lia) Hn Hr) as [E Ha]. rewrite E. split; [reflexivity|].
      constructor; [now apply is_alnum_ascii | exact Ha].
    + destruct (b =? 95) eqn:E95; [|discriminate].
      destruct n as [|c n]; [discriminate|]. apply andb_true_iff in Hn. destruct Hn as [Hc Hn].
      cbn [app]. rewrite Hc. cbn [length] in Hk.
      destruct (IH n r ltac:(lia) Hn Hr) as [E Ha]. rewrite E. split; [reflexivity|].
      nb. subst b. constructor; [reflexivity|]. constructor; [now apply is_alnum_ascii | exact Ha].
Qed.

Lemma field_name_app n r : field_name_ok n = true -> nfollow r -> field_name (n ++ r) = (Ok n, r).
Proof.
  destruct n as [|b n]; cbn [field_name_ok]; [discriminate|]. intros H Hr.
  apply andb_true_iff in H. destruct H as [Hb Hn]. cbn [app field_name]. rewrite Hb.
  destruct (field_tail_app (length n) n r (le_n _) Hn Hr) as [E Ha]. rewrite E.
  unfold bytes_to_str. rewrite valid_ascii; [reflexivity|]. constructor; [now apply is_alpha_ascii | exact Ha].
Qed.

Lemma field_name_fail b r : is_alpha b = false -> field_name (b :: r) = (Back, b :: r).
Proof. intros H. cbn. now rewrite H. Qed.

Lemma field_name_ok_hd n : field_name_ok n = true -> exists b n', n = b :: n' /\ is_alpha b = true.
Proof.
  destruct n as [|b n]; cbn; [discriminate|]. intros H. apply andb_true_iff in H. destruct H. eauto.
Qed.

Lemma type_name_ok_hd n : type_name_ok n = true -> exists b n', n = b :: n' /\ is_upper b = true.
Proof.
  destruct n as [|b n]; cbn; [discriminate|]. intros H. apply andb_true_iff in H. destruct H. eauto.
Qed.

(* ------------------------------------------------------------------ comments *)

(* a comment line as rendered: "# " text LF, followed by blanks g *)
Lemma comment_def_line c r :
  comment_ok c = true -> comment_def (bs "# " ++ c ++ 10 :: r) = (Ok c, 10 :: r).
Proof.
  intros Hc. unfold comment_ok in Hc. apply andb_true_iff in Hc. destruct Hc as [Hc Hlead].
  apply andb_true_iff in Hc. destruct Hc as [Hval Hnl]. apply negb_true_iff in Hnl.
  assert (Hsp : skip_sp_tab (32 :: c ++ 10 :: r) = (Ok tt, c ++ 10 :: r)).
  { unfold skip_sp_tab. cbn. destruct c as [|b c]; cbn; [reflexivity|]. apply negb_true_iff in Hlead. now rewrite Hlead. }
  assert (Hline1 : Forall (fun x : byte => negb (x =? 10) && negb (x =? 13) = true) c).
  { apply Forall_forall. intros x Hx.
    destruct (negb (x =? 10) && negb (x =? 13)) eqn:E; [reflexivity|].
    exfalso. assert (Hex : existsb (fun b => (b =? 10) || (b =? 13)) c = true).
    { apply existsb_exists. exists x. split; [exact Hx|].
      apply andb_false_iff in E. destruct E as [E|E]; apply negb_false_iff in E; rewrite E;
        [reflexivity | apply orb_true_r]. }
    congruence. }
  unfold comment_def. bsnorm. cbn [app].
  step (apply (literal_app [35])).
  step (exact Hsp).
  step (apply take_while0_all; [exact Hline1 | reflexivity]).
  unfold bytes_to_str. now rewrite Hval.
Qed.

(* comment lines each followed by LF and then blanks g *)
Definition comment_block (g : list byte) (cs : list comment) : list byte :=
  flat_map (fun c => bs "# " ++ c ++ 10 :: g) cs.

Lemma comment_block_cons g c cs r :
  comment_block g (c :: cs) ++ r = bs "# " ++ c ++ 10 :: g ++ comment_block g cs ++ r.
Proof.
  unfold comment_block. cbn [flat_map]. rewrite <- !app_assoc. cbn [app]. reflexivity.
Qed.

Lemma ppc_loop_block : forall cs fuel g r,
  forallb comment_ok cs = true -> blanks g -> startok r ->
  (length (comment_block g cs ++ r) < fuel)%nat ->
  ppc_loop fuel (comment_block g cs ++ r) = (Ok cs, r).
Proof.
  induction cs as [|c cs IH]; intros fuel g r Hcs Hg Hr Hf.
  - cbn [comment_block flat_map app] in *. destruct fuel as [|fuel]; [lia|].
    cbn [ppc_loop]. destruct r as [|b r]; [reflexivity|].
    rewrite skip_ms_none by now apply startok_ms.
    assert (Hb : (35 =? b) = false).
    { cbn in Hr. unfold is_ms_or_hash in Hr. apply orb_false_iff in Hr. destruct Hr as [_ Hr].
      rewrite N.eqb_sym. exact Hr. }
    unfold comment_def. erewrite bind_back by (bsnorm; apply literal_hd_fail; exact Hb). reflexivity.
  - cbn [forallb] in Hcs. apply andb_true_iff in Hcs. destruct Hcs as [Hc Hcs].
    destruct fuel as [|fuel]; [lia|].
    rewrite comment_block_cons in Hf |- *.
    set (tail := comment_block g cs ++ r) in *.
    assert (Htail : nhd is_ms tail).
    { subst tail. destruct cs as [|c' cs']; [now apply startok_ms|]. rewrite comment_block_cons. reflexivity. }
    bsnorm. cbn [app ppc_loop].
    rewrite skip_ms_none by reflexivity. cbv iota.
    change (35 :: 32 :: c ++ 10 :: g ++ tail) with (bs "# " ++ c ++ 10 :: (g ++ tail)).
    rewrite comment_def_line by exact Hc.
    change (10 :: g ++ tail) with ((10 :: g) ++ tail).
    rewrite skip_ms_blanks; [|constructor; [reflexivity | exact Hg] | exact Htail].
    subst tail. rewrite (IH fuel g r Hcs Hg Hr); [reflexivity|].
    rewrite !app_length in *. cbn [length] in *. rewrite !app_length in Hf. lia.
Qed.

Lemma ppc_block g cs r :
  forallb comment_ok cs = true -> blanks g -> startok r ->
  parse_preceding_comments (comment_block g cs ++ r) = (Ok cs, r).
Proof. intros. unfold parse_preceding_comments. apply ppc_loop_block; auto. Qed.

Lemma render_comments_block cs : render_comments cs = comment_block [] cs.
Proof.
  unfold render_comments, comment_block, render_comment, NL. induction cs as [|c cs IH]; cbn [flat_map]; [reflexivity|].
  rewrite IH. now rewrite <- !app_assoc.
Qed.

Lemma ppc_render cs r :
  forallb comment_ok cs = true -> startok r ->
  parse_preceding_comments (render_comments cs ++ r) = (Ok cs, r).
Proof. intros. rewrite render_comments_block. apply ppc_block; auto. constructor. Qed.

Lemma ppc_nil r : startok r -> parse_preceding_comments r = (Ok [], r).
Proof. intros H. apply (ppc_render [] r); auto. Qed.

(* ------------------------------------------------------------------ follow sets *)

(* the rest starts with ',' or ')' *)
Definition delim (x : list byte) : Prop :=
  match x with b :: _ => b = 44 \/ b = 41 | [] => False end.

Lemma delim_startok x : delim x -> startok x.
Proof. destruct x as [|b x]; cbn; [tauto|]. intros [H|H]; subst; reflexivity. Qed.
Lemma delim_nfollow x : delim x -> nfollow x.
Proof. destruct x as [|b x]; cbn; [tauto|]. intros [H|H]; subst; reflexivity. Qed.
Lemma delim_tfollow x : delim x -> tfollow x.
Proof. destruct x as [|b x]; cbn; [tauto|]. intros [H|H]; subst; reflexivity. Qed.
Lemma delim_comma x : delim (44 :: x). Proof. cbn. auto. Qed.
Lemma delim_rparen x : delim (41 :: x). Proof. cbn. auto. Qed.

Lemma alpha_startok b x : is_alpha b = true -> startok (b :: x).
Proof.
  intros H. cbn. unfold is_ms_or_hash, is_ms. unfold is_alpha, is_upper, is_lower in H.
  apply orb_true_iff in H. destruct H as [H|H]; nb;
    repeat (apply orb_false_iff; split); apply N.eqb_neq; lia.
Qed.

Lemma upper_alpha b : is_upper b = true -> is_alpha b = true.
Proof. intros H. unfold is_alpha. now rewrite H. Qed.

Lemma neq_of_class (P : byte -> bool) a b : P a = true -> P b = false -> (a =? b) = false.
Proof. intros Ha Hb. apply N.eqb_neq. intros E. subst. congruence. Qed.

(* ------------------------------------------------------------------ primitive_type *)

Lemma prim_alt_fail : forall kws b r,
  Forall (fun kc : list byte * N => match fst kc with a :: _ => (a =? b) = false | [] => False end) kws ->
  prim_alt kws (b :: r) = (Back, b :: r).
Proof.
  induction kws as [|[k c] kws IH]; intros b r H; cbn [prim_alt]; [reflexivity|].
  inversion H as [|? ? H1 H2]; subst. cbn in H1. destruct k as [|a k]; [tauto|].
  assert (E : pmap (fun _ : unit => prim_of_code c) (literal (a :: k)) (b :: r) = (Back, b :: r))
    by (apply pmap_back, literal_hd_fail; exact H1).
  destruct kws as [|kc kws']; [exact E|]. rewrite (alt2_back _ _ _ _ E). now apply IH.
Qed.

Lemma kw_prims_lower :
  Forall (fun kc : list byte * N => match fst kc with a :: _ => is_lower a = true | [] => False end) kw_prims.
Proof. repeat constructor. Qed.

Lemma primitive_type_fail b r : is_lower b = false -> primitive_type (b :: r) = (Back, b :: r).
Proof.
  intros Hb. unfold primitive_type. apply pmap_back. apply prim_alt_fail.
  eapply Forall_impl; [|apply kw_prims_lower]. intros [k c]. cbn. destruct k as [|a k]; [tauto|].
  intros Ha. now apply (neq_of_class is_lower).
Qed.

Lemma primitive_type_render p r : primitive_type (render_prim p ++ r) = (Ok (TPrim p), r).
Proof. destruct p; reflexivity. Qed.

Lemma render_prim_hd p : exists b l, render_prim p = b :: l /\ is_lower b = true.
Proof. destruct p; eexists; eexists; split; reflexivity. Qed.

(* ------------------------------------------------------------------ the type parsers *)

Definition V (fuel : nat) : parser ty := varlink_type_f fuel.

Lemma V_S fuel i : V (S fuel) i = alt2 (optional_type (V fuel)) (non_optional_type (V fuel)) i.
Proof. reflexivity. Qed.

Lemma optional_fail vt b r : (63 =? b) = false -> optional_type vt (b :: r) = (Back, b :: r).
Proof. intros H. unfold optional_type. apply bind_back. now apply literal_hd_fail. Qed.

Lemma V_nonopt fuel b r : (63 =? b) = false -> V (S fuel) (b :: r) = non_optional_type (V fuel) (b :: r).
Proof. intros H. rewrite V_S. eapply alt2_back. now apply optional_fail. Qed.

Lemma array_fail vt b r : (91 =? b) = false -> array_type vt (b :: r) = (Back, b :: r).
Proof. intros H. unfold array_type. apply bind_back. now apply literal_hd_fail. Qed.
Lemma map_fail vt b r : (91 =? b) = false -> map_type vt (b :: r) = (Back, b :: r).
Proof. intros H. unfold map_type. apply bind_back. now apply literal_hd_fail. Qed.

(* on an input that starts neither with '[' : non_optional_type is element_type *)
Lemma nonopt_element vt b r : (91 =? b) = false ->
  non_optional_type vt (b :: r) = element_type vt (b :: r).
Proof.
  intros H. unfold non_optional_type.
  rewrite (alt2_back _ _ _ _ (array_fail vt b r H)). now rewrite (alt2_back _ _ _ _ (map_fail vt b r H)).
Qed.

Definition is_topt (t : ty) : bool := match t with TOpt _ => true | _ => false end.
Definition tywf (t : ty) : bool := ty_names_ok t && ty_wf t.

(* the first byte of a rendered well-formed type *)
Definition type_start (b : byte) : bool :=
  is_alpha b || (b =? 63) || (b =? 91) || (b =? 40).

Lemma type_start_startok b x : type_start b = true -> startok (b :: x).
Proof.
  unfold type_start. intros H.
  apply orb_true_iff in H. destruct H as [H|H]; [|nb; subst; reflexivity].
  apply orb_true_iff in H. destruct H as [H|H]; [|nb; subst; reflexivity].
  apply orb_true_iff in H. destruct H as [H|H]; [|nb; subst; reflexivity].
  now apply alpha_startok.
Qed.

Lemma lower_alpha b : is_lower b = true -> is_alpha b = true.
Proof. intros H. unfold is_alpha. rewrite H. apply orb_true_r. Qed.

Lemma render_ty_hd t x : tywf t = true -> exists b l, render_ty t ++ x = b :: l /\ type_start b = true.
Proof.
  unfold tywf. intros H. apply andb_true_iff in H. destruct H as [Hn Hw].
  destruct t; cbn [render_ty].
  - destruct (render_prim_hd p) as (b & l & E & Hb). rewrite E. exists b, (l ++ x). split; [reflexivity|].
    unfold type_start. now rewrite (lower_alpha b Hb).
  - eexists; eexists; split; reflexivity.
  - eexists; eexists; split; reflexivity.
  - eexists; eexists; split; reflexivity.
  - cbn in Hn. destruct (type_name_ok_hd n Hn) as (b & l & E & Hb). subst n.
    exists b, (l ++ x). split; [reflexivity|]. unfold type_start. now rewrite (upper_alpha b Hb).
  - unfold render_enum_body. destruct (existsb has_comments vs); eexists; eexists; split; reflexivity.
  - eexists; eexists; split; reflexivity.
Qed.

Lemma render_ty_startok t x : tywf t = true -> startok (render_ty t ++ x).
Proof.
  intros H. destruct (render_ty_hd t x H) as (b & l & E & Hb). rewrite E. now apply type_start_startok.
Qed.

(* ---- inline enum: names separated by ", " *)

Definition names_tail (ns : list name) : list byte := flat_map (fun n => bs ", " ++ n) ns.

Lemma comma_sep_comma_sp x : startok x -> comma_sep (bs ", " ++ x) = (Ok tt, x).
Proof.
  intros Hx. unfold comma_sep. bsnorm. cbn [app].
  step (apply ws_none; reflexivity).
  step (apply (literal_app [44])).
  apply (ws_blanks [32]); [repeat constructor | exact Hx].
Qed.

Lemma comma_sep_rparen x : comma_sep (41 :: x) = (Back, 41 :: x).
Proof.
  unfold comma_sep. step (apply ws_none; reflexivity).
  apply bind_back. bsnorm. now apply literal_hd_fail.
Qed.

Lemma sep_loop_names : forall ns fuel x,
  forallb field_name_ok ns = true ->
  (length (names_tail ns ++ 41%N :: x) < fuel)%nat ->
  sep_loop fuel field_name comma_sep (names_tail ns ++ 41 :: x) = (Ok ns, 41 :: x).
Proof.
  induction ns as [|n ns IH]; intros fuel x Hns Hf; (destruct fuel as [|fuel]; [lia|]).
  - cbn [names_tail flat_map app sep_loop]. now rewrite comma_sep_rparen.
  - cbn [forallb] in Hns. apply andb_true_iff in Hns. destruct Hns as [Hn Hns].
    cbn [names_tail flat_map] in *. rewrite <- !app_assoc in *.
    fold (names_tail ns) in *.
    destruct (field_name_ok_hd n Hn) as (b & n' & En & Hb).
    assert (Hd : delim (names_tail ns ++ 41 :: x)).
    { destruct ns as [|n2 ns2]; [apply delim_rparen|]. cbn [names_tail flat_map]. bsnorm. apply delim_comma. }
    cbn [sep_loop].
    rewrite comma_sep_comma_sp.
    2:{ subst n. apply alpha_startok. exact Hb. }
    assert (El : Nat.eqb (length (n ++ names_tail ns ++ 41 :: x))
                         (length (bs ", " ++ n ++ names_tail ns ++ 41 :: x)) = false).
    { apply Nat.eqb_neq. bsnorm. cbn [app length]. lia. }
    rewrite El. rewrite field_name_app; [|exact Hn | now apply delim_nfollow].
    rewrite IH; [reflexivity | exact Hns|].
    bsnorm_in Hf. cbn [app length] in Hf. rewrite app_length in Hf. lia.
Qed.

Lemma render_enum_single vs :
  forallb (fun v => negb (has_comments v)) vs = true ->
  render_enum_body vs = bs "(" ++ join comma_sp (List.map vname vs) ++ bs ")".
Proof.
  intros H. unfold render_enum_body.
  assert (E : existsb has_comments vs = false).
  { induction vs as [|v vs IH]; [reflexivity|]. cbn in H |- *. apply andb_true_iff in H. destruct H as [H1 H2].
    apply negb_true_iff in H1. rewrite H1. now apply IH. }
  rewrite E. f_equal. f_equal. f_equal. clear E.
  induction vs as [|v vs IH]; [reflexivity|]. cbn in H |- *. apply andb_true_iff in H. destruct H as [H1 H2].
  rewrite IH by exact H2. f_equal. unfold render_variant.
  unfold has_comments in H1. destruct (vcomments v); [reflexivity | discriminate].
Qed.

Lemma join_names n ns : join comma_sp (n :: ns) = n ++ names_tail ns.
Proof. reflexivity. Qed.

Lemma variants_of_names vs :
  forallb (fun v => negb (has_comments v)) vs = true ->
  List.map (fun n => mkVariant n []) (List.map vname vs) = vs.
Proof.
  induction vs as [|[n cs] vs IH]; cbn; [reflexivity|]. intros H. apply andb_true_iff in H. destruct H as [H1 H2].
  rewrite IH by exact H2. unfold has_comments in H1. cbn in H1. destruct cs; [reflexivity | discriminate].
Qed.

(* enum_type on "(" n1 ", " n2 ... ")" *)
Lemma enum_type_names n ns x :
  forallb field_name_ok (n :: ns) = true ->
  enum_type (40 :: n ++ names_tail ns ++ 41 :: x)
  = (Ok (TEnum (List.map (fun m => mkVariant m []) (n :: ns))), x).
Proof.
  intros Hns. cbn [forallb] in Hns. apply andb_true_iff in Hns. destruct Hns as [Hn Hns].
  destruct (field_name_ok_hd n Hn) as (b & n' & En & Hb).
  assert (Hd : delim (names_tail ns ++ 41 :: x)).
  { destruct ns as [|n2 ns2]; [apply delim_rparen|]. cbn [names_tail flat_map]. bsnorm. apply delim_comma. }
  unfold enum_type. bsnorm.
  step (apply (literal_app [40])).
  step (apply ws_none; subst n; now apply alpha_startok).
  step (unfold separated1; rewrite field_name_app by (auto using delim_nfollow);
        rewrite sep_loop_names by (auto; lia); reflexivity).
  step (apply ws_none; reflexivity).
  step (apply (literal_app [41])).
  reflexivity.
Qed.

(* struct_type backs off on an enum text: the first name is followed by ',' or ')' *)
Lemma field_p_back_on_name vt n x :
  field_name_ok n = true -> delim x -> exists j, field_p vt (n ++ x) = (Back, j).
Proof.
  intros Hn Hx. destruct (field_name_ok_hd n Hn) as (b & n' & En & Hb).
  unfold field_p.
  erewrite bind_ok by (apply ppc_nil; subst n; now apply alpha_startok). cbv beta.
  erewrite bind_ok by (apply field_name_app; auto using delim_nfollow). cbv beta.
  erewrite bind_ok by (apply ws_none; now apply delim_startok). cbv beta.
  destruct x as [|c x]; [destruct Hx|]. eexists. apply bind_back. bsnorm. apply literal_hd_fail.
  destruct Hx; subst; reflexivity.
Qed.

Lemma struct_type_back_on_enum vt n ns x :
  forallb field_name_ok (n :: ns) = true ->
  exists j, struct_type vt (40 :: n ++ names_tail ns ++ 41 :: x) = (Back, j).
Proof.
  intros Hns. cbn [forallb] in Hns. apply andb_true_iff in Hns. destruct Hns as [Hn Hns].
  destruct (field_name_ok_hd n Hn) as (b & n' & En & Hb).
  assert (Hd : delim (names_tail ns ++ 41 :: x)).
  { destruct ns as [|n2 ns2]; [apply delim_rparen|]. cbn [names_tail flat_map]. bsnorm. apply delim_comma. }
  destruct (field_p_back_on_name vt n _ Hn Hd) as [j Hj].
  unfold struct_type. bsnorm.
  erewrite bind_ok by (apply (literal_app [40])). cbv beta.
  erewrite bind_ok by (apply ws_none; subst n; now apply alpha_startok). cbv beta.
  erewrite bind_ok by (unfold separated0; rewrite Hj; reflexivity). cbv beta.
  erewrite bind_ok by (apply ws_none; subst n; now apply alpha_startok). cbv beta.
  eexists. apply bind_back. subst n. cbn [app]. apply literal_hd_fail.
  apply (neq_of_class (fun c => c =? 41)); [reflexivity|].
  unfold is_alpha, is_upper, is_lower in Hb. apply N.eqb_neq. intros E. subst b. discriminate.
Qed.

(* ---- inline struct: fields separated by ", " *)

Definition fields_tail (fs : list field) : list byte := flat_map (fun f => bs ", " ++ render_field f) fs.

Lemma flat_map_map {X Y Z} (g : Y -> list Z) (h : X -> Y) l :
  flat_map g (List.map h l) = flat_map (fun x => g (h x)) l.
Proof. induction l as [|a l IH]; cbn; [reflexivity|]. now rewrite IH. Qed.

Lemma render_fields_cons f fs : render_fields (f :: fs) = render_field f ++ fields_tail fs.
Proof. unfold render_fields, fields_tail. cbn [List.map join]. now rewrite flat_map_map. Qed.

Lemma delim_fields_tail fs x : delim (fields_tail fs ++ 41 :: x).
Proof. destruct fs as [|f fs]; [apply delim_rparen|]. cbn [fields_tail flat_map]. bsnorm. apply delim_comma. Qed.

Section StructLoop.
  Variable vt : parser ty.
  Variable L : nat.

  Definition field_good (f : field) : Prop :=
    field_name_ok (fname f) = true /\ fcomments f = [] /\ tywf (fty f) = true /\
    forall x, delim x -> (length (render_ty (fty f) ++ x) <= L)%nat ->
              vt (render_ty (fty f) ++ x) = (Ok (fty f), x).

  Lemma render_field_nocomment f :
    fcomments f = [] -> render_field f = fname f ++ bs ": " ++ render_ty (fty f).
  Proof. intros H. unfold render_field, render_field_with. now rewrite H. Qed.

  Lemma field_p_render f x :
    field_good f -> delim x -> (length (render_field f ++ x) <= L)%nat ->
    field_p vt (render_field f ++ x) = (Ok f, x).
  Proof.
    intros (Hn & Hc & Hw & Hvt) Hx Hl. rewrite render_field_nocomment in * by exact Hc.
    destruct (field_name_ok_hd _ Hn) as (b & n' & En & Hb).
    rewrite <- !app_assoc in *. unfold field_p.
    step (apply ppc_nil; rewrite En; now apply alpha_startok).
    step (apply field_name_app; [exact Hn | bsnorm; reflexivity]).
    bsnorm. cbn [app].
    step (apply ws_none; reflexivity).
    step (apply (literal_app [58])).
    step (apply (ws_blanks [32]); [repeat constructor | now apply render_ty_startok]).
    step (apply Hvt; [exact Hx|]; lens).
    unfold ret. destruct f as [n t cs]. cbn in *. now subst cs.
  Qed.

  Lemma sep_loop_fields : forall fs fuel x,
    Forall field_good fs ->
    (length (fields_tail fs ++ 41%N :: x) < fuel)%nat ->
    (length (fields_tail fs ++ 41%N :: x) <= L)%nat ->
    sep_loop fuel (field_p vt) comma_sep (fields_tail fs ++ 41 :: x) = (Ok fs, 41 :: x).
  Proof.
    induction fs as [|f fs IH]; intros fuel x Hfs Hf HL; (destruct fuel as [|fuel]; [lia|]).
    - cbn [fields_tail flat_map app sep_loop]. now rewrite comma_sep_rparen.
    - inversion Hfs as [|? ? Hg Hfs']; subst.
      cbn [fields_tail flat_map] in *. rewrite <- !app_assoc in *. fold (fields_tail fs) in *.
      pose proof (delim_fields_tail fs x) as Hd.
      assert (Hst : startok (render_field f ++ fields_tail fs ++ 41 :: x)).
      { destruct Hg as (Hn & Hc & _). rewrite render_field_nocomment by exact Hc.
        destruct (field_name_ok_hd _ Hn) as (b & n' & En & Hb). rewrite En. cbn [app]. now apply alpha_startok. }
      cbn [sep_loop]. rewrite comma_sep_comma_sp by exact Hst.
      assert (El : Nat.eqb (length (render_field f ++ fields_tail fs ++ 41 :: x))
                           (length (bs ", " ++ render_field f ++ fields_tail fs ++ 41 :: x)) = false).
      { apply Nat.eqb_neq. bsnorm. cbn [app length]. lia. }
      rewrite El.
      bsnorm_in Hf. bsnorm_in HL. cbn [app length] in Hf, HL.
      rewrite field_p_render; [|exact Hg | exact Hd | lens].
      rewrite IH; [reflexivity | exact Hfs' | |]; lens.
  Qed.

  Lemma struct_type_render fs x :
    Forall field_good fs ->
    (length (render_fields fs ++ 41%N :: x) <= L)%nat ->
    struct_type vt (40 :: render_fields fs ++ 41 :: x) = (Ok (TStruct fs), x).
  Proof.
    intros Hfs HL. unfold struct_type. bsnorm.
    step (apply (literal_app [40])).
    destruct fs as [|f fs].
    - cbn [render_fields List.map join app].
      step (apply ws_none; reflexivity).
      step (unfold separated0, field_p;
            erewrite bind_ok by (apply ppc_nil; reflexivity); cbv beta;
            erewrite bind_back by (apply field_name_fail; reflexivity); reflexivity).
      step (apply ws_none; reflexivity).
      step (apply (literal_app [41])).
      reflexivity.
    - inversion Hfs as [|? ? Hg Hfs']; subst.
      rewrite render_fields_cons in *. rewrite <- !app_assoc in *.
      pose proof (delim_fields_tail fs x) as Hd.
      assert (Hst : startok (render_field f ++ fields_tail fs ++ 41 :: x)).
      { destruct Hg as (Hn & Hc & _). rewrite render_field_nocomment by exact Hc.
        destruct (field_name_ok_hd _ Hn) as (b & n' & En & Hb). rewrite En. cbn [app]. now apply alpha_startok. }
      step (apply ws_none; exact Hst).
      step (unfold separated0; rewrite field_p_render by (auto; lens);
            rewrite sep_loop_fields by (auto; lens); reflexivity).
      step (apply ws_none; reflexivity).
      step (apply (literal_app [41])).
      reflexivity.
  Qed.
End StructLoop.

(* ---- the type-level round trip *)

Lemma tywf_struct fs : tywf (TStruct fs) = true ->
  Forall (fun f => field_name_ok (fname f) = true /\ fcomments f = [] /\ tywf (fty f) = true) fs.
Proof.
  unfold tywf. cbn [ty_names_ok ty_wf]. intros H. apply andb_true_iff in H. destruct H as [Hn Hw].
  apply Forall_forall. intros f Hf. rewrite forallb_forall in Hn, Hw.
  specialize (Hn f Hf). specialize (Hw f Hf). apply andb_true_iff in Hn. destruct Hn as [Hn1 Hn2].
  destruct (fcomments f); [|discriminate]. rewrite Hn2, Hw. auto.
Qed.

Lemma forallb_map_eq {X Y} (f : Y -> bool) (g : X -> Y) l :
  forallb f (List.map g l) = forallb (fun x => f (g x)) l.
Proof. induction l as [|a l IH]; cbn; [reflexivity|]. now rewrite IH. Qed.

Lemma tywf_enum vs : tywf (TEnum vs) = true ->
  vs <> [] /\ forallb (fun v => negb (has_comments v)) vs = true
  /\ forallb field_name_ok (List.map vname vs) = true.
Proof.
  unfold tywf. cbn [ty_names_ok ty_wf]. intros H. apply andb_true_iff in H. destruct H as [Hn Hw].
  destruct vs as [|v vs]; [discriminate|]. split; [discriminate|]. split; [exact Hw|].
  unfold variant_names_ok in Hn. now rewrite forallb_map_eq.
Qed.

Lemma length_app_le {X} (a b : list X) : (length b <= length (a ++ b))%nat.
Proof. rewrite app_length. lia. Qed.

Theorem type_round_trip : forall t, tywf t = true ->
  forall fuel x, delim x -> (length (render_ty t ++ x) <= fuel)%nat ->
  (is_topt t = false -> non_optional_type (V fuel) (render_ty t ++ x) = (Ok t, x))
  /\ V (S fuel) (render_ty t ++ x) = (Ok t, x).
Proof.
  induction t as [p | t IH | t IH | t IH | n | vs | fs IH] using ty_ind2; intros Hw fuel x Hx Hl.
  - (* primitive *)
    destruct (render_prim_hd p) as (b & l & E & Hb).
    assert (H91 : (91 =? b) = false) by (apply (neq_of_class (fun c => c =? 91)); [reflexivity|];
      apply N.eqb_neq; intros ->; discriminate).
    assert (H63 : (63 =? b) = false) by (apply (neq_of_class (fun c => c =? 63)); [reflexivity|];
      apply N.eqb_neq; intros ->; discriminate).
    assert (Hno : non_optional_type (V fuel) (render_ty (TPrim p) ++ x) = (Ok (TPrim p), x)).
    { cbn [render_ty]. rewrite E. cbn [app]. rewrite nonopt_element by exact H91.
      unfold element_type. apply alt2_ok. rewrite app_comm_cons, <- E. apply primitive_type_render. }
    split; [intros _; exact Hno|].
    cbn [render_ty] in *. rewrite E in *. cbn [app] in *. rewrite V_nonopt by exact H63. exact Hno.
  - (* optional *)
    split; [discriminate|].
    unfold tywf in Hw. cbn [ty_names_ok ty_wf] in Hw.
    assert (Hw' : tywf t = true /\ is_topt t = false).
    { apply andb_true_iff in Hw. destruct Hw as [Hn Hw]. unfold tywf. rewrite Hn.
      destruct t; try discriminate; auto. }
    destruct Hw' as [Hwt Hno].
    cbn [render_ty] in *. rewrite <- app_assoc in *.
    rewrite V_S. apply alt2_ok. unfold optional_type.
    step (apply (literal_app kw_optional)).
    assert (Hl' : (length (render_ty t ++ x) <= fuel)%nat).
    { etransitivity; [|exact Hl]. apply length_app_le. }
    destruct (IH Hwt fuel x Hx Hl') as [IH1 _]. rewrite (bind_ok _ _ _ _ _ (IH1 Hno)). reflexivity.
  - (* array *)
    assert (Hwt : tywf t = true) by exact Hw.
    cbn [render_ty] in *. rewrite <- app_assoc in *.
    destruct fuel as [|fuel]; [cbn in Hl; lens|].
    assert (Hl' : (length (render_ty t ++ x) <= fuel)%nat)
      by (unfold kw_display_array, kw_display_map in Hl; cbn [app length] in Hl; lens).
    destruct (IH Hwt fuel x Hx Hl') as [_ IH2].
    assert (Hno : non_optional_type (V (S fuel)) (kw_display_array ++ render_ty t ++ x) = (Ok (TArr t), x)).
    { unfold non_optional_type. apply alt2_ok. unfold array_type.
      step (apply (literal_app kw_array)). rewrite (bind_ok _ _ _ _ _ IH2). reflexivity. }
    split; [intros _; exact Hno|].
    unfold kw_display_array, kw_display_map in *. cbn [app] in *. rewrite V_nonopt by reflexivity. exact Hno.
  - (* map *)
    assert (Hwt : tywf t = true) by exact Hw.
    cbn [render_ty] in *. rewrite <- app_assoc in *.
    destruct fuel as [|fuel]; [cbn in Hl; lens|].
    assert (Hl' : (length (render_ty t ++ x) <= fuel)%nat)
      by (unfold kw_display_array, kw_display_map in Hl; cbn [app length] in Hl; lens).
    destruct (IH Hwt fuel x Hx Hl') as [_ IH2].
    assert (Hno : non_optional_type (V (S fuel)) (kw_display_map ++ render_ty t ++ x) = (Ok (TMap t), x)).
    { unfold non_optional_type.
      assert (Ha : array_type (V (S fuel)) (kw_display_map ++ render_ty t ++ x)
                   = (Back, kw_display_map ++ render_ty t ++ x)) by (apply bind_back; reflexivity).
      rewrite (alt2_back _ _ _ _ Ha). apply alt2_ok. unfold map_type.
      step (apply (literal_app kw_map)). rewrite (bind_ok _ _ _ _ _ IH2). reflexivity. }
    split; [intros _; exact Hno|].
    unfold kw_display_array, kw_display_map in *. cbn [app] in *. rewrite V_nonopt by reflexivity. exact Hno.
  - (* custom *)
    assert (Hn : type_name_ok n = true).
    { unfold tywf in Hw. cbn in Hw. now apply andb_true_iff in Hw. }
    destruct (type_name_ok_hd n Hn) as (b & n' & En & Hb).
    assert (Hnl : is_lower b = false).
    { unfold is_upper, is_lower in *. nb. apply andb_false_iff. left. apply N.leb_gt. lia. }
    assert (H91 : (91 =? b) = false) by (unfold is_upper in Hb; nb; apply N.eqb_neq; lia).
    assert (H63 : (63 =? b) = false) by (unfold is_upper in Hb; nb; apply N.eqb_neq; lia).
    assert (Hno : non_optional_type (V fuel) (render_ty (TCustom n) ++ x) = (Ok (TCustom n), x)).
    { cbn [render_ty]. rewrite En. cbn [app]. rewrite nonopt_element by exact H91.
      unfold element_type. rewrite (alt2_back _ _ _ _ (primitive_type_fail b _ Hnl)).
      apply alt2_ok. apply pmap_ok. rewrite app_comm_cons, <- En.
      apply type_name_app; [exact Hn | now apply delim_tfollow]. }
    split; [intros _; exact Hno|].
    cbn [render_ty] in *. rewrite En in *. cbn [app] in *. rewrite V_nonopt by exact H63. exact Hno.
  - (* inline enum *)
    destruct (tywf_enum vs Hw) as (Hne & Hnc & Hnames).
    assert (Hno : non_optional_type (V fuel) (render_ty (TEnum vs) ++ x) = (Ok (TEnum vs), x)).
    { cbn [render_ty]. rewrite render_enum_single by exact Hnc.
      destruct vs as [|v vs]; [congruence|]. cbn [List.map] in *. rewrite join_names.
      bsnorm. rewrite <- !app_assoc. cbn [app].
      rewrite nonopt_element by reflexivity. unfold element_type.
      rewrite (alt2_back _ _ _ _ (primitive_type_fail 40 _ eq_refl)).
      rewrite (alt2_back _ _ _ _ (pmap_back _ _ _ _ (type_name_fail 40 _ eq_refl))).
      unfold inline_type.
      destruct (struct_type_back_on_enum (V fuel) (vname v) (List.map vname vs) x Hnames) as [j Hj].
      rewrite (alt2_back _ _ _ _ Hj).
      rewrite enum_type_names by exact Hnames.
      change (vname v :: List.map vname vs) with (List.map vname (v :: vs)).
      now rewrite variants_of_names. }
    split; [intros _; exact Hno|].
    revert Hno. cbn [render_ty]. rewrite render_enum_single by exact Hnc. bsnorm. cbn [app].
    intros Hno. rewrite V_nonopt by reflexivity. exact Hno.
  - (* inline struct *)
    pose proof (tywf_struct fs Hw) as Hfs.
    cbn [render_ty] in *. fold render_field in *. fold (render_fields fs) in *.
    bsnorm_in Hl. rewrite <- !app_assoc in Hl. cbn [app length] in Hl.
    destruct fuel as [|fuel]; [lens|].
    assert (Hgood : Forall (field_good (V (S fuel)) fuel) fs).
    { apply Forall_forall. intros f Hf. rewrite Forall_forall in IH, Hfs.
      destruct (Hfs f Hf) as (H1 & H2 & H3). repeat split; auto.
      intros y Hy Hly. now apply (IH f Hf H3 fuel y Hy Hly). }
    assert (Hno : non_optional_type (V (S fuel)) ((bs "(" ++ render_fields fs ++ bs ")") ++ x)
                  = (Ok (TStruct fs), x)).
    { bsnorm. rewrite <- !app_assoc. cbn [app].
      rewrite nonopt_element by reflexivity. unfold element_type.
      rewrite (alt2_back _ _ _ _ (primitive_type_fail 40 _ eq_refl)).
      rewrite (alt2_back _ _ _ _ (pmap_back _ _ _ _ (type_name_fail 40 _ eq_refl))).
      unfold inline_type. apply alt2_ok.
      apply (struct_type_render (V (S fuel)) fuel fs x Hgood). lens. }
    split; [intros _; exact Hno|].
    revert Hno. bsnorm. rewrite <- !app_assoc. cbn [app].
    intros Hno. rewrite V_nonopt by reflexivity. exact Hno.
Qed.

Lemma varlink_type_render t x :
  tywf t = true -> delim x -> varlink_type (render_ty t ++ x) = (Ok t, x).
Proof.
  intros Hw Hx. unfold varlink_type.
  destruct (type_round_trip t Hw (length (render_ty t ++ x)) x Hx (le_n _)) as [_ H]. exact H.
Qed.

(* ------------------------------------------------------------------ direct fields of members *)

(* a direct field / parameter of a member: legal name, well-formed comments and type *)
Definition dfield_ok (f : field) : bool := field_names_ok f && field_wf f.

Lemma dfield_ok_parts f : dfield_ok f = true ->
  field_name_ok (fname f) = true /\ forallb comment_ok (fcomments f) = true /\ tywf (fty f) = true.
Proof.
  unfold dfield_ok, field_names_ok, field_wf, comments_ok, tywf. intros H.
  apply andb_true_iff in H. destruct H as [H1 H2]. apply andb_true_iff in H1. destruct H1 as [H11 H12].
  apply andb_true_iff in H2. destruct H2 as [H21 H22]. rewrite H12, H22. auto.
Qed.

Lemma render_field_eq f :
  render_field f = render_comments (fcomments f) ++ fname f ++ bs ": " ++ render_ty (fty f).
Proof. reflexivity. Qed.

(* the first byte of a rendered direct field is '#' or a letter: not a blank, not ')' *)
Lemma render_field_hd f y : dfield_ok f = true ->
  exists b l, render_field f ++ y = b :: l /\ is_ms b = false /\ (41 =? b) = false /\ (44 =? b) = false.
Proof.
  intros H. destruct (dfield_ok_parts f H) as (Hn & _ & _). rewrite render_field_eq.
  destruct (fcomments f) as [|c cs].
  - destruct (field_name_ok_hd _ Hn) as (b & n' & En & Hb). rewrite En. cbn [render_comments flat_map app].
    exists b, (n' ++ bs ": " ++ render_ty (fty f) ++ y). split; [now rewrite <- !app_assoc|].
    pose proof (alpha_startok b [] Hb) as Hs. cbn in Hs. unfold is_ms_or_hash in Hs.
    apply orb_false_iff in Hs. destruct Hs as [Hs _]. split; [exact Hs|].
    unfold is_alpha, is_upper, is_lower in Hb. split; apply N.eqb_neq; intros <-; discriminate.
  - unfold render_comments. cbn [flat_map]. unfold render_comment. bsnorm. cbn [app].
    eexists; eexists; split; [reflexivity|]. repeat split; reflexivity.
Qed.

Lemma param_entry_render f x :
  dfield_ok f = true -> delim x -> param_entry (render_field f ++ x) = (Ok (inl f), x).
Proof.
  intros Hf Hx. destruct (dfield_ok_parts f Hf) as (Hn & Hc & Hw).
  destruct (field_name_ok_hd _ Hn) as (b & n' & En & Hb).
  rewrite render_field_eq. rewrite <- !app_assoc. unfold param_entry.
  step (apply ppc_render; [exact Hc | rewrite En; now apply alpha_startok]).
  step (apply field_name_app; [exact Hn | bsnorm; reflexivity]).
  bsnorm. cbn [app].
  step (apply ws_none; reflexivity).
  step (apply (literal_app [58])).
  step (apply (ws_blanks [32]); [repeat constructor | now apply render_ty_startok]).
  step (apply varlink_type_render; assumption).
  unfold ret. destruct f as [n t cs]. reflexivity.
Qed.

Lemma typedef_entry_field f x :
  dfield_ok f = true -> delim x -> typedef_entry (render_field f ++ x) = (Ok (inl f), x).
Proof.
  intros Hf Hx. destruct (dfield_ok_parts f Hf) as (Hn & Hc & Hw).
  destruct (field_name_ok_hd _ Hn) as (b & n' & En & Hb).
  rewrite render_field_eq. rewrite <- !app_assoc. unfold typedef_entry.
  step (apply ppc_render; [exact Hc | rewrite En; now apply alpha_startok]).
  step (apply field_name_app; [exact Hn | bsnorm; reflexivity]).
  bsnorm. cbn [app].
  step (apply whitespace_only_none; reflexivity).
  step (apply (try_literal_app [58])).
  step (apply (whitespace_only_blanks [32]); [repeat constructor | apply startok_ms; now apply render_ty_startok]).
  step (apply varlink_type_render; assumption).
  unfold ret. destruct f as [n t cs]. reflexivity.
Qed.

(* a variant of a custom enum, with its comment block (blanks g after each comment line) and
   blanks g2 after the name *)
Lemma typedef_entry_variant g g2 v x :
  field_name_ok (vname v) = true -> forallb comment_ok (vcomments v) = true -> blanks g -> blanks g2 ->
  nfollow (g2 ++ x) -> nhd is_ms x -> nhd (fun b => b =? 58) x ->
  typedef_entry (comment_block g (vcomments v) ++ vname v ++ g2 ++ x) = (Ok (inr v), x).
Proof.
  intros Hn Hc Hg Hg2 Hx1 Hx2 Hx3. destruct (field_name_ok_hd _ Hn) as (b & n' & En & Hb).
  unfold typedef_entry.
  step (apply ppc_block; [exact Hc | exact Hg | rewrite En; now apply alpha_startok]).
  step (apply field_name_app; [exact Hn | exact Hx1]).
  step (apply whitespace_only_blanks; [exact Hg2 | exact Hx2]).
  assert (Hcolon : try_literal (bs ":") x = (Ok false, x)).
  { bsnorm. apply try_literal_nhd. destruct x as [|c x]; [exact I|]. cbn in Hx3. now rewrite N.eqb_sym. }
  step (exact Hcolon).
  unfold ret. destruct v as [n cs]. reflexivity.
Qed.

(* ------------------------------------------------------------------ entries_loop *)

Section EntriesLoop.
  Context {X : Type}.
  Variable one : parser (field + variant).
  Variable rend : X -> list byte.
  Variable inj : X -> field + variant.
  (* gap after a comma: Display writes one space *)
  Definition entries_tail (l : list X) : list byte := flat_map (fun a => bs ", " ++ rend a) l.

  Definition entry_good (a : X) : Prop :=
    (forall y, delim y -> one (rend a ++ y) = (Ok (inj a), y))
    /\ (forall y, nhd is_ms (rend a ++ y)).

  Lemma delim_entries_tail l x : delim (entries_tail l ++ 41 :: x).
  Proof. destruct l as [|a l]; [apply delim_rparen|]. cbn [entries_tail flat_map]. bsnorm. apply delim_comma. Qed.

  Lemma entries_loop_render : forall l a fuel x,
    entry_good a -> Forall entry_good l ->
    (length l < fuel)%nat ->
    entries_loop one fuel (rend a ++ entries_tail l ++ 41 :: x) = (Ok (List.map inj (a :: l)), x).
  Proof.
    induction l as [|a' l IH]; intros a fuel x Ha Hl Hf; (destruct fuel as [|fuel]; [lia|]);
      destruct Ha as [Ha1 Ha2]; cbn [entries_loop].
    - cbn [entries_tail flat_map app].
      step (apply Ha1; apply delim_rparen).
      step (apply whitespace_only_none; reflexivity).
      bsnorm.
      step (apply try_literal_hd_fail; reflexivity).
      step (apply (try_literal_app [41])).
      reflexivity.
    - inversion Hl as [|? ? Ha' Hl']; subst.
      cbn [entries_tail flat_map]. rewrite <- !app_assoc. fold (entries_tail l).
      step (apply Ha1; bsnorm; apply delim_comma).
      bsnorm. cbn [app].
      step (apply whitespace_only_none; reflexivity).
      step (apply (try_literal_app [44])).
      step (apply (whitespace_only_blanks [32]); [repeat constructor | apply (proj2 Ha')]).
      cbn [length] in Hf.
      step (apply IH; [exact Ha' | exact Hl' | lia]).
      reflexivity.
  Qed.
End EntriesLoop.

Lemma entries_tail_length {X} (rend : X -> list byte) l : (length l <= length (entries_tail rend l))%nat.
Proof.
  induction l as [|a l IH]; cbn [entries_tail flat_map length]; [lia|].
  fold (entries_tail rend l). bsnorm. cbn [app length]. rewrite app_length. lia.
Qed.

Lemma lefts_map_inl {A B} (l : list A) : lefts (List.map (@inl A B) l) = l.
Proof. induction l; cbn; congruence. Qed.
Lemma rights_map_inl {A B} (l : list A) : rights (List.map (@inl A B) l) = [].
Proof. induction l; cbn; congruence. Qed.
Lemma lefts_map_inr {A B} (l : list B) : lefts (List.map (@inr A B) l) = [].
Proof. induction l; cbn; congruence. Qed.
Lemma rights_map_inr {A B} (l : list B) : rights (List.map (@inr A B) l) = l.
Proof. induction l; cbn; congruence. Qed.

Lemma render_fields_tail f fs :
  render_fields (f :: fs) = render_field f ++ entries_tail render_field fs.
Proof. rewrite render_fields_cons. reflexivity. Qed.

Lemma param_entry_good f : dfield_ok f = true -> entry_good param_entry render_field inl f.
Proof.
  intros H. split.
  - intros y Hy. now apply param_entry_render.
  - intros y. destruct (render_field_hd f y H) as (b & l & E & Hb & _). rewrite E. exact Hb.
Qed.

Lemma typedef_entry_good f : dfield_ok f = true -> entry_good typedef_entry render_field inl f.
Proof.
  intros H. split.
  - intros y Hy. now apply typedef_entry_field.
  - intros y. destruct (render_field_hd f y H) as (b & l & E & Hb & _). rewrite E. exact Hb.
Qed.

(* 262-313 parameter_list on "(" fields ")" *)
Lemma parameter_list_render fs x :
  forallb dfield_ok fs = true ->
  parameter_list (40 :: render_fields fs ++ 41 :: x) = (Ok fs, x).
Proof.
  intros Hfs. unfold parameter_list. bsnorm.
  step (apply (literal_app [40])).
  destruct fs as [|f fs].
  - cbn [render_fields List.map join app].
    step (apply whitespace_only_none; reflexivity).
    step (apply (try_literal_app [41])).
    reflexivity.
  - cbn [forallb] in Hfs. apply andb_true_iff in Hfs. destruct Hfs as [Hf Hfs].
    rewrite render_fields_tail. rewrite <- !app_assoc.
    destruct (render_field_hd f (entries_tail render_field fs ++ 41 :: x) Hf) as (b & l & E & Hb1 & Hb2 & _).
    step (apply whitespace_only_none; rewrite E; exact Hb1).
    step (apply try_literal_nhd; rewrite E; exact Hb2).
    unfold with_len.
    step (apply (entries_loop_render param_entry render_field inl);
          [now apply param_entry_good
          | apply Forall_forall; intros g Hg; apply param_entry_good; rewrite forallb_forall in Hfs; now apply Hfs
          | pose proof (entries_tail_length render_field fs); lens]).
    unfold ret. now rewrite (lefts_map_inl (f :: fs)).
Qed.

(* ------------------------------------------------------------------ members *)

Definition method_ok (m : method) : bool :=
  type_name_ok (mname m) && comments_ok (mcomments m)
  && forallb dfield_ok (minputs m) && forallb dfield_ok (moutputs m).
Definition error_ok (e : error) : bool :=
  type_name_ok (ename e) && comments_ok (ecomments e) && forallb dfield_ok (efields e).

Lemma upper_not_ms b x : is_upper b = true -> nhd is_ms (b :: x).
Proof. intros H. apply startok_ms. apply alpha_startok. now apply upper_alpha. Qed.

Lemma method_def_render m x : method_ok m = true -> method_def (render_method m ++ x) = (Ok m, x).
Proof.
  unfold method_ok. intros H. apply andb_true_iff in H. destruct H as [H Houts].
  apply andb_true_iff in H. destruct H as [H Hins]. apply andb_true_iff in H. destruct H as [Hn Hc].
  destruct (type_name_ok_hd _ Hn) as (b & n' & En & Hb).
  unfold render_method. rewrite <- !app_assoc. unfold method_def.
  step (apply ppc_render; [exact Hc | bsnorm; reflexivity]).
  bsnorm. cbn [app].
  step (apply (literal_app kw_method)).
  step (apply (take_while1_all is_ms [32]); [discriminate | repeat constructor | rewrite En; now apply upper_not_ms]).
  step (apply type_name_app; [exact Hn | reflexivity]).
  step (apply ws_none; reflexivity).
  step (apply parameter_list_render; exact Hins).
  step (apply (ws_blanks [32]); [repeat constructor | reflexivity]).
  step (apply (literal_app kw_arrow)).
  step (apply (ws_blanks [32]); [repeat constructor | reflexivity]).
  step (apply parameter_list_render; exact Houts).
  unfold ret. destruct m. reflexivity.
Qed.

Lemma error_def_render e x : error_ok e = true -> error_def (render_error e ++ x) = (Ok e, x).
Proof.
  unfold error_ok. intros H. apply andb_true_iff in H. destruct H as [H Hfs].
  apply andb_true_iff in H. destruct H as [Hn Hc].
  destruct (type_name_ok_hd _ Hn) as (b & n' & En & Hb).
  unfold render_error. rewrite <- !app_assoc. unfold error_def.
  step (apply ppc_render; [exact Hc | bsnorm; reflexivity]).
  bsnorm. cbn [app].
  step (apply (literal_app kw_error)).
  step (apply (take_while1_all is_ms [32]); [discriminate | repeat constructor | rewrite En; now apply upper_not_ms]).
  step (apply type_name_app; [exact Hn | reflexivity]).
  step (apply (ws_blanks [32]); [repeat constructor | reflexivity]).
  step (apply parameter_list_render; exact Hfs).
  unfold ret. destruct e. reflexivity.
Qed.

(* custom types inside C14's hypotheses and outside the known class *)
Definition variant_ok (v : variant) : bool := field_name_ok (vname v) && comments_ok (vcomments v).
Definition enum_shape_ok (vs : list variant) : bool :=
  match vs with
  | [] => false
  | [_] => true
  | _ => forallb (fun v => negb (has_comments v)) vs
  end.
Definition custom_ok (c : custom) : bool :=
  match c with
  | CObject n fs cs => type_name_ok n && comments_ok cs && forallb dfield_ok fs
  | CEnum n vs cs => type_name_ok n && comments_ok cs && forallb variant_ok vs && enum_shape_ok vs
  end.

(* what type_def does after comments, "type", the name and "(" *)
Definition type_def_body (n : name) (cs : list comment) : parser custom :=
  whitespace_only ;;; close <- try_literal (bs ")") ;;
  if close then ret (CObject n [] cs)
  else with_len (fun fuel =>
     l <- entries_loop typedef_entry fuel ;;
     let fields := lefts l in
     let variants := rights l in
     let has_typed := match fields with [] => false | _ => true end in
     let has_untyped := match variants with [] => false | _ => true end in
     if has_typed && has_untyped then fail
     else if has_typed then ret (CObject n fields cs)
     else ret (CEnum n variants cs)).

Lemma type_def_prefix n cs rest :
  type_name_ok n = true -> forallb comment_ok cs = true ->
  type_def (render_comments cs ++ bs "type " ++ n ++ bs " " ++ 40 :: rest) = type_def_body n cs rest.
Proof.
  intros Hn Hc. destruct (type_name_ok_hd _ Hn) as (b & n' & En & Hb).
  unfold type_def.
  step (apply ppc_render; [exact Hc | bsnorm; reflexivity]).
  bsnorm. cbn [app].
  step (apply (literal_app kw_type)).
  step (apply (take_while1_all is_ms [32]); [discriminate | repeat constructor | rewrite En; now apply upper_not_ms]).
  step (apply type_name_app; [exact Hn | reflexivity]).
  step (apply (ws_blanks [32]); [repeat constructor | reflexivity]).
  step (apply (literal_app [40])).
  reflexivity.
Qed.

Lemma existsb_false_forallb {X} (f : X -> bool) l :
  existsb f l = false -> forallb (fun v => negb (f v)) l = true.
Proof.
  induction l as [|a l IH]; cbn; [reflexivity|]. intros H. apply orb_false_iff in H. destruct H as [H1 H2].
  rewrite H1. cbn. now apply IH.
Qed.

Lemma forallb_negb_existsb {X} (f : X -> bool) l :
  forallb (fun v => negb (f v)) l = true -> existsb f l = false.
Proof.
  induction l as [|a l IH]; cbn; [reflexivity|]. intros H. apply andb_true_iff in H. destruct H as [H1 H2].
  apply negb_true_iff in H1. rewrite H1. now apply IH.
Qed.

(* the multi-line form: tab-indented comment lines, then tab, name, LF *)
Lemma multiline_shift cs y :
  flat_map (fun c => [9] ++ render_comment c ++ NL) cs ++ 9 :: y = 9 :: comment_block [9] cs ++ y.
Proof.
  induction cs as [|c cs IH]; [reflexivity|].
  unfold comment_block in *. cbn [flat_map]. rewrite <- !app_assoc. rewrite IH.
  unfold render_comment, NL. rewrite <- !app_assoc. cbn [app]. reflexivity.
Qed.

Definition variant_line (v : variant) : list byte := comment_block [9] (vcomments v) ++ vname v ++ [10].

Lemma variant_plain_good v :
  variant_ok v = true -> has_comments v = false -> entry_good typedef_entry vname inr v.
Proof.
  unfold variant_ok. intros H Hc. apply andb_true_iff in H. destruct H as [Hn Hcs].
  assert (Hnil : vcomments v = []) by (unfold has_comments in Hc; destruct (vcomments v); [reflexivity | discriminate]).
  split.
  - intros y Hy.
    pose proof (typedef_entry_variant [] [] v y Hn Hcs ltac:(constructor) ltac:(constructor)) as H.
    rewrite Hnil in H. cbn [comment_block flat_map app] in H. apply H.
    + now apply delim_nfollow.
    + apply startok_ms. now apply delim_startok.
    + destruct y as [|c y]; [exact I|]. destruct Hy; subst; reflexivity.
  - intros y. destruct (field_name_ok_hd _ Hn) as (b & n' & En & Hb). rewrite En. cbn [app].
    apply startok_ms. now apply alpha_startok.
Qed.

Lemma variant_line_good v :
  variant_ok v = true -> entry_good typedef_entry variant_line inr v.
Proof.
  unfold variant_ok. intros H. apply andb_true_iff in H. destruct H as [Hn Hcs].
  split.
  - intros y Hy. unfold variant_line. rewrite <- !app_assoc.
    apply typedef_entry_variant; auto.
    + repeat constructor.
    + repeat constructor.
    + reflexivity.
    + apply startok_ms. now apply delim_startok.
    + destruct y as [|c y]; [exact I|]. destruct Hy; subst; reflexivity.
  - intros y. unfold variant_line. destruct (vcomments v) as [|c cs].
    + destruct (field_name_ok_hd _ Hn) as (b & n' & En & Hb). rewrite En. cbn [comment_block flat_map app].
      apply startok_ms. now apply alpha_startok.
    + rewrite <- !app_assoc. rewrite comment_block_cons. bsnorm. reflexivity.
Qed.

Lemma render_enum_one v x : has_comments v = true ->
  render_enum_body [v] ++ x = 40 :: [10; 9] ++ variant_line v ++ entries_tail variant_line [] ++ 41 :: x.
Proof.
  intros H. unfold render_enum_body. cbn [existsb]. rewrite H. cbn [orb flat_map].
  bsnorm. unfold NL. rewrite <- !app_assoc. cbn [app]. f_equal. f_equal.
  rewrite multiline_shift. f_equal. unfold variant_line. now rewrite <- !app_assoc.
Qed.

Lemma render_enum_plain v vs x : forallb (fun w => negb (has_comments w)) (v :: vs) = true ->
  render_enum_body (v :: vs) ++ x = 40 :: vname v ++ entries_tail vname vs ++ 41 :: x.
Proof.
  intros H. rewrite render_enum_single by exact H. cbn [List.map]. rewrite join_names.
  assert (Etail : names_tail (List.map vname vs) = entries_tail vname vs).
  { unfold names_tail, entries_tail. now rewrite flat_map_map. }
  rewrite Etail. bsnorm. rewrite <- !app_assoc. reflexivity.
Qed.

Lemma type_def_render c x : custom_ok c = true -> type_def (render_custom c ++ x) = (Ok c, x).
Proof.
  destruct c as [n fs cs | n vs cs]; cbn [custom_ok render_custom]; intros H.
  - (* object *)
    apply andb_true_iff in H. destruct H as [H Hfs]. apply andb_true_iff in H. destruct H as [Hn Hc].
    unfold render_object. rewrite <- !app_assoc.
    transitivity (type_def_body n cs (render_fields fs ++ 41 :: x));
      [apply (type_def_prefix n cs _ Hn Hc)|].
    unfold type_def_body.
    destruct fs as [|f fs].
    + cbn [render_fields List.map join app].
      step (apply whitespace_only_none; reflexivity).
      step (apply (try_literal_app [41])).
      reflexivity.
    + cbn [forallb] in Hfs. apply andb_true_iff in Hfs. destruct Hfs as [Hf Hfs].
      rewrite render_fields_tail. rewrite <- !app_assoc.
      destruct (render_field_hd f (entries_tail render_field fs ++ 41 :: x) Hf) as (b & l & E & Hb1 & Hb2 & _).
      step (apply whitespace_only_none; rewrite E; exact Hb1).
      step (bsnorm; apply try_literal_nhd; rewrite E; exact Hb2).
      unfold with_len.
      step (apply (entries_loop_render typedef_entry render_field inl);
            [now apply typedef_entry_good
            | apply Forall_forall; intros g Hg; apply typedef_entry_good; rewrite forallb_forall in Hfs; now apply Hfs
            | pose proof (entries_tail_length render_field fs); lens]).
      cbn zeta. rewrite (lefts_map_inl (f :: fs)), (rights_map_inl (f :: fs)). reflexivity.
  - (* enum *)
    apply andb_true_iff in H. destruct H as [H Hshape]. apply andb_true_iff in H. destruct H as [H Hvs].
    apply andb_true_iff in H. destruct H as [Hn Hc].
    unfold render_cenum. rewrite <- !app_assoc.
    destruct (existsb has_comments vs) eqn:Eex.
    + (* exactly one variant, commented: multi-line form *)
      assert (Hone : exists v, vs = [v]).
      { destruct vs as [|v [|v2 vs]]; [discriminate | eauto |].
        cbn [enum_shape_ok] in Hshape. apply forallb_negb_existsb in Hshape. congruence. }
      destruct Hone as [v ->]. cbn [forallb] in Hvs. apply andb_true_iff in Hvs. destruct Hvs as [Hv _].
      assert (Hhc : has_comments v = true) by (cbn in Eex; now rewrite orb_false_r in Eex).
      rewrite render_enum_one by exact Hhc.
      transitivity (type_def_body n cs ([10; 9] ++ variant_line v ++ entries_tail variant_line [] ++ 41 :: x));
        [apply (type_def_prefix n cs _ Hn Hc)|].
      unfold type_def_body.
      destruct (variant_line_good v Hv) as [Hg1 Hg2].
      step (apply (whitespace_only_blanks [10; 9]); [repeat constructor | apply Hg2]).
      assert (Hnp : try_literal (bs ")") (variant_line v ++ entries_tail variant_line [] ++ 41 :: x)
                    = (Ok false, variant_line v ++ entries_tail variant_line [] ++ 41 :: x)).
      { bsnorm. apply try_literal_nhd. unfold variant_line.
        assert (Hcs : vcomments v <> []) by (cbn in Eex; unfold has_comments in Eex; destruct (vcomments v); [discriminate | congruence]).
        destruct (vcomments v) as [|c0 cs0]; [congruence|]. rewrite <- !app_assoc. rewrite comment_block_cons.
        bsnorm. reflexivity. }
      step (exact Hnp).
      unfold with_len.
      step (apply (entries_loop_render typedef_entry variant_line inr);
            [split; assumption | constructor | cbn; lia]).
      cbn zeta. cbn [List.map lefts rights andb]. reflexivity.
    + (* no commented variant: single-line form *)
      pose proof (existsb_false_forallb _ _ Eex) as Hnc.
      destruct vs as [|v vs]; [discriminate|].
      rewrite render_enum_plain by exact Hnc.
      cbn [forallb] in Hvs, Hnc. apply andb_true_iff in Hvs. destruct Hvs as [Hv Hvs].
      apply andb_true_iff in Hnc. destruct Hnc as [Hncv Hncs]. apply negb_true_iff in Hncv.
      transitivity (type_def_body n cs (vname v ++ entries_tail vname vs ++ 41 :: x));
        [apply (type_def_prefix n cs _ Hn Hc)|].
      unfold type_def_body.
      destruct (variant_plain_good v Hv Hncv) as [Hg1 Hg2].
      step (apply whitespace_only_none; apply Hg2).
      assert (Hnp : try_literal (bs ")") (vname v ++ entries_tail vname vs ++ 41 :: x)
                    = (Ok false, vname v ++ entries_tail vname vs ++ 41 :: x)).
      { bsnorm. apply try_literal_nhd. unfold variant_ok in Hv. apply andb_true_iff in Hv. destruct Hv as [Hvn _].
        destruct (field_name_ok_hd _ Hvn) as (b & n' & En & Hb). rewrite En. cbn [app].
        unfold is_alpha, is_upper, is_lower in Hb. apply N.eqb_neq. intros <-. discriminate. }
      step (exact Hnp).
      unfold with_len.
      step (apply (entries_loop_render typedef_entry vname inr);
            [split; assumption
            | apply Forall_forall; intros w Hw; rewrite forallb_forall in Hvs, Hncs;
              apply variant_plain_good; [now apply Hvs | apply negb_true_iff; now apply Hncs]
            | pose proof (entries_tail_length vname vs); lens]).
      cbn zeta. rewrite (lefts_map_inr (v :: vs)), (rights_map_inr (v :: vs)). reflexivity.
Qed.

(* ------------------------------------------------------------------ member_p *)

Definition member_ok (m : member) : bool :=
  match m with MType c => custom_ok c | MMethod m => method_ok m | MError e => error_ok e end.

Lemma type_def_back cs rest :
  forallb comment_ok cs = true -> startok rest -> literal kw_type rest = (Back, rest) ->
  type_def (render_comments cs ++ rest) = (Back, rest).
Proof.
  intros Hc Hs Hl. unfold type_def.
  step (apply ppc_render; [exact Hc | exact Hs]).
  now apply bind_back.
Qed.

Lemma method_def_back cs rest :
  forallb comment_ok cs = true -> startok rest -> literal kw_method rest = (Back, rest) ->
  method_def (render_comments cs ++ rest) = (Back, rest).
Proof.
  intros Hc Hs Hl. unfold method_def.
  step (apply ppc_render; [exact Hc | exact Hs]).
  now apply bind_back.
Qed.

Lemma member_p_render m x : member_ok m = true -> member_p (render_member m ++ x) = (Ok m, x).
Proof.
  destruct m as [c | m | e]; cbn [member_ok render_member]; intros H; unfold member_p.
  - apply alt2_ok. apply pmap_ok. now apply type_def_render.
  - assert (Hc : forallb comment_ok (mcomments m) = true).
    { unfold method_ok in H. repeat (apply andb_true_iff in H; destruct H as [H ?]). assumption. }
    assert (Hb : exists j, pmap MType type_def (render_method m ++ x) = (Back, j)).
    { eexists. apply pmap_back. unfold render_method. rewrite <- !app_assoc.
      apply type_def_back; [exact Hc | bsnorm; reflexivity | bsnorm; reflexivity]. }
    destruct Hb as [j Hb]. rewrite (alt2_back _ _ _ _ Hb).
    apply alt2_ok. apply pmap_ok. now apply method_def_render.
  - assert (Hc : forallb comment_ok (ecomments e) = true).
    { unfold error_ok in H. repeat (apply andb_true_iff in H; destruct H as [H ?]). assumption. }
    assert (Hb : exists j, pmap MType type_def (render_error e ++ x) = (Back, j)).
    { eexists. apply pmap_back. unfold render_error. rewrite <- !app_assoc.
      apply type_def_back; [exact Hc | bsnorm; reflexivity | bsnorm; reflexivity]. }
    destruct Hb as [j Hb]. rewrite (alt2_back _ _ _ _ Hb).
    assert (Hb2 : exists j, pmap MMethod method_def (render_error e ++ x) = (Back, j)).
    { eexists. apply pmap_back. unfold render_error. rewrite <- !app_assoc.
      apply method_def_back; [exact Hc | bsnorm; reflexivity | bsnorm; reflexivity]. }
    destruct Hb2 as [j2 Hb2]. rewrite (alt2_back _ _ _ _ Hb2).
    apply pmap_ok. now apply error_def_render.
Qed.

(* every rendered member starts with '#' or a keyword letter *)
Lemma render_comments_then_hd cs rest y :
  (exists b l, rest = b :: l /\ is_ms b = false) ->
  exists b l, render_comments cs ++ rest ++ y = b :: l /\ is_ms b = false.
Proof.
  intros (b & l & E & Hb). destruct cs as [|c cs].
  - cbn [render_comments flat_map app]. subst rest. cbn [app]. eauto.
  - unfold render_comments. cbn [flat_map]. unfold render_comment. bsnorm. cbn [app]. eauto.
Qed.

Lemma render_member_hd m y : exists b l, render_member m ++ y = b :: l /\ is_ms b = false.
Proof.
  destruct m as [[n fs cs | n vs cs] | m | e]; cbn [render_member render_custom];
    [unfold render_object | unfold render_cenum | unfold render_method | unfold render_error];
    rewrite <- !app_assoc;
    match goal with |- exists b l, render_comments ?cs ++ ?k ++ ?rest = _ /\ _ =>
      apply (render_comments_then_hd cs k rest) end;
    bsnorm; eexists; eexists; split; reflexivity.
Qed.

Definition members_text (ms : list member) : list byte :=
  flat_map (fun m => NL ++ NL ++ render_member m) ms.

Lemma members_loop_render : forall ms fuel,
  forallb member_ok ms = true -> (length ms < fuel)%nat ->
  members_loop fuel (members_text ms) = (Ok ms, []).
Proof.
  induction ms as [|m ms IH]; intros fuel Hms Hf; (destruct fuel as [|fuel]; [lia|]).
  - reflexivity.
  - cbn [forallb] in Hms. apply andb_true_iff in Hms. destruct Hms as [Hm Hms].
    cbn [members_text flat_map]. fold (members_text ms). unfold NL. rewrite <- !app_assoc. cbn [app].
    cbn [members_loop].
    destruct (render_member_hd m (members_text ms)) as (b & l & E & Hb).
    change (10 :: 10 :: render_member m ++ members_text ms) with ([10; 10] ++ render_member m ++ members_text ms).
    rewrite skip_ms_blanks; [|repeat constructor | rewrite E; exact Hb].
    rewrite E. rewrite <- E.
    rewrite member_p_render by exact Hm.
    cbn [length] in Hf. rewrite IH; [reflexivity | exact Hms | lia].
Qed.

(* ------------------------------------------------------------------ interface_name *)

Definition segs_text (ss : list (list byte)) : list byte := flat_map (fun s => 46 :: s) ss.
Definition seg_ok (s : list byte) : bool :=
  match s with b :: l => is_alnum b && seg_tail_ok l | [] => false end.

Lemma split_dots_spec : forall l cur,
  exists s ss, split_dots l cur = s :: ss /\ rev cur ++ l = s ++ segs_text ss.
Proof.
  induction l as [|b l IH]; intros cur; cbn [split_dots].
  - exists (rev cur), []. split; [reflexivity|]. cbn. reflexivity.
  - destruct (b =? 46) eqn:E.
    + nb. subst b. destruct (IH []) as (s & ss & E1 & E2). rewrite E1.
      exists (rev cur), (s :: ss). split; [reflexivity|]. cbn [segs_text flat_map]. fold (segs_text ss).
      cbn [rev app] in E2. now rewrite E2.
    + destruct (IH (b :: cur)) as (s & ss & E1 & E2). exists s, ss. split; [exact E1|].
      cbn [rev] in E2. rewrite <- app_assoc in E2. exact E2.
Qed.

Lemma interface_name_ok_decomp n : interface_name_ok n = true ->
  exists b l ss, n = (b :: l) ++ segs_text ss /\ is_alpha b = true /\ seg_tail_ok l = true
                 /\ ss <> [] /\ forallb seg_ok ss = true.
Proof.
  unfold interface_name_ok. destruct (split_dots_spec n []) as (s & ss & E1 & E2). rewrite E1.
  cbn [rev app] in E2. destruct ss as [|s2 ss]; [discriminate|].
  intros H. apply andb_true_iff in H. destruct H as [H1 H2].
  destruct s as [|b l]; [discriminate|]. apply andb_true_iff in H1. destruct H1 as [Hb Hl].
  exists b, l, (s2 :: ss). repeat split; auto. discriminate.
Qed.

Lemma alnum_not_dash b : is_alnum b = true -> (b =? 45) = false.
Proof.
  intros H. apply N.eqb_neq. intros ->. discriminate.
Qed.

Lemma seg_tail_ok_tl b l : seg_tail_ok (b :: l) = true -> seg_tail_ok l = true.
Proof.
  cbn. destruct (is_alnum b); [auto|]. destruct (b =? 45); [|discriminate]. destruct l; [discriminate | auto].
Qed.

Lemma seg_tail_chars l : seg_tail_ok l = true -> Forall (fun c => is_seg_char c = true) l.
Proof.
  induction l as [|b l IH]; intros H; [constructor|]. constructor; [|apply IH; eapply seg_tail_ok_tl; eauto].
  cbn in H. unfold is_seg_char. destruct (is_alnum b); [reflexivity|]. destruct (b =? 45); [reflexivity | discriminate].
Qed.

Lemma seg_tail_last l : seg_tail_ok l = true ->
  match rev l with [] => True | b :: _ => (b =? 45) = false end.
Proof.
  induction l as [|b l IH]; intros H; [exact I|].
  pose proof (IH (seg_tail_ok_tl _ _ H)) as IH'. cbn [rev].
  destruct (rev l) as [|c r] eqn:Er.
  - assert (l = []) by (destruct l; [reflexivity|]; cbn in Er; destruct (rev l); discriminate). subst l.
    cbn. cbn in H. destruct (is_alnum b) eqn:Ea; [now apply alnum_not_dash|].
    destruct (b =? 45); discriminate.
  - cbn [app]. exact IH'.
Qed.

Lemma strip_dashes_rev_none r : match r with [] => True | b :: _ => (b =? 45) = false end ->
  strip_dashes_rev r [] = (r, []).
Proof. destruct r as [|b r]; cbn; [reflexivity|]. intros H. now rewrite H. Qed.

Lemma seg_body_app l rest :
  seg_tail_ok l = true -> nhd is_seg_char rest -> seg_body (l ++ rest) = (l, rest).
Proof.
  intros Hl Hr. unfold seg_body. rewrite span_all; [|now apply seg_tail_chars | exact Hr].
  rewrite strip_dashes_rev_none by now apply seg_tail_last. now rewrite rev_involutive.
Qed.

Definition ifollow := nhd (fun b => is_seg_char b || (b =? 46)).

Lemma segs_text_follow ss rest : ifollow rest -> nhd is_seg_char (segs_text ss ++ rest).
Proof.
  intros H. destruct ss as [|s ss]; [|reflexivity]. cbn [segs_text flat_map app].
  destruct rest as [|b r]; [exact I|]. cbn in H |- *. now apply orb_false_iff in H.
Qed.

Lemma iname_segments_app : forall ss fuel rest,
  forallb seg_ok ss = true -> ifollow rest -> (length ss < fuel)%nat ->
  iname_segments fuel (segs_text ss ++ rest)
  = (match ss with [] => false | _ => true end, segs_text ss, rest).
Proof.
  induction ss as [|s ss IH]; intros fuel rest Hss Hr Hf; (destruct fuel as [|fuel]; [lia|]).
  - cbn [segs_text flat_map app iname_segments]. destruct rest as [|b r]; [reflexivity|].
    cbn in Hr. apply orb_false_iff in Hr. destruct Hr as [_ Hr]. now rewrite Hr.
  - cbn [forallb] in Hss. apply andb_true_iff in Hss. destruct Hss as [Hs Hss].
    destruct s as [|c l]; [discriminate|]. cbn [seg_ok] in Hs. apply andb_true_iff in Hs. destruct Hs as [Hc Hl].
    cbn [segs_text flat_map]. fold (segs_text ss). rewrite <- !app_assoc. cbn [app iname_segments].
    rewrite Hc. change (46 =? 46) with true. cbv iota.
    rewrite seg_body_app; [|exact Hl | now apply segs_text_follow].
    cbn [length] in Hf. rewrite IH; [|exact Hss | exact Hr | lia].
    reflexivity.
Qed.

Lemma segs_text_length ss : (length ss <= length (segs_text ss))%nat.
Proof.
  induction ss as [|s ss IH]; cbn [segs_text flat_map length]; [lia|]. fold (segs_text ss).
  cbn [app length]. unfold byte in *. rewrite app_length. lia.
Qed.

Lemma seg_ascii l : Forall (fun c => is_seg_char c = true) l -> Forall ascii l.
Proof. intros H. eapply Forall_impl; [|exact H]. intros c Hc. now apply is_seg_char_ascii. Qed.

Lemma segs_text_ascii ss : forallb seg_ok ss = true -> Forall ascii (segs_text ss).
Proof.
  induction ss as [|s ss IH]; intros H; [constructor|].
  cbn [forallb] in H. apply andb_true_iff in H. destruct H as [Hs Hss].
  cbn [segs_text flat_map]. fold (segs_text ss). constructor; [reflexivity|].
  apply Forall_app. split; [|now apply IH].
  destruct s as [|c l]; [constructor|]. cbn [seg_ok] in Hs. apply andb_true_iff in Hs. destruct Hs as [Hc Hl].
  constructor; [now apply is_alnum_ascii | apply seg_ascii; now apply seg_tail_chars].
Qed.

Lemma interface_name_app n rest :
  interface_name_ok n = true -> ifollow rest -> interface_name (n ++ rest) = (Ok n, rest).
Proof.
  intros Hn Hr. destruct (interface_name_ok_decomp n Hn) as (b & l & ss & En & Hb & Hl & Hne & Hss).
  subst n. rewrite <- !app_assoc. cbn [app interface_name]. rewrite Hb.
  rewrite seg_body_app; [|exact Hl | now apply segs_text_follow].
  rewrite iname_segments_app; [|exact Hss | exact Hr | pose proof (segs_text_length ss); lens].
  destruct ss as [|s ss]; [congruence|].
  unfold bytes_to_str. rewrite valid_ascii; [reflexivity|].
  constructor; [now apply is_alpha_ascii|]. apply Forall_app. split.
  - apply seg_ascii. now apply seg_tail_chars.
  - now apply segs_text_ascii.
Qed.

(* ------------------------------------------------------------------ the interface *)

Definition iface_ok (t : interface) : bool :=
  interface_name_ok (iname t) && comments_ok (icomments t)
  && forallb custom_ok (itypes t) && forallb method_ok (imethods t) && forallb error_ok (ierrors t).

Lemma render_members t :
  render t = render_comments (icomments t) ++ bs "interface " ++ iname t ++ members_text (members_of t).
Proof.
  unfold render, members_of, members_text. rewrite !flat_map_app, !flat_map_map. reflexivity.
Qed.

Lemma mem_types_app a b : mem_types (a ++ b) = mem_types a ++ mem_types b.
Proof. induction a as [|[c|m|e] a IH]; cbn; congruence. Qed.
Lemma mem_methods_app a b : mem_methods (a ++ b) = mem_methods a ++ mem_methods b.
Proof. induction a as [|[c|m|e] a IH]; cbn; congruence. Qed.
Lemma mem_errors_app a b : mem_errors (a ++ b) = mem_errors a ++ mem_errors b.
Proof. induction a as [|[c|m|e] a IH]; cbn; congruence. Qed.

Lemma mem_types_T l : mem_types (List.map MType l) = l. Proof. induction l; cbn; congruence. Qed.
Lemma mem_types_M l : mem_types (List.map MMethod l) = []. Proof. induction l; cbn; congruence. Qed.
Lemma mem_types_E l : mem_types (List.map MError l) = []. Proof. induction l; cbn; congruence. Qed.
Lemma mem_methods_T l : mem_methods (List.map MType l) = []. Proof. induction l; cbn; congruence. Qed.
Lemma mem_methods_M l : mem_methods (List.map MMethod l) = l. Proof. induction l; cbn; congruence. Qed.
Lemma mem_methods_E l : mem_methods (List.map MError l) = []. Proof. induction l; cbn; congruence. Qed.
Lemma mem_errors_T l : mem_errors (List.map MType l) = []. Proof. induction l; cbn; congruence. Qed.
Lemma mem_errors_M l : mem_errors (List.map MMethod l) = []. Proof. induction l; cbn; congruence. Qed.
Lemma mem_errors_E l : mem_errors (List.map MError l) = l. Proof. induction l; cbn; congruence. Qed.

Lemma interface_of_members t : interface_of (iname t) (icomments t) (members_of t) = t.
Proof.
  unfold interface_of, members_of.
  rewrite !mem_types_app, !mem_methods_app, !mem_errors_app.
  rewrite mem_types_T, mem_types_M, mem_types_E, mem_methods_T, mem_methods_M, mem_methods_E,
    mem_errors_T, mem_errors_M, mem_errors_E.
  cbn [app]. rewrite !app_nil_r. destruct t. reflexivity.
Qed.

Lemma members_ok t : iface_ok t = true -> forallb member_ok (members_of t) = true.
Proof.
  unfold iface_ok, members_of. intros H.
  apply andb_true_iff in H. destruct H as [H He]. apply andb_true_iff in H. destruct H as [H Hm].
  apply andb_true_iff in H. destruct H as [_ Ht].
  rewrite !forallb_app, !forallb_map_eq.
  apply andb_true_iff; split; [exact Ht | apply andb_true_iff; split; [exact Hm | exact He]].
Qed.

(* the members after the blanks that precede the first one *)
Definition members_body (ms : list member) : list byte :=
  match ms with [] => [] | m :: ms' => render_member m ++ members_text ms' end.

Lemma members_text_body ms :
  members_text ms = match ms with [] => [] | _ => [10; 10] ++ members_body ms end.
Proof. destruct ms as [|m ms]; [reflexivity|]. cbn [members_text flat_map members_body]. unfold NL. now rewrite <- !app_assoc. Qed.

Lemma members_loop_body : forall ms fuel g,
  forallb member_ok ms = true -> blanks g -> (length ms < fuel)%nat ->
  members_loop fuel (g ++ members_body ms) = (Ok ms, []).
Proof.
  induction ms as [|m ms IH]; intros fuel g Hms Hg Hf; (destruct fuel as [|fuel]; [lia|]).
  - cbn [members_body]. rewrite app_nil_r. cbn [members_loop]. destruct g as [|b g]; [reflexivity|].
    replace (skip_ms (b :: g)) with (@nil byte); [reflexivity|].
    symmetry. rewrite <- (app_nil_r (b :: g)). apply skip_ms_blanks; [exact Hg | exact I].
  - cbn [forallb] in Hms. apply andb_true_iff in Hms. destruct Hms as [Hm Hms].
    cbn [members_body].
    destruct (render_member_hd m (members_text ms)) as (b & l & E & Hb).
    assert (Hne : exists b0 l0, g ++ render_member m ++ members_text ms = b0 :: l0).
    { destruct g as [|b0 g0]; [rewrite E; cbn; eauto | cbn; eauto]. }
    destruct Hne as (b0 & l0 & Hne). cbn [members_loop]. rewrite Hne. rewrite <- Hne.
    rewrite skip_ms_blanks; [|exact Hg | rewrite E; exact Hb].
    rewrite E. rewrite <- E.
    rewrite member_p_render by exact Hm.
    cbn [length] in Hf. rewrite members_text_body.
    destruct ms as [|m2 ms2]; cbv beta iota.
    + destruct fuel as [|fuel]; [lia|]. reflexivity.
    + rewrite IH; [reflexivity | exact Hms | repeat constructor | lia].
Qed.

Lemma members_text_length ms : (length ms <= length (members_text ms))%nat.
Proof.
  induction ms as [|m ms IH]; cbn [members_text flat_map length]; [lia|]. fold (members_text ms).
  unfold NL. unfold byte in *. rewrite !app_length. cbn [length]. lia.
Qed.

Lemma members_body_length ms : (length ms <= length (members_body ms))%nat.
Proof.
  destruct ms as [|m ms]; [cbn; lia|]. cbn [members_body length].
  destruct (render_member_hd m []) as (b & l & E & _). rewrite app_nil_r in E.
  pose proof (members_text_length ms). unfold byte in *. rewrite app_length, E. cbn [length]. lia.
Qed.

Lemma interface_def_render t : iface_ok t = true -> interface_def (render t) = (Ok t, []).
Proof.
  intros Hok. pose proof (members_ok t Hok) as Hms.
  unfold iface_ok in Hok.
  apply andb_true_iff in Hok. destruct Hok as [Hok _]. apply andb_true_iff in Hok. destruct Hok as [Hok _].
  apply andb_true_iff in Hok. destruct Hok as [Hok _]. apply andb_true_iff in Hok. destruct Hok as [Hn Hc].
  destruct (interface_name_ok_decomp _ Hn) as (b & l & ss & En & Hb & _).
  rewrite render_members. unfold interface_def.
  step (apply ppc_render; [exact Hc | bsnorm; reflexivity]).
  bsnorm. cbn [app].
  step (apply (literal_app kw_interface)).
  step (apply (take_while1_all is_ms [32]); [discriminate | repeat constructor |
        rewrite En; cbn [app]; apply startok_ms; now apply alpha_startok]).
  step (apply interface_name_app; [exact Hn |
        rewrite members_text_body; destruct (members_of t); reflexivity]).
  rewrite members_text_body.
  assert (Hws : whitespace_only (match members_of t with [] => [] | _ => [10; 10] ++ members_body (members_of t) end)
                = (Ok tt, members_body (members_of t))).
  { destruct (members_of t) as [|m ms] eqn:Em; [reflexivity|].
    apply whitespace_only_blanks; [repeat constructor|].
    cbn [members_body]. destruct (render_member_hd m (members_text ms)) as (b1 & l1 & E1 & Hb1).
    rewrite E1. exact Hb1. }
  step (exact Hws).
  unfold with_len.
  step (apply (members_loop_body (members_of t) _ []); [exact Hms | constructor |
        pose proof (members_body_length (members_of t)); lia]).
  unfold ret. now rewrite interface_of_members.
Qed.

(* ------------------------------------------------------------------ trim is the identity *)

Definition graphic (c : byte) : Prop := 33 <= c /\ c <= 126.

Lemma ws_char_len_graphic c r : graphic c -> ws_char_len (c :: r) = O.
Proof.
  intros [H1 H2]. unfold ws_char_len.
  replace (((9 <=? c) && (c <=? 13)) || (c =? 32)) with false.
  2:{ symmetry. apply orb_false_iff. split; [apply andb_false_iff; right; apply N.leb_gt; lia | apply N.eqb_neq; lia]. }
  replace (c =? 194) with false by (symmetry; apply N.eqb_neq; lia).
  replace (c =? 225) with false by (symmetry; apply N.eqb_neq; lia).
  replace (c =? 226) with false by (symmetry; apply N.eqb_neq; lia).
  replace (c =? 227) with false by (symmetry; apply N.eqb_neq; lia).
  reflexivity.
Qed.

Lemma ws_char_len_rev_graphic c r : graphic c -> ws_char_len_rev (c :: r) = O.
Proof.
  intros [H1 H2]. unfold ws_char_len_rev.
  replace (((9 <=? c) && (c <=? 13)) || (c =? 32)) with false.
  2:{ symmetry. apply orb_false_iff. split; [apply andb_false_iff; right; apply N.leb_gt; lia | apply N.eqb_neq; lia]. }
  assert (E133 : (c =? 133) = false) by (apply N.eqb_neq; lia).
  assert (E160 : (c =? 160) = false) by (apply N.eqb_neq; lia).
  assert (E128 : (c =? 128) = false) by (apply N.eqb_neq; lia).
  assert (E159 : (c =? 159) = false) by (apply N.eqb_neq; lia).
  assert (E168 : (c =? 168) = false) by (apply N.eqb_neq; lia).
  assert (E169 : (c =? 169) = false) by (apply N.eqb_neq; lia).
  assert (E175 : (c =? 175) = false) by (apply N.eqb_neq; lia).
  assert (Ege : (128 <=? c) = false) by (apply N.leb_gt; lia).
  destruct r as [|b r']; [reflexivity|]. rewrite E133, E160. rewrite andb_false_r.
  destruct r' as [|a r'']; [reflexivity|].
  rewrite E128, E159, E168, E169, E175, Ege. rewrite !andb_false_r. reflexivity.
Qed.

Lemma trim_graphic l c1 c2 front back :
  l = c1 :: back -> l = front ++ [c2] -> graphic c1 -> graphic c2 -> trim l = l.
Proof.
  intros E1 E2 H1 H2. unfold trim.
  assert (Hs : trim_start l = l).
  { unfold trim_start. destruct (length l); [reflexivity|]. cbn [strip_while]. rewrite E1.
    now rewrite ws_char_len_graphic. }
  rewrite Hs. unfold trim_end. set (r := rev l).
  assert (Hr : r = c2 :: rev front) by (subst r; rewrite E2, rev_app_distr; reflexivity).
  destruct (length l); cbn [strip_while]; [subst r; apply rev_involutive|].
  replace (ws_char_len_rev r) with O by (rewrite Hr; symmetry; now apply ws_char_len_rev_graphic).
  subst r. apply rev_involutive.
Qed.

Lemma alnum_graphic c : is_alnum c = true -> graphic c.
Proof.
  unfold is_alnum, is_alpha, is_upper, is_lower, is_digit, graphic. intros H.
  repeat (apply orb_true_iff in H; destruct H as [H|H]); nb; lia.
Qed.

(* the last byte of a legal interface name is a letter or digit *)
Lemma seg_tail_last_alnum l : seg_tail_ok l = true -> l <> [] ->
  exists front c, l = front ++ [c] /\ is_alnum c = true.
Proof.
  intros H Hne. destruct (exists_last Hne) as (front & c & E). exists front, c. split; [exact E|].
  pose proof (seg_tail_last l H) as Hl. pose proof (seg_tail_chars l H) as Hc.
  subst l. rewrite rev_app_distr in Hl. cbn in Hl.
  rewrite Forall_app in Hc. destruct Hc as [_ Hc]. inversion Hc as [|? ? Hcc _]; subst.
  unfold is_seg_char in Hcc. rewrite Hl in Hcc. now rewrite orb_false_r in Hcc.
Qed.

Lemma seg_last_alnum s : seg_ok s = true -> exists front c, s = front ++ [c] /\ is_alnum c = true.
Proof.
  destruct s as [|b l]; [discriminate|]. cbn [seg_ok]. intros H. apply andb_true_iff in H. destruct H as [Hb Hl].
  destruct l as [|b2 l2]; [exists [], b; auto|].
  destruct (seg_tail_last_alnum (b2 :: l2) Hl ltac:(discriminate)) as (front & c & E & Hc).
  exists (b :: front), c. split; [cbn; now rewrite E | exact Hc].
Qed.

Lemma interface_name_last n : interface_name_ok n = true ->
  exists front c, n = front ++ [c] /\ is_alnum c = true.
Proof.
  intros Hn. destruct (interface_name_ok_decomp n Hn) as (b & l & ss & En & Hb & Hl & Hne & Hss).
  destruct (exists_last Hne) as (ss' & s & Ess). subst ss.
  rewrite forallb_app in Hss. apply andb_true_iff in Hss. destruct Hss as [_ Hs]. cbn in Hs.
  rewrite andb_true_r in Hs. destruct (seg_last_alnum s Hs) as (front & c & Es & Hc).
  exists ((b :: l) ++ segs_text ss' ++ 46 :: front), c. split; [|exact Hc].
  subst n. unfold segs_text. rewrite flat_map_app. cbn [flat_map]. rewrite app_nil_r. rewrite Es.
  rewrite <- !app_assoc. cbn [app]. reflexivity.
Qed.

Lemma render_member_last m : exists front, render_member m = front ++ [41].
Proof.
  destruct m as [[n fs cs | n vs cs] | m | e]; cbn [render_member render_custom].
  - unfold render_object. bsnorm. eexists. rewrite !app_assoc. reflexivity.
  - unfold render_cenum, render_enum_body. destruct (existsb has_comments vs); bsnorm;
      eexists; rewrite !app_assoc; reflexivity.
  - unfold render_method. bsnorm. eexists. rewrite !app_assoc. reflexivity.
  - unfold render_error. bsnorm. eexists. rewrite !app_assoc. reflexivity.
Qed.

Lemma render_first t : exists c back, render t = c :: back /\ graphic c.
Proof.
  unfold render. rewrite <- ?app_assoc. destruct (icomments t) as [|c cs].
  - cbn [render_comments flat_map app]. bsnorm. cbn [app]. eexists; eexists; split; [reflexivity|].
    unfold graphic. lia.
  - unfold render_comments. cbn [flat_map]. unfold render_comment. bsnorm. cbn [app].
    eexists; eexists; split; [reflexivity|]. unfold graphic. lia.
Qed.

Lemma render_last t : iface_ok t = true -> exists front c, render t = front ++ [c] /\ graphic c.
Proof.
  intros Hok. rewrite render_members.
  destruct (members_of t) as [|m0 ms0] eqn:Em.
  - cbn [members_text flat_map]. rewrite app_nil_r.
    unfold iface_ok in Hok. repeat (apply andb_true_iff in Hok; destruct Hok as [Hok ?]).
    destruct (interface_name_last _ Hok) as (front & c & E & Hc).
    exists (render_comments (icomments t) ++ bs "interface " ++ front), c. split; [|now apply alnum_graphic].
    rewrite E. now rewrite <- !app_assoc.
  - assert (Hne : m0 :: ms0 <> []) by discriminate.
    destruct (exists_last Hne) as (ms' & m & Ems). rewrite Ems.
    destruct (render_member_last m) as (front & Ef).
    unfold members_text. rewrite flat_map_app. cbn [flat_map]. rewrite app_nil_r. rewrite Ef.
    eexists. exists 41. split; [|unfold graphic; lia].
    rewrite !app_assoc. reflexivity.
Qed.

Lemma trim_render t : iface_ok t = true -> trim (render t) = render t.
Proof.
  intros Hok. destruct (render_first t) as (c1 & back & E1 & H1).
  destruct (render_last t Hok) as (front & c2 & E2 & H2).
  eapply trim_graphic; eauto.
Qed.

Theorem parse_render t : iface_ok t = true -> parse_interface (render t) = Accept t.
Proof.
  intros Hok. unfold parse_interface. rewrite trim_render by exact Hok.
  destruct (render_first t) as (c1 & back & E1 & _). rewrite E1. rewrite <- E1.
  rewrite interface_def_render by exact Hok. reflexivity.
Qed.

(* ------------------------------------------------------------------ the hypotheses of C14 *)

Lemma forallb_and {X} (f g : X -> bool) l :
  forallb f l = true -> forallb g l = true -> forallb (fun x => f x && g x) l = true.
Proof.
  intros Hf Hg. apply forallb_forall. intros x Hx. rewrite forallb_forall in Hf, Hg.
  now rewrite Hf, Hg.
Qed.

Lemma wf_custom_ok c :
  custom_names_ok c = true -> custom_wf c = true ->
  (match c with CEnum _ ((_ :: _ :: _) as vs) _ => existsb has_comments vs | _ => false end) = false ->
  custom_ok c = true.
Proof.
  destruct c as [n fs cs | n vs cs]; cbn [custom_names_ok custom_wf custom_ok]; intros Hn Hw Hk.
  - apply andb_true_iff in Hn. destruct Hn as [Hn1 Hn2]. apply andb_true_iff in Hw. destruct Hw as [Hw1 Hw2].
    rewrite Hn1, Hw1. cbn [andb]. unfold dfield_ok. now apply forallb_and.
  - apply andb_true_iff in Hn. destruct Hn as [Hn1 Hn2].
    apply andb_true_iff in Hw. destruct Hw as [Hw Hw3]. apply andb_true_iff in Hw. destruct Hw as [Hw1 Hw2].
    rewrite Hn1, Hw1. cbn [andb]. apply andb_true_iff. split.
    + unfold variant_ok. apply forallb_and; [exact Hn2 | exact Hw3].
    + destruct vs as [|v [|v2 vs]]; [discriminate | reflexivity |].
      cbn [enum_shape_ok]. now apply existsb_false_forallb.
Qed.

Lemma wf_iface_ok t :
  interface_wf t = true -> known_commented_enum t = false -> iface_ok t = true.
Proof.
  unfold interface_wf, names_ok, known_commented_enum, iface_ok. intros Hw Hk.
  apply andb_true_iff in Hw. destruct Hw as [Hw He]. apply andb_true_iff in Hw. destruct Hw as [Hw Hm].
  apply andb_true_iff in Hw. destruct Hw as [Hw Ht]. apply andb_true_iff in Hw. destruct Hw as [Hn Hc].
  apply andb_true_iff in Hn. destruct Hn as [Hn Hne]. apply andb_true_iff in Hn. destruct Hn as [Hn Hnm].
  apply andb_true_iff in Hn. destruct Hn as [Hni Hnt].
  rewrite Hni, Hc. cbn [andb].
  apply andb_true_iff. split; [apply andb_true_iff; split|].
  - apply forallb_forall. intros c Hin. rewrite forallb_forall in Hnt, Ht.
    apply wf_custom_ok; [now apply Hnt | now apply Ht|].
    destruct (match c with CEnum _ ((_ :: _ :: _) as vs) _ => existsb has_comments vs | _ => false end) eqn:E;
      [|reflexivity].
    assert (Hex : existsb (fun c0 => match c0 with CEnum _ ((_ :: _ :: _) as vs) _ => existsb has_comments vs
                                                | _ => false end) (itypes t) = true)
      by (apply existsb_exists; exists c; auto).
    congruence.
  - apply forallb_forall. intros m Hin. rewrite forallb_forall in Hnm, Hm.
    specialize (Hnm m Hin). specialize (Hm m Hin). unfold method_names_ok in Hnm. unfold method_ok.
    apply andb_true_iff in Hnm. destruct Hnm as [Hnm Hn3]. apply andb_true_iff in Hnm. destruct Hnm as [Hn1 Hn2].
    apply andb_true_iff in Hm. destruct Hm as [Hm Hm3]. apply andb_true_iff in Hm. destruct Hm as [Hm1 Hm2].
    rewrite Hn1, Hm1. cbn [andb]. unfold dfield_ok. apply andb_true_iff. split; now apply forallb_and.
  - apply forallb_forall. intros e Hin. rewrite forallb_forall in Hne, He.
    specialize (Hne e Hin). specialize (He e Hin). unfold error_names_ok in Hne. unfold error_ok.
    apply andb_true_iff in Hne. destruct Hne as [Hn1 Hn2]. apply andb_true_iff in He. destruct He as [He1 He2].
    rewrite Hn1, He1. cbn [andb]. unfold dfield_ok. now apply forallb_and.
Qed.

Theorem parse_render_wf t :
  interface_wf t = true -> known_commented_enum t = false -> parse_interface (render t) = Accept t.
Proof. intros Hw Hk. apply parse_render. now apply wf_iface_ok. Qed.

Theorem render_parse_render t t' :
  interface_wf t = true -> known_commented_enum t = false ->
  parse_interface (render t) = Accept t' -> t' = t /\ render t' = render t.
Proof.
  intros Hw Hk H. rewrite parse_render_wf in H by assumption. inversion H. subst. auto.
Qed.
