(* Round trip: parsing the rendering of a description gives the description back
   (per-nonterminal lemmas on the canonical layout, then C14_parse_render). *)
From Coq Require Import Ascii String.
From ZV Require Import Common.Base gen.IdlKeywords Idl.Idl Idl.IdlParse Idl.Utf8 Idl.IdlSafe Idl.IdlExec.
Local Open Scope N_scope.

(* normalise closed string constants to byte lists *)
Ltac bsnorm :=
  repeat match goal with
         | |- context [bs ?s] => let v := eval vm_compute in (bs s) in change (bs s) with v
         end.
Ltac bsnorm_in H :=
  repeat match type of H with
         | context [bs ?s] => let v := eval vm_compute in (bs s) in change (bs s) with v in H
         end.

(* the next byte, if any, does not satisfy P *)
Definition nhd (P : byte -> bool) (r : list byte) : Prop :=
  match r with b :: _ => P b = false | [] => True end.

Definition is_ms_or_hash (b : byte) : bool := is_ms b || (b =? 35).
Definition is_name_cont (b : byte) : bool := is_alnum b || (b =? 95).

Definition startok := nhd is_ms_or_hash.     (* ws / whitespace_only / comments stop here *)
Definition nfollow := nhd is_name_cont.      (* a field name ends here *)
Definition tfollow := nhd is_alnum.          (* a type name ends here *)

(* ------------------------------------------------------------------ monad equations *)

Lemma bind_ok {A B} (p : parser A) (f : A -> parser B) i a i' :
  p i = (Ok a, i') -> bind p f i = f a i'.
Proof. intros H. unfold bind. now rewrite H. Qed.

Lemma bind_back {A B} (p : parser A) (f : A -> parser B) i i' :
  p i = (Back, i') -> bind p f i = (Back, i').
Proof. intros H. unfold bind. now rewrite H. Qed.

Lemma alt2_ok {A} (p q : parser A) i a i' : p i = (Ok a, i') -> alt2 p q i = (Ok a, i').
Proof. intros H. unfold alt2. now rewrite H. Qed.

Lemma alt2_back {A} (p q : parser A) i i' : p i = (Back, i') -> alt2 p q i = q i.
Proof. intros H. unfold alt2. now rewrite H. Qed.

Lemma pmap_ok {A B} (f : A -> B) (p : parser A) i a i' : p i = (Ok a, i') -> pmap f p i = (Ok (f a), i').
Proof. intros H. unfold pmap. erewrite bind_ok by exact H. reflexivity. Qed.

Lemma pmap_back {A B} (f : A -> B) (p : parser A) i i' : p i = (Back, i') -> pmap f p i = (Back, i').
Proof. intros H. unfold pmap. now apply bind_back. Qed.

(* one step of symbolic execution: the first parser of a bind succeeds, as shown by t *)
Tactic Notation "step" tactic3(t) := (erewrite bind_ok; [ | solve [t] ]); cbv beta.
Tactic Notation "stepback" tactic3(t) := (erewrite bind_back; [ | solve [t] ]); cbv beta.

(* ------------------------------------------------------------------ literals *)

Lemma strip_prefix_self p r : strip_prefix p (p ++ r) = Some r.
Proof. induction p as [|a p IH]; cbn; [reflexivity|]. now rewrite N.eqb_refl. Qed.

Lemma literal_app p r : literal p (p ++ r) = (Ok tt, r).
Proof. unfold literal. now rewrite strip_prefix_self. Qed.

Lemma try_literal_app p r : try_literal p (p ++ r) = (Ok true, r).
Proof. unfold try_literal. now rewrite strip_prefix_self. Qed.

(* first byte differs *)
Lemma literal_hd_fail a p b r : (a =? b) = false -> literal (a :: p) (b :: r) = (Back, b :: r).
Proof. intros H. unfold literal. cbn. now rewrite H. Qed.

Lemma try_literal_hd_fail a p b r : (a =? b) = false -> try_literal (a :: p) (b :: r) = (Ok false, b :: r).
Proof. intros H. unfold try_literal. cbn. now rewrite H. Qed.

Lemma literal_nil_fail a p : literal (a :: p) [] = (Back, []).
Proof. reflexivity. Qed.

(* ------------------------------------------------------------------ blanks *)

Lemma span_all f a r : Forall (fun c => f c = true) a -> nhd f r -> span f (a ++ r) = (a, r).
Proof.
  induction 1 as [|c a Hc Ha IH]; cbn; intros Hr.
  - destruct r as [|b r]; cbn in *; [reflexivity|]. now rewrite Hr.
  - rewrite Hc, IH; auto.
Qed.

Lemma span_none f r : nhd f r -> span f r = ([], r).
Proof. intros H. apply (span_all f [] r); [constructor | exact H]. Qed.

Lemma take_while0_all f a r :
  Forall (fun c => f c = true) a -> nhd f r -> take_while0 f (a ++ r) = (Ok a, r).
Proof. intros. unfold take_while0. now rewrite span_all. Qed.

Lemma take_while1_all f a r :
  a <> [] -> Forall (fun c => f c = true) a -> nhd f r -> take_while1 f (a ++ r) = (Ok a, r).
Proof. intros Hne Ha Hr. unfold take_while1. rewrite span_all; auto. destruct a; [congruence | reflexivity]. Qed.

Definition blanks (g : list byte) : Prop := Forall (fun c => is_ms c = true) g.

Lemma startok_ms r : startok r -> nhd is_ms r.
Proof.
  destruct r as [|b r]; cbn; [auto|]. unfold is_ms_or_hash. intros H. apply orb_false_iff in H. tauto.
Qed.

Lemma skip_ms_blanks g r : blanks g -> nhd is_ms r -> skip_ms (g ++ r) = r.
Proof. intros Hg Hr. unfold skip_ms. now rewrite span_all. Qed.

Lemma skip_ms_none r : nhd is_ms r -> skip_ms r = r.
Proof. intros Hr. apply (skip_ms_blanks [] r); [constructor | exact Hr]. Qed.

Lemma whitespace_only_blanks g r : blanks g -> nhd is_ms r -> whitespace_only (g ++ r) = (Ok tt, r).
Proof. intros. unfold whitespace_only. now rewrite skip_ms_blanks. Qed.

Lemma whitespace_only_none r : nhd is_ms r -> whitespace_only r = (Ok tt, r).
Proof. intros. unfold whitespace_only. now rewrite skip_ms_none. Qed.

Lemma ws_loop_stop fuel r : startok r -> ws_loop (S fuel) r = (Ok tt, r).
Proof.
  intros H. cbn [ws_loop]. rewrite skip_ms_none by now apply startok_ms.
  destruct r as [|b r]; [reflexivity|].
  cbn in H. unfold is_ms_or_hash in H. apply orb_false_iff in H. destruct H as [_ H]. rewrite H.
  now rewrite Nat.eqb_refl.
Qed.

Lemma ws_none r : startok r -> ws r = (Ok tt, r).
Proof. intros H. unfold ws. now apply ws_loop_stop. Qed.

Lemma ws_blanks g r : blanks g -> startok r -> ws (g ++ r) = (Ok tt, r).
Proof.
  intros Hg Hr. destruct g as [|c g]; [now apply ws_none|].
  unfold ws. cbn [ws_loop]. rewrite skip_ms_blanks; auto using startok_ms.
  assert (E : (match r with b :: r0 => if b =? 35 then skip_line r0 else r | [] => r end) = r).
  { destruct r as [|b r]; [reflexivity|]. cbn in Hr. unfold is_ms_or_hash in Hr.
    apply orb_false_iff in Hr. destruct Hr as [_ Hr]. now rewrite Hr. }
  rewrite E.
  destruct (Nat.eqb (length r) (length ((c :: g) ++ r))) eqn:El.
  { apply Nat.eqb_eq in El. rewrite app_length in El. cbn in El. lia. }
  destruct (length ((c :: g) ++ r)) eqn:En; [cbn in En; lia|].
  now apply ws_loop_stop.
Qed.

(* ------------------------------------------------------------------ names *)

Lemma valid_alnum_list l : forallb is_alnum l = true -> Forall ascii l.
Proof.
  intros H. apply Forall_forall. intros x Hx. rewrite forallb_forall in H.
  apply is_alnum_ascii. now apply H.
Qed.

Lemma type_name_app n r : type_name_ok n = true -> tfollow r -> type_name (n ++ r) = (Ok n, r).
Proof.
  destruct n as [|b n]; cbn; [discriminate|]. intros H Hr. apply andb_true_iff in H. destruct H as [Hb Hn].
  rewrite Hb. rewrite span_all; auto.
  - unfold bytes_to_str. rewrite valid_ascii; [reflexivity|].
    constructor; [now apply is_upper_ascii | now apply valid_alnum_list].
  - apply Forall_forall. intros x Hx. rewrite forallb_forall in Hn. now apply Hn.
Qed.

Lemma type_name_fail b r : is_upper b = false -> type_name (b :: r) = (Back, b :: r).
Proof. intros H. cbn. now rewrite H. Qed.

(* field_tail consumes exactly a legal tail *)
Lemma field_tail_app : forall k n r, (length n <= k)%nat ->
  field_tail_ok n = true -> nfollow r -> field_tail (n ++ r) = (n, r) /\ Forall ascii n.
Proof.
  induction k as [|k IH]; intros n r Hk Hn Hr.
  - destruct n; [|cbn in Hk; lia]. cbn [app]. split; [|constructor].
    destruct r as [|b r]; [reflexivity|]. cbn in Hr |- *. unfold is_name_cont in Hr.
    apply orb_false_iff in Hr. destruct Hr as [H1 H2]. rewrite H1, H2. reflexivity.
  - destruct n as [|b n].
    { cbn [app]. split; [|constructor].
      destruct r as [|c r]; [reflexivity|]. cbn in Hr |- *. unfold is_name_cont in Hr.
      apply orb_false_iff in Hr. destruct Hr as [H1 H2]. rewrite H1, H2. reflexivity. }
    cbn [length] in Hk. cbn [field_tail_ok] in Hn. cbn [app field_tail].
    destruct (is_alnum b) eqn:Eb.
    + destruct (IH n r ltac:(lia) Hn Hr) as [E Ha]. rewrite E. split; [reflexivity|].
      constructor; [now apply is_alnum_ascii | exact Ha].
    + destruct (b =? 95) eqn:E95; [|discriminate].
      destruct n as [|c n]; [discriminate|]. apply andb_true_iff in Hn. destruct Hn as [Hc Hn].
      cbn [app]. rewrite Hc. cbn [length] in Hk.
      destruct (IH n r ltac:(lia) Hn Hr) as [E Ha]. rewrite E. split; [reflexivity|].
      nb. subst b. constructor; [reflexivity|]. constructor; [now apply is_alnum_ascii | exact Ha].
Qed.

Lemma field_name_app n r : field_name_ok n = true -> nfollow r -> field_name (n ++ r) = (Ok n, r).
Proof.
  destruct n as [|b n]; cbn [field_name_ok]; [discriminate|]. intros H Hr.
  apply andb_true_iff in H. destruct H as [Hb Hn]. cbn [app field_name]. rewrite Hb.
  destruct (field_tail_app (length n) n r (le_n _) Hn Hr) as [E Ha]. rewrite E.
  unfold bytes_to_str. rewrite valid_ascii; [reflexivity|]. constructor; [now apply is_alpha_ascii | exact Ha].
Qed.

Lemma field_name_fail b r : is_alpha b = false -> field_name (b :: r) = (Back, b :: r).
Proof. intros H. cbn. now rewrite H. Qed.

Lemma field_name_ok_hd n : field_name_ok n = true -> exists b n', n = b :: n' /\ is_alpha b = true.
Proof.
  destruct n as [|b n]; cbn; [discriminate|]. intros H. apply andb_true_iff in H. destruct H. eauto.
Qed.

Lemma type_name_ok_hd n : type_name_ok n = true -> exists b n', n = b :: n' /\ is_upper b = true.
Proof.
  destruct n as [|b n]; cbn; [discriminate|]. intros H. apply andb_true_iff in H. destruct H. eauto.
Qed.

(* ------------------------------------------------------------------ comments *)

(* a comment line as rendered: "# " text LF, followed by blanks g *)
Lemma comment_def_line c r :
  comment_ok c = true -> comment_def (bs "# " ++ c ++ 10 :: r) = (Ok c, 10 :: r).
Proof.
  intros Hc. unfold comment_ok in Hc. apply andb_true_iff in Hc. destruct Hc as [Hc Hlead].
  apply andb_true_iff in Hc. destruct Hc as [Hval Hnl]. apply negb_true_iff in Hnl.
  assert (Hsp : skip_sp_tab (32 :: c ++ 10 :: r) = (Ok tt, c ++ 10 :: r)).
  { unfold skip_sp_tab. cbn. destruct c as [|b c]; cbn; [reflexivity|]. apply negb_true_iff in Hlead. now rewrite Hlead. }
  assert (Hline1 : Forall (fun x : byte => negb (x =? 10) && negb (x =? 13) = true) c).
  { apply Forall_forall. intros x Hx.
    destruct (negb (x =? 10) && negb (x =? 13)) eqn:E; [reflexivity|].
    exfalso. assert (Hex : existsb (fun b => (b =? 10) || (b =? 13)) c = true).
    { apply existsb_exists. exists x. split; [exact Hx|].
      apply andb_false_iff in E. destruct E as [E|E]; apply negb_false_iff in E; rewrite E;
        [reflexivity | apply orb_true_r]. }
    congruence. }
  unfold comment_def. bsnorm. cbn [app].
  step (apply (literal_app [35])).
  step (exact Hsp).
  step (apply take_while0_all; [exact Hline1 | reflexivity]).
  unfold bytes_to_str. now rewrite Hval.
Qed.

(* comment lines each followed by LF and then blanks g *)
Definition comment_block (g : list byte) (cs : list comment) : list byte :=
  flat_map (fun c => bs "# " ++ c ++ 10 :: g) cs.

Lemma comment_block_cons g c cs r :
  comment_block g (c :: cs) ++ r = bs "# " ++ c ++ 10 :: g ++ comment_block g cs ++ r.
Proof.
  unfold comment_block. cbn [flat_map]. rewrite <- !app_assoc. cbn [app]. reflexivity.
Qed.

Lemma ppc_loop_block : forall cs fuel g r,
  forallb comment_ok cs = true -> blanks g -> startok r ->
  (length (comment_block g cs ++ r) < fuel)%nat ->
  ppc_loop fuel (comment_block g cs ++ r) = (Ok cs, r).
Proof.
  induction cs as [|c cs IH]; intros fuel g r Hcs Hg Hr Hf.
  - cbn [comment_block flat_map app] in *. destruct fuel as [|fuel]; [lia|].
    cbn [ppc_loop]. destruct r as [|b r]; [reflexivity|].
    rewrite skip_ms_none by now apply startok_ms.
    assert (Hb : (35 =? b) = false).
    { cbn in Hr. unfold is_ms_or_hash in Hr. apply orb_false_iff in Hr. destruct Hr as [_ Hr].
      rewrite N.eqb_sym. exact Hr. }
    unfold comment_def. erewrite bind_back by (bsnorm; apply literal_hd_fail; exact Hb). reflexivity.
  - cbn [forallb] in Hcs. apply andb_true_iff in Hcs. destruct Hcs as [Hc Hcs].
    destruct fuel as [|fuel]; [lia|].
    rewrite comment_block_cons in Hf |- *.
    set (tail := comment_block g cs ++ r) in *.
    assert (Htail : nhd is_ms tail).
    { subst tail. destruct cs as [|c' cs']; [now apply startok_ms|]. rewrite comment_block_cons. reflexivity. }
    bsnorm. cbn [app ppc_loop].
    rewrite skip_ms_none by reflexivity. cbv iota.
    change (35 :: 32 :: c ++ 10 :: g ++ tail) with (bs "# " ++ c ++ 10 :: (g ++ tail)).
    rewrite comment_def_line by exact Hc.
    change (10 :: g ++ tail) with ((10 :: g) ++ tail).
    rewrite skip_ms_blanks; [|constructor; [reflexivity | exact Hg] | exact Htail].
    subst tail. rewrite (IH fuel g r Hcs Hg Hr); [reflexivity|].
    rewrite !app_length in *. cbn [length] in *. rewrite !app_length in Hf. lia.
Qed.

Lemma ppc_block g cs r :
  forallb comment_ok cs = true -> blanks g -> startok r ->
  parse_preceding_comments (comment_block g cs ++ r) = (Ok cs, r).
Proof. intros. unfold parse_preceding_comments. apply ppc_loop_block; auto. Qed.

Lemma render_comments_block cs : render_comments cs = comment_block [] cs.
Proof.
  unfold render_comments, comment_block, render_comment, NL. induction cs as [|c cs IH]; cbn [flat_map]; [reflexivity|].
  rewrite IH. now rewrite <- !app_assoc.
Qed.

Lemma ppc_render cs r :
  forallb comment_ok cs = true -> startok r ->
  parse_preceding_comments (render_comments cs ++ r) = (Ok cs, r).
Proof. intros. rewrite render_comments_block. apply ppc_block; auto. constructor. Qed.

Lemma ppc_nil r : startok r -> parse_preceding_comments r = (Ok [], r).
Proof. intros H. apply (ppc_render [] r); auto. Qed.

(* ------------------------------------------------------------------ follow sets *)

(* the rest starts with ',' or ')' *)
Definition delim (x : list byte) : Prop :=
  match x with b :: _ => b = 44 \/ b = 41 | [] => False end.

Lemma delim_startok x : delim x -> startok x.
Proof. destruct x as [|b x]; cbn; [tauto|]. intros [H|H]; subst; reflexivity. Qed.
Lemma delim_nfollow x : delim x -> nfollow x.
Proof. destruct x as [|b x]; cbn; [tauto|]. intros [H|H]; subst; reflexivity. Qed.
Lemma delim_tfollow x : delim x -> tfollow x.
Proof. destruct x as [|b x]; cbn; [tauto|]. intros [H|H]; subst; reflexivity. Qed.
Lemma delim_comma x : delim (44 :: x). Proof. cbn. auto. Qed.
Lemma delim_rparen x : delim (41 :: x). Proof. cbn. auto. Qed.

Lemma alpha_startok b x : is_alpha b = true -> startok (b :: x).
Proof.
  intros H. cbn. unfold is_ms_or_hash, is_ms. unfold is_alpha, is_upper, is_lower in H.
  apply orb_true_iff in H. destruct H as [H|H]; nb;
    repeat (apply orb_false_iff; split); apply N.eqb_neq; lia.
Qed.

Lemma upper_alpha b : is_upper b = true -> is_alpha b = true.
Proof. intros H. unfold is_alpha. now rewrite H. Qed.

Lemma neq_of_class (P : byte -> bool) a b : P a = true -> P b = false -> (a =? b) = false.
Proof. intros Ha Hb. apply N.eqb_neq. intros E. subst. congruence. Qed.

(* ------------------------------------------------------------------ primitive_type *)

Lemma prim_alt_fail : forall kws b r,
  Forall (fun kc : list byte * N => match fst kc with a :: _ => (a =? b) = false | [] => False end) kws ->
  prim_alt kws (b :: r) = (Back, b :: r).
Proof.
  induction kws as [|[k c] kws IH]; intros b r H; cbn [prim_alt]; [reflexivity|].
  inversion H as [|? ? H1 H2]; subst. cbn in H1. destruct k as [|a k]; [tauto|].
  assert (E : pmap (fun _ : unit => prim_of_code c) (literal (a :: k)) (b :: r) = (Back, b :: r))
    by (apply pmap_back, literal_hd_fail; exact H1).
  destruct kws as [|kc kws']; [exact E|]. rewrite (alt2_back _ _ _ _ E). now apply IH.
Qed.

Lemma kw_prims_lower :
  Forall (fun kc : list byte * N => match fst kc with a :: _ => is_lower a = true | [] => False end) kw_prims.
Proof. repeat constructor. Qed.

Lemma primitive_type_fail b r : is_lower b = false -> primitive_type (b :: r) = (Back, b :: r).
Proof.
  intros Hb. unfold primitive_type. apply pmap_back. apply prim_alt_fail.
  eapply Forall_impl; [|apply kw_prims_lower]. intros [k c]. cbn. destruct k as [|a k]; [tauto|].
  intros Ha. now apply (neq_of_class is_lower).
Qed.

Lemma primitive_type_render p r : primitive_type (render_prim p ++ r) = (Ok (TPrim p), r).
Proof. destruct p; reflexivity. Qed.

Lemma render_prim_hd p : exists b l, render_prim p = b :: l /\ is_lower b = true.
Proof. destruct p; eexists; eexists; split; reflexivity. Qed.

(* ------------------------------------------------------------------ the type parsers *)

Definition V (fuel : nat) : parser ty := varlink_type_f fuel.

Lemma V_S fuel i : V (S fuel) i = alt2 (optional_type (V fuel)) (non_optional_type (V fuel)) i.
Proof. reflexivity. Qed.

Lemma optional_fail vt b r : (63 =? b) = false -> optional_type vt (b :: r) = (Back, b :: r).
Proof. intros H. unfold optional_type. apply bind_back. now apply literal_hd_fail. Qed.

Lemma V_nonopt fuel b r : (63 =? b) = false -> V (S fuel) (b :: r) = non_optional_type (V fuel) (b :: r).
Proof. intros H. rewrite V_S. eapply alt2_back. now apply optional_fail. Qed.

Lemma array_fail vt b r : (91 =? b) = false -> array_type vt (b :: r) = (Back, b :: r).
Proof. intros H. unfold array_type. apply bind_back. now apply literal_hd_fail. Qed.
Lemma map_fail vt b r : (91 =? b) = false -> map_type vt (b :: r) = (Back, b :: r).
Proof. intros H. unfold map_type. apply bind_back. now apply literal_hd_fail. Qed.

(* on an input that starts neither with '[' : non_optional_type is element_type *)
Lemma nonopt_element vt b r : (91 =? b) = false ->
  non_optional_type vt (b :: r) = element_type vt (b :: r).
Proof.
  intros H. unfold non_optional_type.
  rewrite (alt2_back _ _ _ _ (array_fail vt b r H)). now rewrite (alt2_back _ _ _ _ (map_fail vt b r H)).
Qed.

Definition is_topt (t : ty) : bool := match t with TOpt _ => true | _ => false end.
Definition tywf (t : ty) : bool := ty_names_ok t && ty_wf t.

(* the first byte of a rendered well-formed type *)
Definition type_start (b : byte) : bool :=
  is_alpha b || (b =? 63) || (b =? 91) || (b =? 40).

Lemma type_start_startok b x : type_start b = true -> startok (b :: x).
Proof.
  unfold type_start. intros H.
  apply orb_true_iff in H. destruct H as [H|H]; [|nb; subst; reflexivity].
  apply orb_true_iff in H. destruct H as [H|H]; [|nb; subst; reflexivity].
  apply orb_true_iff in H. destruct H as [H|H]; [|nb; subst; reflexivity].
  now apply alpha_startok.
Qed.

Lemma lower_alpha b : is_lower b = true -> is_alpha b = true.
Proof. intros H. unfold is_alpha. rewrite H. apply orb_true_r. Qed.

Lemma render_ty_hd t x : tywf t = true -> exists b l, render_ty t ++ x = b :: l /\ type_start b = true.
Proof.
  unfold tywf. intros H. apply andb_true_iff in H. destruct H as [Hn Hw].
  destruct t; cbn [render_ty].
  - destruct (render_prim_hd p) as (b & l & E & Hb). rewrite E. exists b, (l ++ x). split; [reflexivity|].
    unfold type_start. now rewrite (lower_alpha b Hb).
  - eexists; eexists; split; reflexivity.
  - eexists; eexists; split; reflexivity.
  - eexists; eexists; split; reflexivity.
  - cbn in Hn. destruct (type_name_ok_hd n Hn) as (b & l & E & Hb). subst n.
    exists b, (l ++ x). split; [reflexivity|]. unfold type_start. now rewrite (upper_alpha b Hb).
  - unfold render_enum_body. destruct (existsb has_comments vs); eexists; eexists; split; reflexivity.
  - eexists; eexists; split; reflexivity.
Qed.

Lemma render_ty_startok t x : tywf t = true -> startok (render_ty t ++ x).
Proof.
  intros H. destruct (render_ty_hd t x H) as (b & l & E & Hb). rewrite E. now apply type_start_startok.
Qed.

(* ---- inline enum: names separated by ", " *)

Definition names_tail (ns : list name) : list byte := flat_map (fun n => bs ", " ++ n) ns.

Lemma comma_sep_comma_sp x : startok x -> comma_sep (bs ", " ++ x) = (Ok tt, x).
Proof.
  intros Hx. unfold comma_sep. bsnorm. cbn [app].
  step (apply ws_none; reflexivity).
  step (apply (literal_app [44])).
  apply (ws_blanks [32]); [repeat constructor | exact Hx].
Qed.

Lemma comma_sep_rparen x : comma_sep (41 :: x) = (Back, 41 :: x).
Proof.
  unfold comma_sep. step (apply ws_none; reflexivity).
  apply bind_back. bsnorm. now apply literal_hd_fail.
Qed.

Lemma sep_loop_names : forall ns fuel x,
  forallb field_name_ok ns = true ->
  (length (names_tail ns ++ 41%N :: x) < fuel)%nat ->
  sep_loop fuel field_name comma_sep (names_tail ns ++ 41 :: x) = (Ok ns, 41 :: x).
Proof.
  induction ns as [|n ns IH]; intros fuel x Hns Hf; (destruct fuel as [|fuel]; [lia|]).
  - cbn [names_tail flat_map app sep_loop]. now rewrite comma_sep_rparen.
  - cbn [forallb] in Hns. apply andb_true_iff in Hns. destruct Hns as [Hn Hns].
    cbn [names_tail flat_map] in *. rewrite <- !app_assoc in *.
    fold (names_tail ns) in *.
    destruct (field_name_ok_hd n Hn) as (b & n' & En & Hb).
    assert (Hd : delim (names_tail ns ++ 41 :: x)).
    { destruct ns as [|n2 ns2]; [apply delim_rparen|]. cbn [names_tail flat_map]. bsnorm. apply delim_comma. }
    cbn [sep_loop].
    rewrite comma_sep_comma_sp.
    2:{ subst n. apply alpha_startok. exact Hb. }
    assert (El : Nat.eqb (length (n ++ names_tail ns ++ 41 :: x))
                         (length (bs ", " ++ n ++ names_tail ns ++ 41 :: x)) = false).
    { apply Nat.eqb_neq. bsnorm. cbn [app length]. lia. }
    rewrite El. rewrite field_name_app; [|exact Hn | now apply delim_nfollow].
    rewrite IH; [reflexivity | exact Hns|].
    bsnorm_in Hf. cbn [app length] in Hf. rewrite app_length in Hf. lia.
Qed.

Lemma render_enum_single vs :
  forallb (fun v => negb (has_comments v)) vs = true ->
  render_enum_body vs = bs "(" ++ join comma_sp (List.map vname vs) ++ bs ")".
Proof.
  intros H. unfold render_enum_body.
  assert (E : existsb has_comments vs = false).
  { induction vs as [|v vs IH]; [reflexivity|]. cbn in H |- *. apply andb_true_iff in H. destruct H as [H1 H2].
    apply negb_true_iff in H1. rewrite H1. now apply IH. }
  rewrite E. f_equal. f_equal. f_equal. clear E.
  induction vs as [|v vs IH]; [reflexivity|]. cbn in H |- *. apply andb_true_iff in H. destruct H as [H1 H2].
  rewrite IH by exact H2. f_equal. unfold render_variant.
  unfold has_comments in H1. destruct (vcomments v); [reflexivity | discriminate].
Qed.

Lemma join_names n ns : join comma_sp (n :: ns) = n ++ names_tail ns.
Proof. reflexivity. Qed.

Lemma variants_of_names vs :
  forallb (fun v => negb (has_comments v)) vs = true ->
  List.map (fun n => mkVariant n []) (List.map vname vs) = vs.
Proof.
  induction vs as [|[n cs] vs IH]; cbn; [reflexivity|]. intros H. apply andb_true_iff in H. destruct H as [H1 H2].
  rewrite IH by exact H2. unfold has_comments in H1. cbn in H1. destruct cs; [reflexivity | discriminate].
Qed.

(* enum_type on "(" n1 ", " n2 ... ")" *)
Lemma enum_type_names n ns x :
  forallb field_name_ok (n :: ns) = true ->
  enum_type (40 :: n ++ names_tail ns ++ 41 :: x)
  = (Ok (TEnum (List.map (fun m => mkVariant m []) (n :: ns))), x).
Proof.
  intros Hns. cbn [forallb] in Hns. apply andb_true_iff in Hns. destruct Hns as [Hn Hns].
  destruct (field_name_ok_hd n Hn) as (b & n' & En & Hb).
  assert (Hd : delim (names_tail ns ++ 41 :: x)).
  { destruct ns as [|n2 ns2]; [apply delim_rparen|]. cbn [names_tail flat_map]. bsnorm. apply delim_comma. }
  unfold enum_type. bsnorm.
  step (apply (literal_app [40])).
  step (apply ws_none; subst n; now apply alpha_startok).
  step (unfold separated1; rewrite field_name_app by (auto using delim_nfollow);
        rewrite sep_loop_names by (auto; lia); reflexivity).
  step (apply ws_none; reflexivity).
  step (apply (literal_app [41])).
  reflexivity.
Qed.

(* struct_type backs off on an enum text: the first name is followed by ',' or ')' *)
Lemma field_p_back_on_name vt n x :
  field_name_ok n = true -> delim x -> exists j, field_p vt (n ++ x) = (Back, j).
Proof.
  intros Hn Hx. destruct (field_name_ok_hd n Hn) as (b & n' & En & Hb).
  unfold field_p.
  erewrite bind_ok by (apply ppc_nil; subst n; now apply alpha_startok). cbv beta.
  erewrite bind_ok by (apply field_name_app; auto using delim_nfollow). cbv beta.
  erewrite bind_ok by (apply ws_none; now apply delim_startok). cbv beta.
  destruct x as [|c x]; [destruct Hx|]. eexists. apply bind_back. bsnorm. apply literal_hd_fail.
  destruct Hx; subst; reflexivity.
Qed.

Lemma struct_type_back_on_enum vt n ns x :
  forallb field_name_ok (n :: ns) = true ->
  exists j, struct_type vt (40 :: n ++ names_tail ns ++ 41 :: x) = (Back, j).
Proof.
  intros Hns. cbn [forallb] in Hns. apply andb_true_iff in Hns. destruct Hns as [Hn Hns].
  destruct (field_name_ok_hd n Hn) as (b & n' & En & Hb).
  assert (Hd : delim (names_tail ns ++ 41 :: x)).
  { destruct ns as [|n2 ns2]; [apply delim_rparen|]. cbn [names_tail flat_map]. bsnorm. apply delim_comma. }
  destruct (field_p_back_on_name vt n _ Hn Hd) as [j Hj].
  unfold struct_type. bsnorm.
  erewrite bind_ok by (apply (literal_app [40])). cbv beta.
  erewrite bind_ok by (apply ws_none; subst n; now apply alpha_startok). cbv beta.
  erewrite bind_ok by (unfold separated0; rewrite Hj; reflexivity). cbv beta.
  erewrite bind_ok by (apply ws_none; subst n; now apply alpha_startok). cbv beta.
  eexists. apply bind_back. subst n. cbn [app]. apply literal_hd_fail.
  apply (neq_of_class (fun c => c =? 41)); [reflexivity|].
  unfold is_alpha, is_upper, is_lower in Hb. apply N.eqb_neq. intros E. subst b. discriminate.
Qed.

(* ---- inline struct: fields separated by ", " *)

Definition fields_tail (fs : list field) : list byte := flat_map (fun f => bs ", " ++ render_field f) fs.

Lemma flat_map_map {X Y Z} (g : Y -> list Z) (h : X -> Y) l :
  flat_map g (List.map h l) = flat_map (fun x => g (h x)) l.
Proof. induction l as [|a l IH]; cbn; [reflexivity|]. now rewrite IH. Qed.

Lemma render_fields_cons f fs : render_fields (f :: fs) = render_field f ++ fields_tail fs.
Proof. unfold render_fields, fields_tail. cbn [List.map join]. now rewrite flat_map_map. Qed.

Lemma delim_fields_tail fs x : delim (fields_tail fs ++ 41 :: x).
Proof. destruct fs as [|f fs]; [apply delim_rparen|]. cbn [fields_tail flat_map]. bsnorm. apply delim_comma. Qed.

Section StructLoop.
  Variable vt : parser ty.
  Variable L : nat.

  Definition field_good (f : field) : Prop :=
    field_name_ok (fname f) = true /\ fcomments f = [] /\ tywf (fty f) = true /\
    forall x, delim x -> (length (render_ty (fty f) ++ x) <= L)%nat ->
              vt (render_ty (fty f) ++ x) = (Ok (fty f), x).

  Lemma render_field_nocomment f :
    fcomments f = [] -> render_field f = fname f ++ bs ": " ++ render_ty (fty f).
  Proof. intros H. unfold render_field, render_field_with. now rewrite H. Qed.

  Lemma field_p_render f x :
    field_good f -> delim x -> (length (render_field f ++ x) <= L)%nat ->
    field_p vt (render_field f ++ x) = (Ok f, x).
  Proof.
    intros (Hn & Hc & Hw & Hvt) Hx Hl. rewrite render_field_nocomment in * by exact Hc.
    destruct (field_name_ok_hd _ Hn) as (b & n' & En & Hb).
    rewrite <- !app_assoc in *. unfold field_p.
    step (apply ppc_nil; rewrite En; now apply alpha_startok).
    step (apply field_name_app; [exact Hn | bsnorm; reflexivity]).
    bsnorm. cbn [app].
    step (apply ws_none; reflexivity).
    step (apply (literal_app [58])).
    step (apply (ws_blanks [32]); [repeat constructor | now apply render_ty_startok]).
    step (apply Hvt; [exact Hx|]; rewrite !app_length in Hl |- *; lia).
    unfold ret. destruct f as [n t cs]. cbn in *. now subst cs.
  Qed.

  Lemma sep_loop_fields : forall fs fuel x,
    Forall field_good fs ->
    (length (fields_tail fs ++ 41%N :: x) < fuel)%nat ->
    (length (fields_tail fs ++ 41%N :: x) <= L)%nat ->
    sep_loop fuel (field_p vt) comma_sep (fields_tail fs ++ 41 :: x) = (Ok fs, 41 :: x).
  Proof.
    induction fs as [|f fs IH]; intros fuel x Hfs Hf HL; (destruct fuel as [|fuel]; [lia|]).
    - cbn [fields_tail flat_map app sep_loop]. now rewrite comma_sep_rparen.
    - inversion Hfs as [|? ? Hg Hfs']; subst.
      cbn [fields_tail flat_map] in *. rewrite <- !app_assoc in *. fold (fields_tail fs) in *.
      pose proof (delim_fields_tail fs x) as Hd.
      assert (Hst : startok (render_field f ++ fields_tail fs ++ 41 :: x)).
      { destruct Hg as (Hn & Hc & _). rewrite render_field_nocomment by exact Hc.
        destruct (field_name_ok_hd _ Hn) as (b & n' & En & Hb). rewrite En. cbn [app]. now apply alpha_startok. }
      cbn [sep_loop]. rewrite comma_sep_comma_sp by exact Hst.
      assert (El : Nat.eqb (length (render_field f ++ fields_tail fs ++ 41 :: x))
                           (length (bs ", " ++ render_field f ++ fields_tail fs ++ 41 :: x)) = false).
      { apply Nat.eqb_neq. bsnorm. cbn [app length]. lia. }
      rewrite El.
      bsnorm_in Hf. bsnorm_in HL. cbn [app length] in Hf, HL.
      rewrite field_p_render; [|exact Hg | exact Hd | lia].
      rewrite IH; [reflexivity | exact Hfs' | |]; rewrite app_length in *; lia.
  Qed.

  Lemma struct_type_render fs x :
    Forall field_good fs ->
    (length (render_fields fs ++ 41%N :: x) <= L)%nat ->
    struct_type vt (40 :: render_fields fs ++ 41 :: x) = (Ok (TStruct fs), x).
  Proof.
    intros Hfs HL. unfold struct_type. bsnorm.
    step (apply (literal_app [40])).
    destruct fs as [|f fs].
    - cbn [render_fields List.map join app].
      step (apply ws_none; reflexivity).
      step (unfold separated0, field_p;
            erewrite bind_ok by (apply ppc_nil; reflexivity); cbv beta;
            erewrite bind_back by (apply field_name_fail; reflexivity); reflexivity).
      step (apply ws_none; reflexivity).
      step (apply (literal_app [41])).
      reflexivity.
    - inversion Hfs as [|? ? Hg Hfs']; subst.
      rewrite render_fields_cons in *. rewrite <- !app_assoc in *.
      pose proof (delim_fields_tail fs x) as Hd.
      assert (Hst : startok (render_field f ++ fields_tail fs ++ 41 :: x)).
      { destruct Hg as (Hn & Hc & _). rewrite render_field_nocomment by exact Hc.
        destruct (field_name_ok_hd _ Hn) as (b & n' & En & Hb). rewrite En. cbn [app]. now apply alpha_startok. }
      step (apply ws_none; exact Hst).
      step (unfold separated0; rewrite field_p_render by (auto; lia);
            rewrite sep_loop_fields by (auto; rewrite app_length in *; lia); reflexivity).
      step (apply ws_none; reflexivity).
      step (apply (literal_app [41])).
      reflexivity.
  Qed.
End StructLoop.

(* ---- the type-level round trip *)

Lemma tywf_struct fs : tywf (TStruct fs) = true ->
  Forall (fun f => field_name_ok (fname f) = true /\ fcomments f = [] /\ tywf (fty f) = true) fs.
Proof.
  unfold tywf. cbn [ty_names_ok ty_wf]. intros H. apply andb_true_iff in H. destruct H as [Hn Hw].
  apply Forall_forall. intros f Hf. rewrite forallb_forall in Hn, Hw.
  specialize (Hn f Hf). specialize (Hw f Hf). apply andb_true_iff in Hn. destruct Hn as [Hn1 Hn2].
  destruct (fcomments f); [|discriminate]. rewrite Hn2, Hw. auto.
Qed.

Lemma tywf_enum vs : tywf (TEnum vs) = true ->
  vs <> [] /\ forallb (fun v => negb (has_comments v)) vs = true
  /\ forallb field_name_ok (List.map vname vs) = true.
Proof.
  unfold tywf. cbn [ty_names_ok ty_wf]. intros H. apply andb_true_iff in H. destruct H as [Hn Hw].
  destruct vs as [|v vs]; [discriminate|]. split; [discriminate|]. split; [exact Hw|].
  unfold variant_names_ok in Hn. now rewrite forallb_map.
Qed.

Lemma length_app_le {X} (a b : list X) : (length b <= length (a ++ b))%nat.
Proof. rewrite app_length. lia. Qed.

Theorem type_round_trip : forall t, tywf t = true ->
  forall fuel x, delim x -> (length (render_ty t ++ x) <= fuel)%nat ->
  (is_topt t = false -> non_optional_type (V fuel) (render_ty t ++ x) = (Ok t, x))
  /\ V (S fuel) (render_ty t ++ x) = (Ok t, x).
Proof.
  induction t as [p | t IH | t IH | t IH | n | vs | fs IH] using ty_ind2; intros Hw fuel x Hx Hl.
  - (* primitive *)
    destruct (render_prim_hd p) as (b & l & E & Hb).
    assert (H91 : (91 =? b) = false) by (apply (neq_of_class (fun c => c =? 91)); [reflexivity|];
      apply N.eqb_neq; intros ->; discriminate).
    assert (H63 : (63 =? b) = false) by (apply (neq_of_class (fun c => c =? 63)); [reflexivity|];
      apply N.eqb_neq; intros ->; discriminate).
    assert (Hno : non_optional_type (V fuel) (render_ty (TPrim p) ++ x) = (Ok (TPrim p), x)).
    { cbn [render_ty]. rewrite E. cbn [app]. rewrite nonopt_element by exact H91.
      unfold element_type. apply alt2_ok. rewrite <- app_comm_cons, <- E. apply primitive_type_render. }
    split; [intros _; exact Hno|].
    cbn [render_ty] in *. rewrite E in *. cbn [app] in *. rewrite V_nonopt by exact H63. exact Hno.
  - (* optional *)
    split; [discriminate|].
    unfold tywf in Hw. cbn [ty_names_ok ty_wf] in Hw.
    assert (Hw' : tywf t = true /\ is_topt t = false).
    { apply andb_true_iff in Hw. destruct Hw as [Hn Hw]. unfold tywf. rewrite Hn.
      destruct t; try discriminate; auto. }
    destruct Hw' as [Hwt Hno].
    cbn [render_ty] in *. rewrite <- app_assoc in *.
    rewrite V_S. apply alt2_ok. unfold optional_type.
    step (apply (literal_app kw_optional)).
    assert (Hl' : (length (render_ty t ++ x) <= fuel)%nat).
    { etransitivity; [|exact Hl]. apply length_app_le. }
    destruct (IH Hwt fuel x Hx Hl') as [IH1 _]. rewrite (bind_ok _ _ _ _ _ (IH1 Hno)). reflexivity.
  - (* array *)
    assert (Hwt : tywf t = true) by exact Hw.
    cbn [render_ty] in *. rewrite <- app_assoc in *.
    destruct fuel as [|fuel]; [cbn in Hl; lia|].
    assert (Hl' : (length (render_ty t ++ x) <= fuel)%nat) by (cbn [app length] in Hl; lia).
    destruct (IH Hwt fuel x Hx Hl') as [_ IH2].
    assert (Hno : non_optional_type (V (S fuel)) (kw_display_array ++ render_ty t ++ x) = (Ok (TArr t), x)).
    { unfold non_optional_type. apply alt2_ok. unfold array_type.
      step (apply (literal_app kw_array)). rewrite (bind_ok _ _ _ _ _ IH2). reflexivity. }
    split; [intros _; exact Hno|]. cbn [app]. rewrite V_nonopt by reflexivity. exact Hno.
  - (* map *)
    assert (Hwt : tywf t = true) by exact Hw.
    cbn [render_ty] in *. rewrite <- app_assoc in *.
    destruct fuel as [|fuel]; [cbn in Hl; lia|].
    assert (Hl' : (length (render_ty t ++ x) <= fuel)%nat) by (cbn [app length] in Hl; lia).
    destruct (IH Hwt fuel x Hx Hl') as [_ IH2].
    assert (Hno : non_optional_type (V (S fuel)) (kw_display_map ++ render_ty t ++ x) = (Ok (TMap t), x)).
    { unfold non_optional_type.
      assert (Ha : array_type (V (S fuel)) (kw_display_map ++ render_ty t ++ x)
                   = (Back, kw_display_map ++ render_ty t ++ x)) by (apply bind_back; reflexivity).
      rewrite (alt2_back _ _ _ _ Ha). apply alt2_ok. unfold map_type.
      step (apply (literal_app kw_map)). rewrite (bind_ok _ _ _ _ _ IH2). reflexivity. }
    split; [intros _; exact Hno|]. cbn [app]. rewrite V_nonopt by reflexivity. exact Hno.
  - (* custom *)
    assert (Hn : type_name_ok n = true).
    { unfold tywf in Hw. cbn in Hw. now apply andb_true_iff in Hw. }
    destruct (type_name_ok_hd n Hn) as (b & n' & En & Hb).
    assert (Hnl : is_lower b = false).
    { unfold is_upper, is_lower in *. nb. apply andb_false_iff. left. apply N.leb_gt. lia. }
    assert (H91 : (91 =? b) = false) by (unfold is_upper in Hb; nb; apply N.eqb_neq; lia).
    assert (H63 : (63 =? b) = false) by (unfold is_upper in Hb; nb; apply N.eqb_neq; lia).
    assert (Hno : non_optional_type (V fuel) (render_ty (TCustom n) ++ x) = (Ok (TCustom n), x)).
    { cbn [render_ty]. rewrite En. cbn [app]. rewrite nonopt_element by exact H91.
      unfold element_type. rewrite (alt2_back _ _ _ _ (primitive_type_fail b _ Hnl)).
      apply alt2_ok. apply pmap_ok. rewrite app_comm_cons, <- En.
      apply type_name_app; [exact Hn | now apply delim_tfollow]. }
    split; [intros _; exact Hno|].
    cbn [render_ty] in *. rewrite En in *. cbn [app] in *. rewrite V_nonopt by exact H63. exact Hno.
  - (* inline enum *)
    destruct (tywf_enum vs Hw) as (Hne & Hnc & Hnames).
    assert (Hno : non_optional_type (V fuel) (render_ty (TEnum vs) ++ x) = (Ok (TEnum vs), x)).
    { cbn [render_ty]. rewrite render_enum_single by exact Hnc.
      destruct vs as [|v vs]; [congruence|]. cbn [List.map] in *. rewrite join_names.
      bsnorm. rewrite <- !app_assoc. cbn [app].
      rewrite nonopt_element by reflexivity. unfold element_type.
      rewrite (alt2_back _ _ _ _ (primitive_type_fail 40 _ eq_refl)).
      rewrite (alt2_back _ _ _ _ (pmap_back _ _ _ _ (type_name_fail 40 _ eq_refl))).
      unfold inline_type.
      destruct (struct_type_back_on_enum (V fuel) (vname v) (List.map vname vs) x Hnames) as [j Hj].
      rewrite (alt2_back _ _ _ _ Hj).
      rewrite enum_type_names by exact Hnames.
      change (vname v :: List.map vname vs) with (List.map vname (v :: vs)).
      now rewrite variants_of_names. }
    split; [intros _; exact Hno|].
    revert Hno. cbn [render_ty]. rewrite render_enum_single by exact Hnc. bsnorm. cbn [app].
    intros Hno. rewrite V_nonopt by reflexivity. exact Hno.
  - (* inline struct *)
    pose proof (tywf_struct fs Hw) as Hfs.
    cbn [render_ty] in *. fold render_field in *. fold (render_fields fs) in *.
    bsnorm_in Hl. rewrite <- !app_assoc in Hl. cbn [app length] in Hl.
    destruct fuel as [|fuel]; [lia|].
    assert (Hgood : Forall (field_good (V (S fuel)) fuel) fs).
    { apply Forall_forall. intros f Hf. rewrite Forall_forall in IH, Hfs.
      destruct (Hfs f Hf) as (H1 & H2 & H3). repeat split; auto.
      intros y Hy Hly. now apply (IH f Hf H3 fuel y Hy Hly). }
    assert (Hno : non_optional_type (V (S fuel)) ((bs "(" ++ render_fields fs ++ bs ")") ++ x)
                  = (Ok (TStruct fs), x)).
    { bsnorm. rewrite <- !app_assoc. cbn [app].
      rewrite nonopt_element by reflexivity. unfold element_type.
      rewrite (alt2_back _ _ _ _ (primitive_type_fail 40 _ eq_refl)).
      rewrite (alt2_back _ _ _ _ (pmap_back _ _ _ _ (type_name_fail 40 _ eq_refl))).
      unfold inline_type. apply alt2_ok.
      apply (struct_type_render (V (S fuel)) fuel fs x Hgood). lia. }
    split; [intros _; exact Hno|].
    revert Hno. bsnorm. rewrite <- !app_assoc. cbn [app].
    intros Hno. rewrite V_nonopt by reflexivity. exact Hno.
Qed.
