(* Correspondence drivers for the IDL family: evaluate the parser model, the renderer and the
   executable specification (token language) on a case and compare with what the real crate did. *)
From Coq Require Import Ascii String.
From ZV Require Import Common.Base Common.Exec gen.IdlKeywords Idl.Idl Idl.IdlParse.
Local Open Scope N_scope.

(* ------------------------------------------------------------------ executable specification *)

Fixpoint strip_tokens (p l : list token) : option (list token) :=
  match p, l with
  | [], _ => Some l
  | a :: p', b :: l' => if token_beq a b then strip_tokens p' l' else None
  | _ :: _, [] => None
  end.

(* the member tokens are an interleaving (in source order, guided by the member keyword) of the
   three member lists of the tree *)
Fixpoint match_members (fuel : nat) (toks : list token) (ts : list custom) (ms : list method)
         (es : list error) : bool :=
  match fuel with
  | O => false
  | S fuel =>
    match toks with
    | [] => match ts, ms, es with [], [], [] => true | _, _, _ => false end
    | KWord w :: _ =>
        if bytes_beq w kw_type then
          match ts with
          | c :: ts' => match strip_tokens (tokens_custom c) toks with
                        | Some r => match_members fuel r ts' ms es | None => false end
          | [] => false
          end
        else if bytes_beq w kw_method then
          match ms with
          | m :: ms' => match strip_tokens (tokens_method m) toks with
                        | Some r => match_members fuel r ts ms' es | None => false end
          | [] => false
          end
        else if bytes_beq w kw_error then
          match es with
          | e :: es' => match strip_tokens (tokens_error e) toks with
                        | Some r => match_members fuel r ts ms es' | None => false end
          | [] => false
          end
        else false
    | _ => false
    end
  end.

(* the text denotes the tree: its token sequence is that of the tree (members in source order) *)
Definition denotes (s : list byte) (t : interface) : bool :=
  match lex (trim s) with
  | Some (KWord a :: KWord n :: rest) =>
      bytes_beq a kw_interface && bytes_beq n (iname t)
      && match_members (S (length rest)) rest (itypes t) (imethods t) (ierrors t)
  | _ => false
  end.

(* shapes the grammar excludes although their tokens lex: an enum without variants, `??` *)
Fixpoint ty_grammar_ok (t : ty) : bool :=
  match t with
  | TPrim _ | TCustom _ => true
  | TOpt t => match t with TOpt _ => false | _ => ty_grammar_ok t end
  | TArr t | TMap t => ty_grammar_ok t
  | TEnum vs => match vs with [] => false | _ => true end
  | TStruct fs => forallb (fun f => ty_grammar_ok (fty f)) fs
  end.
Definition field_enums_ok (f : field) : bool := ty_grammar_ok (fty f).
Definition enums_ok (t : interface) : bool :=
  forallb (fun c => match c with
                    | CObject _ fs _ => forallb field_enums_ok fs
                    | CEnum _ vs _ => match vs with [] => false | _ => true end
                    end) (itypes t)
  && forallb (fun m => forallb field_enums_ok (minputs m) && forallb field_enums_ok (moutputs m)) (imethods t)
  && forallb (fun e => forallb field_enums_ok (efields e)) (ierrors t).

(* accepted text: in the grammar, nothing ignored, nothing fabricated *)
Definition sound_accept (s : list byte) (t : interface) : bool :=
  denotes s t && names_ok t && enums_ok t.

(* ------------------------------------------------------------------ C13 cases *)

Record pcase := mkP {
  pc_input : list byte;
  pc_class : N;                     (* implementation: 0 accepted, 1 rejected, 2 panicked *)
  pc_tree : option interface;       (* implementation's tree when accepted *)
  pc_display : list byte;           (* implementation's Display of that tree *)
  pc_expect : option interface      (* the tree the generator laid out (legal layout), if any *)
}.

Definition class_of (o : outcome) : N :=
  match o with Accept _ => 0 | Reject => 1 | OPanic => 2 | OFuel => 3 end.

Definition opt_tree_beq (a b : option interface) : bool :=
  match a, b with
  | Some x, Some y => interface_beq x y
  | None, None => true
  | _, _ => false
  end.

(* bit 0 (1): implementation differs from the model (outcome class, tree, or Display vs render)
   bit 1 (2): implementation differs from the specification; detail bits:
       4  it panicked
       8  it accepted a text that does not denote the tree it built (or illegal names)
       16 it did not build the expected tree from a legal layout of that tree
   32: (with bit 0) the Display text differs from `render` of the tree *)
Definition check (c : pcase) : N :=
  let m := parse_interface (pc_input c) in
  let mtree := match m with Accept t => Some t | _ => None end in
  let model_diff := negb ((class_of m =? pc_class c) && opt_tree_beq mtree (pc_tree c)) in
  let render_diff := match pc_tree c with
                     | Some t => negb (bytes_beq (render t) (pc_display c))
                     | None => false end in
  let panicked := pc_class c =? 2 in
  let unsound := match pc_tree c with
                 | Some t => (pc_class c =? 0) && negb (sound_accept (pc_input c) t)
                 | None => false end in
  let incomplete := match pc_expect c with
                    | Some e => negb ((pc_class c =? 0) && opt_tree_beq (pc_tree c) (Some e))
                    | None => false end in
  (if model_diff || render_diff then 1 else 0)
  + (if panicked || unsound || incomplete then 2 else 0)
  + (if panicked then 4 else 0) + (if unsound then 8 else 0) + (if incomplete then 16 else 0)
  + (if render_diff then 32 else 0).

(* what the model says, for replay files *)
Definition model_view (c : pcase) : N * option interface * bool :=
  let m := parse_interface (pc_input c) in
  (class_of m, match m with Accept t => Some t | _ => None end,
   match pc_tree c with Some t => sound_accept (pc_input c) t | None => true end).

(* ------------------------------------------------------------------ C14 cases *)

(* comment texts that survive a round trip: valid UTF-8, no line break (LF, CR), no leading blank *)
Definition comment_ok (c : comment) : bool :=
  utf8_valid c && negb (existsb (fun b => (b =? 10) || (b =? 13)) c)
  && match c with b :: _ => negb (is_sp_tab b) | [] => true end.
Definition comments_ok (cs : list comment) : bool := forallb comment_ok cs.

(* inside inline types: no comments, no empty enum, no optional of optional *)
Fixpoint ty_wf (t : ty) : bool :=
  match t with
  | TPrim _ | TCustom _ => true
  | TOpt t => match t with TOpt _ => false | _ => ty_wf t end
  | TArr t | TMap t => ty_wf t
  | TEnum vs => match vs with [] => false | _ => forallb (fun v => negb (has_comments v)) vs end
  | TStruct fs => forallb (fun f => match fcomments f with [] => ty_wf (fty f) | _ => false end) fs
  end.
Definition field_wf (f : field) : bool := comments_ok (fcomments f) && ty_wf (fty f).
Definition custom_wf (c : custom) : bool :=
  match c with
  | CObject _ fs cs => comments_ok cs && forallb field_wf fs
  | CEnum _ vs cs =>
      comments_ok cs && match vs with [] => false | _ => true end
      && forallb (fun v => comments_ok (vcomments v)) vs
  end.
Definition interface_wf (t : interface) : bool :=
  names_ok t && comments_ok (icomments t) && forallb custom_wf (itypes t)
  && forallb (fun m => comments_ok (mcomments m) && forallb field_wf (minputs m)
                       && forallb field_wf (moutputs m)) (imethods t)
  && forallb (fun e => comments_ok (ecomments e) && forallb field_wf (efields e)) (ierrors t).

(* the open finding C14.commented_enum_variant: a custom enum with at least two variants one of
   which carries a comment (multi-line rendering without separators, custom_enum.rs:70-82) *)
Definition known_commented_enum (t : interface) : bool :=
  existsb (fun c => match c with
                    | CEnum _ ((_ :: _ :: _) as vs) _ => existsb has_comments vs
                    | _ => false end) (itypes t).

Record bcase := mkB {
  bc_tree : interface;              (* the generated tree, built through the constructors *)
  bc_display : list byte;           (* Display of the built value *)
  bc_pclass : N;                    (* parse (Display x): 0 ok, 1 err, 2 panic *)
  bc_ptree : option interface;
  bc_pdisplay : list byte;          (* Display (parse (Display x)) *)
  bc_libeq : bool;                  (* parsed == x (library PartialEq, both forms, both directions) *)
  bc_dclass : N;                    (* InterfaceDescription serialize -> deserialize -> parse *)
  bc_dtree : option interface;
  bc_sclass : N;                    (* the same through the socket exchange; 9 = not run *)
  bc_stree : option interface
}.

(* bit 0 (1): implementation differs from the model (render, parse of the rendering, PartialEq)
   bit 1 (2): round trip violated on a tree inside the theorem's hypotheses
   64: round trip violated on a tree of the known class (commented enum variant) *)
Definition bcheck (c : bcase) : N :=
  let t := bc_tree c in
  let r := render t in
  let m := parse_interface r in
  let mtree := match m with Accept x => Some x | _ => None end in
  let model_diff :=
      negb (bytes_beq r (bc_display c))
      || negb ((class_of m =? bc_pclass c) && opt_tree_beq mtree (bc_ptree c))
      || negb ((class_of m =? bc_dclass c) && opt_tree_beq mtree (bc_dtree c))
      || ((negb (bc_sclass c =? 9)) && negb ((class_of m =? bc_sclass c) && opt_tree_beq mtree (bc_stree c)))
      || match bc_ptree c with
         | Some x => negb (Bool.eqb (interface_leq x t) (bc_libeq c))
                     || negb (bytes_beq (render x) (bc_pdisplay c))
         | None => false end in
  let roundtrip :=
      (bc_pclass c =? 0) && opt_tree_beq (bc_ptree c) (Some t) && bc_libeq c
      && bytes_beq (bc_pdisplay c) (bc_display c)
      && (bc_dclass c =? 0) && opt_tree_beq (bc_dtree c) (Some t)
      && ((bc_sclass c =? 9) || ((bc_sclass c =? 0) && opt_tree_beq (bc_stree c) (Some t))) in
  let inhyp := interface_wf t in
  let known := known_commented_enum t in
  (if model_diff then 1 else 0)
  + (if inhyp && negb known && negb roundtrip then 2 else 0)
  + (if inhyp && known && negb roundtrip then 64 else 0).

Definition bmodel_view (c : bcase) : list byte * N * option interface * bool * bool :=
  let r := render (bc_tree c) in
  let m := parse_interface r in
  (r, class_of m, match m with Accept x => Some x | _ => None end,
   interface_wf (bc_tree c), known_commented_enum (bc_tree c)).
