(* Varlink IDL: the description tree of zlink-core/src/idl, its rendering (the Display impls,
   transcribed byte for byte), the token language of the Varlink grammar and its lexer.

   Sources (zlink-core/src/idl/):
     interface.rs      Interface { name, methods, custom_types, errors, comments }, Display 93-111
     custom_type.rs    CustomType::{Object, Enum}
     custom_object.rs  CustomObject { name, fields, comments }, Display
     custom_enum.rs    CustomEnum { name, variants, comments }, Display 63-98 (single/multi-line)
     method.rs         Method { name, inputs, outputs, comments }, Display
     error.rs          Error { name, fields, comments }, Display
     field.rs          Field { name, ty, comments } (= Parameter), Display
     enum_variant.rs   EnumVariant { name, comments }, Display
     comment.rs        Comment { content }, Display "# {content}"
     type/mod.rs       Type::{Bool,Int,Float,String,ForeignObject,Optional,Array,Map,Custom,Enum,Object}
   Strings are byte lists (UTF-8 encoded). *)
From Coq Require Import Ascii String.
From ZV Require Import Common.Base gen.IdlKeywords.
Local Open Scope N_scope.

Definition name := list byte.
Definition comment := list byte.

(* bytes of an ASCII string literal *)
Definition bs (s : string) : list byte := List.map N_of_ascii (list_ascii_of_string s).

(* ------------------------------------------------------------------ tree *)

Inductive prim := PBool | PInt | PFloat | PString | PObject.

Record variant := mkVariant { vname : name; vcomments : list comment }.
Record fieldOf (T : Type) := mkField { fname : name; fty : T; fcomments : list comment }.
Arguments mkField {T} _ _ _.
Arguments fname {T} _.
Arguments fty {T} _.
Arguments fcomments {T} _.

Inductive ty :=
| TPrim (p : prim)
| TOpt (t : ty)
| TArr (t : ty)
| TMap (t : ty)
| TCustom (n : name)
| TEnum (vs : list variant)
| TStruct (fs : list (fieldOf ty)).

Definition field := fieldOf ty.

Record method := mkMethod
  { mname : name; minputs : list field; moutputs : list field; mcomments : list comment }.
Record error := mkError { ename : name; efields : list field; ecomments : list comment }.
Inductive custom :=
| CObject (n : name) (fs : list field) (cs : list comment)
| CEnum (n : name) (vs : list variant) (cs : list comment).
Record interface := mkInterface
  { iname : name; imethods : list method; itypes : list custom; ierrors : list error;
    icomments : list comment }.

(* members in source order; the Rust tree keeps one list per kind (interface.rs:13-19) *)
Inductive member := MType (c : custom) | MMethod (m : method) | MError (e : error).

Fixpoint mem_types (ms : list member) : list custom :=
  match ms with [] => [] | MType c :: r => c :: mem_types r | _ :: r => mem_types r end.
Fixpoint mem_methods (ms : list member) : list method :=
  match ms with [] => [] | MMethod m :: r => m :: mem_methods r | _ :: r => mem_methods r end.
Fixpoint mem_errors (ms : list member) : list error :=
  match ms with [] => [] | MError e :: r => e :: mem_errors r | _ :: r => mem_errors r end.

Definition interface_of (n : name) (cs : list comment) (ms : list member) : interface :=
  mkInterface n (mem_methods ms) (mem_types ms) (mem_errors ms) cs.

(* the order in which Display writes the members (interface.rs:100-108) *)
Definition members_of (i : interface) : list member :=
  List.map MType (itypes i) ++ List.map MMethod (imethods i) ++ List.map MError (ierrors i).

(* induction principle for the nested type *)
Section ty_ind2.
  Variable P : ty -> Prop.
  Hypothesis HPrim : forall p, P (TPrim p).
  Hypothesis HOpt : forall t, P t -> P (TOpt t).
  Hypothesis HArr : forall t, P t -> P (TArr t).
  Hypothesis HMap : forall t, P t -> P (TMap t).
  Hypothesis HCustom : forall n, P (TCustom n).
  Hypothesis HEnum : forall vs, P (TEnum vs).
  Hypothesis HStruct : forall fs, Forall (fun f => P (fty f)) fs -> P (TStruct fs).
  Fixpoint ty_ind2 (t : ty) : P t :=
    match t with
    | TPrim p => HPrim p
    | TOpt t => HOpt t (ty_ind2 t)
    | TArr t => HArr t (ty_ind2 t)
    | TMap t => HMap t (ty_ind2 t)
    | TCustom n => HCustom n
    | TEnum vs => HEnum vs
    | TStruct fs =>
        HStruct fs ((fix go (l : list (fieldOf ty)) : Forall (fun f => P (fty f)) l :=
                       match l with
                       | [] => Forall_nil _
                       | f :: l' => Forall_cons f (ty_ind2 (fty f)) (go l')
                       end) fs)
    end.
End ty_ind2.

(* ------------------------------------------------------------------ character classes *)

Definition is_upper (b : byte) : bool := (65 <=? b) && (b <=? 90).
Definition is_lower (b : byte) : bool := (97 <=? b) && (b <=? 122).
Definition is_digit (b : byte) : bool := (48 <=? b) && (b <=? 57).
Definition is_alpha (b : byte) : bool := is_upper b || is_lower b.
Definition is_alnum (b : byte) : bool := is_alpha b || is_digit b.

(* ------------------------------------------------------------------ render (Display) *)

Definition NL : list byte := [10].

(* comment.rs: write!(f, "# {}", content) *)
Definition render_comment (c : comment) : list byte := bs "# " ++ c.

(* `for comment in comments { writeln!(f, "{comment}")?; }` *)
Definition render_comments (cs : list comment) : list byte :=
  flat_map (fun c => render_comment c ++ NL) cs.

(* `let mut first = true; for x in xs { if !first { write!(f, ", ")?; } first = false; write!(..x) }` *)
Definition join (sep : list byte) (l : list (list byte)) : list byte :=
  match l with
  | [] => []
  | x :: l' => x ++ flat_map (fun y => sep ++ y) l'
  end.

Definition comma_sp : list byte := bs ", ".

(* type/mod.rs Display arms of the primitive types, from the translated table *)
Definition prim_code (p : prim) : N :=
  match p with PBool => 0 | PInt => 1 | PFloat => 2 | PString => 3 | PObject => 4 end.
Definition prim_of_code (c : N) : prim :=
  match c with 0 => PBool | 1 => PInt | 2 => PFloat | 3 => PString | _ => PObject end.
Fixpoint assoc_N {A} (d : A) (l : list (N * A)) (k : N) : A :=
  match l with [] => d | (k', v) :: l' => if k =? k' then v else assoc_N d l' k end.
Definition render_prim (p : prim) : list byte := assoc_N [] kw_display (prim_code p).

(* enum_variant.rs Display: comments each on a line, then the name *)
Definition render_variant (v : variant) : list byte := render_comments (vcomments v) ++ vname v.

Definition has_comments (v : variant) : bool :=
  match vcomments v with [] => false | _ => true end.

(* custom_enum.rs:70-97 and type/mod.rs:101-129 share this body after "type N " resp. nothing:
   multi-line form when any variant has comments, single-line form otherwise *)
Definition render_enum_body (vs : list variant) : list byte :=
  if existsb has_comments vs then
    bs "(" ++ NL ++
    flat_map (fun v => flat_map (fun c => [9] ++ render_comment c ++ NL) (vcomments v)
                       ++ [9] ++ vname v ++ NL) vs
    ++ bs ")"
  else
    bs "(" ++ join comma_sp (List.map render_variant vs) ++ bs ")".

(* field.rs Display, with the type renderer as a parameter (the type is nested) *)
Definition render_field_with (rt : ty -> list byte) (f : field) : list byte :=
  render_comments (fcomments f) ++ fname f ++ bs ": " ++ rt (fty f).

Fixpoint render_ty (t : ty) : list byte :=
  match t with
  | TPrim p => render_prim p
  | TOpt t => kw_display_optional ++ render_ty t
  | TArr t => kw_display_array ++ render_ty t
  | TMap t => kw_display_map ++ render_ty t
  | TCustom n => n
  | TEnum vs => render_enum_body vs
  | TStruct fs =>
      bs "(" ++ join comma_sp (List.map (render_field_with render_ty) fs) ++ bs ")"
  end.

Definition render_field : field -> list byte := render_field_with render_ty.
Definition render_fields (fs : list field) : list byte := join comma_sp (List.map render_field fs).

(* custom_object.rs Display *)
Definition render_object (n : name) (fs : list field) (cs : list comment) : list byte :=
  render_comments cs ++ bs "type " ++ n ++ bs " (" ++ render_fields fs ++ bs ")".

(* custom_enum.rs Display *)
Definition render_cenum (n : name) (vs : list variant) (cs : list comment) : list byte :=
  render_comments cs ++ bs "type " ++ n ++ bs " " ++ render_enum_body vs.

Definition render_custom (c : custom) : list byte :=
  match c with
  | CObject n fs cs => render_object n fs cs
  | CEnum n vs cs => render_cenum n vs cs
  end.

(* method.rs Display *)
Definition render_method (m : method) : list byte :=
  render_comments (mcomments m) ++ bs "method " ++ mname m ++ bs "(" ++ render_fields (minputs m)
  ++ bs ")" ++ bs " -> (" ++ render_fields (moutputs m) ++ bs ")".

(* error.rs Display *)
Definition render_error (e : error) : list byte :=
  render_comments (ecomments e) ++ bs "error " ++ ename e ++ bs " (" ++ render_fields (efields e)
  ++ bs ")".

Definition render_member (m : member) : list byte :=
  match m with MType c => render_custom c | MMethod m => render_method m | MError e => render_error e end.

(* interface.rs:93-111 *)
Definition render (i : interface) : list byte :=
  render_comments (icomments i) ++ bs "interface " ++ iname i
  ++ flat_map (fun c => NL ++ NL ++ render_custom c) (itypes i)
  ++ flat_map (fun m => NL ++ NL ++ render_method m) (imethods i)
  ++ flat_map (fun e => NL ++ NL ++ render_error e) (ierrors i).

(* ------------------------------------------------------------------ equality (executable) *)

Fixpoint list_beq {A} (e : A -> A -> bool) (a b : list A) : bool :=
  match a, b with
  | [], [] => true
  | x :: a', y :: b' => e x y && list_beq e a' b'
  | _, _ => false
  end.
Definition bytes_beq : list byte -> list byte -> bool := list_beq N.eqb.
Definition comments_beq : list comment -> list comment -> bool := list_beq bytes_beq.

Definition prim_beq (a b : prim) : bool := prim_code a =? prim_code b.
Definition variant_beq (a b : variant) : bool :=
  bytes_beq (vname a) (vname b) && comments_beq (vcomments a) (vcomments b).

Fixpoint ty_beq (a b : ty) : bool :=
  match a, b with
  | TPrim p, TPrim q => prim_beq p q
  | TOpt x, TOpt y | TArr x, TArr y | TMap x, TMap y => ty_beq x y
  | TCustom n, TCustom m => bytes_beq n m
  | TEnum vs, TEnum ws => list_beq variant_beq vs ws
  | TStruct fs, TStruct gs =>
      (fix go (l : list field) (r : list field) : bool :=
         match l, r with
         | [], [] => true
         | f :: l', g :: r' =>
             bytes_beq (fname f) (fname g) && ty_beq (fty f) (fty g)
             && comments_beq (fcomments f) (fcomments g) && go l' r'
         | _, _ => false
         end) fs gs
  | _, _ => false
  end.

Definition field_beq (f g : field) : bool :=
  bytes_beq (fname f) (fname g) && ty_beq (fty f) (fty g) && comments_beq (fcomments f) (fcomments g).
Definition method_beq (a b : method) : bool :=
  bytes_beq (mname a) (mname b) && list_beq field_beq (minputs a) (minputs b)
  && list_beq field_beq (moutputs a) (moutputs b) && comments_beq (mcomments a) (mcomments b).
Definition error_beq (a b : error) : bool :=
  bytes_beq (ename a) (ename b) && list_beq field_beq (efields a) (efields b)
  && comments_beq (ecomments a) (ecomments b).
Definition custom_beq (a b : custom) : bool :=
  match a, b with
  | CObject n fs cs, CObject m gs ds => bytes_beq n m && list_beq field_beq fs gs && comments_beq cs ds
  | CEnum n vs cs, CEnum m ws ds => bytes_beq n m && list_beq variant_beq vs ws && comments_beq cs ds
  | _, _ => false
  end.
Definition interface_beq (a b : interface) : bool :=
  bytes_beq (iname a) (iname b) && list_beq method_beq (imethods a) (imethods b)
  && list_beq custom_beq (itypes a) (itypes b) && list_beq error_beq (ierrors a) (ierrors b)
  && comments_beq (icomments a) (icomments b).

(* The library's PartialEq (ignores comments except on enum variants: field.rs, custom_object.rs,
   custom_enum.rs, enum_variant.rs, method.rs, error.rs, interface.rs `impl PartialEq`) *)
Fixpoint ty_leq (a b : ty) : bool :=
  match a, b with
  | TPrim p, TPrim q => prim_beq p q
  | TOpt x, TOpt y | TArr x, TArr y | TMap x, TMap y => ty_leq x y
  | TCustom n, TCustom m => bytes_beq n m
  | TEnum vs, TEnum ws => list_beq variant_beq vs ws
  | TStruct fs, TStruct gs =>
      (fix go (l : list field) (r : list field) : bool :=
         match l, r with
         | [], [] => true
         | f :: l', g :: r' => bytes_beq (fname f) (fname g) && ty_leq (fty f) (fty g) && go l' r'
         | _, _ => false
         end) fs gs
  | _, _ => false
  end.
Definition field_leq (f g : field) : bool := bytes_beq (fname f) (fname g) && ty_leq (fty f) (fty g).
Definition method_leq (a b : method) : bool :=
  bytes_beq (mname a) (mname b) && list_beq field_leq (minputs a) (minputs b)
  && list_beq field_leq (moutputs a) (moutputs b).
Definition error_leq (a b : error) : bool :=
  bytes_beq (ename a) (ename b) && list_beq field_leq (efields a) (efields b).
Definition custom_leq (a b : custom) : bool :=
  match a, b with
  | CObject n fs _, CObject m gs _ => bytes_beq n m && list_beq field_leq fs gs
  | CEnum n vs _, CEnum m ws _ => bytes_beq n m && list_beq variant_beq vs ws
  | _, _ => false
  end.
Definition interface_leq (a b : interface) : bool :=
  bytes_beq (iname a) (iname b) && list_beq custom_leq (itypes a) (itypes b)
  && list_beq method_leq (imethods a) (imethods b) && list_beq error_leq (ierrors a) (ierrors b).

(* ------------------------------------------------------------------ legal names (the grammar's
   regular expressions) *)

(* field_name = [A-Za-z]([_]?[A-Za-z0-9])* *)
Fixpoint field_tail_ok (l : list byte) : bool :=
  match l with
  | [] => true
  | b :: l' =>
      if is_alnum b then field_tail_ok l'
      else if b =? 95 then
        match l' with c :: l'' => is_alnum c && field_tail_ok l'' | [] => false end
      else false
  end.
Definition field_name_ok (n : name) : bool :=
  match n with b :: l => is_alpha b && field_tail_ok l | [] => false end.

(* name = [A-Z][A-Za-z0-9]* *)
Definition type_name_ok (n : name) : bool :=
  match n with b :: l => is_upper b && forallb is_alnum l | [] => false end.

(* segment bodies ([-]*[A-Za-z0-9])* : a run of alphanumerics and dashes not ending in a dash *)
Fixpoint seg_tail_ok (l : list byte) : bool :=
  match l with
  | [] => true
  | b :: l' =>
      if is_alnum b then seg_tail_ok l'
      else if b =? 45 then match l' with [] => false | _ => seg_tail_ok l' end
      else false
  end.
(* split at dots *)
Fixpoint split_dots (l : list byte) (cur : list byte) : list (list byte) :=
  match l with
  | [] => [rev cur]
  | b :: l' => if b =? 46 then rev cur :: split_dots l' [] else split_dots l' (b :: cur)
  end.
(* interface_name = [A-Za-z]([-]*[A-Za-z0-9])* ( \. [A-Za-z0-9]([-]*[A-Za-z0-9])* )+ *)
Definition interface_name_ok (n : name) : bool :=
  match split_dots n [] with
  | first :: (_ :: _) as rest =>
      match first with b :: l => is_alpha b && seg_tail_ok l | [] => false end
      && forallb (fun s => match s with b :: l => is_alnum b && seg_tail_ok l | [] => false end) rest
  | _ => false
  end.

Definition variant_names_ok (vs : list variant) : bool := forallb (fun v => field_name_ok (vname v)) vs.

(* names legal; additionally the grammar's "an enum has at least one variant" *)
Fixpoint ty_names_ok (t : ty) : bool :=
  match t with
  | TPrim _ => true
  | TOpt t | TArr t | TMap t => ty_names_ok t
  | TCustom n => type_name_ok n
  | TEnum vs => variant_names_ok vs
  | TStruct fs => forallb (fun f => field_name_ok (fname f) && ty_names_ok (fty f)) fs
  end.
Definition field_names_ok (f : field) : bool := field_name_ok (fname f) && ty_names_ok (fty f).
Definition method_names_ok (m : method) : bool :=
  type_name_ok (mname m) && forallb field_names_ok (minputs m) && forallb field_names_ok (moutputs m).
Definition error_names_ok (e : error) : bool :=
  type_name_ok (ename e) && forallb field_names_ok (efields e).
Definition custom_names_ok (c : custom) : bool :=
  match c with
  | CObject n fs _ => type_name_ok n && forallb field_names_ok fs
  | CEnum n vs _ => type_name_ok n && variant_names_ok vs
  end.
Definition names_ok (i : interface) : bool :=
  interface_name_ok (iname i) && forallb custom_names_ok (itypes i)
  && forallb method_names_ok (imethods i) && forallb error_names_ok (ierrors i).

(* ------------------------------------------------------------------ tokens and lexer *)

Inductive token :=
| KWord (w : list byte)     (* keywords, primitive type names, all names *)
| KLParen | KRParen | KComma | KColon | KArrow | KQuestion | KArray | KMap.

Definition token_beq (a b : token) : bool :=
  match a, b with
  | KWord x, KWord y => bytes_beq x y
  | KLParen, KLParen | KRParen, KRParen | KComma, KComma | KColon, KColon | KArrow, KArrow
  | KQuestion, KQuestion | KArray, KArray | KMap, KMap => true
  | _, _ => false
  end.

(* inter-token whitespace of a byte-level ASCII reading of the grammar: space, tab, CR, LF *)
Definition is_blank (b : byte) : bool := (b =? 32) || (b =? 9) || (b =? 13) || (b =? 10).
(* bytes that continue a word: letters, digits, '_', '.', '-' *)
Definition is_wordc (b : byte) : bool := is_alnum b || (b =? 95) || (b =? 46) || (b =? 45).

Fixpoint span (f : byte -> bool) (l : list byte) : list byte * list byte :=
  match l with
  | b :: l' => if f b then let (a, r) := span f l' in (b :: a, r) else ([], l)
  | [] => ([], [])
  end.

Fixpoint strip_prefix (p l : list byte) : option (list byte) :=
  match p, l with
  | [], _ => Some l
  | a :: p', b :: l' => if a =? b then strip_prefix p' l' else None
  | _ :: _, [] => None
  end.

(* "#" [^\n\r]* eol : the rest after the comment's end of line (eol is LF, CR or CRLF; end of
   input also ends a comment) *)
Fixpoint skip_comment (l : list byte) : list byte :=
  match l with
  | [] => []
  | b :: l' => if (b =? 10) || (b =? 13) then l' else skip_comment l'
  end.

Fixpoint lex_fuel (fuel : nat) (l : list byte) : option (list token) :=
  match fuel with
  | O => None
  | S fuel =>
    match l with
    | [] => Some []
    | b :: l' =>
      let cons t r := match lex_fuel fuel r with Some ts => Some (t :: ts) | None => None end in
      if is_blank b then lex_fuel fuel l'
      else if b =? 35 then lex_fuel fuel (skip_comment l')
      else if b =? 40 then cons KLParen l'
      else if b =? 41 then cons KRParen l'
      else if b =? 44 then cons KComma l'
      else if b =? 58 then cons KColon l'
      else if b =? 63 then cons KQuestion l'
      else if b =? 45 then
        match l' with c :: l'' => if c =? 62 then cons KArrow l'' else None | [] => None end
      else if b =? 91 then
        match strip_prefix kw_map l with
        | Some r => cons KMap r
        | None => match strip_prefix kw_array l with Some r => cons KArray r | None => None end
        end
      else if is_alpha b then
        let (w, r) := span is_wordc l' in cons (KWord (b :: w)) r
      else None
    end
  end.
Definition lex (l : list byte) : option (list token) := lex_fuel (S (length l)) l.

Definition W (s : list byte) : token := KWord s.

Definition sep_tokens (l : list (list token)) : list token :=
  match l with
  | [] => []
  | x :: l' => x ++ flat_map (fun y => KComma :: y) l'
  end.

Fixpoint tokens_ty (t : ty) : list token :=
  match t with
  | TPrim p => [W (render_prim p)]
  | TOpt t => KQuestion :: tokens_ty t
  | TArr t => KArray :: tokens_ty t
  | TMap t => KMap :: tokens_ty t
  | TCustom n => [W n]
  | TEnum vs => KLParen :: sep_tokens (List.map (fun v => [W (vname v)]) vs) ++ [KRParen]
  | TStruct fs =>
      KLParen :: sep_tokens (List.map (fun f => W (fname f) :: KColon :: tokens_ty (fty f)) fs)
      ++ [KRParen]
  end.
Definition tokens_field (f : field) : list token := W (fname f) :: KColon :: tokens_ty (fty f).
Definition tokens_fields (fs : list field) : list token :=
  KLParen :: sep_tokens (List.map tokens_field fs) ++ [KRParen].
Definition tokens_custom (c : custom) : list token :=
  match c with
  | CObject n fs _ => W kw_type :: W n :: tokens_fields fs
  | CEnum n vs _ =>
      W kw_type :: W n :: KLParen :: sep_tokens (List.map (fun v => [W (vname v)]) vs) ++ [KRParen]
  end.
Definition tokens_method (m : method) : list token :=
  W kw_method :: W (mname m) :: tokens_fields (minputs m) ++ KArrow :: tokens_fields (moutputs m).
Definition tokens_error (e : error) : list token := W kw_error :: W (ename e) :: tokens_fields (efields e).
Definition tokens_member (m : member) : list token :=
  match m with MType c => tokens_custom c | MMethod m => tokens_method m | MError e => tokens_error e end.

(* tokens of an interface whose members appear in the source order ms *)
Definition tokens_of_members (n : name) (ms : list member) : list token :=
  W kw_interface :: W n :: flat_map tokens_member ms.
(* in Display order *)
Definition tokens_of (i : interface) : list token := tokens_of_members (iname i) (members_of i).

(* well-formedness beyond names: enums have at least one variant (grammar), custom or inline *)
Fixpoint ty_enums_ok (t : ty) : bool :=
  match t with
  | TPrim _ | TCustom _ => true
  | TOpt t | TArr t | TMap t => ty_enums_ok t
  | TEnum vs => match vs with [] => false | _ => true end
  | TStruct fs => forallb (fun f => ty_enums_ok (fty f)) fs
  end.
