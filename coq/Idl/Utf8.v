(* Lemmas about utf8_valid (the model of core::str::from_utf8): ASCII strings are valid, and a
   valid string split at a character boundary (the next byte is not a continuation byte) gives
   two valid strings. Used for the `from_utf8(..).unwrap()` calls of the IDL parser. *)
From Coq Require Import Ascii String.
From ZV Require Import Common.Base Idl.Idl Idl.IdlParse.
Local Open Scope N_scope.

Ltac nb :=
  repeat match goal with
         | H : _ && _ = true |- _ => apply andb_true_iff in H; destruct H
         | H : _ || _ = false |- _ => apply orb_false_iff in H; destruct H
         | H : (_ <=? _) = true |- _ => apply N.leb_le in H
         | H : (_ <=? _) = false |- _ => apply N.leb_gt in H
         | H : (_ <? _) = true |- _ => apply N.ltb_lt in H
         | H : (_ <? _) = false |- _ => apply N.ltb_ge in H
         | H : (_ =? _) = true |- _ => apply N.eqb_eq in H
         | H : (_ =? _) = false |- _ => apply N.eqb_neq in H
         | H : negb _ = true |- _ => apply negb_true_iff in H
         | H : negb _ = false |- _ => apply negb_false_iff in H
         end.

Definition ascii (b : byte) : Prop := b < 128.
Definition boundary (r : list byte) : Prop :=
  match r with [] => True | b :: _ => is_cont b = false end.

Lemma ascii_boundary b r : b < 128 -> boundary (b :: r).
Proof.
  intros H. unfold boundary, is_cont. apply andb_false_iff. left. apply N.leb_gt. exact H.
Qed.

Lemma valid_cons_ascii b r : b < 128 -> utf8_valid (b :: r) = utf8_valid r.
Proof. intros H. cbn [utf8_valid]. apply N.ltb_lt in H. now rewrite H. Qed.

Lemma valid_ascii l : Forall ascii l -> utf8_valid l = true.
Proof.
  induction 1 as [|b l Hb _ IH]; [reflexivity|]. rewrite valid_cons_ascii; auto.
Qed.

Lemma valid_app_ascii a r : Forall ascii a -> utf8_valid (a ++ r) = utf8_valid r.
Proof.
  induction 1 as [|b l Hb _ IH]; [reflexivity|]. cbn [app]. rewrite valid_cons_ascii; auto.
Qed.

(* a continuation byte cannot start the rest at a boundary *)
Lemma boundary_not_cont b r : boundary (b :: r) -> is_cont b = true -> False.
Proof. cbn. congruence. Qed.

Lemma boundary_range b r lo hi :
  boundary (b :: r) -> 128 <= lo -> hi <= 191 -> (lo <=? b) && (b <=? hi) = true -> False.
Proof.
  intros Hb Hlo Hhi H. nb. apply (boundary_not_cont b r Hb). unfold is_cont.
  apply andb_true_iff; split; [apply N.leb_le | apply N.leb_le]; lia.
Qed.

(* The split lemma, by strong induction on the length of the first part. *)
Lemma valid_split_len : forall n a r,
  (length a <= n)%nat -> boundary r -> utf8_valid (a ++ r) = true ->
  utf8_valid a = true /\ utf8_valid r = true.
Proof.
  induction n as [|n IH]; intros a r Hlen Hb Hv.
  - destruct a; [split; [reflexivity | exact Hv] | cbn in Hlen; lia].
  - destruct a as [|b0 a]; [split; [reflexivity | exact Hv]|].
    cbn [length] in Hlen. cbn [app] in Hv.
    cbn [utf8_valid] in Hv |- *.
    destruct (b0 <? 128) eqn:E0.
    { apply IH; auto. lia. }
    destruct ((194 <=? b0) && (b0 <=? 223)) eqn:E2.
    { destruct a as [|b1 a]; cbn [app] in Hv.
      - destruct r as [|b1 r]; [discriminate|]. nb. exfalso. eapply boundary_not_cont; eauto.
      - cbn [length] in Hlen. apply andb_true_iff in Hv. destruct Hv as [Hc Hv].
        rewrite Hc. cbn [andb]. apply IH; auto. lia. }
    destruct ((224 <=? b0) && (b0 <=? 239)) eqn:E3.
    { destruct a as [|b1 [|b2 a]]; cbn [app] in Hv.
      - destruct r as [|b1 [|b2 r]]; try discriminate. exfalso.
        apply andb_true_iff in Hv. destruct Hv as [Hv _]. apply andb_true_iff in Hv. destruct Hv as [Hv _].
        destruct (b0 =? 224); [eapply (boundary_range b1 _ 160 191); eauto; lia|].
        destruct (b0 =? 237); [eapply (boundary_range b1 _ 128 159); eauto; lia|].
        eapply boundary_not_cont; eauto.
      - destruct r as [|b2 r]; [discriminate|]. exfalso.
        apply andb_true_iff in Hv. destruct Hv as [Hv _]. apply andb_true_iff in Hv. destruct Hv as [_ Hv].
        eapply boundary_not_cont; eauto.
      - cbn [length] in Hlen. apply andb_true_iff in Hv. destruct Hv as [Hc Hv].
        rewrite Hc. cbn [andb]. apply IH; auto. lia. }
    destruct ((240 <=? b0) && (b0 <=? 244)) eqn:E4; [|discriminate].
    destruct a as [|b1 [|b2 [|b3 a]]]; cbn [app] in Hv.
    + destruct r as [|b1 [|b2 [|b3 r]]]; try discriminate. exfalso.
      repeat (apply andb_true_iff in Hv; destruct Hv as [Hv _]).
      destruct (b0 =? 240); [eapply (boundary_range b1 _ 144 191); eauto; lia|].
      destruct (b0 =? 244); [eapply (boundary_range b1 _ 128 143); eauto; lia|].
      eapply boundary_not_cont; eauto.
    + destruct r as [|b2 [|b3 r]]; try discriminate. exfalso.
      apply andb_true_iff in Hv. destruct Hv as [Hv _]. apply andb_true_iff in Hv. destruct Hv as [Hv _].
      apply andb_true_iff in Hv. destruct Hv as [_ Hv].
      eapply boundary_not_cont; eauto.
    + destruct r as [|b3 r]; [discriminate|]. exfalso.
      apply andb_true_iff in Hv. destruct Hv as [Hv _]. apply andb_true_iff in Hv. destruct Hv as [_ Hv].
      eapply boundary_not_cont; eauto.
    + cbn [length] in Hlen. apply andb_true_iff in Hv. destruct Hv as [Hc Hv].
      rewrite Hc. cbn [andb]. apply IH; auto. lia.
Qed.

Lemma valid_split a r :
  boundary r -> utf8_valid (a ++ r) = true -> utf8_valid a = true /\ utf8_valid r = true.
Proof. intros. eapply valid_split_len; eauto. Qed.

(* cutting right after an ASCII byte *)
Lemma valid_after_ascii a b r :
  b < 128 -> utf8_valid (a ++ b :: r) = true -> utf8_valid r = true.
Proof.
  intros Hb Hv. apply valid_split in Hv; [|now apply ascii_boundary].
  destruct Hv as [_ Hv]. now rewrite valid_cons_ascii in Hv.
Qed.

(* span with a predicate whose complement is ASCII-only stops at a boundary *)
Lemma span_app f l : let (a, r) := span f l in l = a ++ r.
Proof.
  induction l as [|b l IH]; cbn; [reflexivity|].
  destruct (f b); [|reflexivity]. destruct (span f l). cbn. now rewrite IH.
Qed.

Lemma span_length f l : (length (snd (span f l)) <= length l)%nat.
Proof.
  induction l as [|b l IH]; cbn; [lia|]. destruct (f b); cbn; [|lia].
  destruct (span f l). cbn in *. lia.
Qed.

Lemma span_stop f l : match snd (span f l) with [] => True | b :: _ => f b = false end.
Proof.
  induction l as [|b l IH]; cbn; [exact I|]. destruct (f b) eqn:E; cbn; [|exact E].
  destruct (span f l). exact IH.
Qed.

(* predicate true only on ASCII bytes: the consumed part is ASCII, the rest stays valid *)
Lemma span_ascii f l :
  (forall b, f b = true -> b < 128) ->
  Forall ascii (fst (span f l)) /\ utf8_valid (snd (span f l)) = utf8_valid l.
Proof.
  intros Hf. induction l as [|b l IH]; cbn; [split; [constructor | reflexivity]|].
  destruct (f b) eqn:E; cbn; [|split; [constructor | reflexivity]].
  destruct (span f l) as [a r]. cbn in *. destruct IH as [IH1 IH2]. split.
  - constructor; auto. now apply Hf.
  - rewrite IH2. symmetry. apply valid_cons_ascii. now apply Hf.
Qed.

(* predicate false only on ASCII bytes: both parts are valid *)
Lemma span_until_ascii f l :
  (forall b, f b = false -> b < 128) -> utf8_valid l = true ->
  utf8_valid (fst (span f l)) = true /\ utf8_valid (snd (span f l)) = true.
Proof.
  intros Hf Hv. pose proof (span_app f l) as Ha. pose proof (span_stop f l) as Hs.
  destruct (span f l) as [a r]. cbn in *. subst l. apply valid_split; auto.
  destruct r as [|b r]; [exact I|]. apply ascii_boundary. now apply Hf.
Qed.
