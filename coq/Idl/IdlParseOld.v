(* The struct-vs-enum look-ahead of parse/mod.rs as it was before the fix b458739 (lines 166-180
   of the pinned snapshot 2e9d6f3), kept only for the refutation witness of C13_no_panic on the
   unrepaired code: `&input[1..pos]` with pos = 0 panics. *)
From Coq Require Import Ascii String.
From ZV Require Import Common.Base gen.IdlKeywords Idl.Idl Idl.IdlParse.
Local Open Scope N_scope.

Section Old.
  Variable vt : parser ty.
  Fixpoint position (x : byte) (l : list byte) : option nat :=
    match l with
    | [] => None
    | b :: l' => if b =? x then Some O
                 else match position x l' with Some n => Some (S n) | None => None end
    end.
  (* enum_type before the fix accepted zero variants: separated(0.., ..) *)
  Definition enum_type_old : parser ty :=
    literal (bs "(") ;;; ws ;;;
    ns <- separated0 field_name comma_sep ;;
    ws ;;; literal (bs ")") ;;;
    ret (TEnum (List.map (fun n => mkVariant n []) ns)).
  Definition inline_type_old : parser ty := fun i =>
    match position 41 i with
    | Some pos =>
        match pos with
        | O => (Panic, i)                       (* slice index starts at 1 but ends at 0 *)
        | S k =>
            if existsb (fun b => b =? 58) (firstn k (skipn 1 i)) then struct_type vt i
            else enum_type_old i
        end
    | None => (Back, i)
    end.
End Old.

(* the type position of `method M(a:) -> ()` *)
Lemma inline_type_old_panics : forall vt, fst (inline_type_old vt (bs ") -> ()")) = Panic.
Proof. intros vt. reflexivity. Qed.
