(* Completeness on legal layouts: every text that lays a description out with arbitrary ASCII
   blanks (space, tab, CR, LF) wherever the grammar has `_`, and with comment lines before the
   interface, the members and their direct fields / parameters / variants, parses to exactly that
   description (C13_complete). The canonical rendering of IdlRoundTrip.v is one such layout. *)
From Coq Require Import Ascii String.
From ZV Require Import Common.Base gen.IdlKeywords Idl.Idl Idl.IdlParse Idl.Utf8 Idl.IdlSafe Idl.IdlExec
  Idl.IdlRoundTrip.
Local Open Scope N_scope.

(* the `separated` infinite-loop check: the separator consumed something *)
Ltac progress_check :=
  match goal with
  | |- context [Nat.eqb ?a ?b] =>
      let El := fresh "El" in
      destruct (Nat.eqb a b) eqn:El; [apply Nat.eqb_eq in El; exfalso; lens|]
  end.

(* ------------------------------------------------------------------ gaps and follow sets *)

Definition blanks1 (g : list byte) : Prop := blanks g /\ g <> [].

(* what follows an entry of a comma-separated list: blanks, then ',' or ')' *)
Definition closes (x : list byte) : Prop :=
  exists gb c rest, blanks gb /\ (c = 44 \/ c = 41) /\ x = gb ++ c :: rest.

Lemma blanks_app g h : blanks g -> blanks h -> blanks (g ++ h).
Proof. intros. apply Forall_app. auto. Qed.

Lemma closes_nfollow x : closes x -> nfollow x.
Proof.
  intros (gb & c & rest & Hg & Hc & ->). destruct gb as [|b gb]; cbn.
  - destruct Hc; subst; reflexivity.
  - inversion Hg as [|? ? Hb _]; subst. unfold is_name_cont.
    unfold is_ms in Hb. repeat (apply orb_true_iff in Hb; destruct Hb as [Hb|Hb]); nb; subst; reflexivity.
Qed.

Lemma closes_tfollow x : closes x -> tfollow x.
Proof.
  intros (gb & c & rest & Hg & Hc & ->). destruct gb as [|b gb]; cbn.
  - destruct Hc; subst; reflexivity.
  - inversion Hg as [|? ? Hb _]; subst.
    unfold is_ms in Hb. repeat (apply orb_true_iff in Hb; destruct Hb as [Hb|Hb]); nb; subst; reflexivity.
Qed.

Lemma closes_colon x : closes x -> nhd (fun b => b =? 58) x.
Proof.
  intros (gb & c & rest & Hg & Hc & ->). destruct gb as [|b gb]; cbn.
  - destruct Hc; subst; reflexivity.
  - inversion Hg as [|? ? Hb _]; subst.
    unfold is_ms in Hb. repeat (apply orb_true_iff in Hb; destruct Hb as [Hb|Hb]); nb; subst; reflexivity.
Qed.

Lemma closes_blank g x : blanks g -> closes x -> closes (g ++ x).
Proof.
  intros Hg (gb & c & rest & Hgb & Hc & ->). exists (g ++ gb), c, rest. split; [now apply blanks_app|].
  split; [exact Hc | now rewrite <- app_assoc].
Qed.

Lemma closes_comma x : closes (44 :: x).
Proof. exists [], 44, x. repeat split; auto. constructor. Qed.
Lemma closes_rparen x : closes (41 :: x).
Proof. exists [], 41, x. repeat split; auto. constructor. Qed.

Lemma startok_comma x : startok (44 :: x). Proof. reflexivity. Qed.
Lemma startok_rparen x : startok (41 :: x). Proof. reflexivity. Qed.

(* ------------------------------------------------------------------ ws gaps: blanks and comment lines *)

Definition is_eol (c : byte) : bool := (c =? 10) || (c =? 13).

(* what `ws` skips: blanks and "#" text end-of-line (LF or CR; CRLF is CR then a blank) *)
Inductive wsgap : list byte -> Prop :=
| wsg_nil : wsgap []
| wsg_blank b g : is_ms b = true -> wsgap g -> wsgap (b :: g)
| wsg_comment body e g :
    Forall (fun c => is_eol c = false) body -> is_eol e = true -> wsgap g ->
    wsgap (35 :: body ++ e :: g).

Lemma blanks_wsgap g : blanks g -> wsgap g.
Proof. induction 1; constructor; auto. Qed.

(* one iteration of the loop of ws (parse/mod.rs:25-54) *)
Definition ws_step (i : list byte) : list byte :=
  let i1 := skip_ms i in
  match i1 with b :: r => if b =? 35 then skip_line r else i1 | [] => i1 end.

Lemma ws_loop_unfold fuel i :
  ws_loop (S fuel) i = if Nat.eqb (length (ws_step i)) (length i) then (Ok tt, ws_step i)
                       else ws_loop fuel (ws_step i).
Proof. reflexivity. Qed.

Lemma skip_ms_cons_blank b i : is_ms b = true -> skip_ms (b :: i) = skip_ms i.
Proof. intros H. unfold skip_ms. cbn [span]. rewrite H. destruct (span is_ms i). reflexivity. Qed.

Lemma ws_step_blank b i : is_ms b = true -> ws_step (b :: i) = ws_step i.
Proof. intros H. unfold ws_step. now rewrite skip_ms_cons_blank. Qed.

Lemma skip_line_body : forall body e rest,
  Forall (fun c => is_eol c = false) body -> is_eol e = true ->
  skip_line (body ++ e :: rest)
  = if e =? 10 then rest else match rest with c :: r' => if c =? 10 then r' else rest | [] => rest end.
Proof.
  induction body as [|b body IH]; intros e rest Hb He.
  - cbn [app skip_line]. unfold is_eol in He. destruct (e =? 10) eqn:E10; [reflexivity|].
    cbn [orb] in He. now rewrite He.
  - inversion Hb as [|? ? Hbb Hb']; subst. cbn [app skip_line]. unfold is_eol in Hbb.
    apply orb_false_iff in Hbb. destruct Hbb as [H1 H2]. rewrite H1, H2. now apply IH.
Qed.

(* a non-empty gap in front of a token: one iteration leaves a strictly shorter gap *)
Lemma ws_step_gap : forall g, wsgap g -> g <> [] -> forall r, startok r ->
  exists g', wsgap g' /\ (length g' < length g)%nat /\ ws_step (g ++ r) = g' ++ r.
Proof.
  induction 1 as [|b g Hb Hg IH|body e g Hbody He Hg IH]; intros Hne r Hr; [congruence| |].
  - cbn [app]. rewrite ws_step_blank by exact Hb.
    destruct g as [|b2 g2].
    + exists []. split; [constructor|]. split; [cbn; lia|].
      cbn [app]. unfold ws_step. rewrite skip_ms_none by now apply startok_ms.
      destruct r as [|c r]; [reflexivity|]. cbn in Hr. unfold is_ms_or_hash in Hr.
      apply orb_false_iff in Hr. destruct Hr as [_ Hr]. now rewrite Hr.
    + destruct (IH ltac:(discriminate) r Hr) as (g' & Hg' & Hl & E). exists g'. repeat split; auto.
      cbn [length] in *. lia.
  - rewrite <- app_comm_cons. unfold ws_step. rewrite skip_ms_none by reflexivity.
    change (35 =? 35) with true. cbv iota. rewrite <- app_assoc. rewrite <- app_comm_cons.
    rewrite skip_line_body by assumption.
    destruct (e =? 10) eqn:E10.
    + exists g. repeat split; auto. lens.
    + destruct g as [|c g2].
      * cbn [app]. exists []. split; [constructor|]. split; [lens|].
        cbn [app]. destruct r as [|c r]; [reflexivity|].
        assert (Hc10 : (c =? 10) = false).
        { cbn in Hr. unfold is_ms_or_hash, is_ms in Hr.
          repeat (apply orb_false_iff in Hr; destruct Hr as [Hr ?]). assumption. }
        now rewrite Hc10.
      * cbn [app]. destruct (c =? 10) eqn:Ec.
        -- inversion Hg as [|? ? ? Hg2|body2 e2 g3 ? ? ? E3]; subst.
           ++ exists g2. repeat split; auto. lens.
           ++ nb. discriminate.
        -- exists (c :: g2). repeat split; auto. lens.
Qed.

Lemma ws_loop_gap : forall n g, (length g <= n)%nat -> wsgap g -> forall fuel r, startok r ->
  (length (g ++ r) < fuel)%nat -> ws_loop fuel (g ++ r) = (Ok tt, r).
Proof.
  induction n as [|n IH]; intros g Hn Hg fuel r Hr Hf.
  - destruct g; [|cbn in Hn; lia]. cbn [app] in *. destruct fuel as [|fuel]; [lia|]. now apply ws_loop_stop.
  - destruct g as [|b0 g0] eqn:Eg.
    { cbn [app] in *. destruct fuel as [|fuel]; [lia|]. now apply ws_loop_stop. }
    rewrite <- Eg in *. assert (Hne : g <> []) by (rewrite Eg; discriminate).
    destruct (ws_step_gap g Hg Hne r Hr) as (g' & Hg' & Hl & E).
    destruct fuel as [|fuel]; [lia|]. rewrite ws_loop_unfold. rewrite E.
    destruct (Nat.eqb (length (g' ++ r)) (length (g ++ r))) eqn:El.
    { apply Nat.eqb_eq in El. unfold byte in *. rewrite !app_length in El. lia. }
    apply IH; auto; [lia|]. unfold byte in *. rewrite !app_length in *. lia.
Qed.

Lemma ws_gap g r : wsgap g -> startok r -> ws (g ++ r) = (Ok tt, r).
Proof. intros Hg Hr. unfold ws. apply (ws_loop_gap (length g) g (le_n _) Hg); auto. Qed.

(* comma_sep over a separator with arbitrary blanks *)
Lemma comma_sep_gap g1 g2 x :
  blanks g1 -> wsgap g2 -> startok x -> comma_sep (g1 ++ 44 :: g2 ++ x) = (Ok tt, x).
Proof.
  intros H1 H2 Hx. unfold comma_sep.
  step (apply ws_blanks; [exact H1 | reflexivity]).
  bsnorm.
  step (apply (literal_app [44])).
  now apply ws_gap.
Qed.

Lemma comma_sep_close g x : blanks g -> exists j, comma_sep (g ++ 41 :: x) = (Back, j).
Proof.
  intros Hg. unfold comma_sep. eexists.
  step (apply ws_blanks; [exact Hg | reflexivity]).
  apply bind_back. bsnorm. now apply literal_hd_fail.
Qed.

(* ------------------------------------------------------------------ comma-separated layouts *)

(* the entries after the first one: blanks "," gap entry; G2 says what the gap after the comma may
   be: blanks only in the direct lists of members (comment lines there are attached to the entry),
   blanks and comment lines inside inline types *)
Section LtailDef.
  Context {X : Type}.
  Variable G2 : list byte -> Prop.
  Variable LX : X -> list byte -> Prop.
  Fixpoint Ltail (l : list X) (t : list byte) : Prop :=
    match l with
    | [] => t = []
    | y :: l' => exists g1 g2 sy t', blanks g1 /\ G2 g2 /\ LX y sy /\ Ltail l' t'
                                     /\ t = g1 ++ 44 :: g2 ++ sy ++ t'
    end.
End LtailDef.
Definition LtailW {X} := @Ltail X wsgap.     (* inside inline types *)
Definition LtailB {X} := @Ltail X blanks.    (* direct lists of members *)

Lemma Ltail_closes {X} G2 (LX : X -> list byte -> Prop) l t g x :
  Ltail G2 LX l t -> blanks g -> closes (t ++ g ++ 41 :: x).
Proof.
  intros Ht Hg. destruct l as [|y l]; cbn in Ht.
  - subst t. cbn [app]. apply closes_blank; [exact Hg | apply closes_rparen].
  - destruct Ht as (g1 & g2 & sy & t' & H1 & H2 & _ & _ & ->). rewrite <- !app_assoc. cbn [app].
    apply closes_blank; [exact H1 | apply closes_comma].
Qed.

Lemma Ltail_length {X} G2 (LX : X -> list byte -> Prop) l t : Ltail G2 LX l t -> (length l <= length t)%nat.
Proof.
  revert t. induction l as [|y l IH]; intros t Ht; cbn in Ht |- *; [lia|].
  destruct Ht as (g1 & g2 & sy & t' & _ & _ & _ & Ht' & ->). specialize (IH t' Ht').
  unfold byte in *. repeat (repeat rewrite app_length; cbn [length]). lia.
Qed.

(* ---- names of an inline enum *)

Definition Lname (n : name) (s : list byte) : Prop := s = n.

Lemma alpha_hd_startok n x : field_name_ok n = true -> startok (n ++ x).
Proof. intros H. destruct (field_name_ok_hd n H) as (b & n' & -> & Hb). cbn [app]. now apply alpha_startok. Qed.

Lemma sep_loop_names_gap : forall ns fuel t g x,
  LtailW Lname ns t -> blanks g -> forallb field_name_ok ns = true ->
  (length (t ++ g ++ 41%N :: x) < fuel)%nat ->
  sep_loop fuel field_name comma_sep (t ++ g ++ 41 :: x) = (Ok ns, g ++ 41 :: x).
Proof.
  induction ns as [|n ns IH]; intros fuel t g x Ht Hg Hns Hf; (destruct fuel as [|fuel]; [lia|]).
  - cbn in Ht. subst t. cbn [app sep_loop]. destruct (comma_sep_close g x Hg) as [j Hj]. now rewrite Hj.
  - cbn [forallb] in Hns. apply andb_true_iff in Hns. destruct Hns as [Hn Hns].
    cbn in Ht. destruct Ht as (g1 & g2 & sy & t' & H1 & H2 & Hsy & Ht' & ->). unfold Lname in Hsy. subst sy.
    rewrite <- !app_assoc in *. cbn [app] in *. rewrite <- !app_assoc in *.
    cbn [sep_loop]. rewrite comma_sep_gap; [|exact H1 | exact H2 | now apply alpha_hd_startok].
    progress_check.
    rewrite field_name_app; [|exact Hn | apply closes_nfollow; now apply (Ltail_closes wsgap Lname ns)].
    rewrite IH; [reflexivity | exact Ht' | exact Hg | exact Hns | lens].
Qed.

(* enum_type on "(" g0 n1 (g "," g n)* g1 ")" *)
Lemma enum_type_gap n ns g0 t g1 x :
  wsgap g0 -> blanks g1 -> LtailW Lname ns t -> forallb field_name_ok (n :: ns) = true ->
  enum_type (40 :: g0 ++ n ++ t ++ g1 ++ 41 :: x)
  = (Ok (TEnum (List.map (fun m => mkVariant m []) (n :: ns))), x).
Proof.
  intros H0 H1 Ht Hns. cbn [forallb] in Hns. apply andb_true_iff in Hns. destruct Hns as [Hn Hns].
  unfold enum_type. bsnorm.
  step (apply (literal_app [40])).
  step (apply ws_gap; [exact H0 | now apply alpha_hd_startok]).
  step (unfold separated1;
        rewrite field_name_app by (auto; apply closes_nfollow; now apply (Ltail_closes wsgap Lname ns));
        rewrite (sep_loop_names_gap ns) by (auto; lia); reflexivity).
  step (apply ws_blanks; [exact H1 | reflexivity]).
  step (apply (literal_app [41])).
  reflexivity.
Qed.

(* struct_type backs off on an enum text: after the first name comes (blanks and) ',' or ')' *)
Lemma field_p_back_on_name_gap vt n x :
  field_name_ok n = true -> closes x -> exists j, field_p vt (n ++ x) = (Back, j).
Proof.
  intros Hn Hx. pose proof Hx as (gb & c & rest & Hgb & Hc & ->).
  unfold field_p.
  step (apply ppc_nil; now apply alpha_hd_startok).
  step (apply field_name_app; [exact Hn | now apply closes_nfollow]).
  step (apply ws_blanks; [exact Hgb | destruct Hc; subst; reflexivity]).
  eexists. apply bind_back. bsnorm. apply literal_hd_fail. destruct Hc; subst; reflexivity.
Qed.

Lemma struct_type_back_on_enum_gap vt n ns g0 t g1 x :
  wsgap g0 -> blanks g1 -> LtailW Lname ns t -> forallb field_name_ok (n :: ns) = true ->
  exists j, struct_type vt (40 :: g0 ++ n ++ t ++ g1 ++ 41 :: x) = (Back, j).
Proof.
  intros H0 H1 Ht Hns. cbn [forallb] in Hns. apply andb_true_iff in Hns. destruct Hns as [Hn Hns].
  destruct (field_name_ok_hd n Hn) as (b & n' & En & Hb).
  destruct (field_p_back_on_name_gap vt n (t ++ g1 ++ 41 :: x) Hn (Ltail_closes wsgap Lname ns t g1 x Ht H1)) as [j Hj].
  unfold struct_type. bsnorm.
  step (apply (literal_app [40])).
  step (apply ws_gap; [exact H0 | now apply alpha_hd_startok]).
  step (unfold separated0; rewrite Hj; reflexivity).
  step (apply ws_none; now apply alpha_hd_startok).
  eexists. apply bind_back. subst n. cbn [app]. apply literal_hd_fail.
  unfold is_alpha, is_upper, is_lower in Hb. apply N.eqb_neq. intros <-. discriminate.
Qed.

(* ------------------------------------------------------------------ layout of types *)

(* an inline-struct field: name g ":" g type (comments inside inline types are layout only and
   are not part of this relation) *)
Definition Lfield_with (LT : ty -> list byte -> Prop) (f : field) (s : list byte) : Prop :=
  field_name_ok (fname f) = true /\ fcomments f = [] /\
  exists ga gb st, blanks ga /\ blanks gb /\ LT (fty f) st /\ s = fname f ++ ga ++ 58 :: gb ++ st.

Fixpoint Lty (t : ty) (s : list byte) : Prop :=
  match t with
  | TPrim p => s = render_prim p
  | TOpt t' => is_topt t' = false /\ exists s', Lty t' s' /\ s = kw_optional ++ s'
  | TArr t' => exists s', Lty t' s' /\ s = kw_array ++ s'
  | TMap t' => exists s', Lty t' s' /\ s = kw_map ++ s'
  | TCustom n => type_name_ok n = true /\ s = n
  | TEnum vs =>
      match vs with
      | [] => False
      | v :: vs' =>
          forallb (fun v => negb (has_comments v)) vs = true
          /\ forallb field_name_ok (List.map vname vs) = true
          /\ exists g0 t g1, wsgap g0 /\ blanks g1 /\ LtailW Lname (List.map vname vs') t
                             /\ s = 40 :: g0 ++ vname v ++ t ++ g1 ++ [41]
      end
  | TStruct fs =>
      match fs with
      | [] => exists g0, wsgap g0 /\ s = 40 :: g0 ++ [41]
      | f :: fs' =>
          exists g0 sf t g1, wsgap g0 /\ blanks g1 /\ Lfield_with Lty f sf
                             /\ LtailW (Lfield_with Lty) fs' t
                             /\ s = 40 :: g0 ++ sf ++ t ++ g1 ++ [41]
      end
  end.

Definition Lfield := Lfield_with Lty.

Lemma Lty_hd t s : Lty t s -> exists b l, s = b :: l /\ type_start b = true.
Proof.
  destruct t; cbn [Lty].
  - intros ->. destruct (render_prim_hd p) as (b & l & E & Hb). exists b, l. split; [exact E|].
    unfold type_start. now rewrite (lower_alpha b Hb).
  - intros (_ & s' & _ & ->). eexists; eexists; split; reflexivity.
  - intros (s' & _ & ->). eexists; eexists; split; reflexivity.
  - intros (s' & _ & ->). eexists; eexists; split; reflexivity.
  - intros (Hn & ->). destruct (type_name_ok_hd n Hn) as (b & l & -> & Hb). exists b, l. split; [reflexivity|].
    unfold type_start. now rewrite (upper_alpha b Hb).
  - destruct vs as [|v vs]; [tauto|]. intros (_ & _ & g0 & t & g1 & _ & _ & _ & ->).
    eexists; eexists; split; reflexivity.
  - destruct fs as [|f fs].
    + intros (g0 & _ & ->). eexists; eexists; split; reflexivity.
    + intros (g0 & sf & t & g1 & _ & _ & _ & _ & ->). eexists; eexists; split; reflexivity.
Qed.

Lemma Lty_startok t s x : Lty t s -> startok (s ++ x).
Proof. intros H. destruct (Lty_hd t s H) as (b & l & -> & Hb). cbn [app]. now apply type_start_startok. Qed.

Lemma nfollow_gap_colon ga r : blanks ga -> nfollow (ga ++ 58 :: r).
Proof.
  intros Hg. destruct ga as [|b ga]; [reflexivity|]. cbn. inversion Hg as [|? ? Hb _]; subst.
  unfold is_ms in Hb. repeat (apply orb_true_iff in Hb; destruct Hb as [Hb|Hb]); nb; subst; reflexivity.
Qed.

Section StructGap.
  Variable vt : parser ty.
  Variable L : nat.

  Definition field_good_g (f : field) : Prop :=
    forall st x, Lty (fty f) st -> closes x -> (length (st ++ x) <= L)%nat -> vt (st ++ x) = (Ok (fty f), x).

  Lemma field_p_gap f sf x :
    Lfield f sf -> field_good_g f -> closes x -> (length (sf ++ x) <= L)%nat ->
    field_p vt (sf ++ x) = (Ok f, x).
  Proof.
    intros (Hn & Hc & ga & gb & st & Ha & Hb & Ht & ->) Hg Hx Hl.
    rewrite <- !app_assoc in *. cbn [app] in *. rewrite <- !app_assoc in *. unfold field_p.
    step (apply ppc_nil; now apply alpha_hd_startok).
    step (apply field_name_app; [exact Hn | now apply nfollow_gap_colon]).
    step (apply ws_blanks; [exact Ha | reflexivity]).
    bsnorm.
    step (apply (literal_app [58])).
    step (apply ws_blanks; [exact Hb | now apply (Lty_startok (fty f))]).
    step (apply Hg; [exact Ht | exact Hx | lens]).
    unfold ret. destruct f as [n t cs]. cbn in *. now subst cs.
  Qed.

  Lemma Lfield_startok f sf x : Lfield f sf -> startok (sf ++ x).
  Proof.
    intros (Hn & _ & ga & gb & st & _ & _ & _ & ->). rewrite <- !app_assoc. now apply alpha_hd_startok.
  Qed.

  Lemma sep_loop_fields_gap : forall fs fuel t g x,
    LtailW Lfield fs t -> Forall field_good_g fs -> blanks g ->
    (length (t ++ g ++ 41%N :: x) < fuel)%nat -> (length (t ++ g ++ 41%N :: x) <= L)%nat ->
    sep_loop fuel (field_p vt) comma_sep (t ++ g ++ 41 :: x) = (Ok fs, g ++ 41 :: x).
  Proof.
    induction fs as [|f fs IH]; intros fuel t g x Ht Hfs Hg Hf HL; (destruct fuel as [|fuel]; [lia|]).
    - cbn in Ht. subst t. cbn [app sep_loop]. destruct (comma_sep_close g x Hg) as [j Hj]. now rewrite Hj.
    - inversion Hfs as [|? ? Hgood Hfs']; subst.
      cbn in Ht. destruct Ht as (g1 & g2 & sf & t' & H1 & H2 & Hsf & Ht' & ->).
      rewrite <- !app_assoc in *. cbn [app] in *. rewrite <- !app_assoc in *.
      cbn [sep_loop]. rewrite comma_sep_gap; [|exact H1 | exact H2 | now apply (Lfield_startok f)].
      progress_check.
      rewrite (field_p_gap f); [|exact Hsf | exact Hgood | now apply (Ltail_closes wsgap Lfield fs) | lens].
      rewrite IH; [reflexivity | exact Ht' | exact Hfs' | exact Hg | lens | lens].
  Qed.

  Lemma struct_type_gap_nil g0 x : wsgap g0 -> struct_type vt (40 :: g0 ++ 41 :: x) = (Ok (TStruct []), x).
  Proof.
    intros H0. unfold struct_type. bsnorm.
    step (apply (literal_app [40])).
    step (apply ws_gap; [exact H0 | reflexivity]).
    step (unfold separated0, field_p;
          erewrite bind_ok by (apply ppc_nil; reflexivity); cbv beta;
          erewrite bind_back by (apply field_name_fail; reflexivity); reflexivity).
    step (apply ws_none; reflexivity).
    step (apply (literal_app [41])).
    reflexivity.
  Qed.

  Lemma struct_type_gap f fs g0 sf t g1 x :
    wsgap g0 -> blanks g1 -> Lfield f sf -> LtailW Lfield fs t -> Forall field_good_g (f :: fs) ->
    (length (sf ++ t ++ g1 ++ 41%N :: x) <= L)%nat ->
    struct_type vt (40 :: g0 ++ sf ++ t ++ g1 ++ 41 :: x) = (Ok (TStruct (f :: fs)), x).
  Proof.
    intros H0 H1 Hsf Ht Hfs HL. inversion Hfs as [|? ? Hgood Hfs']; subst.
    unfold struct_type. bsnorm.
    step (apply (literal_app [40])).
    step (apply ws_gap; [exact H0 | now apply (Lfield_startok f)]).
    step (unfold separated0;
          rewrite (field_p_gap f) by (first [assumption | now apply (Ltail_closes wsgap Lfield fs) | lens]);
          rewrite (sep_loop_fields_gap fs) by (first [assumption | lens]); reflexivity).
    step (apply ws_blanks; [exact H1 | reflexivity]).
    step (apply (literal_app [41])).
    reflexivity.
  Qed.
End StructGap.

(* ------------------------------------------------------------------ the type-level theorem on layouts *)

Theorem type_gap : forall t s, Lty t s ->
  forall fuel x, closes x -> (length (s ++ x) <= fuel)%nat ->
  (is_topt t = false -> non_optional_type (V fuel) (s ++ x) = (Ok t, x))
  /\ V (S fuel) (s ++ x) = (Ok t, x).
Proof.
  induction t as [p | t IH | t IH | t IH | n | vs | fs IH] using ty_ind2; intros s Hs fuel x Hx Hl.
  - (* primitive *)
    cbn [Lty] in Hs. subst s.
    destruct (render_prim_hd p) as (b & l & E & Hb).
    assert (H91 : (91 =? b) = false) by (apply (neq_of_class (fun c => c =? 91)); [reflexivity|];
      apply N.eqb_neq; intros ->; discriminate).
    assert (H63 : (63 =? b) = false) by (apply (neq_of_class (fun c => c =? 63)); [reflexivity|];
      apply N.eqb_neq; intros ->; discriminate).
    assert (Hno : non_optional_type (V fuel) (render_prim p ++ x) = (Ok (TPrim p), x)).
    { rewrite E. cbn [app]. rewrite nonopt_element by exact H91.
      unfold element_type. apply alt2_ok. rewrite app_comm_cons, <- E. apply primitive_type_render. }
    split; [intros _; exact Hno|].
    rewrite E in *. cbn [app] in *. rewrite V_nonopt by exact H63. exact Hno.
  - (* optional *)
    split; [discriminate|].
    cbn [Lty] in Hs. destruct Hs as (Hno & s' & Hs' & ->). rewrite <- app_assoc in *.
    rewrite V_S. apply alt2_ok. unfold optional_type.
    step (apply (literal_app kw_optional)).
    assert (Hl' : (length (s' ++ x) <= fuel)%nat) by (unfold kw_optional in Hl; lens).
    destruct (IH s' Hs' fuel x Hx Hl') as [IH1 _]. rewrite (bind_ok _ _ _ _ _ (IH1 Hno)). reflexivity.
  - (* array *)
    cbn [Lty] in Hs. destruct Hs as (s' & Hs' & ->). rewrite <- app_assoc in *.
    destruct fuel as [|fuel]; [unfold kw_array in Hl; lens|].
    assert (Hl' : (length (s' ++ x) <= fuel)%nat) by (unfold kw_array in Hl; lens).
    destruct (IH s' Hs' fuel x Hx Hl') as [_ IH2].
    assert (Hno : non_optional_type (V (S fuel)) (kw_array ++ s' ++ x) = (Ok (TArr t), x)).
    { unfold non_optional_type. apply alt2_ok. unfold array_type.
      step (apply (literal_app kw_array)). rewrite (bind_ok _ _ _ _ _ IH2). reflexivity. }
    split; [intros _; exact Hno|].
    unfold kw_array in *. cbn [app] in *. rewrite V_nonopt by reflexivity. exact Hno.
  - (* map *)
    cbn [Lty] in Hs. destruct Hs as (s' & Hs' & ->). rewrite <- app_assoc in *.
    destruct fuel as [|fuel]; [unfold kw_map in Hl; lens|].
    assert (Hl' : (length (s' ++ x) <= fuel)%nat) by (unfold kw_map in Hl; lens).
    destruct (IH s' Hs' fuel x Hx Hl') as [_ IH2].
    assert (Hno : non_optional_type (V (S fuel)) (kw_map ++ s' ++ x) = (Ok (TMap t), x)).
    { unfold non_optional_type.
      assert (Ha : array_type (V (S fuel)) (kw_map ++ s' ++ x) = (Back, kw_map ++ s' ++ x))
        by (apply bind_back; reflexivity).
      rewrite (alt2_back _ _ _ _ Ha). apply alt2_ok. unfold map_type.
      step (apply (literal_app kw_map)). rewrite (bind_ok _ _ _ _ _ IH2). reflexivity. }
    split; [intros _; exact Hno|].
    unfold kw_map in *. cbn [app] in *. rewrite V_nonopt by reflexivity. exact Hno.
  - (* custom *)
    cbn [Lty] in Hs. destruct Hs as (Hn & ->).
    destruct (type_name_ok_hd n Hn) as (b & n' & En & Hb).
    assert (Hnl : is_lower b = false).
    { unfold is_upper, is_lower in *. nb. apply andb_false_iff. left. apply N.leb_gt. lia. }
    assert (H91 : (91 =? b) = false) by (unfold is_upper in Hb; nb; apply N.eqb_neq; lia).
    assert (H63 : (63 =? b) = false) by (unfold is_upper in Hb; nb; apply N.eqb_neq; lia).
    assert (Hno : non_optional_type (V fuel) (n ++ x) = (Ok (TCustom n), x)).
    { rewrite En. cbn [app]. rewrite nonopt_element by exact H91.
      unfold element_type. rewrite (alt2_back _ _ _ _ (primitive_type_fail b _ Hnl)).
      apply alt2_ok. apply pmap_ok. rewrite app_comm_cons, <- En.
      apply type_name_app; [exact Hn | now apply closes_tfollow]. }
    split; [intros _; exact Hno|].
    rewrite En in *. cbn [app] in *. rewrite V_nonopt by exact H63. exact Hno.
  - (* inline enum *)
    cbn [Lty] in Hs. destruct vs as [|v vs]; [tauto|].
    destruct Hs as (Hnc & Hnames & g0 & t & g1 & H0 & H1 & Ht & ->).
    assert (Hno : non_optional_type (V fuel) ((40 :: g0 ++ vname v ++ t ++ g1 ++ [41]) ++ x)
                  = (Ok (TEnum (v :: vs)), x)).
    { rewrite <- !app_comm_cons. rewrite <- !app_assoc. cbn [app].
      rewrite nonopt_element by reflexivity. unfold element_type.
      rewrite (alt2_back _ _ _ _ (primitive_type_fail 40 _ eq_refl)).
      rewrite (alt2_back _ _ _ _ (pmap_back _ _ _ _ (type_name_fail 40 _ eq_refl))).
      unfold inline_type.
      destruct (struct_type_back_on_enum_gap (V fuel) (vname v) (List.map vname vs) g0 t g1 x H0 H1 Ht Hnames)
        as [j Hj].
      rewrite (alt2_back _ _ _ _ Hj).
      rewrite (enum_type_gap (vname v) (List.map vname vs)) by assumption.
      change (vname v :: List.map vname vs) with (List.map vname (v :: vs)).
      now rewrite variants_of_names. }
    split; [intros _; exact Hno|].
    revert Hno. rewrite <- !app_comm_cons. intros Hno. rewrite V_nonopt by reflexivity. exact Hno.
  - (* inline struct *)
    cbn [Lty] in Hs. destruct fs as [|f fs].
    + destruct Hs as (g0 & H0 & ->).
      assert (Hno : non_optional_type (V fuel) ((40 :: g0 ++ [41]) ++ x) = (Ok (TStruct []), x)).
      { rewrite <- !app_comm_cons. rewrite <- !app_assoc. cbn [app].
        rewrite nonopt_element by reflexivity. unfold element_type.
        rewrite (alt2_back _ _ _ _ (primitive_type_fail 40 _ eq_refl)).
        rewrite (alt2_back _ _ _ _ (pmap_back _ _ _ _ (type_name_fail 40 _ eq_refl))).
        unfold inline_type. apply alt2_ok. now apply struct_type_gap_nil. }
      split; [intros _; exact Hno|].
      revert Hno. rewrite <- !app_comm_cons. intros Hno. rewrite V_nonopt by reflexivity. exact Hno.
    + destruct Hs as (g0 & sf & t & g1 & H0 & H1 & Hsf & Ht & ->).
      rewrite <- !app_comm_cons in Hl. rewrite <- !app_assoc in Hl. cbn [app length] in Hl.
      destruct fuel as [|fuel]; [lia|].
      assert (Hgood : Forall (field_good_g (V (S fuel)) fuel) (f :: fs)).
      { apply Forall_forall. intros f' Hf'. rewrite Forall_forall in IH.
        intros st y Hst Hy Hly. now apply (IH f' Hf' st Hst fuel y Hy Hly). }
      assert (Hno : non_optional_type (V (S fuel)) ((40 :: g0 ++ sf ++ t ++ g1 ++ [41]) ++ x)
                    = (Ok (TStruct (f :: fs)), x)).
      { rewrite <- !app_comm_cons. rewrite <- !app_assoc. cbn [app].
        rewrite nonopt_element by reflexivity. unfold element_type.
        rewrite (alt2_back _ _ _ _ (primitive_type_fail 40 _ eq_refl)).
        rewrite (alt2_back _ _ _ _ (pmap_back _ _ _ _ (type_name_fail 40 _ eq_refl))).
        unfold inline_type. apply alt2_ok.
        apply (struct_type_gap (V (S fuel)) fuel f fs g0 sf t g1 x); auto. lens. }
      split; [intros _; exact Hno|].
      revert Hno. rewrite <- !app_comm_cons. intros Hno. rewrite V_nonopt by reflexivity. exact Hno.
Qed.

Lemma varlink_type_gap t s x : Lty t s -> closes x -> varlink_type (s ++ x) = (Ok t, x).
Proof.
  intros Hs Hx. unfold varlink_type.
  destruct (type_gap t s Hs (length (s ++ x)) x Hx (le_n _)) as [_ H]. exact H.
Qed.

(* ------------------------------------------------------------------ attached comment lines *)

(* "#" blanks text eol blanks, repeated: the comment lines in front of the interface, a member,
   a direct field / parameter / variant. The end of line is LF or CR (CRLF = CR then a blank). *)
Inductive clines : list comment -> list byte -> Prop :=
| cl_nil : clines [] []
| cl_cons c cs lead e g s :
    Forall (fun b => is_sp_tab b = true) lead -> comment_ok c = true -> (e = 10 \/ e = 13) ->
    blanks g -> clines cs s -> clines (c :: cs) (35 :: lead ++ c ++ e :: g ++ s).

Lemma comment_ok_parts c : comment_ok c = true ->
  utf8_valid c = true
  /\ Forall (fun x : byte => negb (x =? 10) && negb (x =? 13) = true) c
  /\ match c with b :: _ => is_sp_tab b = false | [] => True end.
Proof.
  unfold comment_ok. intros H. apply andb_true_iff in H. destruct H as [H Hlead].
  apply andb_true_iff in H. destruct H as [Hval Hnl]. apply negb_true_iff in Hnl.
  split; [exact Hval|]. split.
  - apply Forall_forall. intros x Hx.
    destruct (negb (x =? 10) && negb (x =? 13)) eqn:E; [reflexivity|].
    exfalso. assert (Hex : existsb (fun b => (b =? 10) || (b =? 13)) c = true).
    { apply existsb_exists. exists x. split; [exact Hx|].
      apply andb_false_iff in E. destruct E as [E|E]; apply negb_false_iff in E; rewrite E;
        [reflexivity | apply orb_true_r]. }
    congruence.
  - destruct c as [|b c]; [exact I|]. now apply negb_true_iff in Hlead.
Qed.

Lemma comment_def_gap lead c e r :
  Forall (fun b => is_sp_tab b = true) lead -> comment_ok c = true -> (e = 10 \/ e = 13) ->
  comment_def (35 :: lead ++ c ++ e :: r) = (Ok c, e :: r).
Proof.
  intros Hlead Hc He. destruct (comment_ok_parts c Hc) as (Hval & Hline & Hfirst).
  assert (Hsp : skip_sp_tab (lead ++ c ++ e :: r) = (Ok tt, c ++ e :: r)).
  { unfold skip_sp_tab. rewrite span_all; [reflexivity | exact Hlead|].
    destruct c as [|b c]; cbn; [destruct He; subst; reflexivity | exact Hfirst]. }
  unfold comment_def. bsnorm.
  step (apply (literal_app [35])).
  step (exact Hsp).
  step (apply take_while0_all; [exact Hline | destruct He; subst; reflexivity]).
  unfold bytes_to_str. now rewrite Hval.
Qed.

Lemma clines_hd cs s r : clines cs s -> nhd is_ms r -> nhd is_ms (s ++ r).
Proof. intros H Hr. destruct H; [exact Hr | reflexivity]. Qed.

Lemma ppc_loop_clines : forall cs fuel s r,
  clines cs s -> startok r -> (length (s ++ r) < fuel)%nat -> ppc_loop fuel (s ++ r) = (Ok cs, r).
Proof.
  intros cs fuel s r H. revert fuel r. induction H as [|c cs lead e g s Hlead Hc He Hg Hcs IH]; intros fuel r Hr Hf.
  - cbn [app]. pose proof (ppc_loop_block [] fuel [] r eq_refl (Forall_nil _) Hr) as Hp.
    cbn [comment_block flat_map app] in Hp. now apply Hp.
  - destruct fuel as [|fuel]; [lia|].
    rewrite <- !app_comm_cons in *. rewrite <- !app_assoc in *. cbn [app] in *. rewrite <- !app_assoc in *.
    cbn [ppc_loop]. rewrite skip_ms_none by reflexivity. cbv iota.
    rewrite comment_def_gap by assumption.
    change (e :: g ++ s ++ r) with ((e :: g) ++ s ++ r).
    rewrite skip_ms_blanks.
    + rewrite IH; [reflexivity | exact Hr | lens].
    + constructor; [destruct He; subst; reflexivity | exact Hg].
    + apply (clines_hd cs); [exact Hcs | now apply startok_ms].
Qed.

Lemma ppc_clines cs s r : clines cs s -> startok r -> parse_preceding_comments (s ++ r) = (Ok cs, r).
Proof. intros. unfold parse_preceding_comments. apply ppc_loop_clines; auto. Qed.

(* the first byte of comment lines followed by r is '#' or the first byte of r *)
Lemma clines_first cs s r b l : clines cs s -> r = b :: l ->
  exists b' l', s ++ r = b' :: l' /\ (b' = 35 \/ b' = b).
Proof. intros H E. destruct H; subst; cbn [app]; eauto. Qed.

(* ------------------------------------------------------------------ direct fields, variants *)

Definition Ldfield (f : field) (s : list byte) : Prop :=
  field_name_ok (fname f) = true /\
  exists sc ga gb st, clines (fcomments f) sc /\ blanks ga /\ blanks gb /\ Lty (fty f) st
                      /\ s = sc ++ fname f ++ ga ++ 58 :: gb ++ st.

Definition Lvariant (v : variant) (s : list byte) : Prop :=
  field_name_ok (vname v) = true /\ exists sc, clines (vcomments v) sc /\ s = sc ++ vname v.

Lemma alpha_not_ms b : is_alpha b = true -> is_ms b = false.
Proof.
  intros H. pose proof (alpha_startok b [] H) as Hs. cbn in Hs. unfold is_ms_or_hash in Hs.
  now apply orb_false_iff in Hs.
Qed.

Lemma entry_start cs sc n y : clines cs sc -> field_name_ok n = true ->
  exists b l, sc ++ n ++ y = b :: l /\ is_ms b = false /\ (41 =? b) = false /\ (44 =? b) = false.
Proof.
  intros Hc Hn. destruct (field_name_ok_hd n Hn) as (b & n' & -> & Hb).
  destruct Hc.
  - cbn [app]. exists b, (n' ++ y). split; [reflexivity|]. split; [now apply alpha_not_ms|].
    unfold is_alpha, is_upper, is_lower in Hb. split; apply N.eqb_neq; intros <-; discriminate.
  - rewrite <- !app_comm_cons. eexists; eexists; split; [reflexivity|]. repeat split; reflexivity.
Qed.

Lemma Ldfield_start f s y : Ldfield f s ->
  exists b l, s ++ y = b :: l /\ is_ms b = false /\ (41 =? b) = false /\ (44 =? b) = false.
Proof.
  intros (Hn & sc & ga & gb & st & Hc & _ & _ & _ & ->). rewrite <- !app_assoc.
  now apply (entry_start (fcomments f)).
Qed.

Lemma Lvariant_start v s y : Lvariant v s ->
  exists b l, s ++ y = b :: l /\ is_ms b = false /\ (41 =? b) = false /\ (44 =? b) = false.
Proof.
  intros (Hn & sc & Hc & ->). rewrite <- !app_assoc. now apply (entry_start (vcomments v)).
Qed.

Definition not_rparen (r : list byte) : Prop := match r with b :: _ => (41 =? b) = false | [] => True end.

Lemma Ldfield_nhd f s y : Ldfield f s -> nhd is_ms (s ++ y) /\ not_rparen (s ++ y).
Proof. intros H. destruct (Ldfield_start f s y H) as (b & l & -> & Hb1 & Hb2 & _). split; assumption. Qed.

Lemma Lvariant_nhd v s y : Lvariant v s -> nhd is_ms (s ++ y) /\ not_rparen (s ++ y).
Proof. intros H. destruct (Lvariant_start v s y H) as (b & l & -> & Hb1 & Hb2 & _). split; assumption. Qed.

Lemma param_entry_gap f s x : Ldfield f s -> closes x -> param_entry (s ++ x) = (Ok (inl f), x).
Proof.
  intros (Hn & sc & ga & gb & st & Hc & Ha & Hb & Ht & ->) Hx.
  rewrite <- !app_assoc. cbn [app]. rewrite <- !app_assoc. unfold param_entry.
  step (apply ppc_clines; [exact Hc | now apply alpha_hd_startok]).
  step (apply field_name_app; [exact Hn | now apply nfollow_gap_colon]).
  step (apply ws_blanks; [exact Ha | reflexivity]).
  bsnorm.
  step (apply (literal_app [58])).
  step (apply ws_blanks; [exact Hb | now apply (Lty_startok (fty f))]).
  step (apply (varlink_type_gap (fty f)); assumption).
  unfold ret. destruct f as [n t cs]. reflexivity.
Qed.

Lemma typedef_entry_field_gap f s x : Ldfield f s -> closes x -> typedef_entry (s ++ x) = (Ok (inl f), x).
Proof.
  intros (Hn & sc & ga & gb & st & Hc & Ha & Hb & Ht & ->) Hx.
  rewrite <- !app_assoc. cbn [app]. rewrite <- !app_assoc. unfold typedef_entry.
  step (apply ppc_clines; [exact Hc | now apply alpha_hd_startok]).
  step (apply field_name_app; [exact Hn | now apply nfollow_gap_colon]).
  step (apply whitespace_only_blanks; [exact Ha | reflexivity]).
  bsnorm.
  step (apply (try_literal_app [58])).
  step (apply whitespace_only_blanks; [exact Hb | apply startok_ms; now apply (Lty_startok (fty f))]).
  step (apply (varlink_type_gap (fty f)); assumption).
  unfold ret. destruct f as [n t cs]. reflexivity.
Qed.

Lemma typedef_entry_variant_gap v s gb c rest :
  Lvariant v s -> blanks gb -> (c = 44 \/ c = 41) ->
  typedef_entry (s ++ gb ++ c :: rest) = (Ok (inr v), c :: rest).
Proof.
  intros (Hn & sc & Hc & ->) Hgb Hcc. rewrite <- !app_assoc. unfold typedef_entry.
  step (apply ppc_clines; [exact Hc | now apply alpha_hd_startok]).
  step (apply field_name_app; [exact Hn | apply closes_nfollow; exists gb, c, rest; auto]).
  step (apply whitespace_only_blanks; [exact Hgb | destruct Hcc; subst; reflexivity]).
  bsnorm.
  step (apply try_literal_nhd; destruct Hcc; subst; reflexivity).
  unfold ret. destruct v as [n cs]. reflexivity.
Qed.

(* ------------------------------------------------------------------ the entries loop on layouts *)

Section EntriesGap.
  Context {X : Type}.
  Variable one : parser (field + variant).
  Variable LX : X -> list byte -> Prop.
  Variable inj : X -> field + variant.

  (* `one` parses an entry in front of blanks and ',' / ')' and leaves some of the blanks *)
  Definition entry_good_g (a : X) : Prop :=
    (forall sa gb c rest, LX a sa -> blanks gb -> (c = 44 \/ c = 41) ->
       exists gb', blanks gb' /\ one (sa ++ gb ++ c :: rest) = (Ok (inj a), gb' ++ c :: rest))
    /\ (forall sa y, LX a sa -> nhd is_ms (sa ++ y)).

  Lemma entries_loop_gap : forall l a fuel sa t g x,
    LX a sa -> LtailB LX l t -> entry_good_g a -> Forall entry_good_g l -> blanks g ->
    (length l < fuel)%nat ->
    entries_loop one fuel (sa ++ t ++ g ++ 41 :: x) = (Ok (List.map inj (a :: l)), x).
  Proof.
    induction l as [|a' l IH]; intros a fuel sa t g x Hsa Ht Ha Hl Hg Hf; (destruct fuel as [|fuel]; [lia|]);
      destruct Ha as [Ha1 Ha2]; cbn [entries_loop].
    - cbn in Ht. subst t. cbn [app].
      destruct (Ha1 sa g 41 x Hsa Hg (or_intror eq_refl)) as (gb' & Hgb' & Hone).
      step (exact Hone).
      step (apply whitespace_only_blanks; [exact Hgb' | reflexivity]).
      bsnorm.
      step (apply try_literal_hd_fail; reflexivity).
      step (apply (try_literal_app [41])).
      reflexivity.
    - inversion Hl as [|? ? Ha' Hl']; subst.
      cbn in Ht. destruct Ht as (g1 & g2 & sy & t' & H1 & H2 & Hsy & Ht' & ->).
      rewrite <- !app_assoc. cbn [app]. rewrite <- !app_assoc.
      destruct (Ha1 sa g1 44 (g2 ++ sy ++ t' ++ g ++ 41 :: x) Hsa H1 (or_introl eq_refl)) as (gb' & Hgb' & Hone).
      step (exact Hone).
      step (apply whitespace_only_blanks; [exact Hgb' | reflexivity]).
      bsnorm.
      step (apply (try_literal_app [44])).
      step (apply whitespace_only_blanks; [exact H2 | now apply (proj2 Ha')]).
      cbn [length] in Hf.
      step (apply IH; [exact Hsy | exact Ht' | exact Ha' | exact Hl' | exact Hg | lia]).
      reflexivity.
  Qed.
End EntriesGap.

Lemma param_entry_good_g f : entry_good_g param_entry Ldfield inl f.
Proof.
  split.
  - intros sa gb c rest Hsa Hgb Hc. exists gb. split; [exact Hgb|].
    apply param_entry_gap; [exact Hsa | exists gb, c, rest; auto].
  - intros sa y Hsa. destruct (Ldfield_start f sa y Hsa) as (b & l & -> & Hb & _). exact Hb.
Qed.

Lemma typedef_field_good_g f : entry_good_g typedef_entry Ldfield inl f.
Proof.
  split.
  - intros sa gb c rest Hsa Hgb Hc. exists gb. split; [exact Hgb|].
    apply typedef_entry_field_gap; [exact Hsa | exists gb, c, rest; auto].
  - intros sa y Hsa. destruct (Ldfield_start f sa y Hsa) as (b & l & -> & Hb & _). exact Hb.
Qed.

Lemma typedef_variant_good_g v : entry_good_g typedef_entry Lvariant inr v.
Proof.
  split.
  - intros sa gb c rest Hsa Hgb Hc. exists []. split; [constructor|].
    now apply typedef_entry_variant_gap.
  - intros sa y Hsa. destruct (Lvariant_start v sa y Hsa) as (b & l & -> & Hb & _). exact Hb.
Qed.

(* "(" g fields g ")" *)
Definition Llist {X} (LX : X -> list byte -> Prop) (l : list X) (s : list byte) : Prop :=
  match l with
  | [] => exists g0, blanks g0 /\ s = 40 :: g0 ++ [41]
  | a :: l' => exists g0 sa t g1, blanks g0 /\ blanks g1 /\ LX a sa /\ LtailB LX l' t
                                 /\ s = 40 :: g0 ++ sa ++ t ++ g1 ++ [41]
  end.

Definition Lplist := Llist Ldfield.

Lemma Forall_all {X} (P : X -> Prop) l : (forall a, P a) -> Forall P l.
Proof. intros H. apply Forall_forall. auto. Qed.

Lemma parameter_list_gap fs s x : Lplist fs s -> parameter_list (s ++ x) = (Ok fs, x).
Proof.
  intros Hs. unfold parameter_list. bsnorm. destruct fs as [|f fs]; cbn [Lplist Llist] in Hs.
  - destruct Hs as (g0 & H0 & ->). rewrite <- !app_comm_cons. rewrite <- !app_assoc. cbn [app].
    step (apply (literal_app [40])).
    step (apply whitespace_only_blanks; [exact H0 | reflexivity]).
    step (apply (try_literal_app [41])).
    reflexivity.
  - destruct Hs as (g0 & sa & t & g1 & H0 & H1 & Hsa & Ht & ->).
    rewrite <- !app_comm_cons. rewrite <- !app_assoc. cbn [app].
    destruct (Ldfield_nhd f sa (t ++ g1 ++ 41 :: x) Hsa) as [Hb1 Hb2].
    step (apply (literal_app [40])).
    step (apply whitespace_only_blanks; [exact H0 | exact Hb1]).
    step (apply try_literal_nhd; exact Hb2).
    unfold with_len.
    step (apply (entries_loop_gap param_entry Ldfield inl fs f);
          [exact Hsa | exact Ht | apply param_entry_good_g | apply Forall_all; apply param_entry_good_g
          | exact H1 | pose proof (Ltail_length blanks Ldfield fs t Ht); lens]).
    unfold ret. now rewrite (lefts_map_inl (f :: fs)).
Qed.

(* ------------------------------------------------------------------ members *)

Lemma tfollow_gap_lparen g r : blanks g -> tfollow (g ++ 40 :: r).
Proof.
  intros Hg. destruct g as [|b g]; [reflexivity|]. cbn. inversion Hg as [|? ? Hb _]; subst.
  unfold is_ms in Hb. repeat (apply orb_true_iff in Hb; destruct Hb as [Hb|Hb]); nb; subst; reflexivity.
Qed.

Definition Lmethod (m : method) (s : list byte) : Prop :=
  type_name_ok (mname m) = true /\
  exists sc g1 g2 si g3 g4 so,
    clines (mcomments m) sc /\ blanks1 g1 /\ blanks g2 /\ blanks g3 /\ blanks g4
    /\ Lplist (minputs m) si /\ Lplist (moutputs m) so
    /\ s = sc ++ kw_method ++ g1 ++ mname m ++ g2 ++ si ++ g3 ++ kw_arrow ++ g4 ++ so.

Definition Lerror (e : error) (s : list byte) : Prop :=
  type_name_ok (ename e) = true /\
  exists sc g1 g2 sf,
    clines (ecomments e) sc /\ blanks1 g1 /\ blanks g2 /\ Lplist (efields e) sf
    /\ s = sc ++ kw_error ++ g1 ++ ename e ++ g2 ++ sf.

Definition Lcustom (c : custom) (s : list byte) : Prop :=
  match c with
  | CObject n fs cs =>
      type_name_ok n = true /\
      exists sc g1 g2 sf, clines cs sc /\ blanks1 g1 /\ blanks g2 /\ Lplist fs sf
                          /\ s = sc ++ kw_type ++ g1 ++ n ++ g2 ++ sf
  | CEnum n vs cs =>
      type_name_ok n = true /\ vs <> [] /\
      exists sc g1 g2 sv, clines cs sc /\ blanks1 g1 /\ blanks g2 /\ Llist Lvariant vs sv
                          /\ s = sc ++ kw_type ++ g1 ++ n ++ g2 ++ sv
  end.

Definition Lmember (m : member) (s : list byte) : Prop :=
  match m with MType c => Lcustom c s | MMethod m => Lmethod m s | MError e => Lerror e s end.

Lemma Llist_hd {X} (LX : X -> list byte -> Prop) l s : Llist LX l s -> exists r, s = 40 :: r.
Proof.
  destruct l as [|a l]; cbn.
  - intros (g0 & _ & ->). eauto.
  - intros (g0 & sa & t & g1 & _ & _ & _ & _ & ->). eauto.
Qed.

Lemma name_not_ms n y : type_name_ok n = true -> nhd is_ms (n ++ y).
Proof. intros H. destruct (type_name_ok_hd n H) as (b & l & -> & Hb). cbn [app]. now apply upper_not_ms. Qed.

Lemma method_def_gap m s x : Lmethod m s -> method_def (s ++ x) = (Ok m, x).
Proof.
  intros (Hn & sc & g1 & g2 & si & g3 & g4 & so & Hc & [H1 H1ne] & H2 & H3 & H4 & Hsi & Hso & ->).
  destruct (Llist_hd _ _ _ Hsi) as [ri Ei]. destruct (Llist_hd _ _ _ Hso) as [ro Eo].
  rewrite <- !app_assoc. unfold method_def.
  step (apply (ppc_clines (mcomments m)); [exact Hc | reflexivity]).
  step (apply (literal_app kw_method)).
  step (apply take_while1_all; [exact H1ne | exact H1 | now apply name_not_ms]).
  step (apply type_name_app; [exact Hn | rewrite Ei; rewrite <- !app_comm_cons; now apply tfollow_gap_lparen]).
  step (apply ws_blanks; [exact H2 | rewrite Ei; reflexivity]).
  step (apply parameter_list_gap; exact Hsi).
  step (apply ws_blanks; [exact H3 | reflexivity]).
  step (apply (literal_app kw_arrow)).
  step (apply ws_blanks; [exact H4 | rewrite Eo; reflexivity]).
  step (apply parameter_list_gap; exact Hso).
  unfold ret. destruct m. reflexivity.
Qed.

Lemma error_def_gap e s x : Lerror e s -> error_def (s ++ x) = (Ok e, x).
Proof.
  intros (Hn & sc & g1 & g2 & sf & Hc & [H1 H1ne] & H2 & Hsf & ->).
  destruct (Llist_hd _ _ _ Hsf) as [rf Ef].
  rewrite <- !app_assoc. unfold error_def.
  step (apply (ppc_clines (ecomments e)); [exact Hc | reflexivity]).
  step (apply (literal_app kw_error)).
  step (apply take_while1_all; [exact H1ne | exact H1 | now apply name_not_ms]).
  step (apply type_name_app; [exact Hn | rewrite Ef; rewrite <- !app_comm_cons; now apply tfollow_gap_lparen]).
  step (apply ws_blanks; [exact H2 | rewrite Ef; reflexivity]).
  step (apply parameter_list_gap; exact Hsf).
  unfold ret. destruct e. reflexivity.
Qed.

(* type_def up to and including "(" *)
Lemma type_def_prefix_gap n cs sc g1 g2 rest :
  type_name_ok n = true -> clines cs sc -> blanks1 g1 -> blanks g2 ->
  type_def (sc ++ kw_type ++ g1 ++ n ++ g2 ++ 40 :: rest) = type_def_body n cs rest.
Proof.
  intros Hn Hc [H1 H1ne] H2. unfold type_def.
  step (apply (ppc_clines cs); [exact Hc | reflexivity]).
  step (apply (literal_app kw_type)).
  step (apply take_while1_all; [exact H1ne | exact H1 | now apply name_not_ms]).
  step (apply type_name_app; [exact Hn | now apply tfollow_gap_lparen]).
  step (apply ws_blanks; [exact H2 | reflexivity]).
  bsnorm.
  step (apply (literal_app [40])).
  reflexivity.
Qed.

Lemma type_def_gap c s x : Lcustom c s -> type_def (s ++ x) = (Ok c, x).
Proof.
  destruct c as [n fs cs | n vs cs]; cbn [Lcustom].
  - intros (Hn & sc & g1 & g2 & sf & Hc & H1 & H2 & Hsf & ->). rewrite <- !app_assoc.
    destruct fs as [|f fs]; cbn [Lplist Llist] in Hsf.
    + destruct Hsf as (g0 & H0 & ->). rewrite <- !app_comm_cons. rewrite <- !app_assoc. cbn [app].
      rewrite (type_def_prefix_gap n cs) by assumption. unfold type_def_body.
      step (apply whitespace_only_blanks; [exact H0 | reflexivity]).
      step (apply (try_literal_app [41])).
      reflexivity.
    + destruct Hsf as (g0 & sa & t & g3 & H0 & H3 & Hsa & Ht & ->).
      rewrite <- !app_comm_cons. rewrite <- !app_assoc. cbn [app].
      rewrite (type_def_prefix_gap n cs) by assumption. unfold type_def_body.
      destruct (Ldfield_nhd f sa (t ++ g3 ++ 41 :: x) Hsa) as [Hb1 Hb2].
      step (apply whitespace_only_blanks; [exact H0 | exact Hb1]).
      step (bsnorm; apply try_literal_nhd; exact Hb2).
      unfold with_len.
      step (apply (entries_loop_gap typedef_entry Ldfield inl fs f);
            [exact Hsa | exact Ht | apply typedef_field_good_g | apply Forall_all; apply typedef_field_good_g
            | exact H3 | pose proof (Ltail_length blanks Ldfield fs t Ht); lens]).
      cbn zeta. rewrite (lefts_map_inl (f :: fs)), (rights_map_inl (f :: fs)). reflexivity.
  - intros (Hn & Hne & sc & g1 & g2 & sv & Hc & H1 & H2 & Hsv & ->). rewrite <- !app_assoc.
    destruct vs as [|v vs]; [congruence|]. cbn [Llist] in Hsv.
    destruct Hsv as (g0 & sa & t & g3 & H0 & H3 & Hsa & Ht & ->).
    rewrite <- !app_comm_cons. rewrite <- !app_assoc. cbn [app].
    rewrite (type_def_prefix_gap n cs) by assumption. unfold type_def_body.
    destruct (Lvariant_nhd v sa (t ++ g3 ++ 41 :: x) Hsa) as [Hb1 Hb2].
    step (apply whitespace_only_blanks; [exact H0 | exact Hb1]).
    step (bsnorm; apply try_literal_nhd; exact Hb2).
    unfold with_len.
    step (apply (entries_loop_gap typedef_entry Lvariant inr vs v);
          [exact Hsa | exact Ht | apply typedef_variant_good_g | apply Forall_all; apply typedef_variant_good_g
          | exact H3 | pose proof (Ltail_length blanks Lvariant vs t Ht); lens]).
    cbn zeta. rewrite (lefts_map_inr (v :: vs)), (rights_map_inr (v :: vs)). reflexivity.
Qed.

(* keyword mismatch after the comment lines *)
Lemma type_def_back_gap cs sc rest :
  clines cs sc -> startok rest -> literal kw_type rest = (Back, rest) ->
  type_def (sc ++ rest) = (Back, rest).
Proof.
  intros Hc Hs Hl. unfold type_def.
  step (apply (ppc_clines cs); [exact Hc | exact Hs]).
  now apply bind_back.
Qed.

Lemma method_def_back_gap cs sc rest :
  clines cs sc -> startok rest -> literal kw_method rest = (Back, rest) ->
  method_def (sc ++ rest) = (Back, rest).
Proof.
  intros Hc Hs Hl. unfold method_def.
  step (apply (ppc_clines cs); [exact Hc | exact Hs]).
  now apply bind_back.
Qed.

Lemma member_p_gap m s x : Lmember m s -> member_p (s ++ x) = (Ok m, x).
Proof.
  destruct m as [c | m | e]; cbn [Lmember]; intros H; unfold member_p.
  - apply alt2_ok. apply pmap_ok. now apply type_def_gap.
  - pose proof H as (Hn & sc & g1 & g2 & si & g3 & g4 & so & Hc & _ & _ & _ & _ & _ & _ & E).
    assert (Hb : exists j, pmap MType type_def (s ++ x) = (Back, j)).
    { eexists. apply pmap_back. rewrite E. rewrite <- !app_assoc.
      apply (type_def_back_gap (mcomments m)); [exact Hc | reflexivity | reflexivity]. }
    destruct Hb as [j Hb]. rewrite (alt2_back _ _ _ _ Hb).
    apply alt2_ok. apply pmap_ok. now apply method_def_gap.
  - pose proof H as (Hn & sc & g1 & g2 & sf & Hc & _ & _ & _ & E).
    assert (Hb : exists j, pmap MType type_def (s ++ x) = (Back, j)).
    { eexists. apply pmap_back. rewrite E. rewrite <- !app_assoc.
      apply (type_def_back_gap (ecomments e)); [exact Hc | reflexivity | reflexivity]. }
    destruct Hb as [j Hb]. rewrite (alt2_back _ _ _ _ Hb).
    assert (Hb2 : exists j, pmap MMethod method_def (s ++ x) = (Back, j)).
    { eexists. apply pmap_back. rewrite E. rewrite <- !app_assoc.
      apply (method_def_back_gap (ecomments e)); [exact Hc | reflexivity | reflexivity]. }
    destruct Hb2 as [j2 Hb2]. rewrite (alt2_back _ _ _ _ Hb2).
    apply pmap_ok. now apply error_def_gap.
Qed.

(* a member starts with '#' or a keyword letter *)
Lemma Lmember_nhd m s y : Lmember m s -> exists b l, s ++ y = b :: l /\ is_ms b = false.
Proof.
  assert (Hgen : forall cs sc k rest, clines cs sc -> (exists b l, k = b :: l /\ is_ms b = false) ->
            exists b l, (sc ++ k ++ rest) ++ y = b :: l /\ is_ms b = false).
  { intros cs sc k rest Hc (b & l & -> & Hb). destruct Hc.
    - cbn [app]. eauto.
    - rewrite <- !app_comm_cons. eexists; eexists; split; [reflexivity | reflexivity]. }
  destruct m as [[n fs cs | n vs cs] | m | e]; cbn [Lmember Lcustom].
  - intros (_ & sc & g1 & g2 & sf & Hc & _ & _ & _ & ->).
    apply (Hgen cs sc kw_type _ Hc). eexists; eexists; split; reflexivity.
  - intros (_ & _ & sc & g1 & g2 & sf & Hc & _ & _ & _ & ->).
    apply (Hgen cs sc kw_type _ Hc). eexists; eexists; split; reflexivity.
  - intros (_ & sc & g1 & g2 & si & g3 & g4 & so & Hc & _ & _ & _ & _ & _ & _ & ->).
    apply (Hgen (mcomments m) sc kw_method _ Hc). eexists; eexists; split; reflexivity.
  - intros (_ & sc & g1 & g2 & sf & Hc & _ & _ & _ & ->).
    apply (Hgen (ecomments e) sc kw_error _ Hc). eexists; eexists; split; reflexivity.
Qed.

(* ------------------------------------------------------------------ the interface *)

(* members, each preceded by at least one blank *)
Fixpoint Lmembers (ms : list member) (s : list byte) : Prop :=
  match ms with
  | [] => s = []
  | m :: ms' => exists g sm s', blanks1 g /\ Lmember m sm /\ Lmembers ms' s' /\ s = g ++ sm ++ s'
  end.

Lemma Lmembers_length ms s : Lmembers ms s -> (length ms <= length s)%nat.
Proof.
  revert s. induction ms as [|m ms IH]; intros s H; cbn in H |- *; [lia|].
  destruct H as (g & sm & s' & [_ Hne] & _ & Hs' & ->). specialize (IH s' Hs').
  destruct g; [congruence|]. lens.
Qed.

Lemma members_loop_gap : forall ms fuel s,
  Lmembers ms s -> (length ms < fuel)%nat -> members_loop fuel s = (Ok ms, []).
Proof.
  induction ms as [|m ms IH]; intros fuel s Hs Hf; (destruct fuel as [|fuel]; [lia|]); cbn in Hs.
  - subst s. reflexivity.
  - destruct Hs as (g & sm & s' & [Hg Hne] & Hm & Hs' & ->).
    destruct (Lmember_nhd m sm s' Hm) as (b & l & E & Hb).
    destruct g as [|b0 g0]; [congruence|]. rewrite <- app_comm_cons. cbn [members_loop].
    rewrite app_comm_cons. rewrite skip_ms_blanks; [|exact Hg | rewrite E; exact Hb].
    rewrite E. rewrite <- E.
    rewrite (member_p_gap m) by exact Hm.
    cbn [length] in Hf. rewrite IH; [reflexivity | exact Hs' | lia].
Qed.

(* the whole text: blanks, comment lines, "interface" name, members, blanks *)
Definition Linterface (n : name) (cs : list comment) (ms : list member) (s : list byte) : Prop :=
  interface_name_ok n = true /\
  exists lead sc g1 body trail,
    blanks lead /\ blanks trail /\ clines cs sc /\ blanks1 g1 /\ Lmembers ms body
    /\ s = lead ++ (sc ++ kw_interface ++ g1 ++ n ++ body) ++ trail.

Lemma ifollow_members ms body : Lmembers ms body -> ifollow body.
Proof.
  destruct ms as [|m ms]; cbn; [intros ->; exact I|].
  intros (g & sm & s' & [Hg Hne] & _ & _ & ->). destruct g as [|b g]; [congruence|].
  cbn. inversion Hg as [|? ? Hb _]; subst.
  unfold is_ms in Hb. repeat (apply orb_true_iff in Hb; destruct Hb as [Hb|Hb]); nb; subst; reflexivity.
Qed.

Lemma members_loop_first m ms fuel g sm s' :
  blanks g -> Lmember m sm -> Lmembers ms s' -> (S (length ms) < fuel)%nat ->
  members_loop fuel (g ++ sm ++ s') = (Ok (m :: ms), []).
Proof.
  intros Hg Hm Hs' Hf. destruct fuel as [|fuel]; [lia|].
  destruct (Lmember_nhd m sm s' Hm) as (b & l & E & Hb).
  assert (Hne : exists b0 l0, g ++ sm ++ s' = b0 :: l0).
  { destruct g as [|b0 g0]; [rewrite E; cbn; eauto | cbn; eauto]. }
  destruct Hne as (b0 & l0 & Hne). cbn [members_loop]. rewrite Hne. rewrite <- Hne.
  rewrite skip_ms_blanks; [|exact Hg | rewrite E; exact Hb].
  rewrite E. rewrite <- E.
  rewrite (member_p_gap m) by exact Hm.
  rewrite (members_loop_gap ms); [reflexivity | exact Hs' | lia].
Qed.

Lemma interface_def_gap n cs ms sc g1 body :
  interface_name_ok n = true -> clines cs sc -> blanks1 g1 -> Lmembers ms body ->
  interface_def (sc ++ kw_interface ++ g1 ++ n ++ body) = (Ok (interface_of n cs ms), []).
Proof.
  intros Hn Hc [H1 H1ne] Hb.
  destruct (interface_name_ok_decomp n Hn) as (b & l & ss & En & Hba & _).
  unfold interface_def.
  step (apply (ppc_clines cs); [exact Hc | reflexivity]).
  step (apply (literal_app kw_interface)).
  step (apply take_while1_all; [exact H1ne | exact H1 |
        rewrite En; rewrite <- !app_assoc; cbn [app]; apply startok_ms; now apply alpha_startok]).
  step (apply interface_name_app; [exact Hn | now apply (ifollow_members ms)]).
  destruct ms as [|m ms']; cbn in Hb.
  - subst body. step (reflexivity). unfold with_len. step (reflexivity). reflexivity.
  - destruct Hb as (g & sm & s' & [Hg Hgne] & Hm & Hs' & ->).
    destruct (Lmember_nhd m sm s' Hm) as (b0 & l0 & E & Hb0).
    step (apply whitespace_only_blanks; [exact Hg | rewrite E; exact Hb0]).
    unfold with_len.
    step (apply (members_loop_first m ms' _ []); [constructor | exact Hm | exact Hs' |
          pose proof (Lmembers_length ms' s' Hs');
          destruct (Lmember_nhd m sm [] Hm) as (b1 & l1 & E1 & _); rewrite app_nil_r in E1; rewrite E1; lens]).
    reflexivity.
Qed.

(* ------------------------------------------------------------------ trim on surrounding blanks *)

Lemma strip_blanks_gen (f : list byte -> nat) :
  (forall b r, is_ms b = true -> f (b :: r) = 1%nat) ->
  (forall c r, graphic c -> f (c :: r) = O) ->
  forall g c r fuel, blanks g -> (length g < fuel)%nat -> graphic c ->
  strip_while f fuel (g ++ c :: r) = c :: r.
Proof.
  intros Hb Hc. induction g as [|b g IH]; intros c r fuel Hg Hf Hgc; (destruct fuel as [|fuel]; [cbn in Hf; lia|]).
  - cbn [app strip_while]. now rewrite Hc.
  - inversion Hg as [|? ? Hbb Hg']; subst. cbn [app strip_while]. rewrite Hb by exact Hbb.
    cbn [skipn]. apply IH; auto. cbn [length] in Hf. lia.
Qed.

Lemma ws_char_len_blank b r : is_ms b = true -> ws_char_len (b :: r) = 1%nat.
Proof.
  intros H. unfold is_ms in H. unfold ws_char_len.
  repeat (apply orb_true_iff in H; destruct H as [H|H]); nb; subst; reflexivity.
Qed.

Lemma ws_char_len_rev_blank b r : is_ms b = true -> ws_char_len_rev (b :: r) = 1%nat.
Proof.
  intros H. unfold is_ms in H. unfold ws_char_len_rev.
  repeat (apply orb_true_iff in H; destruct H as [H|H]); nb; subst; reflexivity.
Qed.

Lemma blanks_rev g : blanks g -> blanks (rev g).
Proof. apply Forall_rev. Qed.

Lemma trim_blanks lead core trail c1 c2 front back :
  blanks lead -> blanks trail -> core = c1 :: back -> core = front ++ [c2] -> graphic c1 -> graphic c2 ->
  trim (lead ++ core ++ trail) = core.
Proof.
  intros Hl Ht E1 E2 H1 H2. unfold trim.
  assert (Hs : trim_start (lead ++ core ++ trail) = core ++ trail).
  { unfold trim_start. rewrite E1. rewrite <- app_comm_cons.
    apply (strip_blanks_gen ws_char_len ws_char_len_blank ws_char_len_graphic); auto. lens. }
  rewrite Hs. unfold trim_end.
  assert (Hlen : (length (rev trail) < length (core ++ trail))%nat) by (rewrite rev_length, E1; lens).
  assert (Hrev : rev (core ++ trail) = rev trail ++ c2 :: rev front).
  { rewrite rev_app_distr. rewrite E2. rewrite rev_app_distr. reflexivity. }
  rewrite Hrev.
  rewrite (strip_blanks_gen ws_char_len_rev ws_char_len_rev_blank ws_char_len_rev_graphic);
    [|now apply blanks_rev | exact Hlen | exact H2].
  cbn [rev]. rewrite rev_involutive. now rewrite <- E2.
Qed.

(* ------------------------------------------------------------------ last bytes *)

Lemma Llist_last {X} (LX : X -> list byte -> Prop) l s : Llist LX l s -> exists front, s = front ++ [41].
Proof.
  destruct l as [|a l]; cbn.
  - intros (g0 & _ & ->). exists (40 :: g0). reflexivity.
  - intros (g0 & sa & t & g1 & _ & _ & _ & _ & ->). exists (40 :: g0 ++ sa ++ t ++ g1).
    cbn [app]. now rewrite <- !app_assoc.
Qed.

Lemma Lmember_last m s : Lmember m s -> exists front, s = front ++ [41].
Proof.
  destruct m as [[n fs cs | n vs cs] | m | e]; cbn [Lmember Lcustom].
  - intros (_ & sc & g1 & g2 & sf & _ & _ & _ & Hsf & ->). destruct (Llist_last _ _ _ Hsf) as [fr ->].
    eexists. rewrite !app_assoc. reflexivity.
  - intros (_ & _ & sc & g1 & g2 & sv & _ & _ & _ & Hsv & ->). destruct (Llist_last _ _ _ Hsv) as [fr ->].
    eexists. rewrite !app_assoc. reflexivity.
  - intros (_ & sc & g1 & g2 & si & g3 & g4 & so & _ & _ & _ & _ & _ & _ & Hso & ->).
    destruct (Llist_last _ _ _ Hso) as [fr ->]. eexists. rewrite !app_assoc. reflexivity.
  - intros (_ & sc & g1 & g2 & sf & _ & _ & _ & Hsf & ->). destruct (Llist_last _ _ _ Hsf) as [fr ->].
    eexists. rewrite !app_assoc. reflexivity.
Qed.

Lemma Lmembers_last : forall ms s, Lmembers ms s -> ms <> [] -> exists front, s = front ++ [41].
Proof.
  induction ms as [|m ms IH]; intros s Hs Hne; [congruence|]. cbn in Hs.
  destruct Hs as (g & sm & s' & _ & Hm & Hs' & ->).
  destruct ms as [|m2 ms2].
  - cbn in Hs'. subst s'. rewrite app_nil_r. destruct (Lmember_last m sm Hm) as [fr ->].
    exists (g ++ fr). now rewrite app_assoc.
  - destruct (IH s' Hs' ltac:(discriminate)) as [fr ->]. exists (g ++ sm ++ fr). now rewrite <- !app_assoc.
Qed.

(* ------------------------------------------------------------------ C13_complete *)

Theorem parse_layout n cs ms s :
  Linterface n cs ms s -> parse_interface s = Accept (interface_of n cs ms).
Proof.
  intros (Hn & lead & sc & g1 & body & trail & Hlead & Htrail & Hc & Hg1 & Hb & ->).
  set (core := sc ++ kw_interface ++ g1 ++ n ++ body).
  assert (Hfirst : exists c1 back, core = c1 :: back /\ graphic c1).
  { subst core. destruct Hc.
    - cbn [app]. eexists; eexists; split; [reflexivity|]. unfold graphic. lia.
    - rewrite <- !app_comm_cons. eexists; eexists; split; [reflexivity|]. unfold graphic. lia. }
  assert (Hlast : exists front c2, core = front ++ [c2] /\ graphic c2).
  { subst core. destruct ms as [|m ms'].
    - cbn in Hb. subst body. rewrite app_nil_r.
      destruct (interface_name_last n Hn) as (fr & c & -> & Hcc).
      exists (sc ++ kw_interface ++ g1 ++ fr), c. split; [now rewrite <- !app_assoc | now apply alnum_graphic].
    - destruct (Lmembers_last (m :: ms') body Hb ltac:(discriminate)) as [fr ->].
      exists (sc ++ kw_interface ++ g1 ++ n ++ fr), 41. split; [now rewrite <- !app_assoc | unfold graphic; lia]. }
  destruct Hfirst as (c1 & back & E1 & H1). destruct Hlast as (front & c2 & E2 & H2).
  unfold parse_interface. rewrite (trim_blanks lead core trail c1 c2 front back) by assumption.
  rewrite E1. rewrite <- E1. subst core.
  rewrite (interface_def_gap n cs ms) by assumption. reflexivity.
Qed.

(* a text is a legal layout of at most one tree *)
Corollary layout_unambiguous n1 cs1 ms1 n2 cs2 ms2 s :
  Linterface n1 cs1 ms1 s -> Linterface n2 cs2 ms2 s ->
  interface_of n1 cs1 ms1 = interface_of n2 cs2 ms2.
Proof.
  intros H1 H2.
  pose proof (parse_layout _ _ _ _ H1) as E1. pose proof (parse_layout _ _ _ _ H2) as E2.
  congruence.
Qed.
