(* Correspondence driver for C14 (second generation): the round trip is checked in its normalised
   form (the parser strips the blanks after `#`), and the serialised InterfaceDescription is
   compared with the model's JSON string printer and reader. *)
From Coq Require Import Ascii String.
From ZV Require Import Common.Base Common.Exec gen.IdlKeywords Idl.Idl Idl.IdlParse Idl.IdlExec
  Idl.IdlNormal Idl.IdlDesc.
Local Open Scope N_scope.

Record dcase := mkD {
  dc_base : bcase;                  (* as before *)
  dc_json : list byte               (* serde_json::to_string(&InterfaceDescription::from(&x)) *)
}.

(* {"description":"<the Display string, JSON-escaped>"} *)
Definition desc_json (t : interface) : list byte :=
  bs "{""description"":" ++ print_string (render t) ++ bs "}".

(* bit 0 (1): implementation differs from the model (render, parse of the rendering, PartialEq,
              the JSON text, the description path through the JSON reader)
   bit 1 (2): round trip (to the normalised tree) violated on a tree inside the hypotheses
   64: the same on a tree of the known class (commented enum variant) *)
Definition dcheck (d : dcase) : N :=
  let c := dc_base d in
  let t := bc_tree c in
  let nt := normalise t in
  let r := render t in
  let m := parse_interface r in
  let mtree := match m with Accept x => Some x | _ => None end in
  let dm := description_roundtrip t in
  let dtree := match dm with Accept x => Some x | _ => None end in
  let model_diff :=
      negb (bytes_beq r (bc_display c))
      || negb ((class_of m =? bc_pclass c) && opt_tree_beq mtree (bc_ptree c))
      || (utf8_valid r && (negb (bytes_beq (desc_json t) (dc_json d))
                           || negb ((class_of dm =? bc_dclass c) && opt_tree_beq dtree (bc_dtree c))))
      || ((negb (bc_sclass c =? 9)) && negb ((class_of m =? bc_sclass c) && opt_tree_beq mtree (bc_stree c)))
      || match bc_ptree c with
         | Some x => negb (Bool.eqb (interface_leq x t) (bc_libeq c))
                     || negb (bytes_beq (render x) (bc_pdisplay c))
         | None => false end in
  let roundtrip :=
      (bc_pclass c =? 0) && opt_tree_beq (bc_ptree c) (Some nt)
      && Bool.eqb (bc_libeq c) (interface_leq nt t)
      && bytes_beq (bc_pdisplay c) (render nt)
      && (bc_dclass c =? 0) && opt_tree_beq (bc_dtree c) (Some nt)
      && ((bc_sclass c =? 9) || ((bc_sclass c =? 0) && opt_tree_beq (bc_stree c) (Some nt))) in
  let inhyp := interface_wf_nl t in
  let known := known_commented_enum t in
  (if model_diff then 1 else 0)
  + (if inhyp && negb known && negb roundtrip then 2 else 0)
  + (if inhyp && known && negb roundtrip then 64 else 0).

Definition dmodel_view (d : dcase) :=
  let t := bc_tree (dc_base d) in
  (render t, class_of (parse_interface (render t)), class_of (description_roundtrip t),
   interface_wf_nl t, interface_wf t, known_commented_enum t,
   interface_beq (normalise t) t).
