(* Byte-level model of zlink-core/src/idl/parse/mod.rs (every function), over an explicit
   `input -> result * input` monad whose combinators have winnow 0.7.13's semantics on `&[u8]`
   with `ModalResult` (ErrMode::Backtrack; the parser never produces ErrMode::Cut except through
   the `separated` infinite-loop assertion, which panics under debug assertions and is modelled
   as Panic).  Rust panics are explicit results.  Line numbers refer to parse/mod.rs at /repo commit 64a63d9 (after the six parser fixes). *)
From Coq Require Import Ascii String.
From ZV Require Import Common.Base gen.IdlKeywords Idl.Idl.
Local Open Scope N_scope.

(* ------------------------------------------------------------------ UTF-8 (core::str::from_utf8) *)

Definition is_cont (b : byte) : bool := (128 <=? b) && (b <=? 191).

Fixpoint utf8_valid (s : list byte) : bool :=
  match s with
  | [] => true
  | b0 :: r =>
    if b0 <? 128 then utf8_valid r
    else if (194 <=? b0) && (b0 <=? 223) then
      match r with b1 :: r1 => is_cont b1 && utf8_valid r1 | _ => false end
    else if (224 <=? b0) && (b0 <=? 239) then
      match r with
      | b1 :: b2 :: r2 =>
          (if b0 =? 224 then (160 <=? b1) && (b1 <=? 191)
           else if b0 =? 237 then (128 <=? b1) && (b1 <=? 159)
           else is_cont b1) && is_cont b2 && utf8_valid r2
      | _ => false
      end
    else if (240 <=? b0) && (b0 <=? 244) then
      match r with
      | b1 :: b2 :: b3 :: r3 =>
          (if b0 =? 240 then (144 <=? b1) && (b1 <=? 191)
           else if b0 =? 244 then (128 <=? b1) && (b1 <=? 143)
           else is_cont b1) && is_cont b2 && is_cont b3 && utf8_valid r3
      | _ => false
      end
    else false
  end.

(* ------------------------------------------------------------------ str::trim (char::is_whitespace:
   U+0009..000D, 0020, 0085, 00A0, 1680, 2000..200A, 2028, 2029, 202F, 205F, 3000) *)

Definition ws_char_len (l : list byte) : nat :=
  match l with
  | b0 :: r =>
    if ((9 <=? b0) && (b0 <=? 13)) || (b0 =? 32) then 1%nat
    else if b0 =? 194 then
      match r with b1 :: _ => if (b1 =? 133) || (b1 =? 160) then 2%nat else 0%nat | _ => 0%nat end
    else if b0 =? 225 then
      match r with b1 :: b2 :: _ => if (b1 =? 154) && (b2 =? 128) then 3%nat else 0%nat | _ => 0%nat end
    else if b0 =? 226 then
      match r with
      | b1 :: b2 :: _ =>
          if (b1 =? 128) && (((128 <=? b2) && (b2 <=? 138)) || (b2 =? 168) || (b2 =? 169) || (b2 =? 175))
          then 3%nat
          else if (b1 =? 129) && (b2 =? 159) then 3%nat else 0%nat
      | _ => 0%nat
      end
    else if b0 =? 227 then
      match r with b1 :: b2 :: _ => if (b1 =? 128) && (b2 =? 128) then 3%nat else 0%nat | _ => 0%nat end
    else 0%nat
  | [] => 0%nat
  end.

(* the same on the reversed text (last byte first) *)
Definition ws_char_len_rev (l : list byte) : nat :=
  match l with
  | c :: r =>
    if ((9 <=? c) && (c <=? 13)) || (c =? 32) then 1%nat
    else match r with
         | b :: r' =>
           if (b =? 194) && ((c =? 133) || (c =? 160)) then 2%nat
           else match r' with
                | a :: _ =>
                  if (a =? 225) && (b =? 154) && (c =? 128) then 3%nat
                  else if (a =? 226) && (b =? 128)
                          && (((128 <=? c) && (c <=? 138)) || (c =? 168) || (c =? 169) || (c =? 175))
                  then 3%nat
                  else if (a =? 226) && (b =? 129) && (c =? 159) then 3%nat
                  else if (a =? 227) && (b =? 128) && (c =? 128) then 3%nat
                  else 0%nat
                | [] => 0%nat
                end
         | [] => 0%nat
         end
  | [] => 0%nat
  end.

Fixpoint strip_while (f : list byte -> nat) (fuel : nat) (l : list byte) : list byte :=
  match fuel with
  | O => l
  | S fuel => match f l with O => l | n => strip_while f fuel (skipn n l) end
  end.

Definition trim_start (l : list byte) : list byte := strip_while ws_char_len (length l) l.
Definition trim_end (l : list byte) : list byte :=
  rev (strip_while ws_char_len_rev (length l) (rev l)).
Definition trim (l : list byte) : list byte := trim_end (trim_start l).

(* ------------------------------------------------------------------ the parser monad *)

Inductive res (A : Type) : Type :=
| Ok (a : A)
| Back              (* Err(ErrMode::Backtrack(_)) *)
| Panic             (* the Rust code panics *)
| NoFuel.           (* the model ran out of fuel: excluded by C13_terminates *)
Arguments Ok {A} _.
Arguments Back {A}.
Arguments Panic {A}.
Arguments NoFuel {A}.

Definition parser (A : Type) : Type := list byte -> res A * list byte.

Definition ret {A} (a : A) : parser A := fun i => (Ok a, i).
Definition fail {A} : parser A := fun i => (Back, i).
Definition bind {A B} (p : parser A) (f : A -> parser B) : parser B := fun i =>
  match p i with
  | (Ok a, i') => f a i'
  | (Back, i') => (Back, i')
  | (Panic, i') => (Panic, i')
  | (NoFuel, i') => (NoFuel, i')
  end.
Notation "x <- p ;; q" := (bind p (fun x => q)) (at level 61, p at next level, right associativity).
Notation "p ;;; q" := (bind p (fun _ => q)) (at level 61, right associativity).

(* run a fuelled parser with fuel |input| + 1 *)
Definition with_len {A} (f : nat -> parser A) : parser A := fun i => f (S (length i)) i.

(* Parser::map *)
Definition pmap {A B} (f : A -> B) (p : parser A) : parser B := x <- p ;; ret (f x).

(* winnow combinator::alt on tuples (branch.rs:200-256): checkpoint; each alternative that fails
   with Backtrack is followed by a reset to the checkpoint and the next alternative — except the
   LAST one, after which the input stays where that alternative left it. For n alternatives this
   is the right-nested binary form. *)
Definition alt2 {A} (p q : parser A) : parser A := fun i =>
  match p i with
  | (Back, _) => q i
  | r => r
  end.

(* token::literal (token/mod.rs:178-194): compares, consumes only on a match *)
Definition literal (p : list byte) : parser unit := fun i =>
  match strip_prefix p i with
  | Some r => (Ok tt, r)
  | None => (Back, i)
  end.
(* `literal(x).parse_next(input).is_ok()` *)
Definition try_literal (p : list byte) : parser bool := fun i =>
  match strip_prefix p i with
  | Some r => (Ok true, r)
  | None => (Ok false, i)
  end.

(* token::take_while(0.., f) and take_while(1.., f) *)
Definition take_while0 (f : byte -> bool) : parser (list byte) := fun i =>
  let (a, r) := span f i in (Ok a, r).
Definition take_while1 (f : byte -> bool) : parser (list byte) := fun i =>
  match span f i with
  | ([], _) => (Back, i)
  | (a, r) => (Ok a, r)
  end.

(* combinator::separated(0.., elem, sep) (multi.rs:1105-1163), results in source order *)
Fixpoint sep_loop {A B} (fuel : nat) (elem : parser A) (sep : parser B) (i : list byte)
  : res (list A) * list byte :=
  match fuel with
  | O => (NoFuel, i)
  | S fuel =>
    match sep i with
    | (Back, _) => (Ok [], i)                       (* reset to before the separator *)
    | (Ok _, i1) =>
        if Nat.eqb (length i1) (length i) then (Panic, i1)   (* infinite loop check (assert) *)
        else match elem i1 with
             | (Back, _) => (Ok [], i)              (* reset to before the separator *)
             | (Ok x, i2) =>
                 match sep_loop fuel elem sep i2 with
                 | (Ok l, i3) => (Ok (x :: l), i3)
                 | e => e
                 end
             | (Panic, i2) => (Panic, i2)
             | (NoFuel, i2) => (NoFuel, i2)
             end
    | (Panic, i1) => (Panic, i1)
    | (NoFuel, i1) => (NoFuel, i1)
    end
  end.
Definition separated0 {A B} (elem : parser A) (sep : parser B) : parser (list A) := fun i =>
  match elem i with
  | (Back, _) => (Ok [], i)
  | (Ok x, i1) =>
      match sep_loop (S (length i1)) elem sep i1 with
      | (Ok l, i2) => (Ok (x :: l), i2)
      | e => e
      end
  | (Panic, i1) => (Panic, i1)
  | (NoFuel, i1) => (NoFuel, i1)
  end.

(* combinator::separated(1.., elem, sep) (multi.rs:1164-1217): the first element is mandatory *)
Definition separated1 {A B} (elem : parser A) (sep : parser B) : parser (list A) := fun i =>
  match elem i with
  | (Ok x, i1) =>
      match sep_loop (S (length i1)) elem sep i1 with
      | (Ok l, i2) => (Ok (x :: l), i2)
      | e => e
      end
  | (Back, i1) => (Back, i1)
  | (Panic, i1) => (Panic, i1)
  | (NoFuel, i1) => (NoFuel, i1)
  end.

(* ------------------------------------------------------------------ character classes (core::u8) *)

(* ascii::multispace0 = take_while(0.., (' ', '\t', '\r', '\n')) *)
Definition is_ms (b : byte) : bool := (b =? 32) || (b =? 9) || (b =? 13) || (b =? 10).
(* ascii::multispace1 = take_while(1.., (' ', '\t', '\r', '\n')) *)
Definition multispace1 : parser (list byte) := take_while1 is_ms.

Definition skip_ms (i : list byte) : list byte := snd (span is_ms i).

(* ------------------------------------------------------------------ parse/mod.rs *)

(* 38-53: inside ws, after '#': consume up to and including the end of line (LF, CR or CRLF) *)
Fixpoint skip_line (i : list byte) : list byte :=
  match i with
  | [] => []
  | b :: r =>
      if b =? 10 then r
      else if b =? 13 then match r with c :: r' => if c =? 10 then r' else r | [] => r end
      else skip_line r
  end.

(* 23-62 ws: loop { multispace0; optional comment; break if nothing was consumed } *)
Fixpoint ws_loop (fuel : nat) (i : list byte) : res unit * list byte :=
  match fuel with
  | O => (NoFuel, i)
  | S fuel =>
      let i1 := skip_ms i in
      let i2 := match i1 with b :: r => if b =? 35 then skip_line r else i1 | [] => i1 end in
      if Nat.eqb (length i2) (length i) then (Ok tt, i2) else ws_loop fuel i2
  end.
Definition ws : parser unit := fun i => ws_loop (S (length i)) i.

(* 65-70 whitespace_only *)
Definition whitespace_only : parser unit := fun i => (Ok tt, skip_ms i).

(* 73-76 bytes_to_str: from_utf8(bytes).unwrap() *)
Definition bytes_to_str (b : list byte) : parser (list byte) := fun i =>
  if utf8_valid b then (Ok b, i) else (Panic, i).

(* 80-107 field_name: a letter, then alphanumerics each optionally preceded by one underscore: the loop takes an alphanumeric, or an underscore
   that is followed by an alphanumeric, and stops otherwise *)
Fixpoint field_tail (l : list byte) : list byte * list byte :=
  match l with
  | b :: r =>
      if is_alnum b then let (a, r') := field_tail r in (b :: a, r')
      else if b =? 95 then
        match r with
        | c :: r2 => if is_alnum c then let (a, r') := field_tail r2 in (b :: c :: a, r') else ([], l)
        | [] => ([], l)
        end
      else ([], l)
  | [] => ([], [])
  end.
Definition field_name : parser name := fun i =>
  match i with
  | b :: r =>
      if is_alpha b then let (a, r') := field_tail r in bytes_to_str (b :: a) r'
      else (Back, i)
  | [] => (Back, i)
  end.

(* 110-124 type_name *)
Definition type_name : parser name := fun i =>
  match i with
  | b :: r =>
      if is_upper b then let (a, r') := span is_alnum r in bytes_to_str (b :: a) r'
      else (Back, i)
  | [] => (Back, i)
  end.

(* 127-136 primitive_type: alt over the translated keyword list, in source order *)
Fixpoint prim_alt (kws : list (list byte * N)) : parser prim :=
  match kws with
  | [] => fail
  | [(k, c)] => pmap (fun _ => prim_of_code c) (literal k)
  | (k, c) :: rest => alt2 (pmap (fun _ => prim_of_code c) (literal k)) (prim_alt rest)
  end.
Definition primitive_type : parser ty := pmap TPrim (prim_alt kw_prims).

(* 472-486 comment_def *)
Definition is_sp_tab (b : byte) : bool := (b =? 32) || (b =? 9).
(* `while !input.is_empty() && (input[0] == b' ' || input[0] == b'\t') { *input = &input[1..]; }` *)
Definition skip_sp_tab : parser unit := fun i => (Ok tt, snd (span is_sp_tab i)).
Definition comment_def : parser comment :=
  literal (bs "#") ;;;
  skip_sp_tab ;;;
  line <- take_while0 (fun c => negb (c =? 10) && negb (c =? 13)) ;;
  bytes_to_str line.

(* 448-470 parse_preceding_comments *)
Fixpoint ppc_loop (fuel : nat) (i : list byte) : res (list comment) * list byte :=
  match fuel with
  | O => (NoFuel, i)
  | S fuel =>
    match i with
    | [] => (Ok [], i)
    | _ =>
      let i1 := skip_ms i in
      match i1 with
      | [] => (Ok [], i1)                       (* break: the whitespace stays consumed *)
      | _ =>
        match comment_def i1 with
        | (Ok c, i2) =>
            match ppc_loop fuel (skip_ms i2) with
            | (Ok cs, i3) => (Ok (c :: cs), i3)
            | e => e
            end
        | (Back, _) => (Ok [], i)               (* restore the checkpoint *)
        | (Panic, i2) => (Panic, i2)
        | (NoFuel, i2) => (NoFuel, i2)
        end
      end
    end
  end.
Definition parse_preceding_comments : parser (list comment) := fun i => ppc_loop (S (length i)) i.

(* the mutually recursive type parsers, parameterised by varlink_type of the next nesting level *)
Section TypeParsers.
  Variable vt : parser ty.

  (* 139-148 field *)
  Definition field_p : parser field :=
    cs <- parse_preceding_comments ;;
    n <- field_name ;;
    ws ;;; literal (bs ":") ;;; ws ;;;
    t <- vt ;;
    ret (mkField n t cs).

  Definition comma_sep : parser unit := ws ;;; literal (bs ",") ;;; ws.

  (* 151-158 struct_type *)
  Definition struct_type : parser ty :=
    literal (bs "(") ;;; ws ;;;
    fs <- separated0 field_p comma_sep ;;
    ws ;;; literal (bs ")") ;;;
    ret (TStruct fs).

  (* 161-174 enum_type: separated(1.., ..) *)
  Definition enum_type : parser ty :=
    literal (bs "(") ;;; ws ;;;
    ns <- separated1 field_name comma_sep ;;
    ws ;;; literal (bs ")") ;;;
    ret (TEnum (List.map (fun n => mkVariant n []) ns)).

  (* 181-183 inline_type: alt((struct_type, enum_type)) *)
  Definition inline_type : parser ty := alt2 struct_type enum_type.

  (* 186-188 element_type *)
  Definition element_type : parser ty :=
    alt2 primitive_type (alt2 (pmap TCustom type_name) inline_type).

  (* 203-207 array_type, 210-214 map_type *)
  Definition array_type : parser ty := literal kw_array ;;; t <- vt ;; ret (TArr t).
  Definition map_type : parser ty := literal kw_map ;;; t <- vt ;; ret (TMap t).

  (* 198-200 non_optional_type *)
  Definition non_optional_type : parser ty := alt2 array_type (alt2 map_type element_type).

  (* 191-195 optional_type *)
  Definition optional_type : parser ty := literal kw_optional ;;; t <- non_optional_type ;; ret (TOpt t).

  (* 217-219 varlink_type *)
  Definition varlink_type_body : parser ty :=
    alt2 optional_type (alt2 array_type (alt2 map_type element_type)).
End TypeParsers.

(* every recursive call happens after at least one byte was consumed, so |input| + 1 suffices *)
Fixpoint varlink_type_f (fuel : nat) : parser ty :=
  match fuel with
  | O => fun i => (NoFuel, i)
  | S fuel => varlink_type_body (varlink_type_f fuel)
  end.
Definition varlink_type : parser ty := fun i => varlink_type_f (S (length i)) i.

(* 222-267 interface_name: a first segment starting with a letter, then one or more dot-separated
   segments starting with a letter or digit; segment bodies are alphanumerics and dashes and do
   not end in a dash *)
Definition is_seg_char (b : byte) : bool := is_alnum b || (b =? 45).
(* `while seg_char { pos += 1 }` followed by `while input[pos - 1] == '-' { pos -= 1 }`: the
   longest run of alphanumerics and dashes, minus its trailing dashes (the byte before the run is
   never a dash). Returns (taken, rest). *)
Fixpoint strip_dashes_rev (r : list byte) (back : list byte) : list byte * list byte :=
  match r with
  | b :: r' => if b =? 45 then strip_dashes_rev r' (b :: back) else (r, back)
  | [] => ([], back)
  end.
Definition seg_body (i : list byte) : list byte * list byte :=
  let (a, rest) := span is_seg_char i in
  let (ar, dashes) := strip_dashes_rev (rev a) [] in
  (rev ar, dashes ++ rest).
(* the `while pos < len && input[pos] == '.'` loop: returns (found_dot, consumed, rest) *)
Fixpoint iname_segments (fuel : nat) (i : list byte) : bool * list byte * list byte :=
  match fuel with
  | O => (false, [], i)
  | S fuel =>
    match i with
    | b :: r =>
      if b =? 46 then
        match r with
        | c :: r' =>
            if is_alnum c then
              let (a, r'') := seg_body r' in
              let '(_, more, rest) := iname_segments fuel r'' in
              (true, b :: c :: a ++ more, rest)
            else (false, [], i)                  (* the dot is not part of the name: break *)
        | [] => (false, [], i)
        end
      else (false, [], i)
    | [] => (false, [], i)
    end
  end.
Definition interface_name : parser name := fun i =>
  match i with
  | b :: r =>
      if is_alpha b then
        let (a, r1) := seg_body r in
        let '(found_dot, more, rest) := iname_segments (S (length r1)) r1 in
        if found_dot then bytes_to_str (b :: a ++ more) rest else (Back, i)
      else (Back, i)
  | [] => (Back, i)
  end.

(* the field loops of parameter_list (287-318) and type_def (385-426) *)
Section FieldLoops.
  Variable one : parser (field + variant).   (* one entry, up to and excluding the following blanks *)
  Fixpoint entries_loop (fuel : nat) : parser (list (field + variant)) :=
    match fuel with
    | O => fun i => (NoFuel, i)
    | S fuel =>
        x <- one ;;
        whitespace_only ;;;
        comma <- try_literal (bs ",") ;;
        if comma then
          whitespace_only ;;;
          l <- entries_loop fuel ;;
          ret (x :: l)
        else
          close <- try_literal (bs ")") ;;
          if close then ret [x] else fail
    end.
End FieldLoops.

Fixpoint lefts {A B} (l : list (A + B)) : list A :=
  match l with [] => [] | inl a :: r => a :: lefts r | inr _ :: r => lefts r end.
Fixpoint rights {A B} (l : list (A + B)) : list B :=
  match l with [] => [] | inr b :: r => b :: rights r | inl _ :: r => rights r end.

(* 270-321 parameter_list *)
Definition param_entry : parser (field + variant) :=
  cs <- parse_preceding_comments ;;
  n <- field_name ;;
  ws ;;; literal (bs ":") ;;; ws ;;;
  t <- varlink_type ;;
  ret (inl (mkField n t cs)).
Definition parameter_list : parser (list field) :=
  literal (bs "(") ;;; whitespace_only ;;;
  close <- try_literal (bs ")") ;;
  if close then ret []
  else with_len (fun fuel => l <- entries_loop param_entry fuel ;; ret (lefts l)).

(* 324-343 method_def *)
Definition method_def : parser method :=
  cs <- parse_preceding_comments ;;
  literal kw_method ;;;
  multispace1 ;;;
  n <- type_name ;;
  ws ;;;
  ins <- parameter_list ;;
  ws ;;; literal kw_arrow ;;; ws ;;;
  outs <- parameter_list ;;
  ret (mkMethod n ins outs cs).

(* 346-356 error_def *)
Definition error_def : parser error :=
  cs <- parse_preceding_comments ;;
  literal kw_error ;;;
  multispace1 ;;;
  n <- type_name ;;
  ws ;;;
  ps <- parameter_list ;;
  ret (mkError n ps cs).

(* 359-444 type_def *)
Definition typedef_entry : parser (field + variant) :=
  cs <- parse_preceding_comments ;;
  n <- field_name ;;
  whitespace_only ;;;
  colon <- try_literal (bs ":") ;;
  if colon then
    whitespace_only ;;;
    t <- varlink_type ;;
    ret (inl (mkField n t cs))
  else ret (inr (mkVariant n cs)).
Definition type_def : parser custom :=
  cs <- parse_preceding_comments ;;
  literal kw_type ;;;
  multispace1 ;;;
  n <- type_name ;;
  ws ;;;
  literal (bs "(") ;;; whitespace_only ;;;
  close <- try_literal (bs ")") ;;
  if close then ret (CObject n [] cs)
  else with_len (fun fuel =>
     l <- entries_loop typedef_entry fuel ;;
     let fields := lefts l in
     let variants := rights l in
     let has_typed := match fields with [] => false | _ => true end in
     let has_untyped := match variants with [] => false | _ => true end in
     if has_typed && has_untyped then fail
     else if has_typed then ret (CObject n fields cs)
     else ret (CEnum n variants cs)).

(* 502-537 the member loop of interface_def; a member that does not parse stays in the input *)
Definition member_p : parser member :=
  alt2 (pmap MType type_def) (alt2 (pmap MMethod method_def) (pmap MError error_def)).
Fixpoint members_loop (fuel : nat) (i : list byte) : res (list member) * list byte :=
  match fuel with
  | O => (NoFuel, i)
  | S fuel =>
    match i with
    | [] => (Ok [], i)
    | _ =>
      let i1 := skip_ms i in
      match i1 with
      | [] => (Ok [], i1)
      | _ =>
        match member_p i1 with
        | (Ok m, i2) =>
            match members_loop fuel i2 with
            | (Ok ms, i3) => (Ok (m :: ms), i3)
            | e => e
            end
        | (Back, _) => (Ok [], i1)             (* `*input = member_start; break` *)
        | (Panic, i2) => (Panic, i2)
        | (NoFuel, i2) => (NoFuel, i2)
        end
      end
    end
  end.

(* 489-543 interface_def *)
Definition interface_def : parser interface :=
  cs <- parse_preceding_comments ;;
  literal kw_interface ;;;
  multispace1 ;;;
  n <- interface_name ;;
  whitespace_only ;;;
  ms <- with_len members_loop ;;
  ret (interface_of n cs ms).

(* 546-577 parse_interface / parse_from_str *)
Inductive outcome := Accept (t : interface) | Reject | OPanic | OFuel.

Definition parse_interface (s : list byte) : outcome :=
  match trim s with
  | [] => Reject                                   (* "Input is empty" *)
  | i =>
    match interface_def i with
    | (Ok t, i1) =>
        match ws i1 with
        | (Panic, _) => OPanic
        | (NoFuel, _) => OFuel
        | (_, []) => Accept t
        | (_, _ :: _) => Reject                    (* "Unexpected remaining input" *)
        end
    | (Back, _) => Reject
    | (Panic, _) => OPanic
    | (NoFuel, _) => OFuel
    end
  end.
