(* decode (encode x) = x for every value that fits its shape (C05): by induction on the shape. *)
From Coq Require Import Permutation.
From ZV Require Import Shapes.Shapes Shapes.ShapesProofs Shapes.Reply Shapes.ReplyProofs
  Shapes.Envelope Shapes.EnvelopeProofs.

Local Open Scope list_scope.

(* ---------------------------------------------------------------- values that fit a shape *)
(* What a Rust value of the type looks like as an rval, plus the side conditions under which serde
   round-trips it:  Some(x) must not encode as null (Option<Option<T>>, Option<()>,
   Option<Value::Null> do not round-trip in serde either);  a borrowed &str must not need a JSON
   escape (serde_json cannot lend it);  a Value is kept in BTreeMap order;  field and variant
   names are distinct;  skip_serializing_if = "Option::is_none" sits on Option fields.
   Untagged enums are excluded (their round trip depends on the alternatives being disjoint). *)
Definition fitentry : Type := (string * (rval -> Prop) * fattr * bool)%type.

Definition fit_field (e : fitentry) (r : rval) : Prop :=
  match e with
  | (_, F, a, isopt) =>
      match a with
      | FGuard => r = RDefault
      | FSkipNone => isopt = true /\ F r
      | FPlain => F r
      end
  end.

Definition fit_fields (tbl : list fitentry) (rs : list rval) : Prop :=
  NoDup (map (fun e => fst (fst (fst e))) tbl) /\ Forall2 fit_field tbl rs.

Definition fitvariant : Type := (string * vkind * list fitentry)%type.

Definition fit_variant (vt : list fitvariant) (i : nat) (rs : list rval) : Prop :=
  match nth_error vt i with
  | Some (_, k, tbl) => match k with KStruct => fit_fields tbl rs | _ => rs = [] end
  | None => False
  end.

Fixpoint Fits (s : shape) : rval -> Prop :=
  match s with
  | SUnit => fun r => r = RUnit
  | SBool => fun r => exists b, r = RBool b
  | SInt lo hi => fun r => exists z, r = RInt z /\ (lo <= z <= hi)%Z
  | SStr b => fun r => exists x, r = RStr x /\ (b = true -> needs_escape x = false)
  | SOption s' =>
      let F := Fits s' in
      let e := encoder s' in
      fun r => r = RNone \/ exists x, r = RSome x /\ F x /\ e x <> Some JNull
  | SSeq s' => let F := Fits s' in fun r => exists l, r = RSeq l /\ Forall F l
  | SStruct fs =>
      let tbl := (fix mk (fs : list (string * shape * fattr)) : list fitentry :=
                    match fs with
                    | [] => []
                    | (n, s', a) :: r => (n, Fits s', a, is_option s') :: mk r
                    end) fs in
      fun r => exists rs, r = RStruct rs /\ fit_fields tbl rs
  | SAny => fun r => exists v, r = RAny v /\ canon v = v
  | SNever => fun _ => False
  | SAdj t c vs =>
      let vt := (fix mkv (vs : list (string * vkind * list (string * shape * fattr))) : list fitvariant :=
                   match vs with
                   | [] => []
                   | (n, k, fs) :: r =>
                       (n, k, (fix mk (fs : list (string * shape * fattr)) : list fitentry :=
                                 match fs with
                                 | [] => []
                                 | (fnm, s', a) :: r' => (fnm, Fits s', a, is_option s') :: mk r'
                                 end) fs) :: mkv r
                   end) vs in
      fun r => exists i rs, r = RVar i rs /\ t <> c /\
                            NoDup (map (fun v => fst (fst v)) vt) /\ fit_variant vt i rs
  | SUntagged _ => fun _ => False
  end.

Definition fittable (fs : fields) : list fitentry :=
  map (fun f => (fst (fst f), Fits (snd (fst f)), snd f, is_option (snd (fst f)))) fs.

Definition fitvtable (vs : variants) : list fitvariant :=
  map (fun v => (fst (fst v), snd (fst v), fittable (snd v))) vs.

Lemma fittable_fix : forall fs,
  (fix mk (fs : list (string * shape * fattr)) : list fitentry :=
     match fs with
     | [] => []
     | (n, s', a) :: r => (n, Fits s', a, is_option s') :: mk r
     end) fs = fittable fs.
Proof.
  induction fs as [| [[n s] a] fs IH]; [reflexivity |].
  unfold fittable in *. cbn [map fst snd]. now rewrite IH.
Qed.

Lemma fitvtable_fix : forall vs,
  (fix mkv (vs : list (string * vkind * list (string * shape * fattr))) : list fitvariant :=
     match vs with
     | [] => []
     | (n, k, fs) :: r =>
         (n, k, (fix mk (fs : list (string * shape * fattr)) : list fitentry :=
                   match fs with
                   | [] => []
                   | (fnm, s', a) :: r' => (fnm, Fits s', a, is_option s') :: mk r'
                   end) fs) :: mkv r
     end) vs = fitvtable vs.
Proof.
  induction vs as [| [[n k] fs] vs IH]; [reflexivity |].
  unfold fitvtable in *. cbn [map fst snd]. now rewrite fittable_fix, IH.
Qed.

Lemma Fits_struct : forall (fs : fields) r,
  Fits (SStruct fs) r <-> exists rs, r = RStruct rs /\ fit_fields (fittable fs) rs.
Proof. intros. cbn [Fits]. rewrite fittable_fix. reflexivity. Qed.

Lemma Fits_adj : forall t c (vs : variants) r,
  Fits (SAdj t c vs) r <->
  exists i rs, r = RVar i rs /\ t <> c /\
               NoDup (map (fun v => fst (fst v)) (fitvtable vs)) /\ fit_variant (fitvtable vs) i rs.
Proof. intros. cbn [Fits]. rewrite fitvtable_fix. reflexivity. Qed.

(* ---------------------------------------------------------------- the round trip *)
Definition rt (s : shape) : Prop :=
  forall r, Fits s r -> exists v, encoder s r = Some v /\ forall m, decoder s m v = Some r.

Lemma index_of_nth : forall (l : list string) i n,
  NoDup l -> nth_error l i = Some n -> index_of n l = Some i.
Proof.
  induction l as [| x l IH]; intros i n Hnd Hn; [destruct i; discriminate |].
  inversion Hnd as [| ? ? Hnot Hnd']. subst. destruct i as [| i]; cbn [nth_error index_of] in *.
  - inversion Hn. subst. now rewrite String.eqb_refl.
  - destruct (String.eqb x n) eqn:E.
    + apply String.eqb_eq in E. subst. exfalso. apply Hnot. eapply nth_error_In; exact Hn.
    + now rewrite (IH i n Hnd' Hn).
Qed.

Lemma lookup_cons_ne : forall k k' v ms, k' <> k -> lookup k ((k', v) :: ms) = lookup k ms.
Proof. intros k k' v ms H. cbn [lookup]. apply String.eqb_neq in H. now rewrite H. Qed.

(* encoding the fields of a struct and looking every field up again *)
Lemma fields_rt : forall (fs : fields) rs,
  Forall (fun f => rt (snd (fst f))) fs ->
  fit_fields (fittable fs) rs ->
  exists ms, enc_fields (etable fs) rs = Some ms /\
             NoDup (keys ms) /\ incl (keys ms) (map (fun f => fst (fst f)) fs) /\
             forall m, map_opt (field_lookup m ms) (ftable fs) = Some rs.
Proof.
  induction fs as [| [[n s] a] fs IH]; intros rs Hrt [Hnd Hfit].
  - inversion Hfit. subst. exists []. repeat split; try constructor. intros x H. exact H.
  - unfold fittable in Hfit, Hnd. cbn [map fst snd] in Hfit, Hnd.
    inversion Hfit as [| e r tbl rs' Hhead Htail]. subst.
    inversion Hnd as [| ? ? Hnot Hnd']. subst.
    inversion Hrt as [| ? ? Hrt_s Hrt_fs]. subst. cbn [fst snd] in Hrt_s.
    destruct (IH rs' Hrt_fs (conj Hnd' Htail)) as (ms' & Henc & Hndk & Hincl & Hlook).
    assert (Hn_not : ~ In n (keys ms')).
    { intros Hin. apply Hnot. apply Hincl in Hin. unfold fittable. rewrite map_map. exact Hin. }
    assert (Hn_look : lookup n ms' = None) by now apply lookup_none_iff.
    (* the field is written *)
    assert (Hwritten : forall v, encoder s r = Some v -> (forall m, decoder s m v = Some r) ->
              exists ms, Some ((n, v) :: ms') = Some ms /\
                NoDup (keys ms) /\ incl (keys ms) (n :: map (fun f => fst (fst f)) fs) /\
                forall m, map_opt (field_lookup m ms) (ftable ((n, s, a) :: fs)) = Some (r :: rs')).
    { intros v Hv Hdec. exists ((n, v) :: ms'). split; [reflexivity |]. split; [| split].
      - cbn [keys map fst]. now constructor.
      - cbn [keys map fst]. intros x [Hx | Hx]; [now left | right; now apply Hincl].
      - intros m. unfold ftable. cbn [map fst snd map_opt]. unfold field_lookup at 1.
        cbn [fe_name fe_dec lookup]. rewrite String.eqb_refl, Hdec.
        assert (Hext : map_opt (field_lookup m ((n, v) :: ms')) (ftable fs)
                       = map_opt (field_lookup m ms') (ftable fs)).
        { apply map_opt_ext. intros e' Hin. unfold field_lookup. rewrite lookup_cons_ne; [reflexivity |].
          intros Heq. apply Hnot. unfold ftable in Hin. apply in_map_iff in Hin as [f [Hf Hin]].
          subst e'. cbn [fe_name] in Heq. subst n. unfold fittable. rewrite map_map. cbn [fst].
          apply in_map_iff. now exists f. }
        unfold ftable in Hext. rewrite Hext. fold (ftable fs). now rewrite Hlook. }
    (* the field is skipped *)
    assert (Hskipped : forall miss, missing_map (mk_fentry n (decoder s) a (is_option s)) = Some miss ->
              miss = r ->
              exists ms, Some ms' = Some ms /\
                NoDup (keys ms) /\ incl (keys ms) (n :: map (fun f => fst (fst f)) fs) /\
                forall m, map_opt (field_lookup m ms) (ftable ((n, s, a) :: fs)) = Some (r :: rs')).
    { intros miss Hmiss Heq. subst miss. exists ms'. split; [reflexivity |]. split; [exact Hndk |]. split.
      - intros x Hx. right. now apply Hincl.
      - intros m. unfold ftable. cbn [map fst snd map_opt]. unfold field_lookup at 1.
        cbn [fe_name]. rewrite Hn_look, Hmiss. fold (ftable fs). now rewrite Hlook. }
    unfold etable. cbn [map fst snd enc_fields]. fold (etable fs). rewrite Henc.
    cbn [fit_field] in Hhead. cbn [map fst snd].
    destruct a.
    + (* FPlain *)
      destruct (Hrt_s r Hhead) as (v & Hv & Hdec). rewrite Hv. cbn [option_map].
      apply (Hwritten v Hv Hdec).
    + (* FSkipNone *)
      destruct Hhead as [Hopt HF].
      assert (Hnone : r = RNone \/ r <> RNone) by (destruct r; (now left) || (right; discriminate)).
      destruct Hnone as [-> | Hnn].
      * apply (Hskipped RNone); [| reflexivity]. unfold missing_map. cbn [fe_attr fe_opt]. now rewrite Hopt.
      * destruct (Hrt_s r HF) as (v & Hv & Hdec).
        destruct (Hwritten v Hv Hdec) as (ms & Hms & Hrest). inversion Hms. subst ms.
        exists ((n, v) :: ms'). split; [| exact Hrest].
        destruct r; try congruence; rewrite Hv; reflexivity.
    + (* FGuard *)
      subst r. apply (Hskipped RDefault); reflexivity.
Qed.

Lemma map_opt_rt : forall s l, rt s -> Forall (Fits s) l ->
  exists vs, map_opt (encoder s) l = Some vs /\ forall m, map_opt (decoder s m) vs = Some l.
Proof.
  intros s l Hrt. induction l as [| x l IH]; intros HF.
  - exists []. split; reflexivity.
  - inversion HF as [| ? ? Hx Hl]. subst.
    destruct (Hrt x Hx) as (v & Hv & Hd). destruct (IH Hl) as (vs & Hvs & Hds).
    exists (v :: vs). cbn [map_opt]. rewrite Hv, Hvs. split; [reflexivity |].
    intros m. now rewrite Hd, Hds.
Qed.

Lemma nth_vtable : forall (vs : variants) i n k (fs : fields),
  nth_error vs i = Some (n, k, fs) -> variant_at (vtable vs) i = Some (k, ftable fs).
Proof. intros vs i n k fs H. unfold variant_at, vtable. rewrite nth_error_map, H. reflexivity. Qed.

Lemma nth_evtable : forall (vs : variants) i n k (fs : fields),
  nth_error vs i = Some (n, k, fs) -> nth_error (evtable vs) i = Some (n, k, etable fs).
Proof. intros vs i n k fs H. unfold evtable. rewrite nth_error_map, H. reflexivity. Qed.

Lemma nth_fitvtable : forall (vs : variants) i,
  nth_error (fitvtable vs) i =
  match nth_error vs i with Some (n, k, fs) => Some (n, k, fittable fs) | None => None end.
Proof.
  intros vs i. unfold fitvtable. rewrite nth_error_map.
  destruct (nth_error vs i) as [[[n k] fs] |]; reflexivity.
Qed.

Lemma nth_vnames : forall (vs : variants) i n k (fs : fields),
  nth_error vs i = Some (n, k, fs) -> nth_error (vnames (vtable vs)) i = Some n.
Proof. intros vs i n k fs H. rewrite vnames_vtable, nth_error_map, H. reflexivity. Qed.

Lemma fitvtable_names : forall (vs : variants),
  map (fun v => fst (fst v)) (fitvtable vs) = vnames (vtable vs).
Proof. intros vs. rewrite vnames_vtable. unfold fitvtable. now rewrite map_map. Qed.

Theorem roundtrip : forall s, rt s.
Proof.
  induction s as [| | lo hi | b | s IH | s IH | fs IH | | | t c vs IH | alts IH] using shape_ind';
    intros r HF.
  - cbn [Fits] in HF. subst. exists JNull. split; [reflexivity | intros m; destruct m; reflexivity].
  - destruct HF as [b ->]. exists (JBool b). split; reflexivity.
  - destruct HF as (z & -> & Hlo & Hhi). exists (JNum z). split; [reflexivity |].
    intros m. cbn [decoder dec_int].
    apply Z.leb_le in Hlo. apply Z.leb_le in Hhi. now rewrite Hlo, Hhi.
  - destruct HF as (x & -> & Hb). exists (JStr x). split; [reflexivity |].
    intros m. cbn [decoder dec_str]. destruct b; [rewrite (Hb eq_refl) |]; reflexivity.
  - cbn [Fits] in HF. destruct HF as [-> | (x & -> & Hx & Hnn)].
    + exists JNull. split; reflexivity.
    + destruct (IH x Hx) as (v & Hv & Hd). exists v. split; [exact Hv |].
      intros m. rewrite decoder_option, Hd.
      destruct v; try reflexivity. congruence.
  - cbn [Fits] in HF. destruct HF as (l & -> & Hl).
    destruct (map_opt_rt s l IH Hl) as (vs & Hvs & Hds).
    exists (JArr vs). split; [cbn [encoder]; now rewrite Hvs |].
    intros m. rewrite decoder_seq, Hds. reflexivity.
  - apply Fits_struct in HF. destruct HF as (rs & -> & Hfit).
    destruct (fields_rt fs rs IH Hfit) as (ms & Henc & Hndk & _ & Hlook).
    exists (JObj ms). split; [rewrite encoder_struct, Henc; reflexivity |].
    intros m. rewrite decoder_struct, struct_map_lookup; [now rewrite Hlook | | exact Hndk].
    destruct Hfit as [Hnd _]. rewrite fnames_ftable. unfold fittable in Hnd. now rewrite map_map in Hnd.
  - destruct HF as (v & -> & Hc). exists v. split; [reflexivity |].
    intros m. cbn [decoder]. now rewrite Hc.
  - contradiction.
  - apply Fits_adj in HF. destruct HF as (i & rs & -> & Hne & Hnd & Hfv).
    unfold fit_variant in Hfv. rewrite (nth_fitvtable vs i) in Hfv.
    destruct (nth_error (vs : variants) i) as [[[n k] fs] |] eqn:Hn; [| contradiction].
    assert (Hidx : index_of n (vnames (vtable vs)) = Some i).
    { apply index_of_nth; [rewrite <- fitvtable_names; exact Hnd | exact (nth_vnames vs i n k fs Hn)]. }
    pose proof (nth_vtable vs i n k fs Hn) as Hvar.
    pose proof (nth_evtable vs i n k fs Hn) as Hev.
    assert (Ect : String.eqb c t = false) by (apply String.eqb_neq; congruence).
    rewrite encoder_adj. unfold enc_adj. rewrite Hev.
    assert (Hunit : k <> KStruct -> rs = [] ->
              exists v, (match rs with [] => Some (JObj [(t, JStr n)]) | _ :: _ => None end) = Some v /\
                        forall m, decoder (SAdj t c vs) m v = Some (RVar i rs)).
    { intros Hk ->. exists (JObj [(t, JStr n)]). split; [reflexivity |].
      intros m. rewrite decoder_adj. unfold adj_map. cbn [next_rel]. rewrite String.eqb_refl.
      cbn [dec_tag]. rewrite Hidx. unfold missing_content_at. rewrite Hvar.
      destruct k; try reflexivity. congruence. }
    destruct k.
    + apply Hunit; [discriminate | exact Hfv].
    + apply Hunit; [discriminate | exact Hfv].
    + rewrite Forall_forall in IH. pose proof (IH _ (nth_error_In _ _ Hn)) as IHfs. cbn [snd] in IHfs.
      destruct (fields_rt fs rs IHfs Hfv) as (ms & Henc & Hndk & _ & Hlook).
      rewrite Henc. exists (JObj [(t, JStr n); (c, JObj ms)]). split; [reflexivity |].
      intros m. rewrite decoder_adj. unfold adj_map. cbn [next_rel]. rewrite String.eqb_refl.
      cbn [dec_tag]. rewrite Hidx. cbn [next_rel]. rewrite Ect, String.eqb_refl.
      unfold dec_variant_at. rewrite Hvar. cbn [dec_variant].
      rewrite struct_map_lookup; [rewrite Hlook; reflexivity | | exact Hndk].
      destruct Hfv as [Hndf _]. rewrite fnames_ftable. unfold fittable in Hndf. now rewrite map_map in Hndf.
  - contradiction.
Qed.

(* ---------------------------------------------------------------- envelopes *)
Lemma filter_call_app : forall ms0 tail cs,
  (forall k, In k (keys ms0) -> is_flag k = false) ->
  filter_call (ms0 ++ tail) cs =
  match filter_call tail cs with
  | Some (ys, cs') => Some (ms0 ++ ys, cs')
  | None => None
  end.
Proof.
  induction ms0 as [| [k v] ms0 IH]; intros tail cs H.
  - cbn [app]. destruct (filter_call tail cs) as [[ys cs'] |]; reflexivity.
  - cbn [app filter_call]. pose proof (H k (or_introl eq_refl)) as Hf.
    unfold is_flag in Hf. apply orb_false_iff in Hf as [Hf H3]. apply orb_false_iff in Hf as [H1 H2].
    rewrite H1, H2, H3. rewrite IH.
    + destruct (filter_call tail cs) as [[ys cs'] |]; reflexivity.
    + intros k' Hk'. apply H. now right.
Qed.

Lemma filter_call_flags : forall ow mo up,
  filter_call (flag_members ow mo up) no_cells =
  Some ([], mk_cells (if ow then Some true else None) (if mo then Some true else None)
                     (if up then Some true else None)).
Proof. intros [] [] []; reflexivity. Qed.

Lemma enc_adj_object : forall t c (vs : variants) r v,
  encoder (SAdj t c vs) r = Some v ->
  exists ms0, v = JObj ms0 /\ forall k, In k (keys ms0) -> k = t \/ k = c.
Proof.
  intros t c vs r v H. rewrite encoder_adj in H. destruct r; try discriminate.
  unfold enc_adj in H. destruct (nth_error (evtable vs) i) as [[[n k] ft] |]; [| discriminate].
  destruct k.
  - destruct l; [| discriminate]. inversion H. eexists. split; [reflexivity |].
    cbn [keys map fst In]. intros k [Hk | []]. now left.
  - destruct l; [| discriminate]. inversion H. eexists. split; [reflexivity |].
    cbn [keys map fst In]. intros k [Hk | []]. now left.
  - destruct (enc_fields ft l); [| discriminate]. inversion H. eexists. split; [reflexivity |].
    cbn [keys map fst In]. intros k [Hk | [Hk | []]]; [now left | now right].
Qed.

(* decode (encode c) = c for every call whose method value fits a tagged enum shape, for all 8
   combinations of the flags. *)
Theorem call_roundtrip : forall tag content (vs : variants) meth ow mo up,
  Fits (SAdj tag content vs) meth ->
  is_flag tag = false -> is_flag content = false ->
  exists v, enc_call (SAdj tag content vs) (mk_call meth ow mo up) = Some v /\
            dec_call (SAdj tag content vs) v = Some (mk_call meth ow mo up).
Proof.
  intros tag content vs meth ow mo up HF Hft Hfc.
  destruct (roundtrip _ meth HF) as (v0 & Henc & Hdec).
  destruct (enc_adj_object _ _ _ _ _ Henc) as (ms0 & -> & Hkeys).
  exists (JObj (ms0 ++ flag_members ow mo up)). split.
  - unfold enc_call, mk_call. now rewrite Henc.
  - unfold dec_call. cbn [map_capable].
    rewrite filter_call_app, filter_call_flags.
    + rewrite app_nil_r, (Hdec Direct). cbn [c_oneway c_more c_upgrade].
      destruct ow, mo, up; reflexivity.
    + intros k Hk. destruct (Hkeys k Hk) as [-> | ->]; assumption.
Qed.

(* flags are written only when set, after the method type's own members *)
Theorem call_encoding_shape : forall M meth ow mo up ms0,
  encoder M meth = Some (JObj ms0) ->
  enc_call M (mk_call meth ow mo up) =
  Some (JObj (ms0 ++ (if ow then [("oneway", JBool true)] else [])
                  ++ (if mo then [("more", JBool true)] else [])
                  ++ (if up then [("upgrade", JBool true)] else []))).
Proof. intros M meth ow mo up ms0 H. unfold enc_call, mk_call. now rewrite H. Qed.

(* Error enums: decode (encode e) = e, directly and through receive_reply (unless the standard
   error decoder, which has priority, recognises the same name). *)
Theorem error_roundtrip : forall iface (vs : variants) e,
  Fits (err_shape iface vs) e ->
  exists v, enc_error (err_shape iface vs) e = Some v /\
            dec_error (err_shape iface vs) v = Some e /\
            forall P, decoder vs_error_shape Ref v = None ->
                      classify (err_shape iface vs) P v = MethodError e.
Proof.
  intros iface vs e HF. destruct (roundtrip _ e HF) as (v & Henc & Hdec).
  exists v. split; [exact Henc |]. split; [apply Hdec |].
  intros P Hvs. rewrite classify_unfold, Hvs, (Hdec Ref). reflexivity.
Qed.

(* Success replies: decode (encode r) = r, directly and through receive_reply with any error type
   of the derive's form. *)
Theorem reply_roundtrip : forall P r,
  Fits (reply_shape P) r ->
  exists v, enc_reply P r = Some v /\ dec_reply P v = Some r /\
            forall (vs : variants), classify (SAdj "error" "parameters" vs) P v = Success (reply_view r).
Proof.
  intros P r HF. destruct (roundtrip _ r HF) as (v & Henc & Hdec).
  exists v. split; [exact Henc |]. split; [apply Hdec |].
  intros vs. rewrite classify_unfold.
  (* the encoding has no `error` member *)
  assert (Hno : exists ms, v = JObj ms /\ ~ In "error" (keys ms)).
  { unfold reply_shape, reply_shape_guarded in Henc, HF.
    apply Fits_struct in HF. destruct HF as (rs & -> & _ & Hf2).
    unfold fittable in Hf2. cbn [map fst snd] in Hf2.
    inversion Hf2 as [| e1 rp t1 rs1 _ Hf3]. subst.
    inversion Hf3 as [| e2 rc t2 rs2 _ Hf4]. subst.
    inversion Hf4 as [| e3 rd t3 rs3 _ Hf5]. subst. inversion Hf5. subst.
    rewrite encoder_struct in Henc. unfold etable in Henc. cbn [map fst snd enc_fields] in Henc.
    repeat match type of Henc with
           | context [match ?r with RNone => _ | _ => _ end] => destruct r
           | context [match encoder ?s ?x with Some _ => _ | None => _ end] => destruct (encoder s x)
           end; cbn [option_map] in Henc; try discriminate; inversion Henc; subst v;
      (eexists; split; [reflexivity |]); cbn [keys map fst In];
      intros H; repeat destruct H as [H | H]; try discriminate; exact H. }
  destruct Hno as (ms & -> & Hno).
  unfold vs_error_shape, err_shape. rewrite !decoder_adj, !adj_no_tag by exact Hno.
  now rewrite (Hdec Ref).
Qed.

(* ---------------------------------------------------------------- "no parameters", instances *)
Definition no_params (c : option jval) : Prop :=
  c = None \/ c = Some JNull \/ exists x, c = Some (JObj x).

(* standard org.varlink.service errors without parameters, through receive_reply *)
Theorem standard_error_spellings : forall E P ms,
  NoDup (keys ms) -> no_params (lookup "parameters" ms) ->
  (lookup "error" ms = Some (JStr "org.varlink.service.PermissionDenied") ->
   classify E P (JObj ms) = VarlinkError (RVar 4 [])) /\
  (lookup "error" ms = Some (JStr "org.varlink.service.ExpectedMore") ->
   classify E P (JObj ms) = VarlinkError (RVar 5 [])).
Proof.
  intros E P ms Hnd Hc. split; intros Ht; rewrite classify_unfold.
  - unfold vs_error_shape, err_shape.
    rewrite (no_parameters_spellings Ref "error" "parameters" _ ms
               "org.varlink.service.PermissionDenied" 4 []); try assumption; try reflexivity.
    apply str_neq. reflexivity.
  - unfold vs_error_shape, err_shape.
    rewrite (no_parameters_spellings Ref "error" "parameters" _ ms
               "org.varlink.service.ExpectedMore" 5 []); try assumption; try reflexivity.
    apply str_neq. reflexivity.
Qed.

(* field-less variants of derived error enums, through receive_reply *)
Theorem derived_error_spellings : forall iface (vs : variants) P ms vn i (fs : fields),
  NoDup (keys ms) -> no_params (lookup "parameters" ms) ->
  nth_error vs i = Some (vn, KLenient, fs) ->
  index_of (iface ++ "." ++ vn)%string (map (fun v => fst (fst v)) (qualify iface vs)) = Some i ->
  lookup "error" ms = Some (JStr (iface ++ "." ++ vn)%string) ->
  dec_error (err_shape iface vs) (JObj ms) = Some (RVar i []) /\
  (decoder vs_error_shape Ref (JObj ms) = None ->
   classify (err_shape iface vs) P (JObj ms) = MethodError (RVar i [])).
Proof.
  intros iface vs P ms vn i fs Hnd Hc Hn Hi Ht.
  assert (Hq : nth_error (qualify iface vs) i = Some ((iface ++ "." ++ vn)%string, KLenient, fs)).
  { unfold qualify. rewrite nth_error_map, Hn. reflexivity. }
  assert (Hd : forall m, decoder (err_shape iface vs) m (JObj ms) = Some (RVar i [])).
  { intros m. unfold err_shape.
    apply (no_parameters_spellings m "error" "parameters" (qualify iface vs) ms
             (iface ++ "." ++ vn)%string i fs); try assumption.
    apply str_neq. reflexivity. }
  split; [apply Hd |]. intros Hvs. now rewrite classify_unfold, Hvs, (Hd Ref).
Qed.

Lemma lookup_filter_nonflag : forall k ms,
  is_flag k = false -> lookup k (filter (fun m => negb (is_flag (fst m))) ms) = lookup k ms.
Proof.
  intros k ms Hk. induction ms as [| [k' v] ms IH]; [reflexivity |].
  cbn [filter fst lookup]. destruct (is_flag k') eqn:E; cbn [negb].
  - destruct (String.eqb k' k) eqn:Ek; [| exact IH].
    apply String.eqb_eq in Ek. subst. congruence.
  - cbn [lookup]. destruct (String.eqb k' k); [reflexivity | exact IH].
Qed.

(* the standard method org.varlink.service.GetInfo, in a call envelope with any flags, any member
   order and any other members *)
Theorem getinfo_spellings : forall ms ow mo up,
  NoDup (keys ms) ->
  lookup "method" ms = Some (JStr "org.varlink.service.GetInfo") ->
  no_params (lookup "parameters" ms) ->
  spec_flag "oneway" ms = Some ow -> spec_flag "more" ms = Some mo -> spec_flag "upgrade" ms = Some up ->
  dec_call vs_method_shape (JObj ms) = Some (mk_call (RVar 0 []) ow mo up).
Proof.
  intros ms ow mo up Hnd Hm Hc H1 H2 H3.
  rewrite dec_call_spec by exact Hnd. unfold spec_call. rewrite H1, H2, H3.
  cbn [map_capable vs_method_shape]. unfold vs_method_shape.
  rewrite (no_parameters_spellings Direct "method" "parameters" _ _
             "org.varlink.service.GetInfo" 0 []); try reflexivity.
  - apply str_neq. reflexivity.
  - now apply keys_filter_nodup.
  - rewrite lookup_filter_nonflag; [exact Hm | reflexivity].
  - unfold no_params in *. rewrite lookup_filter_nonflag; [exact Hc | reflexivity].
Qed.

(* proxy methods without output parameters *)
Theorem proxy_unit_spellings : forall (vs : variants) P ms,
  NoDup (keys ms) -> ~ In "error" (keys ms) ->
  no_params (lookup "parameters" ms) ->
  (lookup "continues" ms = None \/ lookup "continues" ms = Some JNull \/
   exists b, lookup "continues" ms = Some (JBool b)) ->
  proxy_out true (SAdj "error" "parameters" vs) P (JObj ms) = POk RUnit.
Proof.
  intros vs P ms Hnd Hno Hp Hc. unfold proxy_out.
  change (if true then no_output_shape else P) with no_output_shape. rewrite classify_unfold.
  unfold vs_error_shape, err_shape. rewrite !decoder_adj, !adj_no_tag by exact Hno.
  pose proof (reply_decoder_spec no_output_shape ms Hnd) as Hr.
  assert (Hb : has_memberb "error" ms = false).
  { destruct (has_memberb "error" ms) eqn:E; [| reflexivity]. apply has_memberb_iff in E. contradiction. }
  rewrite Hb in Hr. unfold spec_opt_member in Hr.
  assert (Hpar : exists p, match lookup "parameters" ms with
                           | Some v => decoder (SOption no_output_shape) Ref v
                           | None => Some RNone end = Some p).
  { unfold no_output_shape. destruct Hp as [-> | [-> | (x & ->)]]; try (eexists; reflexivity).
    rewrite decoder_option, decoder_struct. unfold struct_map, ftable. cbn [map].
    rewrite st_run_nil. cbn [st_finish option_map]. eexists; reflexivity. }
  destruct Hpar as (p & Hpar). rewrite Hpar in Hr.
  assert (Hcon : exists c, match lookup "continues" ms with
                           | Some v => decoder (SOption SBool) Ref v
                           | None => Some RNone end = Some c).
  { destruct Hc as [-> | [-> | (b & ->)]]; eexists; reflexivity. }
  destruct Hcon as (c & Hcon). rewrite Hcon in Hr.
  destruct (decoder (reply_shape no_output_shape) Ref (JObj ms)) as [r |]; cbn [option_map] in Hr;
    [| discriminate].
  inversion Hr as [Hv]. rewrite Hv. reflexivity.
Qed.
