(* Correspondence driver for the envelope models: evaluates model and spec on a case and compares
   with what the implementation produced.  Result code 0 = everything agrees; see the bit lists. *)
From ZV Require Import Common.Exec.
From ZV Require Export Shapes.Corpus.

(* ---------------------------------------------------------------- equality on decoded values *)
(* serde_json::Value payloads are compared through Json.canon (sorted members, last duplicate
   wins), because that is all a BTreeMap-backed Value retains. *)
Fixpoint rval_eqb (a b : rval) {struct a} : bool :=
  match a, b with
  | RUnit, RUnit => true
  | RBool x, RBool y => Bool.eqb x y
  | RInt x, RInt y => Z.eqb x y
  | RStr x, RStr y => String.eqb x y
  | RNone, RNone => true
  | RSome x, RSome y => rval_eqb x y
  | RSeq x, RSeq y | RStruct x, RStruct y =>
      (fix go (x y : list rval) : bool :=
         match x, y with
         | [], [] => true
         | u :: x', w :: y' => rval_eqb u w && go x' y'
         | _, _ => false
         end) x y
  | RVar i x, RVar j y =>
      Nat.eqb i j &&
      (fix go (x y : list rval) : bool :=
         match x, y with
         | [], [] => true
         | u :: x', w :: y' => rval_eqb u w && go x' y'
         | _, _ => false
         end) x y
  | RAny x, RAny y => jval_eqb (canon x) (canon y)
  | RAlt i x, RAlt j y => Nat.eqb i j && rval_eqb x y
  | RDefault, RDefault => true
  | _, _ => false
  end.

Definition orval_eqb (a b : option rval) : bool :=
  match a, b with
  | Some x, Some y => rval_eqb x y
  | None, None => true
  | _, _ => false
  end.

Definition ojval_eqb (a b : option jval) : bool :=
  match a, b with
  | Some x, Some y => jval_eqb x y
  | None, None => true
  | _, _ => false
  end.

Definition outcome_eqb (a b : outcome) : bool :=
  match a, b with
  | VarlinkError x, VarlinkError y | MethodError x, MethodError y | Success x, Success y => rval_eqb x y
  | DecodeError, DecodeError => true
  | _, _ => false
  end.

Definition pout_eqb (a b : pout) : bool :=
  match a, b with
  | POk x, POk y | PErr x, PErr y | PVarlink x, PVarlink y => rval_eqb x y
  | PMissing, PMissing | PDecode, PDecode => true
  | _, _ => false
  end.

Fixpoint nodupb (l : list string) : bool :=
  match l with
  | [] => true
  | x :: l' => negb (existsb (String.eqb x) l') && nodupb l'
  end.

Definition bit (b : bool) (n : N) : N := if b then n else 0%N.

(* ---------------------------------------------------------------- reply cases (C04, C05) *)
Record rcase := {
  rc_object_only : bool;         (* receive_reply of the tree under test refuses non-object frames *)
  rc_e : shape;                  (* the caller's error type, as the tree under test implements it *)
  rc_espec : shape;              (* ... as the property reads it (differs only for an open finding) *)
  rc_p : shape;                  (* the expected parameter type *)
  rc_frame : jval;
  rc_recv : outcome;             (* Connection::receive_reply::<P,E>() *)
  rc_call : outcome;             (* Connection::call_method::<_,P,E>() *)
  rc_dvs : option rval;          (* serde_json::from_str::<varlink_service::Error> *)
  rc_derr : option rval;         (* serde_json::from_str::<E> *)
  rc_drep : option rval;         (* serde_json::from_str::<Reply<P>>, as [parameters; continues] *)
  rc_evs : option jval;          (* serde_json::to_string of what rc_dvs / rc_derr / rc_drep decoded *)
  rc_eerr : option jval;
  rc_erep : option jval
}.

Definition is_success (o : outcome) : bool := match o with Success _ => true | _ => false end.

Definition model_dvs (c : rcase) := decoder vs_error_shape Direct (rc_frame c).
Definition model_derr (c : rcase) := decoder (rc_e c) Direct (rc_frame c).
Definition model_drep (c : rcase) := option_map reply_view (dec_reply (rc_p c) (rc_frame c)).
Definition re_enc (s : shape) (d : option rval) : option jval :=
  match d with Some r => encoder s r | None => None end.

(* 64  SPEC: the frame is not a JSON object and receive_reply did not report a decode error
    1  receive_reply differs from the model (receive_reply_model)
    2  SPEC: the frame is an object with an `error` member and receive_reply reported success
    4  SPEC: the object has no duplicate member names and receive_reply differs from spec_classify
    8  call_method differs from receive_reply
   16  a directly decoded alternative differs from the model
   32  a re-encoding differs from the model's encoder *)
Definition check_reply (c : rcase) : N :=
  let mo := receive_reply_model (rc_object_only c) (rc_e c) (rc_p c) (rc_frame c) in
  (bit (negb (outcome_eqb mo (rc_recv c))) 1 +
   bit (negb (is_object (rc_frame c)) && negb (outcome_eqb DecodeError (rc_recv c))) 64 +
   match rc_frame c with
   | JObj ms =>
       bit (has_memberb "error" ms && is_success (rc_recv c)) 2 +
       bit (nodupb (keys ms) && negb (outcome_eqb (spec_classify (rc_espec c) (rc_p c) ms) (rc_recv c))) 4
   | _ => 0
   end +
   bit (negb (outcome_eqb (rc_call c) (rc_recv c))) 8 +
   bit (negb (orval_eqb (model_dvs c) (rc_dvs c) && orval_eqb (model_derr c) (rc_derr c)
              && orval_eqb (model_drep c) (rc_drep c))) 16 +
   bit (negb (ojval_eqb (re_enc vs_error_shape (model_dvs c)) (rc_evs c)
              && ojval_eqb (re_enc (rc_e c) (model_derr c)) (rc_eerr c)
              && ojval_eqb (re_enc (reply_shape (rc_p c)) (dec_reply (rc_p c) (rc_frame c))) (rc_erep c))) 32)%N.

Definition show_reply (c : rcase) :=
  (receive_reply_model (rc_object_only c) (rc_e c) (rc_p c) (rc_frame c),
   match rc_frame c with JObj ms => Some (spec_classify (rc_espec c) (rc_p c) ms) | _ => Some DecodeError end,
   (model_dvs c, model_derr c, model_drep c),
   (re_enc vs_error_shape (model_dvs c), re_enc (rc_e c) (model_derr c),
    re_enc (reply_shape (rc_p c)) (dec_reply (rc_p c) (rc_frame c)))).

(* ---------------------------------------------------------------- call cases (C05) *)
Record ccase := {
  cc_m : shape;
  cc_frame : jval;
  cc_dec : option rval;          (* serde_json::from_str::<Call<M>> *)
  cc_recv : option rval;         (* Connection::receive_call::<M>() *)
  cc_enc : option jval           (* serde_json::to_string of the decoded call *)
}.

(*  1  from_str::<Call<M>> differs from the model (dec_call)
    4  SPEC: no duplicate member names and the result differs from spec_call
    8  receive_call differs from from_str
   32  the re-encoding differs from the model (enc_call) *)
Definition check_call (c : ccase) : N :=
  let md := dec_call (cc_m c) (cc_frame c) in
  (bit (negb (orval_eqb md (cc_dec c))) 1 +
   match cc_frame c with
   | JObj ms => bit (nodupb (keys ms) && negb (orval_eqb (spec_call (cc_m c) ms) (cc_dec c))) 4
   | _ => 0
   end +
   bit (negb (orval_eqb (cc_recv c) (cc_dec c))) 8 +
   bit (negb (ojval_eqb (match md with Some r => enc_call (cc_m c) r | None => None end) (cc_enc c))) 32)%N.

Definition show_call (c : ccase) :=
  (dec_call (cc_m c) (cc_frame c),
   match cc_frame c with JObj ms => spec_call (cc_m c) ms | _ => None end,
   match dec_call (cc_m c) (cc_frame c) with Some r => enc_call (cc_m c) r | None => None end).

(* ---------------------------------------------------------------- proxy cases *)
Record pcase := {
  pc_object_only : bool;
  pc_unit : bool;                (* the method has no output *)
  pc_e : shape;
  pc_p : shape;
  pc_frame : jval;
  pc_res : pout
}.

(* what the property asks of a proxy method: classification as spec_classify, a method without
   output accepts parameters absent / null / any object *)
Definition spec_proxy (c : pcase) (ms : members) : pout :=
  match spec_classify (pc_e c) (if pc_unit c then SStruct [] else pc_p c) ms with
  | VarlinkError e => PVarlink e
  | MethodError e => PErr e
  | DecodeError => PDecode
  | Success (RStruct (params :: _)) =>
      if pc_unit c then POk RUnit else match params with RSome p => POk p | _ => PMissing end
  | Success _ => PDecode
  end.

Definition is_pok (p : pout) : bool := match p with POk _ | PMissing => true | _ => false end.

(* 64  SPEC: the frame is not a JSON object and the proxy method did not fail with a decode error
    1  the proxy method's result differs from the model (proxy_model)
    2  SPEC: object with an `error` member reported as success (or as success without parameters)
    4  SPEC: no duplicate member names and the result differs from spec_proxy *)
Definition check_proxy (c : pcase) : N :=
  (bit (negb (pout_eqb (proxy_model (pc_object_only c) (pc_unit c) (pc_e c) (pc_p c) (pc_frame c)) (pc_res c))) 1 +
   bit (negb (is_object (pc_frame c)) && negb (pout_eqb PDecode (pc_res c))) 64 +
   match pc_frame c with
   | JObj ms =>
       bit (has_memberb "error" ms && is_pok (pc_res c)) 2 +
       bit (nodupb (keys ms) && negb (pout_eqb (spec_proxy c ms) (pc_res c))) 4
   | _ => 0
   end)%N.

Definition show_proxy (c : pcase) :=
  (proxy_model (pc_object_only c) (pc_unit c) (pc_e c) (pc_p c) (pc_frame c),
   match pc_frame c with JObj ms => Some (spec_proxy c ms) | _ => Some PDecode end).

(* ---------------------------------------------------------------- built calls and replies (C05) *)
Record bccase := {
  bc_m : shape;
  bc_frame : jval;                 (* the METHOD value, decoded with serde_json::from_str::<M> *)
  bc_ops : list (flag * bool);     (* the setters, in the order they were applied *)
  bc_built : bool;                 (* the method value decoded *)
  bc_meth : option rval;           (* call.method() *)
  bc_get : list bool;              (* call.oneway(), call.more(), call.upgrade() *)
  bc_enc : option jval             (* serde_json::to_string(&call) *)
}.

Fixpoint bools_eqb (a b : list bool) : bool :=
  match a, b with
  | [], [] => true
  | x :: a', y :: b' => Bool.eqb x y && bools_eqb a' b'
  | _, _ => false
  end.

(*  1  the method value decodes differently from the model (not about the builder)
    2  SPEC: the getters differ from the logical value (each flag = its last setter, else false)
    4  SPEC: the encoding differs from the encoding of the logical value *)
Definition check_build_call (c : bccase) : N :=
  match decoder (bc_m c) Direct (bc_frame c) with
  | None => bit (bc_built c) 1
  | Some meth =>
      let v := build_call meth (bc_ops c) in
      (bit (negb (bc_built c) || negb (orval_eqb (Some meth) (bc_meth c))) 1 +
       bit (bc_built c && negb (bools_eqb [cv_oneway v; cv_more v; cv_upgrade v] (bc_get c))) 2 +
       bit (bc_built c && negb (ojval_eqb (enc_call (bc_m c) (call_rval v)) (bc_enc c))) 4)%N
  end.

Definition show_build_call (c : bccase) :=
  match decoder (bc_m c) Direct (bc_frame c) with
  | None => None
  | Some meth => let v := build_call meth (bc_ops c) in
                 Some ([cv_oneway v; cv_more v; cv_upgrade v], enc_call (bc_m c) (call_rval v))
  end.

Record brcase := {
  br_p : shape;
  br_frame : option jval;          (* the parameters (None: Reply::new(None)) *)
  br_ops : list (option bool);     (* set_continues calls, in order *)
  br_built : bool;
  br_params : option rval;         (* reply.parameters() *)
  br_cont : option rval;           (* reply.continues() *)
  br_enc : option jval
}.

Definition model_params (c : brcase) : option rval :=
  match br_frame c with
  | None => Some RNone
  | Some v => option_map RSome (decoder (br_p c) Direct v)
  end.

Definition check_build_reply (c : brcase) : N :=
  match model_params c with
  | None => bit (br_built c) 1
  | Some ps =>
      let v := build_reply ps (br_ops c) in
      (bit (negb (br_built c) || negb (orval_eqb (Some ps) (br_params c))) 1 +
       bit (br_built c && negb (orval_eqb (Some (match rv_continues v with Some b => RSome (RBool b) | None => RNone end))
                                         (br_cont c))) 2 +
       bit (br_built c && negb (ojval_eqb (enc_reply (br_p c) (reply_rval v)) (br_enc c))) 4)%N
  end.

Definition show_build_reply (c : brcase) :=
  match model_params c with
  | None => None
  | Some ps => let v := build_reply ps (br_ops c) in Some (rv_continues v, enc_reply (br_p c) (reply_rval v))
  end.
