(* Proofs for C04: the guarded success branch rejects every object with an `error` member;
   receive_reply's classification of objects without duplicate member names is the order-free
   specification spec_classify. *)
From Coq Require Import Permutation.
From ZV Require Import Shapes.Shapes Shapes.ShapesProofs Shapes.Reply.

Local Open Scope list_scope.

(* ---------------------------------------------------------------- the guard *)
Lemma run1_never : forall m e ms,
  (forall v, fe_dec e m v = None) -> In (fe_name e) (keys ms) -> run1 m e None ms = None.
Proof.
  intros m e ms Hnever. induction ms as [| [k v] ms IH]; intros Hin; [contradiction |].
  cbn [run1]. destruct (String.eqb (fe_name e) k) eqn:E.
  - now rewrite Hnever.
  - apply IH. cbn [keys map fst] in Hin. destruct Hin as [Heq | Hin]; [| exact Hin].
    apply String.eqb_neq in E. congruence.
Qed.

Lemma in_keys_not_named : forall n k ms, n <> k -> In k (keys ms) -> In k (keys (not_named n ms)).
Proof.
  intros n k ms Hne. induction ms as [| [k' v] ms IH]; intros Hin; [contradiction |].
  rewrite not_named_cons. cbn [keys map fst] in Hin.
  destruct (String.eqb n k') eqn:E.
  - apply String.eqb_eq in E. subst k'. destruct Hin as [Heq | Hin]; [congruence | now apply IH].
  - cbn [keys map fst]. destruct Hin as [Heq | Hin]; [now left | right; now apply IH].
Qed.

Lemma str_neq : forall a b, String.eqb a b = false -> a <> b.
Proof. intros a b H. now apply String.eqb_neq. Qed.

(* The success branch after b42f3c8: an object with an `error` member never decodes as Reply<P>,
   whatever P is, in any mode, whatever else the object contains (duplicates included). *)
Lemma reply_guard_rejects : forall P m ms,
  has_member "error" ms -> decoder (reply_shape P) m (JObj ms) = None.
Proof.
  intros P m ms Hin. unfold reply_shape, reply_shape_guarded. rewrite decoder_struct.
  unfold struct_map, ftable. cbn [map fst snd].
  rewrite st_run_cons. cbn [fe_name].
  destruct (run1 m _ None ms) as [s1 |]; [| reflexivity].
  rewrite st_run_cons. cbn [fe_name].
  destruct (run1 m _ None (not_named "parameters" ms)) as [s2 |]; [| reflexivity].
  rewrite st_run_cons. cbn [fe_name].
  rewrite run1_never; [reflexivity | reflexivity |].
  cbn [fe_name]. apply in_keys_not_named; [apply str_neq; reflexivity |].
  apply in_keys_not_named; [apply str_neq; reflexivity |]. exact Hin.
Qed.

Lemma classify_unfold : forall E P v,
  classify E P v =
  match decoder vs_error_shape Ref v with
  | Some e => VarlinkError e
  | None =>
      match decoder E Ref v with
      | Some e => MethodError e
      | None =>
          match decoder (reply_shape P) Ref v with
          | Some r => Success (reply_view r)
          | None => DecodeError
          end
      end
  end.
Proof.
  intros E P v. unfold classify, reply_msg_shape. rewrite decoder_untagged.
  cbn [map first_ok].
  destruct (decoder vs_error_shape Ref v); [reflexivity |].
  destruct (decoder E Ref v); [reflexivity |].
  destruct (decoder (reply_shape P) Ref v); reflexivity.
Qed.

Theorem error_never_success : forall (E P : shape) (ms : members),
  has_member "error" ms -> forall r, classify E P (JObj ms) <> Success r.
Proof.
  intros E P ms Hin r. rewrite classify_unfold.
  rewrite (reply_guard_rejects P Ref ms Hin).
  destruct (decoder vs_error_shape Ref (JObj ms)); [discriminate |].
  destruct (decoder E Ref (JObj ms)); discriminate.
Qed.

(* the same for the generated proxy methods: never Ok(Ok(_)), never MissingParameters *)
Theorem proxy_error_never_ok : forall (unit_out : bool) (E P : shape) (ms : members),
  has_member "error" ms ->
  match proxy_out unit_out E P (JObj ms) with POk _ | PMissing => False | _ => True end.
Proof.
  intros u E P ms Hin. unfold proxy_out.
  destruct (classify E (if u then no_output_shape else P) (JObj ms)) as [e | e | r |] eqn:Ec;
    try exact I.
  exfalso. exact (error_never_success _ _ _ Hin r Ec).
Qed.

(* ---------------------------------------------------------------- classification *)
(* Error types as the ReplyError derive generates them (after d12b38a): tag "error", content
   "parameters", variants without fields are lenient, variant fields do not contain `()` or a
   nested tagged enum (so that it cannot matter whether the parameters arrive before the name). *)
Definition variant_ok (v : string * vkind * fields) : bool :=
  match snd (fst v) with KUnit => false | _ => true end && fields_stable (snd v).

Definition derived_error_shape (E : shape) : Prop :=
  exists vs, E = SAdj "error" "parameters" vs /\ forallb variant_ok vs = true.

Lemma variants_ok_stable : forall vs, forallb variant_ok vs = true -> variants_stable vs = true.
Proof.
  intros vs H. unfold variants_stable. rewrite forallb_forall in *. intros v Hin.
  specialize (H v Hin). unfold variant_ok in H. now apply andb_true_iff in H as [_ H].
Qed.

Lemma variant_at_vtable : forall vs i k ft,
  variant_at (vtable vs) i = Some (k, ft) ->
  exists n fs, nth_error vs i = Some (n, k, fs) /\ ft = ftable fs.
Proof.
  intros vs i k ft H. unfold variant_at, vtable in H. rewrite nth_error_map in H.
  destruct (nth_error vs i) as [[[n k'] fs] |] eqn:E; cbn [option_map fst snd] in H; [| discriminate].
  inversion H. subst. now exists n, fs.
Qed.

Lemma derived_decoder_spec : forall vs ms,
  forallb variant_ok vs = true -> NoDup (keys ms) ->
  decoder (SAdj "error" "parameters" vs) Ref (JObj ms) = spec_adj Ref "error" "parameters" (vtable vs) ms.
Proof.
  intros vs ms Hok Hnd. rewrite decoder_adj.
  rewrite adj_map_lookup; [| apply str_neq; reflexivity | exact Hnd].
  rewrite tag_first_irrelevant by (apply vtable_stable, variants_ok_stable, Hok).
  unfold spec_adj.
  destruct (lookup "error" ms) as [t |]; [| reflexivity].
  destruct (dec_tag Ref (vnames (vtable vs)) t) as [i |]; [| reflexivity].
  unfold missing_content_at, dec_variant_at.
  destruct (variant_at (vtable vs) i) as [[k ft] |] eqn:Ev.
  - destruct (variant_at_vtable _ _ _ _ Ev) as (n & fs & Hn & _).
    apply nth_error_In in Hn. rewrite forallb_forall in Hok. specialize (Hok _ Hn).
    unfold variant_ok in Hok. cbn [fst snd] in Hok. apply andb_true_iff in Hok as [Hk _].
    destruct (lookup "parameters" ms) as [c |].
    + destruct k; [discriminate | |]; cbn [dec_variant spec_variant]; destruct c; reflexivity.
    + destruct k; [discriminate | |]; reflexivity.
  - destruct (lookup "parameters" ms); reflexivity.
Qed.

Lemma vs_error_ok : forallb variant_ok (qualify "org.varlink.service" vs_error_variants) = true.
Proof. reflexivity. Qed.

Lemma has_memberb_lookup : forall k ms, has_memberb k ms = match lookup k ms with Some _ => true | None => false end.
Proof.
  intros k. induction ms as [| [k' v] ms IH]; [reflexivity |].
  unfold has_memberb in *. cbn [existsb fst lookup]. destruct (String.eqb k' k); [reflexivity | exact IH].
Qed.

Lemma reply_decoder_spec : forall P ms,
  NoDup (keys ms) ->
  option_map reply_view (decoder (reply_shape P) Ref (JObj ms)) =
  if has_memberb "error" ms then None
  else match spec_opt_member P "parameters" ms, spec_opt_member SBool "continues" ms with
       | Some p, Some c => Some (RStruct [p; c])
       | _, _ => None
       end.
Proof.
  intros P ms Hnd. unfold reply_shape, reply_shape_guarded. rewrite decoder_struct.
  rewrite struct_map_lookup; [| | exact Hnd].
  2:{ unfold fnames, ftable. cbn [map fst snd fe_name].
      constructor; [cbn [In]; intros [H | [H | H]]; try discriminate; exact H |].
      constructor; [cbn [In]; intros [H | H]; try discriminate; exact H |].
      constructor; [cbn [In]; intros H; exact H | constructor]. }
  unfold ftable. cbn [map fst snd map_opt]. unfold field_lookup. cbn [fe_name fe_dec fe_attr].
  rewrite has_memberb_lookup. unfold spec_opt_member.
  unfold missing_map. cbn [fe_attr fe_opt is_option].
  destruct (lookup "parameters" ms) as [pv |];
    destruct (lookup "continues" ms) as [cv |];
    destruct (lookup "error" ms) as [ev |]; cbn [decoder].
  all: repeat match goal with
       | |- context [match ?x with JNull => _ | _ => _ end] => destruct x
       | |- context [option_map RSome ?x] => destruct x; cbn [option_map]
       | |- context [dec_bool ?x] => destruct x; cbn [dec_bool option_map]
       end; try reflexivity.
Qed.

Theorem classify_spec : forall E P ms,
  derived_error_shape E -> NoDup (keys ms) ->
  classify E P (JObj ms) = spec_classify E P ms.
Proof.
  intros E P ms (vs & HE & Hok) Hnd. subst E. rewrite classify_unfold. unfold spec_classify.
  unfold vs_error_shape at 1, err_shape. rewrite (derived_decoder_spec _ _ vs_error_ok Hnd).
  unfold spec_error, vs_error_shape, err_shape.
  destruct (spec_adj Ref "error" "parameters" (vtable (qualify "org.varlink.service" vs_error_variants)) ms);
    [reflexivity |].
  rewrite (derived_decoder_spec _ _ Hok Hnd).
  destruct (spec_adj Ref "error" "parameters" (vtable vs) ms); [reflexivity |].
  pose proof (reply_decoder_spec P ms Hnd) as Hr.
  destruct (decoder (reply_shape P) Ref (JObj ms)) as [r |]; cbn [option_map] in Hr.
  - destruct (has_memberb "error" ms); [discriminate |].
    destruct (spec_opt_member P "parameters" ms); [| discriminate].
    destruct (spec_opt_member SBool "continues" ms); [| discriminate]. now inversion Hr.
  - destruct (has_memberb "error" ms); [reflexivity |].
    destruct (spec_opt_member P "parameters" ms); [| reflexivity].
    destruct (spec_opt_member SBool "continues" ms); [discriminate | reflexivity].
Qed.

(* The three statements of the property. *)
Theorem classification : forall E P ms,
  derived_error_shape E -> NoDup (keys ms) ->
  (forall e, classify E P (JObj ms) = VarlinkError e <-> spec_error vs_error_shape ms = Some e) /\
  (forall e, classify E P (JObj ms) = MethodError e <->
             spec_error vs_error_shape ms = None /\ spec_error E ms = Some e) /\
  (forall r, classify E P (JObj ms) = Success r <->
             ~ has_member "error" ms /\
             spec_error vs_error_shape ms = None /\ spec_error E ms = None /\
             exists p c, spec_opt_member P "parameters" ms = Some p /\
                         spec_opt_member SBool "continues" ms = Some c /\ r = RStruct [p; c]).
Proof.
  intros E P ms HE Hnd. rewrite (classify_spec E P ms HE Hnd). unfold spec_classify.
  assert (Hm : has_memberb "error" ms = true <-> has_member "error" ms) by apply has_memberb_iff.
  destruct (spec_error vs_error_shape ms) as [e0 |].
  { split; [| split]; intros x; split; intros H.
    - now inversion H.
    - now inversion H.
    - discriminate.
    - destruct H as [H _]. discriminate.
    - discriminate.
    - destruct H as (_ & H & _). discriminate. }
  destruct (spec_error E ms) as [e1 |].
  { split; [| split]; intros x; split; intros H.
    - discriminate.
    - discriminate.
    - inversion H. now split.
    - destruct H as [_ H]. now inversion H.
    - discriminate.
    - destruct H as (_ & _ & H & _). discriminate. }
  destruct (has_memberb "error" ms) eqn:Hb.
  { split; [| split]; intros x; split; intros H.
    - discriminate.
    - discriminate.
    - discriminate.
    - destruct H as [_ H]. discriminate.
    - discriminate.
    - destruct H as (Hn & _). exfalso. apply Hn. now apply Hm. }
  assert (Hno : ~ has_member "error" ms).
  { intros H. apply Hm in H. discriminate. }
  destruct (spec_opt_member P "parameters" ms) as [p |];
    destruct (spec_opt_member SBool "continues" ms) as [c |].
  all: split; [| split]; intros x; split; intros H; try discriminate;
    try (destruct H as [_ H]; discriminate);
    try (destruct H as (_ & _ & _ & p' & c' & H1 & H2 & _); discriminate).
  - inversion H. subst. repeat split; try assumption. now exists p, c.
  - destruct H as (_ & _ & _ & p' & c' & H1 & H2 & Hr). inversion H1. inversion H2. now subst.
Qed.

(* ---------------------------------------------------------------- frames that are not objects *)
(* With the object-only reading of the message (work/c04-array-fix.diff) every frame that is not a
   JSON object is a decode error, for receive_reply and for the proxy methods on top of it; on
   objects nothing changes. *)
Theorem non_object_decode_error : forall E P v,
  is_object v = false ->
  receive_reply_model true E P v = DecodeError /\
  forall unit_out, proxy_model true unit_out E P v = PDecode.
Proof.
  intros E P v H. unfold receive_reply_model, proxy_model. rewrite H. split; reflexivity.
Qed.

Theorem object_frames_unchanged : forall b E P ms,
  receive_reply_model b E P (JObj ms) = classify E P (JObj ms) /\
  forall unit_out, proxy_model b unit_out E P (JObj ms) = proxy_out unit_out E P (JObj ms).
Proof. intros. split; reflexivity. Qed.

(* Hence, with the repair: a method error or a service error is reported ONLY IF the frame is an
   object that has an `error` member (the missing direction of the property for arbitrary frames),
   for every error type of the derive's form. *)
Theorem error_only_if_error_member : forall E P v,
  derived_error_shape E ->
  (exists e, receive_reply_model true E P v = MethodError e \/
             receive_reply_model true E P v = VarlinkError e) ->
  exists ms, v = JObj ms /\ has_member "error" ms.
Proof.
  intros E P v (vs & HE & Hok) [e He]. subst E. unfold receive_reply_model in He.
  destruct v as [| | | | | l | ms]; cbn [is_object] in He;
    try (destruct He as [He | He]; discriminate).
  exists ms. split; [reflexivity |].
  rewrite classify_unfold in He.
  destruct (in_dec String.string_dec "error" (keys ms)) as [Hin | Hno]; [exact Hin | exfalso].
  unfold vs_error_shape, err_shape in He. rewrite !decoder_adj in He.
  rewrite (adj_no_tag _ _ _ _ _ Hno) in He. rewrite (adj_no_tag _ _ _ _ _ Hno) in He.
  destruct (decoder (reply_shape P) Ref (JObj ms)); destruct He as [He | He]; discriminate.
Qed.
