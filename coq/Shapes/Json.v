(* JSON values as the decoders see them: members of an object are ORDERED and may be DUPLICATED
   (serde's derived visitors and serde's buffered `Content` both see every member in wire order).
   Numbers: integer tokens are `JNum z`; every other number token is an opaque `JFlt tok`
   (its text).  Strings (and member names) are Coq strings = byte sequences AFTER unescaping:
   a member name is a decoded JSON string, so "m\u006fre" and "more" are the same name and a frame
   that spells a name with escape sequences is the same jval.  Nothing in the models may depend on
   how a NAME was spelled (the correspondence run feeds escaped spellings of every name, through
   serde_json::from_str, from_value, from_reader and the connection); only for string VALUES
   decoded into a borrowed &str does the spelling matter (needs_escape below). *)
From Coq Require Export List ZArith NArith Bool Arith Lia Ascii String.
Export ListNotations.
Open Scope string_scope.

Inductive jval : Type :=
| JNull
| JBool (b : bool)
| JNum (z : Z)
| JFlt (tok : string)
| JStr (s : string)
| JArr (l : list jval)
| JObj (ms : list (string * jval)).

Definition member : Type := (string * jval)%type.
Definition members : Type := list member.

(* Induction principle for the nested inductive (through list and prod), by hand. *)
Section jval_ind'.
  Variable P : jval -> Prop.
  Hypothesis Hnull : P JNull.
  Hypothesis Hbool : forall b, P (JBool b).
  Hypothesis Hnum : forall z, P (JNum z).
  Hypothesis Hflt : forall t, P (JFlt t).
  Hypothesis Hstr : forall s, P (JStr s).
  Hypothesis Harr : forall l, Forall P l -> P (JArr l).
  Hypothesis Hobj : forall ms, Forall (fun m => P (snd m)) ms -> P (JObj ms).

  Fixpoint jval_ind' (v : jval) : P v :=
    match v with
    | JNull => Hnull
    | JBool b => Hbool b
    | JNum z => Hnum z
    | JFlt t => Hflt t
    | JStr s => Hstr s
    | JArr l =>
        Harr l ((fix go (l : list jval) : Forall P l :=
                   match l with
                   | [] => Forall_nil P
                   | x :: l' => Forall_cons x (jval_ind' x) (go l')
                   end) l)
    | JObj ms =>
        Hobj ms ((fix go (ms : list (string * jval)) : Forall (fun m => P (snd m)) ms :=
                    match ms with
                    | [] => Forall_nil _
                    | m :: ms' => Forall_cons m (jval_ind' (snd m)) (go ms')
                    end) ms)
    end.
End jval_ind'.

(* ---------------------------------------------------------------- boolean equality *)
Fixpoint jval_eqb (a b : jval) {struct a} : bool :=
  match a, b with
  | JNull, JNull => true
  | JBool x, JBool y => Bool.eqb x y
  | JNum x, JNum y => Z.eqb x y
  | JFlt x, JFlt y => String.eqb x y
  | JStr x, JStr y => String.eqb x y
  | JArr x, JArr y =>
      (fix go (x y : list jval) : bool :=
         match x, y with
         | [], [] => true
         | u :: x', w :: y' => jval_eqb u w && go x' y'
         | _, _ => false
         end) x y
  | JObj x, JObj y =>
      (fix go (x y : list (string * jval)) : bool :=
         match x, y with
         | [], [] => true
         | (k, u) :: x', (k', w) :: y' => String.eqb k k' && jval_eqb u w && go x' y'
         | _, _ => false
         end) x y
  | _, _ => false
  end.

Lemma jval_eqb_refl : forall v, jval_eqb v v = true.
Proof.
  induction v as [| b | z | t | s | l IH | ms IH] using jval_ind'; cbn [jval_eqb].
  - reflexivity.
  - destruct b; reflexivity.
  - apply Z.eqb_refl.
  - apply String.eqb_refl.
  - apply String.eqb_refl.
  - induction IH as [| x l Hx _ IHl]; [reflexivity |]. now rewrite Hx, IHl.
  - induction IH as [| [k x] l Hx _ IHl]; [reflexivity |].
    cbn [snd] in Hx. now rewrite String.eqb_refl, Hx, IHl.
Qed.

Lemma jval_eqb_eq : forall a b, jval_eqb a b = true -> a = b.
Proof.
  induction a as [| x | x | x | x | l IH | ms IH] using jval_ind';
    intros [| y | y | y | y | l' | ms'] H; cbn [jval_eqb] in H; try discriminate.
  - reflexivity.
  - f_equal. now apply Bool.eqb_prop.
  - f_equal. now apply Z.eqb_eq.
  - f_equal. now apply String.eqb_eq.
  - f_equal. now apply String.eqb_eq.
  - f_equal. revert l' H. induction IH as [| u l Hu _ IHl]; intros [| w l'] H; try discriminate.
    + reflexivity.
    + apply andb_true_iff in H as [H1 H2]. f_equal; [now apply Hu | now apply IHl].
  - f_equal. revert ms' H.
    induction IH as [| [k u] l Hu _ IHl]; intros [| [k' w] l'] H; try discriminate.
    + reflexivity.
    + apply andb_true_iff in H as [H12 H3]. apply andb_true_iff in H12 as [H1 H2].
      cbn [snd] in Hu. apply String.eqb_eq in H1. apply Hu in H2. subst. f_equal. now apply IHl.
Qed.

(* ---------------------------------------------------------------- members *)
Definition keys (ms : members) : list string := map fst ms.

Definition has_member (k : string) (ms : members) : Prop := In k (keys ms).

Definition has_memberb (k : string) (ms : members) : bool :=
  existsb (fun m => String.eqb (fst m) k) ms.

(* first member with that name *)
Fixpoint lookup (k : string) (ms : members) : option jval :=
  match ms with
  | [] => None
  | (k', v) :: ms' => if String.eqb k' k then Some v else lookup k ms'
  end.

(* all values under that name, in order *)
Definition values_of (k : string) (ms : members) : list jval :=
  map snd (filter (fun m => String.eqb (fst m) k) ms).

Lemma has_memberb_iff : forall k ms, has_memberb k ms = true <-> has_member k ms.
Proof.
  intros k ms. unfold has_memberb, has_member, keys. rewrite existsb_exists. split.
  - intros [[k' v] [Hin Heq]]. cbn [fst] in Heq. apply String.eqb_eq in Heq. subst.
    apply in_map_iff. now exists (k, v).
  - intros Hin. apply in_map_iff in Hin as [[k' v] [Hk Hin]]. cbn [fst] in Hk. subst.
    exists (k, v). split; [assumption | apply String.eqb_refl].
Qed.

(* ---------------------------------------------------------------- strings on the wire *)
(* A string (or member name) whose JSON text needs no escape sequence: serde_json can hand it out
   as a borrowed `&str`; otherwise only as an owned/temporary string (`visit_str`), which
   `&'de str` targets reject.  The generator writes minimal escapes only. *)
Definition needs_escape_char (c : ascii) : bool :=
  let n := nat_of_ascii c in Nat.ltb n 32 || Nat.eqb n 34 || Nat.eqb n 92.

Fixpoint needs_escape (s : string) : bool :=
  match s with
  | EmptyString => false
  | String c s' => needs_escape_char c || needs_escape s'
  end.

(* ---------------------------------------------------------------- serde_json::Value view *)
(* serde_json::Value (no preserve_order) stores an object as a BTreeMap: members sorted by name,
   a later duplicate replaces an earlier one.  `canon` computes that view; the correspondence
   check compares `Value`-typed payloads through it. *)
Fixpoint str_ltb (a b : string) : bool :=
  match a, b with
  | EmptyString, EmptyString => false
  | EmptyString, String _ _ => true
  | String _ _, EmptyString => false
  | String x a', String y b' =>
      let nx := nat_of_ascii x in let ny := nat_of_ascii y in
      if Nat.ltb nx ny then true else if Nat.ltb ny nx then false else str_ltb a' b'
  end.

(* insert (k,v) into a sorted duplicate-free list; an existing entry is replaced *)
Fixpoint ins_member (k : string) (v : jval) (ms : members) : members :=
  match ms with
  | [] => [(k, v)]
  | (k', v') :: ms' =>
      if String.eqb k k' then (k, v) :: ms'
      else if str_ltb k k' then (k, v) :: ms
      else (k', v') :: ins_member k v ms'
  end.

Fixpoint canon (v : jval) : jval :=
  match v with
  | JArr l => JArr (map canon l)
  | JObj ms =>
      JObj ((fix go (ms : list (string * jval)) (acc : members) : members :=
               match ms with
               | [] => acc
               | (k, x) :: ms' => go ms' (ins_member k (canon x) acc)
               end) ms [])
  | _ => v
  end.

(* strings given as byte lists (used by the case renderer for non-printable content) *)
Fixpoint bs (l : list N) : string :=
  match l with
  | [] => EmptyString
  | b :: l' => String (ascii_of_N b) (bs l')
  end.
