(* Proofs for C05, part 1: the filtering map access of call/de.rs (flags anywhere, absent = false,
   hidden from the method type, everything else passed through), independence from member order,
   the shape of the error encoding, the three spellings of "no parameters". *)
From Coq Require Import Permutation.
From ZV Require Import Shapes.Shapes Shapes.ShapesProofs Shapes.Reply Shapes.ReplyProofs Shapes.Envelope.

Local Open Scope list_scope.

Definition nonflag (kv : member) : bool := negb (is_flag (fst kv)).

Ltac dex ms := match goal with |- context [existsb ?f ms] => destruct (existsb f ms) end.

(* ---------------------------------------------------------------- FilterMap *)
(* Whatever the envelope (duplicates included): what the method type is given is exactly the
   members that are not flags, in wire order. *)
Lemma filter_call_yield : forall ms cs ys cs',
  filter_call ms cs = Some (ys, cs') -> ys = filter nonflag ms.
Proof.
  induction ms as [| [k v] ms IH]; intros cs ys cs' H.
  - inversion H. reflexivity.
  - cbn [filter_call] in H. cbn [filter]. unfold nonflag at 1, is_flag. cbn [fst].
    destruct (String.eqb k "oneway") eqn:E1.
    { cbn [orb negb]. destruct v; try discriminate. eapply IH; exact H. }
    destruct (String.eqb k "more") eqn:E2.
    { cbn [orb negb]. destruct v; try discriminate. eapply IH; exact H. }
    destruct (String.eqb k "upgrade") eqn:E3.
    { cbn [orb negb]. destruct v; try discriminate. eapply IH; exact H. }
    cbn [orb negb]. destruct (filter_call ms cs) as [[ys0 cs0] |] eqn:E; [| discriminate].
    inversion H. subst. apply f_equal. eapply IH; exact E.
Qed.

Theorem flags_hidden : forall M ms r,
  dec_call M (JObj ms) = Some r ->
  exists meth ow mo up,
    r = mk_call meth ow mo up /\ decoder M Direct (JObj (filter nonflag ms)) = Some meth /\
    Forall (fun kv => is_flag (fst kv) = false) (filter nonflag ms).
Proof.
  intros M ms r H. unfold dec_call in H.
  destruct (map_capable M); [| discriminate].
  destruct (filter_call ms no_cells) as [[ys cs] |] eqn:E; [| discriminate].
  pose proof (filter_call_yield _ _ _ _ E) as Hy. subst ys.
  destruct (decoder M Direct (JObj (filter nonflag ms))) as [meth |] eqn:Ed; [| discriminate].
  inversion H. subst. do 4 eexists. split; [reflexivity |]. split; [reflexivity |].
  apply Forall_forall. intros kv Hin. apply filter_In in Hin as [_ Hn]. unfold nonflag in Hn.
  now apply negb_true_iff in Hn.
Qed.

(* a flag cell after the pass, for an object without duplicate member names *)
Definition upd (k : string) (old : option bool) (ms : members) : option (option bool) :=
  match lookup k ms with
  | None => Some old
  | Some (JBool b) => Some (Some b)
  | Some _ => None
  end.

Lemma upd_absent : forall k old ms, ~ In k (keys ms) -> upd k old ms = Some old.
Proof. intros k old ms H. unfold upd. apply lookup_none_iff in H. now rewrite H. Qed.

Lemma filter_call_spec : forall ms cs,
  NoDup (keys ms) ->
  filter_call ms cs =
  match upd "oneway" (c_oneway cs) ms, upd "more" (c_more cs) ms, upd "upgrade" (c_upgrade cs) ms with
  | Some a, Some b, Some c => Some (filter nonflag ms, mk_cells a b c)
  | _, _, _ => None
  end.
Proof.
  induction ms as [| [k v] ms IH]; intros cs Hnd.
  - destruct cs. reflexivity.
  - inversion Hnd as [| ? ? Hnot Hnd']. subst.
    cbn [filter_call fst filter]. unfold nonflag at 1, is_flag. cbn [fst].
    unfold upd at 1 2 3. cbn [lookup].
    destruct (String.eqb k "oneway") eqn:E1.
    { apply String.eqb_eq in E1. subst k. cbn [String.eqb Ascii.eqb Bool.eqb andb orb negb].
      destruct v; try reflexivity.
      rewrite (IH _ Hnd'). cbn [c_oneway c_more c_upgrade].
      rewrite (upd_absent "oneway" _ ms Hnot). unfold upd. reflexivity. }
    destruct (String.eqb k "more") eqn:E2.
    { apply String.eqb_eq in E2. subst k. cbn [String.eqb Ascii.eqb Bool.eqb andb orb negb].
      destruct v; try (destruct (lookup "oneway" ms) as [[]|]; reflexivity).
      rewrite (IH _ Hnd'). cbn [c_oneway c_more c_upgrade].
      rewrite (upd_absent "more" _ ms Hnot). unfold upd.
      destruct (lookup "oneway" ms) as [[]|]; reflexivity. }
    destruct (String.eqb k "upgrade") eqn:E3.
    { apply String.eqb_eq in E3. subst k. cbn [String.eqb Ascii.eqb Bool.eqb andb orb negb].
      destruct v; try (destruct (lookup "oneway" ms) as [[]|]; try reflexivity;
                       destruct (lookup "more" ms) as [[]|]; reflexivity).
      rewrite (IH _ Hnd'). cbn [c_oneway c_more c_upgrade].
      rewrite (upd_absent "upgrade" _ ms Hnot). unfold upd.
      destruct (lookup "oneway" ms) as [[]|]; try reflexivity;
        destruct (lookup "more" ms) as [[]|]; reflexivity. }
    cbn [orb negb]. rewrite (IH _ Hnd'). unfold upd.
    destruct (lookup "oneway" ms) as [[]|]; try reflexivity;
      destruct (lookup "more" ms) as [[]|]; try reflexivity;
      destruct (lookup "upgrade" ms) as [[]|]; reflexivity.
Qed.

(* For an envelope without duplicate member names the model of call/de.rs is the order-free
   specification: flags are found wherever they are, an absent flag is false, the method type
   sees exactly the other members. *)
Theorem dec_call_spec : forall M ms,
  NoDup (keys ms) -> dec_call M (JObj ms) = spec_call M ms.
Proof.
  intros M ms Hnd. unfold dec_call, spec_call.
  rewrite (filter_call_spec ms no_cells Hnd). cbn [no_cells c_oneway c_more c_upgrade].
  destruct (map_capable M); [| reflexivity].
  unfold upd, spec_flag.
  destruct (lookup "oneway" ms) as [[]|]; try reflexivity;
    destruct (lookup "more" ms) as [[]|]; try reflexivity;
    destruct (lookup "upgrade" ms) as [[]|]; try reflexivity;
    cbn [unwrap_or_false];
    fold (nonflag); destruct (decoder M Direct (JObj (filter _ ms))); reflexivity.
Qed.

(* ---------------------------------------------------------------- member order *)
Lemma filter_perm : forall {A} (f : A -> bool) l l',
  Permutation l l' -> Permutation (filter f l) (filter f l').
Proof.
  intros A f l l' H. induction H as [| x l l' H IH | x y l | l l' l'' H1 IH1 H2 IH2].
  - constructor.
  - cbn [filter]. destruct (f x); [now constructor | exact IH].
  - cbn [filter]. destruct (f x), (f y); try apply Permutation_refl. apply perm_swap.
  - eapply Permutation_trans; eassumption.
Qed.

Lemma keys_filter_nodup : forall f ms, NoDup (keys ms) -> NoDup (keys (filter f ms)).
Proof.
  intros f. induction ms as [| [k v] ms IH]; intros Hnd; [constructor |].
  inversion Hnd as [| ? ? Hnot Hnd']. subst. cbn [filter].
  destruct (f (k, v)); [| now apply IH].
  cbn [keys map fst]. constructor; [| now apply IH].
  intros Hin. apply Hnot. unfold keys in *. apply in_map_iff in Hin as [[k' v'] [Hk Hin]].
  apply filter_In in Hin as [Hin _]. cbn [fst] in Hk. subst. apply in_map_iff. now exists (k, v').
Qed.

Lemma existsb_perm : forall {A} (f : A -> bool) l l', Permutation l l' -> existsb f l = existsb f l'.
Proof.
  intros A f l l' H. induction H as [| x l l' H IH | x y l | l l' l'' H1 IH1 H2 IH2].
  - reflexivity.
  - cbn [existsb]. now rewrite IH.
  - cbn [existsb]. destruct (f x), (f y); reflexivity.
  - congruence.
Qed.

Theorem call_order_irrelevant : forall tag content vs ms ms',
  tag <> content -> variants_stable vs = true ->
  NoDup (keys ms) -> Permutation ms ms' ->
  dec_call (SAdj tag content vs) (JObj ms') = dec_call (SAdj tag content vs) (JObj ms).
Proof.
  intros tag content vs ms ms' Hne Hs Hnd Hp.
  assert (Hnd' : NoDup (keys ms')).
  { unfold keys. eapply Permutation_NoDup; [apply Permutation_map; exact Hp | exact Hnd]. }
  rewrite !dec_call_spec by assumption. unfold spec_call.
  cbn [map_capable].
  unfold spec_flag. rewrite <- !(lookup_perm _ _ _ Hnd Hp).
  rewrite !decoder_adj.
  rewrite (adj_map_perm Direct tag content vs (filter (fun m => negb (is_flag (fst m))) ms)
                        (filter (fun m => negb (is_flag (fst m))) ms'));
    [reflexivity | exact Hne | exact Hs | now apply keys_filter_nodup | now apply filter_perm].
Qed.

(* the same for a method type that is a derived struct *)
Theorem call_order_irrelevant_struct : forall fs ms ms',
  NoDup (map (fun f => fst (fst f)) fs) ->
  NoDup (keys ms) -> Permutation ms ms' ->
  dec_call (SStruct fs) (JObj ms') = dec_call (SStruct fs) (JObj ms).
Proof.
  intros fs ms ms' Hnf Hnd Hp.
  assert (Hnd' : NoDup (keys ms')).
  { unfold keys. eapply Permutation_NoDup; [apply Permutation_map; exact Hp | exact Hnd]. }
  rewrite !dec_call_spec by assumption. unfold spec_call.
  cbn [map_capable].
  unfold spec_flag. rewrite <- !(lookup_perm _ _ _ Hnd Hp).
  rewrite !decoder_struct.
  rewrite (struct_map_perm Direct (ftable fs) (filter (fun m => negb (is_flag (fst m))) ms)
                           (filter (fun m => negb (is_flag (fst m))) ms'));
    [reflexivity | now rewrite fnames_ftable | now apply keys_filter_nodup | now apply filter_perm].
Qed.

(* ---------------------------------------------------------------- no parameters: three spellings *)
(* A variant without fields whose content is read leniently (what the ReplyError derive and
   varlink_service::Method now generate) is recognised whether the content member is absent, null
   or an object - in any member order, next to any other members, under any deserializer. *)
Theorem no_parameters_spellings : forall m tag content (vs : variants) ms n i (fs : fields),
  tag <> content -> NoDup (keys ms) ->
  lookup tag ms = Some (JStr n) ->
  index_of n (map (fun v => fst (fst v)) vs) = Some i ->
  nth_error vs i = Some (n, KLenient, fs) ->
  (lookup content ms = None \/ lookup content ms = Some JNull \/
   exists x, lookup content ms = Some (JObj x)) ->
  decoder (SAdj tag content vs) m (JObj ms) = Some (RVar i []).
Proof.
  intros m tag content vs ms n i fs Hne Hnd Ht Hi Hn Hc.
  rewrite decoder_adj, adj_map_lookup by assumption. unfold adj_lookup.
  assert (Hidx : index_of n (vnames (vtable vs)) = Some i) by (rewrite vnames_vtable; exact Hi).
  rewrite Ht. cbn [dec_tag]. rewrite Hidx.
  assert (Hv : variant_at (vtable vs) i = Some (KLenient, ftable fs)).
  { unfold variant_at, vtable. rewrite nth_error_map, Hn. reflexivity. }
  unfold missing_content_at, dec_variant_at. rewrite Hv.
  destruct Hc as [Hc | [Hc | [x Hc]]]; rewrite Hc; reflexivity.
Qed.

(* ---------------------------------------------------------------- shape of the error encoding *)
Lemma etable_fix : forall fs,
  (fix mk (fs : list (string * shape * fattr)) : list (string * enc * fattr) :=
     match fs with
     | [] => []
     | (n, s', a) :: r => (n, encoder s', a) :: mk r
     end) fs = etable fs.
Proof.
  induction fs as [| [[n s] a] fs IH]; [reflexivity |].
  unfold etable in *. cbn [map fst snd]. now rewrite IH.
Qed.

Lemma evtable_fix : forall vs,
  (fix mkv (vs : list (string * vkind * list (string * shape * fattr))) : list evariant :=
     match vs with
     | [] => []
     | (n, k, fs) :: r =>
         (n, k, (fix mk (fs : list (string * shape * fattr)) : list (string * enc * fattr) :=
                   match fs with
                   | [] => []
                   | (fnm, s', a) :: r' => (fnm, encoder s', a) :: mk r'
                   end) fs) :: mkv r
     end) vs = evtable vs.
Proof.
  induction vs as [| [[n k] fs] vs IH]; [reflexivity |].
  unfold evtable in *. cbn [map fst snd]. now rewrite etable_fix, IH.
Qed.

Lemma encoder_struct : forall fs r,
  encoder (SStruct fs) r =
  match r with RStruct rs => option_map JObj (enc_fields (etable fs) rs) | _ => None end.
Proof. intros. cbn [encoder]. rewrite etable_fix. reflexivity. Qed.

Lemma encoder_adj : forall t c vs r,
  encoder (SAdj t c vs) r =
  match r with RVar i rs => enc_adj t c (evtable vs) i rs | _ => None end.
Proof. intros. cbn [encoder]. rewrite evtable_fix. reflexivity. Qed.

Definition all_plain (fs : fields) : bool :=
  forallb (fun f => match snd f with FPlain => true | _ => false end) fs.

Lemma enc_fields_keys : forall fs rs ms,
  all_plain fs = true -> enc_fields (etable fs) rs = Some ms ->
  keys ms = map (fun f => fst (fst f)) fs.
Proof.
  induction fs as [| [[n s] a] fs IH]; intros rs ms Hp H.
  - destruct rs; [| discriminate]. inversion H. reflexivity.
  - unfold etable in H. cbn [map fst snd enc_fields] in H. destruct rs as [| r rs]; [discriminate |].
    unfold all_plain in Hp. cbn [forallb snd] in Hp. destruct a; try discriminate.
    destruct (encoder s r) as [v |]; [| discriminate].
    destruct (enc_fields _ rs) as [ms' |] eqn:E; [| discriminate].
    inversion H. subst. cbn [keys map fst]. f_equal. eapply IH; [exact Hp | exact E].
Qed.

(* An error enum using the ReplyError derive encodes as {"error": "<interface>.<Variant>"} plus,
   exactly when the variant has fields, a `parameters` object holding them under their wire names
   in declaration order. *)
Theorem error_shape : forall iface (vs : variants) i vn k (fs : fields) rs,
  nth_error vs i = Some (vn, k, fs) ->
  enc_error (err_shape iface vs) (RVar i rs) =
  match k with
  | KStruct => match enc_fields (etable fs) rs with
               | Some ms => Some (JObj [("error", JStr (iface ++ "." ++ vn)%string); ("parameters", JObj ms)])
               | None => None
               end
  | _ => match rs with
         | [] => Some (JObj [("error", JStr (iface ++ "." ++ vn)%string)])
         | _ => None
         end
  end.
Proof.
  intros iface vs i vn k fs rs Hn. unfold enc_error, err_shape. rewrite encoder_adj.
  unfold enc_adj, evtable, qualify. rewrite !nth_error_map, Hn. cbn [option_map fst snd].
  destruct k; reflexivity.
Qed.

(* ---------------------------------------------------------------- the builders *)
(* each setter changes its own flag only, and never the method *)
Lemma call_set_own_field : forall c f b,
  cv_meth (call_set c (f, b)) = cv_meth c /\
  (cv_oneway (call_set c (f, b)) = if flag_eqb Oneway f then b else cv_oneway c) /\
  (cv_more (call_set c (f, b)) = if flag_eqb More f then b else cv_more c) /\
  (cv_upgrade (call_set c (f, b)) = if flag_eqb Upgrade f then b else cv_upgrade c).
Proof. intros c [] b; repeat split. Qed.

(* setters of different flags commute; the same setter twice: the later one wins *)
Lemma call_set_commute : forall c f g a b,
  f <> g -> call_set (call_set c (f, a)) (g, b) = call_set (call_set c (g, b)) (f, a).
Proof. intros c [] [] a b H; try reflexivity; congruence. Qed.

Lemma call_set_twice : forall c f a b, call_set (call_set c (f, a)) (f, b) = call_set c (f, b).
Proof. intros c [] a b; reflexivity. Qed.

Lemma fold_call_set : forall ops c,
  fold_left call_set ops c =
  mk_callv (cv_meth c) (last_set Oneway ops (cv_oneway c)) (last_set More ops (cv_more c))
           (last_set Upgrade ops (cv_upgrade c)).
Proof.
  induction ops as [| [f b] ops IH]; intros c.
  - destruct c. reflexivity.
  - cbn [fold_left last_set]. rewrite IH. destruct f; reflexivity.
Qed.

(* Whatever the order in which the setters are applied, the call that results has the method it was
   made of and, for each flag, what the last setter of THAT flag said (false if none). *)
Theorem build_call_logical : forall meth ops,
  build_call meth ops =
  mk_callv meth (last_set Oneway ops false) (last_set More ops false) (last_set Upgrade ops false).
Proof. intros. unfold build_call. rewrite fold_call_set. reflexivity. Qed.

Lemma last_set_perm_distinct : forall f ops ops',
  NoDup (map fst ops) -> Permutation ops ops' -> forall d, last_set f ops d = last_set f ops' d.
Proof.
  intros f ops ops' Hnd Hp. induction Hp as [| [g b] l l' Hp IH | [g b] [h c] l | l l' l'' H1 IH1 H2 IH2]; intros d.
  - reflexivity.
  - cbn [last_set]. inversion Hnd. subst. now apply IH.
  - cbn [last_set]. inversion Hnd as [| ? ? Hnot _]. subst. cbn [map fst In] in Hnot.
    destruct (flag_eqb f h) eqn:E1, (flag_eqb f g) eqn:E2; try reflexivity.
    exfalso. apply Hnot. left. destruct f, g, h; try discriminate; reflexivity.
  - rewrite IH1 by exact Hnd. apply IH2.
    eapply Permutation_NoDup; [apply Permutation_map; exact H1 | exact Hnd].
Qed.

(* in particular every order of setters of different flags builds the same call *)
Theorem build_call_order_irrelevant : forall meth ops ops',
  NoDup (map fst ops) -> Permutation ops ops' -> build_call meth ops' = build_call meth ops.
Proof.
  intros meth ops ops' Hnd Hp. rewrite !build_call_logical.
  now rewrite !(last_set_perm_distinct _ ops ops' Hnd Hp).
Qed.

Theorem build_reply_logical : forall params ops,
  build_reply params ops = mk_replyv params (last ops None).
Proof.
  intros params ops. unfold build_reply.
  assert (H : forall r, fold_left reply_set_continues ops r = mk_replyv (rv_params r) (last ops (rv_continues r))).
  { assert (Hl : forall (l : list (option bool)) x d d', last (x :: l) d = last (x :: l) d').
    { induction l as [| y l IHl]; intros x d d'; [reflexivity |].
      change (last (x :: y :: l) d) with (last (y :: l) d).
      change (last (x :: y :: l) d') with (last (y :: l) d'). apply IHl. }
    induction ops as [| c ops IH]; intros r; [destruct r; reflexivity |].
    cbn [fold_left]. rewrite IH. cbn [rv_params rv_continues reply_set_continues].
    destruct ops as [| o ops]; [reflexivity |].
    change (last (c :: o :: ops) (rv_continues r)) with (last (o :: ops) (rv_continues r)).
    now rewrite (Hl ops o c (rv_continues r)). }
  now rewrite H.
Qed.

(* the wire image of a built call: the encoding of its logical value (flags only when set) *)
Theorem built_call_encoding : forall M meth ops ms0,
  encoder M meth = Some (JObj ms0) ->
  enc_call M (call_rval (build_call meth ops)) =
  Some (JObj (ms0 ++ flag_members (last_set Oneway ops false) (last_set More ops false)
                                  (last_set Upgrade ops false))).
Proof.
  intros M meth ops ms0 H. rewrite build_call_logical. unfold call_rval, enc_call, mk_call.
  cbn [cv_meth cv_oneway cv_more cv_upgrade]. now rewrite H.
Qed.
