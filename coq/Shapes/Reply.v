(* Model of reply classification: zlink-core/src/connection/read_connection.rs receive_reply,
   zlink-core/src/reply.rs, the ReplyError derive (zlink-macros/src/reply_error.rs),
   zlink-core/src/varlink_service/api.rs and the reply handling of generated proxy methods
   (zlink-macros/src/proxy/method_impl.rs). *)
From ZV Require Export Shapes.Shapes.

(* ---------------------------------------------------------------- what the macros generate *)

(* How the ReplyError derive decodes a variant without fields (reply_error.rs,
   generate_deserialize_with_derive).
   Tree as pinned: the helper enum kept it a plain serde unit variant -> content absent or null only
   (KUnit).
   Since d12b38a `fix: ReplyError derive accepts an empty parameters object for errors without
   parameters` the helper enum's unit variants carry
   #[serde(deserialize_with = "__zlink_no_parameters")]: the content is read with deserialize_any
   by a visitor accepting unit/none and any map (entries drained); a missing content is still
   accepted (enum_adjacently.rs missing_content: Style::Unit). *)
Definition derive_unit : vkind := KLenient.

(* #[derive(ReplyError)] #[zlink(interface = iface)] enum with the given variants: adjacently
   tagged, tag "error", content "parameters", variant names qualified with the interface. *)
Definition qualify (iface : string) (vs : variants) : variants :=
  map (fun v => (iface ++ "." ++ fst (fst v), snd (fst v), snd v)) vs.

Definition err_shape (iface : string) (vs : variants) : shape :=
  SAdj "error" "parameters" (qualify iface vs).

(* varlink_service::Error, api.rs:43-72 *)
Definition vs_error_variants : variants :=
  [ ("InterfaceNotFound", KStruct, [("interface", SStr false, FPlain)]);
    ("MethodNotFound", KStruct, [("method", SStr false, FPlain)]);
    ("MethodNotImplemented", KStruct, [("method", SStr false, FPlain)]);
    ("InvalidParameter", KStruct, [("parameter", SStr false, FPlain)]);
    ("PermissionDenied", derive_unit, []);
    ("ExpectedMore", derive_unit, []) ].

Definition vs_error_shape : shape := err_shape "org.varlink.service" vs_error_variants.

(* reply.rs:6-12  struct Reply<Params> { parameters: Option<Params>, continues: Option<bool> },
   both skip_serializing_if = "Option::is_none".
   Tree as pinned: exactly these two fields (reply_shape_unguarded).
   Since b42f3c8 `fix: a message with an error member never deserializes as a successful reply`
   the struct has a third, never serialized member named "error"
   (#[serde(default, skip_serializing, rename = "error")] _no_error: NoError) whose type refuses
   every value (reply.rs: impl Deserialize for NoError). *)
Definition reply_shape_unguarded (P : shape) : shape :=
  SStruct [("parameters", SOption P, FSkipNone); ("continues", SOption SBool, FSkipNone)].

Definition reply_shape_guarded (P : shape) : shape :=
  SStruct [("parameters", SOption P, FSkipNone); ("continues", SOption SBool, FSkipNone);
           ("error", SNever, FGuard)].

Definition reply_shape : shape -> shape := reply_shape_guarded.

(* ---------------------------------------------------------------- receive_reply *)
Inductive outcome :=
| VarlinkError (e : rval)     (* Err(Error::VarlinkService(e)) *)
| MethodError (e : rval)      (* Ok(Err(e))                    *)
| Success (r : rval)          (* Ok(Ok(reply))                 *)
| DecodeError.                (* Err(Error::Json(_))           *)

(* read_connection.rs:81-100
     #[serde(untagged)] enum ReplyMsg { Varlink(varlink_service::Error), Error(ReplyError),
                                        Reply(Reply<ReplyParams>) }
   decoded with serde_json::from_slice on the frame. *)
Definition reply_msg_shape (E P : shape) : shape :=
  SUntagged [vs_error_shape; E; reply_shape P].

(* what a Reply value exposes: parameters() and continues() *)
Definition reply_view (r : rval) : rval :=
  match r with
  | RStruct (p :: c :: _) => RStruct [p; c]
  | _ => r
  end.

Definition classify (E P : shape) (v : jval) : outcome :=
  match decoder (reply_msg_shape E P) Direct v with
  | Some (RAlt 0 e) => VarlinkError e
  | Some (RAlt 1 e) => MethodError e
  | Some (RAlt 2 r) => Success (reply_view r)
  | _ => DecodeError
  end.

(* ---------------------------------------------------------------- proxy methods *)
(* method_impl.rs:88-100 (out_params_extract) and 388-409 (generate_regular_method):
     match self.call_method::<_, ReplyType, ErrorType>(&call).await? {
         Ok(reply) => <unit output: Ok(Ok(()))  |  otherwise: reply.into_parameters() or MissingParameters>,
         Err(error) => Ok(Err(error)) }
   Tree as pinned: a method without output decoded the parameters as `()` (SUnit).
   Since 4f5ea1b `fix: proxy methods without output parameters accept an empty parameters object`
   it decodes them as `#[derive(Deserialize)] struct NoOutputParameters {}`. *)
Definition no_output_shape : shape := SStruct [].

Inductive pout :=
| POk (r : rval)
| PErr (e : rval)
| PVarlink (e : rval)
| PMissing                    (* Err(Error::MissingParameters) *)
| PDecode.

Definition proxy_out (unit_out : bool) (E P : shape) (v : jval) : pout :=
  match classify E (if unit_out then no_output_shape else P) v with
  | VarlinkError e => PVarlink e
  | MethodError e => PErr e
  | DecodeError => PDecode
  | Success (RStruct (params :: _)) =>
      if unit_out then POk RUnit
      else match params with RSome p => POk p | _ => PMissing end
  | Success _ => PDecode
  end.

(* ---------------------------------------------------------------- frames that are not objects *)
(* `classify` is the untagged decode of whatever JSON value the frame is.  serde's derived
   visitors also accept SEQUENCE forms (Shapes.v: struct_seq, adj_seq), so as of 4eaac7f a frame
   such as ["org.example.E.Busy", null] - an array, no `error` member - is reported as the method's
   error, ["org.varlink.service.PermissionDenied", null] as the service error and
   [{"id":1,"name":"n"}, true] as a success.  A reply frame is a JSON object; the repair
   (work/c04-array-fix.diff: receive_reply reads the message through a deserializer whose
   deserialize_any is deserialize_map) makes every other frame a decode error.
   `object_only` says which of the two the tree under test does; the check reads it off
   read_connection.rs on every run (lib/envgen.py receive_reply_object_only). *)
Definition is_object (v : jval) : bool := match v with JObj _ => true | _ => false end.

Definition receive_reply_model (object_only : bool) (E P : shape) (v : jval) : outcome :=
  if is_object v then classify E P v
  else if object_only then DecodeError else classify E P v.

Definition proxy_model (object_only unit_out : bool) (E P : shape) (v : jval) : pout :=
  if is_object v then proxy_out unit_out E P v
  else if object_only then PDecode else proxy_out unit_out E P v.

(* ---------------------------------------------------------------- the property, order-free *)
(* What the property says about an object WITHOUT duplicate member names, written with lookups
   only (no reference to the order of members).  `recognised`: the error type has a variant of
   that name and the parameters are acceptable for it; a variant without fields accepts absent,
   null and any object. *)
Definition spec_variant (m : mode) (k : vkind) (ft : list fentry) (c : option jval)
  : option (list rval) :=
  match k, c with
  | KStruct, Some (JObj ms) => struct_map m ft ms
  | KStruct, _ => None
  | _, None => Some []
  | _, Some JNull => Some []
  | _, Some (JObj _) => Some []
  | _, Some _ => None
  end.

Definition spec_adj (m : mode) (tag content : string) (vt : list ventry) (ms : members)
  : option rval :=
  match lookup tag ms with
  | None => None
  | Some t =>
      match dec_tag m (vnames vt) t with
      | None => None
      | Some i => match variant_at vt i with
                  | Some (k, ft) => option_map (RVar i) (spec_variant m k ft (lookup content ms))
                  | None => None
                  end
      end
  end.

Definition spec_error (E : shape) (ms : members) : option rval :=
  match E with
  | SAdj tag content vs => spec_adj Ref tag content (vtable vs) ms
  | _ => None
  end.

Definition spec_opt_member (s : shape) (k : string) (ms : members) : option rval :=
  match lookup k ms with
  | None => Some RNone
  | Some v => decoder (SOption s) Ref v
  end.

Definition spec_classify (E P : shape) (ms : members) : outcome :=
  match spec_error vs_error_shape ms with
  | Some e => VarlinkError e
  | None =>
      match spec_error E ms with
      | Some e => MethodError e
      | None =>
          if has_memberb "error" ms then DecodeError
          else match spec_opt_member P "parameters" ms, spec_opt_member SBool "continues" ms with
               | Some p, Some c => Success (RStruct [p; c])
               | _, _ => DecodeError
               end
      end
  end.
