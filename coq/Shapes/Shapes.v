(* A small shape language for serde `Deserialize` targets and `decoder : shape -> mode -> jval ->
   option rval`, following what serde_derive 1.0.228 generates and what serde's private `Content`
   deserializers do (files cited are under ~/.cargo/registry/src/*/):

     serde_derive-1.0.228/src/de/struct_.rs        derived structs: visit_map / visit_seq
     serde_derive-1.0.228/src/de/enum_adjacently.rs  #[serde(tag = .., content = ..)] enums
     serde_derive-1.0.228/src/de/enum_untagged.rs  #[serde(untagged)] enums, variant bodies
     serde-1.0.228/src/private/de.rs               Content, ContentDeserializer (owning),
                                                   ContentRefDeserializer, missing_field

   All errors are collapsed to `None` (every caller only distinguishes Ok from Err).  The model is
   tied to the real crates only by the correspondence run (checks/c04.py, checks/c05.py). *)
From ZV Require Export Shapes.Json.

(* Which deserializer a value is read from.
   Direct: serde_json's own Deserializer (from_str / from_slice / a map value read in place).
   Ref:    ContentRefDeserializer  (inside an untagged enum: the value was buffered, and is
           borrowed for each attempt; private/de.rs:1992-2440).
   Owned:  ContentDeserializer     (the content of an adjacently tagged enum that arrived BEFORE
           the tag; private/de.rs:1041-1500).
   They differ in two places only: `()` also decodes from `{}` in Owned (de.rs:1301-1320), and a
   buffered non-negative integer is accepted as a variant index by deserialize_identifier in
   Ref/Owned (de.rs:1462-1475, 2411-2424), which matters for the sequence form of tagged enums. *)
Inductive mode := Direct | Ref | Owned.

(* Field attributes we need.
   FPlain     no attribute
   FSkipNone  #[serde(skip_serializing_if = "Option::is_none")]   (decoding as FPlain)
   FGuard     #[serde(default, skip_serializing)]: never written, a missing member gives the
              default value *)
Inductive fattr := FPlain | FSkipNone | FGuard.

(* Variants of a tagged enum.
   KUnit     unit variant as serde derives it: content must be absent or null
             (UntaggedUnitVisitor, private/de.rs:3002-3045; enum_untagged.rs Style::Unit)
   KLenient  unit variant whose content is read by a function accepting null or any object
             (zlink's "no parameters": absent / null / {} )
   KStruct   struct variant: content must be an object (no sequence form: enum_untagged.rs ->
             struct_.rs StructForm::Untagged has no visit_seq and uses deserialize_any) *)
Inductive vkind := KUnit | KLenient | KStruct.

Inductive shape : Type :=
| SUnit                                   (* ()                          *)
| SBool
| SInt (lo hi : Z)                        (* integer type with its range *)
| SStr (borrowed : bool)                  (* String / &'de str           *)
| SOption (s : shape)
| SSeq (s : shape)                        (* Vec<T>                      *)
| SStruct (fs : list (string * shape * fattr))   (* #[derive(Deserialize)] struct, unknown members ignored *)
| SAny                                    (* serde_json::Value           *)
| SNever                                  (* a type whose Deserialize always fails *)
| SAdj (tag content : string) (vs : list (string * vkind * list (string * shape * fattr)))
| SUntagged (alts : list shape).

Definition fields : Type := list (string * shape * fattr).
Definition variants : Type := list (string * vkind * fields).

(* Decoded values. *)
Inductive rval : Type :=
| RUnit
| RBool (b : bool)
| RInt (z : Z)
| RStr (s : string)
| RNone
| RSome (r : rval)
| RSeq (l : list rval)
| RStruct (l : list rval)                 (* field values in declaration order *)
| RVar (i : nat) (l : list rval)          (* variant index, its field values   *)
| RAny (v : jval)                         (* serde_json::Value *)
| RAlt (i : nat) (r : rval)               (* untagged enum: which alternative  *)
| RDefault.                               (* Default::default() of an FGuard field *)

Definition dec : Type := mode -> jval -> option rval.

Fixpoint map_opt {A B} (f : A -> option B) (l : list A) : option (list B) :=
  match l with
  | [] => Some []
  | x :: l' => match f x with
               | None => None
               | Some y => match map_opt f l' with None => None | Some ys => Some (y :: ys) end
               end
  end.

Fixpoint index_of (k : string) (l : list string) : option nat :=
  match l with
  | [] => None
  | x :: l' => if String.eqb x k then Some 0 else option_map S (index_of k l')
  end.

(* ---------------------------------------------------------------- leaves *)
(* <() as Deserialize>::deserialize -> deserialize_unit.  serde_json: `null` only.
   ContentRefDeserializer: Content::Unit only (de.rs:2266-2274).  ContentDeserializer: Content::Unit
   or an empty map (de.rs:1301-1320). *)
Definition dec_unit (m : mode) (v : jval) : option rval :=
  match v with
  | JNull => Some RUnit
  | JObj [] => match m with Owned => Some RUnit | _ => None end
  | _ => None
  end.

Definition dec_bool (v : jval) : option rval :=
  match v with JBool b => Some (RBool b) | _ => None end.

(* integer targets: visit_u64 / visit_i64 with a range check; float tokens are rejected *)
Definition dec_int (lo hi : Z) (v : jval) : option rval :=
  match v with
  | JNum z => if (Z.leb lo z && Z.leb z hi)%bool then Some (RInt z) else None
  | _ => None
  end.

(* String accepts every string; &'de str only one that serde_json (or Content::Str) can lend *)
Definition dec_str (borrowed : bool) (v : jval) : option rval :=
  match v with
  | JStr s => if (borrowed && needs_escape s)%bool then None else Some (RStr s)
  | _ => None
  end.

Definition is_option (s : shape) : bool := match s with SOption _ => true | _ => false end.

(* ---------------------------------------------------------------- derived structs *)
Record fentry := mk_fentry {
  fe_name : string;
  fe_dec : dec;
  fe_attr : fattr;
  fe_opt : bool          (* the field type is Option<_> *)
}.

(* One member of the object (struct_.rs deserialize_map, the `while let Some(key)` loop):
   the key is matched against the field names in declaration order (first match); a known field
   seen twice is `duplicate_field`; its value is decoded at once; unknown members are skipped
   (IgnoredAny). *)
Fixpoint st_step (m : mode) (tbl : list fentry) (slots : list (option rval)) (k : string) (v : jval)
  : option (list (option rval)) :=
  match tbl, slots with
  | e :: tbl', s :: slots' =>
      if String.eqb (fe_name e) k then
        match s with
        | Some _ => None
        | None => match fe_dec e m v with
                  | Some r => Some (Some r :: slots')
                  | None => None
                  end
        end
      else option_map (cons s) (st_step m tbl' slots' k v)
  | _, _ => Some slots
  end.

Fixpoint st_run (m : mode) (tbl : list fentry) (slots : list (option rval)) (ms : members)
  : option (list (option rval)) :=
  match ms with
  | [] => Some slots
  | (k, v) :: ms' => match st_step m tbl slots k v with
                     | None => None
                     | Some slots' => st_run m tbl slots' ms'
                     end
  end.

(* A field that no member supplied (de.rs expr_is_missing): its default when it has one; otherwise
   private::de::missing_field, which succeeds exactly for Option<_> (MissingFieldDeserializer,
   private/de.rs:24-60). *)
Definition missing_map (e : fentry) : option rval :=
  match fe_attr e with
  | FGuard => Some RDefault
  | _ => if fe_opt e then Some RNone else None
  end.

Fixpoint st_finish (tbl : list fentry) (slots : list (option rval)) : option (list rval) :=
  match tbl, slots with
  | [], _ => Some []
  | e :: tbl', s :: slots' =>
      match (match s with Some r => Some r | None => missing_map e end) with
      | None => None
      | Some r => option_map (cons r) (st_finish tbl' slots')
      end
  | _ :: _, [] => None
  end.

Definition struct_map (m : mode) (tbl : list fentry) (ms : members) : option (list rval) :=
  match st_run m tbl (map (fun _ => None) tbl) ms with
  | None => None
  | Some slots => st_finish tbl slots
  end.

(* Sequence form (de.rs deserialize_seq): fields in order; a missing element is the default when
   the field has one, else `invalid_length`; surplus elements are an error (serde_json's end_seq /
   SeqDeserializer::end). *)
Fixpoint struct_seq (m : mode) (tbl : list fentry) (l : list jval) : option (list rval) :=
  match tbl with
  | [] => match l with [] => Some [] | _ :: _ => None end
  | e :: tbl' =>
      match l with
      | [] => match fe_attr e with
              | FGuard => option_map (cons RDefault) (struct_seq m tbl' [])
              | _ => None
              end
      | v :: l' => match fe_dec e m v with
                   | None => None
                   | Some r => option_map (cons r) (struct_seq m tbl' l')
                   end
      end
  end.

(* ---------------------------------------------------------------- adjacently tagged enums *)
Definition ventry : Type := (string * vkind * list fentry)%type.

Definition vnames (vt : list ventry) : list string := map (fun e => fst (fst e)) vt.

(* The tag value is read through deserialize_enum (AdjacentlyTaggedEnumVariantSeed,
   private/de.rs:3449-3500): a string names the variant; an object with exactly one member
   {"Name": <unit>} is serde's externally tagged spelling of a unit variant and is accepted too
   (serde_json de.rs deserialize_enum; ContentRefDeserializer::deserialize_enum de.rs:2365-2409). *)
Definition dec_tag (m : mode) (names : list string) (t : jval) : option nat :=
  match t with
  | JStr s => index_of s names
  | JObj [(k, c)] => match dec_unit m c with Some _ => index_of k names | None => None end
  | _ => None
  end.

(* The content of a variant (enum_untagged.rs deserialize_variant). *)
Definition dec_variant (m : mode) (k : vkind) (ft : list fentry) (c : jval) : option (list rval) :=
  match k with
  | KUnit => match c with JNull => Some [] | _ => None end
  | KLenient => match c with JNull => Some [] | JObj _ => Some [] | _ => None end
  | KStruct => match c with JObj ms => struct_map m ft ms | _ => None end
  end.

(* tag present, content absent (enum_adjacently.rs `missing_content`) *)
Definition missing_content (k : vkind) : option (list rval) :=
  match k with KStruct => None | _ => Some [] end.

Definition variant_at (vt : list ventry) (i : nat) : option (vkind * list fentry) :=
  match nth_error vt i with Some (_, k, ft) => Some (k, ft) | None => None end.

Definition dec_variant_at (m : mode) (vt : list ventry) (i : nat) (c : jval) : option rval :=
  match variant_at vt i with
  | Some (k, ft) => option_map (RVar i) (dec_variant m k ft c)
  | None => None
  end.

Definition missing_content_at (vt : list ventry) (i : nat) : option rval :=
  match variant_at vt i with
  | Some (k, _) => option_map (RVar i) (missing_content k)
  | None => None
  end.

(* `next_relevant_key`: skip members that are neither tag nor content (their values are consumed
   as IgnoredAny); returns whether the key found is the tag, its value and the rest. *)
Fixpoint next_rel (tag content : string) (ms : members) : option (bool * jval * members) :=
  match ms with
  | [] => None
  | (k, v) :: ms' =>
      if String.eqb k tag then Some (true, v, ms')
      else if String.eqb k content then Some (false, v, ms')
      else next_rel tag content ms'
  end.

(* enum_adjacently.rs visit_map, arm by arm. *)
Definition adj_map (m : mode) (tag content : string) (vt : list ventry) (ms : members) : option rval :=
  match next_rel tag content ms with
  | None => None                                          (* missing_field(tag) *)
  | Some (true, t, rest) =>                               (* first key is the tag *)
      match dec_tag m (vnames vt) t with
      | None => None
      | Some i =>
          match next_rel tag content rest with
          | Some (true, _, _) => None                     (* duplicate_field(tag) *)
          | Some (false, c, rest') =>                     (* second key is the content: read in place *)
              match dec_variant_at m vt i c with
              | None => None
              | Some r => match next_rel tag content rest' with
                          | None => Some r
                          | Some _ => None                (* duplicate_field *)
                          end
              end
          | None => missing_content_at vt i               (* no content *)
          end
      end
  | Some (false, c, rest) =>                              (* first key is the content: buffered *)
      match next_rel tag content rest with
      | Some (true, t, rest') =>
          match dec_tag m (vnames vt) t with
          | None => None
          | Some i =>
              match dec_variant_at Owned vt i c with      (* ContentDeserializer::new(__content) *)
              | None => None
              | Some r => match next_rel tag content rest' with
                          | None => Some r
                          | Some _ => None
                          end
              end
          end
      | Some (false, _, _) => None                        (* duplicate_field(content) *)
      | None => None                                      (* missing_field(tag) *)
      end
  end.

(* visit_seq: [tag, content], exactly two elements.  The tag is read with
   `__Field::deserialize` = deserialize_identifier: a string; under a Content deserializer also a
   non-negative integer, taken as the variant index. *)
Definition dec_tag_seq (m : mode) (names : list string) (t : jval) : option nat :=
  match t with
  | JStr s => index_of s names
  | JNum z => match m with
              | Direct => None
              | _ => if (Z.leb 0 z && Z.ltb z (Z.of_nat (List.length names)))%bool
                     then Some (Z.to_nat z) else None
              end
  | _ => None
  end.

Definition adj_seq (m : mode) (vt : list ventry) (l : list jval) : option rval :=
  match l with
  | [t; c] => match dec_tag_seq m (vnames vt) t with
              | Some i => dec_variant_at m vt i c
              | None => None
              end
  | _ => None
  end.

(* ---------------------------------------------------------------- untagged enums *)
(* enum_untagged.rs: buffer the value as Content, try every alternative on a
   ContentRefDeserializer, first Ok wins. *)
Fixpoint first_ok (ds : list dec) (i : nat) (v : jval) : option rval :=
  match ds with
  | [] => None
  | d :: ds' => match d Ref v with
                | Some r => Some (RAlt i r)
                | None => first_ok ds' (S i) v
                end
  end.

(* ---------------------------------------------------------------- the decoder of a shape *)
Fixpoint decoder (s : shape) : dec :=
  match s with
  | SUnit => fun m v => dec_unit m v
  | SBool => fun _ v => dec_bool v
  | SInt lo hi => fun _ v => dec_int lo hi v
  | SStr b => fun _ v => dec_str b v
  | SOption s' =>
      (* null / Content::Unit -> None, anything else -> Some(inner) *)
      let d := decoder s' in
      fun m v => match v with JNull => Some RNone | _ => option_map RSome (d m v) end
  | SSeq s' =>
      let d := decoder s' in
      fun m v => match v with JArr l => option_map RSeq (map_opt (d m) l) | _ => None end
  | SStruct fs =>
      let tbl := (fix mk (fs : list (string * shape * fattr)) : list fentry :=
                    match fs with
                    | [] => []
                    | (n, s', a) :: r => mk_fentry n (decoder s') a (is_option s') :: mk r
                    end) fs in
      (* deserialize_struct: an object or an array *)
      fun m v => match v with
                 | JObj ms => option_map RStruct (struct_map m tbl ms)
                 | JArr l => option_map RStruct (struct_seq m tbl l)
                 | _ => None
                 end
  | SAny => fun _ v => Some (RAny (canon v))   (* a BTreeMap-backed Value: sorted, last duplicate wins *)
  | SNever => fun _ _ => None
  | SAdj tag content vs =>
      let vt := (fix mkv (vs : list (string * vkind * list (string * shape * fattr))) : list ventry :=
                   match vs with
                   | [] => []
                   | (n, k, fs) :: r =>
                       (n, k, (fix mk (fs : list (string * shape * fattr)) : list fentry :=
                                 match fs with
                                 | [] => []
                                 | (fnm, s', a) :: r' =>
                                     mk_fentry fnm (decoder s') a (is_option s') :: mk r'
                                 end) fs) :: mkv r
                   end) vs in
      fun m v => match v with
                 | JObj ms => adj_map m tag content vt ms
                 | JArr l => adj_seq m vt l
                 | _ => None
                 end
  | SUntagged alts =>
      let ds := (fix mka (alts : list shape) : list dec :=
                   match alts with [] => [] | a :: r => decoder a :: mka r end) alts in
      fun _ v => first_ok ds 0 v
  end.

(* The tables, as ordinary functions (equal to the local fixpoints above, see ShapesProofs). *)
Definition ftable (fs : fields) : list fentry :=
  map (fun f => mk_fentry (fst (fst f)) (decoder (snd (fst f))) (snd f) (is_option (snd (fst f)))) fs.

Definition vtable (vs : variants) : list ventry :=
  map (fun v => (fst (fst v), snd (fst v), ftable (snd v))) vs.

(* ---------------------------------------------------------------- the encoder of a shape *)
(* serde's derived Serialize (and the ReplyError derive's hand-written one, reply_error.rs:121-223)
   for the same types.  `None` = the value does not fit the shape / cannot be serialized. *)
Definition enc : Type := rval -> option jval.

Fixpoint enc_fields (tbl : list (string * enc * fattr)) (rs : list rval) : option members :=
  match tbl, rs with
  | [], [] => Some []
  | (n, e, a) :: tbl', r :: rs' =>
      match a with
      | FGuard => enc_fields tbl' rs'
      | _ =>
          match a, r with
          | FSkipNone, RNone => enc_fields tbl' rs'
          | _, _ => match e r with
                    | None => None
                    | Some v => option_map (cons (n, v)) (enc_fields tbl' rs')
                    end
          end
      end
  | _, _ => None
  end.

Definition evariant : Type := (string * vkind * list (string * enc * fattr))%type.

Definition enc_adj (tag content : string) (vt : list evariant) (i : nat) (rs : list rval)
  : option jval :=
  match nth_error vt i with
  | None => None
  | Some (n, k, ft) =>
      match k with
      | KStruct => match enc_fields ft rs with
                   | Some ms => Some (JObj [(tag, JStr n); (content, JObj ms)])
                   | None => None
                   end
      | _ => match rs with [] => Some (JObj [(tag, JStr n)]) | _ => None end
      end
  end.

Fixpoint encoder (s : shape) : enc :=
  match s with
  | SUnit => fun r => match r with RUnit => Some JNull | _ => None end
  | SBool => fun r => match r with RBool b => Some (JBool b) | _ => None end
  | SInt _ _ => fun r => match r with RInt z => Some (JNum z) | _ => None end
  | SStr _ => fun r => match r with RStr x => Some (JStr x) | _ => None end
  | SOption s' =>
      let e := encoder s' in
      fun r => match r with RNone => Some JNull | RSome x => e x | _ => None end
  | SSeq s' =>
      let e := encoder s' in
      fun r => match r with RSeq l => option_map JArr (map_opt e l) | _ => None end
  | SStruct fs =>
      let tbl := (fix mk (fs : list (string * shape * fattr)) : list (string * enc * fattr) :=
                    match fs with
                    | [] => []
                    | (n, s', a) :: r => (n, encoder s', a) :: mk r
                    end) fs in
      fun r => match r with RStruct rs => option_map JObj (enc_fields tbl rs) | _ => None end
  | SAny => fun r => match r with RAny v => Some v | _ => None end
  | SNever => fun _ => None
  | SAdj tag content vs =>
      let vt := (fix mkv (vs : list (string * vkind * list (string * shape * fattr))) : list evariant :=
                   match vs with
                   | [] => []
                   | (n, k, fs) :: r =>
                       (n, k, (fix mk (fs : list (string * shape * fattr)) : list (string * enc * fattr) :=
                                 match fs with
                                 | [] => []
                                 | (fnm, s', a) :: r' => (fnm, encoder s', a) :: mk r'
                                 end) fs) :: mkv r
                   end) vs in
      fun r => match r with RVar i rs => enc_adj tag content vt i rs | _ => None end
  | SUntagged alts =>
      let es := (fix mka (alts : list shape) : list enc :=
                   match alts with [] => [] | a :: r => encoder a :: mka r end) alts in
      fun r => match r with
               | RAlt i x => match nth_error es i with Some e => e x | None => None end
               | _ => None
               end
  end.

Definition etable (fs : fields) : list (string * enc * fattr) :=
  map (fun f => (fst (fst f), encoder (snd (fst f)), snd f)) fs.

Definition evtable (vs : variants) : list evariant :=
  map (fun v => (fst (fst v), snd (fst v), etable (snd v))) vs.

(* ---------------------------------------------------------------- induction on shapes *)
Section shape_ind'.
  Variable P : shape -> Prop.
  Hypothesis Hunit : P SUnit.
  Hypothesis Hbool : P SBool.
  Hypothesis Hint : forall lo hi, P (SInt lo hi).
  Hypothesis Hstr : forall b, P (SStr b).
  Hypothesis Hopt : forall s, P s -> P (SOption s).
  Hypothesis Hseq : forall s, P s -> P (SSeq s).
  Hypothesis Hstruct : forall fs, Forall (fun f => P (snd (fst f))) fs -> P (SStruct fs).
  Hypothesis Hany : P SAny.
  Hypothesis Hnever : P SNever.
  Hypothesis Hadj : forall t c vs,
      Forall (fun v => Forall (fun f => P (snd (fst f))) (snd v)) vs -> P (SAdj t c vs).
  Hypothesis Hunt : forall alts, Forall P alts -> P (SUntagged alts).

  Fixpoint shape_ind' (s : shape) : P s :=
    match s with
    | SUnit => Hunit
    | SBool => Hbool
    | SInt lo hi => Hint lo hi
    | SStr b => Hstr b
    | SOption s' => Hopt s' (shape_ind' s')
    | SSeq s' => Hseq s' (shape_ind' s')
    | SStruct fs =>
        Hstruct fs ((fix go (fs : list (string * shape * fattr))
                       : Forall (fun f => P (snd (fst f))) fs :=
                       match fs with
                       | [] => Forall_nil _
                       | f :: fs' => Forall_cons f (shape_ind' (snd (fst f))) (go fs')
                       end) fs)
    | SAny => Hany
    | SNever => Hnever
    | SAdj t c vs =>
        Hadj t c vs
          ((fix gov (vs : list (string * vkind * list (string * shape * fattr)))
              : Forall (fun v => Forall (fun f => P (snd (fst f))) (snd v)) vs :=
              match vs with
              | [] => Forall_nil _
              | v :: vs' =>
                  Forall_cons v
                    ((fix go (fs : list (string * shape * fattr))
                        : Forall (fun f => P (snd (fst f))) fs :=
                        match fs with
                        | [] => Forall_nil _
                        | f :: fs' => Forall_cons f (shape_ind' (snd (fst f))) (go fs')
                        end) (snd v))
                    (gov vs')
              end) vs)
    | SUntagged alts =>
        Hunt alts ((fix go (alts : list shape) : Forall P alts :=
                      match alts with
                      | [] => Forall_nil _
                      | a :: alts' => Forall_cons a (shape_ind' a) (go alts')
                      end) alts)
    end.
End shape_ind'.
