(* Lemmas about the shape decoders: the tables behind `decoder`, independence of the deserializer
   mode for shapes without `()` / nested tagged enums, and order-free (lookup) characterisations of
   the derived struct visitor and of the adjacently tagged enum visitor for objects without
   duplicate member names. *)
From Coq Require Import Permutation.
From ZV Require Import Shapes.Shapes.

Local Open Scope list_scope.

(* ---------------------------------------------------------------- tables *)
Lemma ftable_fix : forall fs,
  (fix mk (fs : list (string * shape * fattr)) : list fentry :=
     match fs with
     | [] => []
     | (n, s', a) :: r => mk_fentry n (decoder s') a (is_option s') :: mk r
     end) fs = ftable fs.
Proof.
  induction fs as [| [[n s] a] fs IH]; [reflexivity |].
  unfold ftable. cbn [map fst snd]. f_equal. exact IH.
Qed.

Lemma vtable_fix : forall vs,
  (fix mkv (vs : list (string * vkind * list (string * shape * fattr))) : list ventry :=
     match vs with
     | [] => []
     | (n, k, fs) :: r =>
         (n, k, (fix mk (fs : list (string * shape * fattr)) : list fentry :=
                   match fs with
                   | [] => []
                   | (fnm, s', a) :: r' => mk_fentry fnm (decoder s') a (is_option s') :: mk r'
                   end) fs) :: mkv r
     end) vs = vtable vs.
Proof.
  induction vs as [| [[n k] fs] vs IH]; [reflexivity |].
  unfold vtable in *. cbn [map fst snd]. rewrite ftable_fix, IH. reflexivity.
Qed.

Lemma alts_fix : forall alts,
  (fix mka (alts : list shape) : list dec :=
     match alts with [] => [] | a :: r => decoder a :: mka r end) alts = map decoder alts.
Proof. induction alts as [| a alts IH]; [reflexivity |]. cbn [map]. now rewrite IH. Qed.

Lemma decoder_struct : forall fs m v,
  decoder (SStruct fs) m v =
  match v with
  | JObj ms => option_map RStruct (struct_map m (ftable fs) ms)
  | JArr l => option_map RStruct (struct_seq m (ftable fs) l)
  | _ => None
  end.
Proof. intros. cbn [decoder]. rewrite ftable_fix. reflexivity. Qed.

Lemma decoder_adj : forall t c vs m v,
  decoder (SAdj t c vs) m v =
  match v with
  | JObj ms => adj_map m t c (vtable vs) ms
  | JArr l => adj_seq m (vtable vs) l
  | _ => None
  end.
Proof. intros. cbn [decoder]. rewrite vtable_fix. reflexivity. Qed.

Lemma decoder_untagged : forall alts m v,
  decoder (SUntagged alts) m v = first_ok (map decoder alts) 0 v.
Proof. intros. cbn [decoder]. rewrite alts_fix. reflexivity. Qed.

Lemma decoder_option : forall s m v,
  decoder (SOption s) m v =
  match v with JNull => Some RNone | _ => option_map RSome (decoder s m v) end.
Proof. reflexivity. Qed.

Lemma decoder_seq : forall s m v,
  decoder (SSeq s) m v =
  match v with JArr l => option_map RSeq (map_opt (decoder s m) l) | _ => None end.
Proof. reflexivity. Qed.

Definition fnames (tbl : list fentry) : list string := map fe_name tbl.

Lemma fnames_ftable : forall fs, fnames (ftable fs) = map (fun f => fst (fst f)) fs.
Proof. intros. unfold fnames, ftable. rewrite map_map. reflexivity. Qed.

Lemma vnames_vtable : forall vs, vnames (vtable vs) = map (fun v => fst (fst v)) vs.
Proof. intros. unfold vnames, vtable. rewrite map_map. reflexivity. Qed.

(* ---------------------------------------------------------------- generic list facts *)
Lemma map_opt_ext : forall {A B} (f g : A -> option B) l,
  (forall x, In x l -> f x = g x) -> map_opt f l = map_opt g l.
Proof.
  induction l as [| x l IH]; intros H; [reflexivity |].
  cbn [map_opt]. rewrite (H x (or_introl eq_refl)), IH; [reflexivity |].
  intros y Hy. apply H. now right.
Qed.

Lemma lookup_none_iff : forall k ms, lookup k ms = None <-> ~ In k (keys ms).
Proof.
  induction ms as [| [k' v] ms IH]; cbn [lookup keys map fst In].
  - tauto.
  - destruct (String.eqb k' k) eqn:E.
    + apply String.eqb_eq in E. subst. split; [discriminate | intros H; exfalso; apply H; now left].
    + apply String.eqb_neq in E. unfold keys in IH. rewrite IH. tauto.
Qed.

Lemma lookup_some_in : forall k ms v, lookup k ms = Some v -> In (k, v) ms.
Proof.
  induction ms as [| [k' v'] ms IH]; cbn [lookup]; intros v H; [discriminate |].
  destruct (String.eqb k' k) eqn:E.
  - apply String.eqb_eq in E. inversion H. subst. now left.
  - right. now apply IH.
Qed.

Lemma in_lookup_nodup : forall k v ms, NoDup (keys ms) -> In (k, v) ms -> lookup k ms = Some v.
Proof.
  induction ms as [| [k' v'] ms IH]; cbn [lookup keys map fst]; intros Hnd Hin; [contradiction |].
  inversion Hnd as [| ? ? Hnot Hnd']. subst. destruct Hin as [Heq | Hin].
  - inversion Heq. subst. now rewrite String.eqb_refl.
  - destruct (String.eqb k' k) eqn:E.
    + apply String.eqb_eq in E. subst. exfalso. apply Hnot.
      change (In k (keys ms)). unfold keys. apply in_map_iff. now exists (k, v).
    + now apply IH.
Qed.

Lemma lookup_perm : forall k ms ms',
  NoDup (keys ms) -> Permutation ms ms' -> lookup k ms = lookup k ms'.
Proof.
  intros k ms ms' Hnd Hp.
  assert (Hnd' : NoDup (keys ms')).
  { unfold keys. eapply Permutation_NoDup; [apply Permutation_map; exact Hp | exact Hnd]. }
  destruct (lookup k ms) as [v |] eqn:E.
  - symmetry. apply in_lookup_nodup; [exact Hnd' |].
    eapply Permutation_in; [exact Hp | now apply lookup_some_in].
  - symmetry. apply lookup_none_iff. apply lookup_none_iff in E. intros Hin. apply E.
    unfold keys in *. eapply Permutation_in; [apply Permutation_map, Permutation_sym; exact Hp | exact Hin].
Qed.

(* ---------------------------------------------------------------- derived structs *)
(* The part of the visitor loop that concerns ONE field: members named like it. *)
Fixpoint run1 (m : mode) (e : fentry) (s : option rval) (ms : members) : option (option rval) :=
  match ms with
  | [] => Some s
  | (k, v) :: ms' =>
      if String.eqb (fe_name e) k then
        match s with
        | Some _ => None
        | None => match fe_dec e m v with
                  | Some r => run1 m e (Some r) ms'
                  | None => None
                  end
        end
      else run1 m e s ms'
  end.

Definition not_named (n : string) (ms : members) : members :=
  filter (fun kv => negb (String.eqb n (fst kv))) ms.

(* The loop over a table = the loop of its first field on the members of that name, and the loop
   of the remaining fields on the other members (first match wins). *)
Lemma not_named_cons : forall n k v ms,
  not_named n ((k, v) :: ms) =
  if String.eqb n k then not_named n ms else (k, v) :: not_named n ms.
Proof. intros. unfold not_named. cbn [filter fst]. destruct (String.eqb n k); reflexivity. Qed.

Lemma st_run_cons : forall m e tbl s slots ms,
  st_run m (e :: tbl) (s :: slots) ms =
  match run1 m e s ms, st_run m tbl slots (not_named (fe_name e) ms) with
  | Some s', Some slots' => Some (s' :: slots')
  | _, _ => None
  end.
Proof.
  intros m e tbl s slots ms. revert s slots.
  induction ms as [| [k v] ms IH]; intros s slots.
  - reflexivity.
  - rewrite not_named_cons. cbn [st_run st_step run1].
    destruct (String.eqb (fe_name e) k) eqn:E.
    + destruct s as [r0 |].
      * destruct (st_run m tbl slots (not_named (fe_name e) ms)); reflexivity.
      * destruct (fe_dec e m v) as [r |].
        -- apply IH.
        -- destruct (st_run m tbl slots (not_named (fe_name e) ms)); reflexivity.
    + cbn [st_run]. destruct (st_step m tbl slots k v) as [slots' |] eqn:Es; cbn [option_map].
      * apply IH.
      * destruct (run1 m e s ms); reflexivity.
Qed.

Lemma st_run_nil : forall m slots ms, st_run m [] slots ms = Some slots.
Proof. induction ms as [| [k v] ms IH]; [reflexivity |]. cbn [st_run st_step]. exact IH. Qed.

Lemma run1_lookup : forall m e ms,
  NoDup (keys ms) ->
  run1 m e None ms =
  match lookup (fe_name e) ms with
  | Some v => option_map Some (fe_dec e m v)
  | None => Some None
  end.
Proof.
  intros m e. induction ms as [| [k v] ms IH]; intros Hnd; [reflexivity |].
  cbn [run1 lookup]. inversion Hnd as [| ? ? Hnot Hnd']. subst.
  rewrite String.eqb_sym. destruct (String.eqb k (fe_name e)) eqn:E.
  - apply String.eqb_eq in E. subst k.
    destruct (fe_dec e m v) as [r |]; [| reflexivity]. cbn [option_map].
    (* no further member of that name *)
    clear IH Hnd. induction ms as [| [k' v'] ms IH']; [reflexivity |].
    cbn [run1]. cbn [keys map fst] in Hnot, Hnd'.
    destruct (String.eqb (fe_name e) k') eqn:E'.
    + apply String.eqb_eq in E'. subst. exfalso. apply Hnot. now left.
    + apply IH'; [intros H; apply Hnot; now right | now inversion Hnd'].
  - now apply IH.
Qed.

Lemma keys_not_named_nodup : forall n ms, NoDup (keys ms) -> NoDup (keys (not_named n ms)).
Proof.
  intros n. induction ms as [| [k v] ms IH]; intros Hnd; [constructor |].
  inversion Hnd as [| ? ? Hnot Hnd']. subst. rewrite not_named_cons.
  destruct (String.eqb n k); [now apply IH |].
  cbn [keys map fst]. constructor; [| now apply IH].
    intros Hin. apply Hnot. unfold keys, not_named in Hin. apply in_map_iff in Hin as [[k' v'] [Hk Hin]].
    apply filter_In in Hin as [Hin _]. cbn [fst] in Hk. subst. unfold keys. apply in_map_iff. now exists (k, v').
Qed.

Lemma lookup_not_named : forall n k ms, n <> k -> lookup k (not_named n ms) = lookup k ms.
Proof.
  intros n k ms Hne. induction ms as [| [k' v] ms IH]; [reflexivity |].
  rewrite not_named_cons. cbn [lookup]. destruct (String.eqb n k') eqn:E.
  - apply String.eqb_eq in E. subst k'. apply String.eqb_neq in Hne. rewrite Hne. exact IH.
  - cbn [lookup]. destruct (String.eqb k' k); [reflexivity | exact IH].
Qed.

Definition field_lookup (m : mode) (ms : members) (e : fentry) : option rval :=
  match lookup (fe_name e) ms with
  | Some v => fe_dec e m v
  | None => missing_map e
  end.

(* For an object without duplicate member names the derived visitor computes, field by field,
   "decode the member of that name, or the missing-field rule" - whatever the order of members. *)
Lemma struct_map_lookup : forall m tbl ms,
  NoDup (fnames tbl) -> NoDup (keys ms) ->
  struct_map m tbl ms = map_opt (field_lookup m ms) tbl.
Proof.
  intros m tbl. unfold struct_map.
  induction tbl as [| e tbl IH]; intros ms Hnt Hnd.
  - cbn [map]. rewrite st_run_nil. reflexivity.
  - cbn [map]. rewrite st_run_cons. rewrite run1_lookup by exact Hnd.
    inversion Hnt as [| ? ? Hnot Hnt']. subst.
    specialize (IH (not_named (fe_name e) ms) Hnt' (keys_not_named_nodup _ _ Hnd)).
    cbn [map_opt]. unfold field_lookup at 1.
    assert (Hext : map_opt (field_lookup m (not_named (fe_name e) ms)) tbl
                   = map_opt (field_lookup m ms) tbl).
    { apply map_opt_ext. intros e' Hin. unfold field_lookup.
      rewrite lookup_not_named; [reflexivity |].
      intros Heq. apply Hnot. rewrite Heq. unfold fnames. now apply in_map. }
    rewrite Hext in IH. clear Hext.
    destruct (lookup (fe_name e) ms) as [v |].
    + destruct (fe_dec e m v) as [r |]; cbn [option_map].
      * destruct (st_run m tbl (map (fun _ => None) tbl) (not_named (fe_name e) ms)) as [sl |].
        -- cbn [st_finish]. rewrite IH. destruct (map_opt (field_lookup m ms) tbl); reflexivity.
        -- rewrite <- IH. reflexivity.
      * reflexivity.
    + destruct (st_run m tbl (map (fun _ => None) tbl) (not_named (fe_name e) ms)) as [sl |].
      * cbn [st_finish]. destruct (missing_map e); [| reflexivity].
        rewrite IH. destruct (map_opt (field_lookup m ms) tbl); reflexivity.
      * rewrite <- IH. destruct (missing_map e); reflexivity.
Qed.

Lemma struct_map_perm : forall m tbl ms ms',
  NoDup (fnames tbl) -> NoDup (keys ms) -> Permutation ms ms' ->
  struct_map m tbl ms' = struct_map m tbl ms.
Proof.
  intros m tbl ms ms' Hnt Hnd Hp.
  assert (Hnd' : NoDup (keys ms')).
  { unfold keys. eapply Permutation_NoDup; [apply Permutation_map; exact Hp | exact Hnd]. }
  rewrite !struct_map_lookup by assumption.
  apply map_opt_ext. intros e _. unfold field_lookup.
  now rewrite (lookup_perm _ _ _ Hnd Hp).
Qed.

(* ---------------------------------------------------------------- independence of the mode *)
(* Shapes whose decoding cannot depend on which deserializer is underneath: no `()` and no tagged
   enum inside (an untagged enum always re-buffers and uses Ref). *)
Fixpoint mode_stable (s : shape) : bool :=
  match s with
  | SUnit => false
  | SAdj _ _ _ => false
  | SOption s' | SSeq s' => mode_stable s'
  | SStruct fs =>
      (fix go (fs : list (string * shape * fattr)) : bool :=
         match fs with
         | [] => true
         | (_, s', _) :: r => mode_stable s' && go r
         end) fs
  | _ => true
  end.

Definition fields_stable (fs : fields) : bool := forallb (fun f => mode_stable (snd (fst f))) fs.

Lemma mode_stable_struct : forall fs, mode_stable (SStruct fs) = fields_stable fs.
Proof.
  intros fs. cbn [mode_stable]. induction fs as [| [[n s] a] fs IH]; [reflexivity |].
  unfold fields_stable in *. cbn [forallb fst snd]. now rewrite IH.
Qed.

Definition tbl_stable (tbl : list fentry) : Prop :=
  forall e, In e tbl -> forall m1 m2 v, fe_dec e m1 v = fe_dec e m2 v.

Lemma st_step_stable : forall tbl, tbl_stable tbl ->
  forall m1 m2 slots k v, st_step m1 tbl slots k v = st_step m2 tbl slots k v.
Proof.
  induction tbl as [| e tbl IH]; intros Hs m1 m2 slots k v; [reflexivity |].
  destruct slots as [| s slots]; [reflexivity |]. cbn [st_step].
  rewrite (Hs e (or_introl eq_refl) m1 m2 v).
  rewrite (IH (fun e' H => Hs e' (or_intror H)) m1 m2). reflexivity.
Qed.

Lemma struct_map_stable : forall tbl, tbl_stable tbl ->
  forall m1 m2 ms, struct_map m1 tbl ms = struct_map m2 tbl ms.
Proof.
  intros tbl Hs m1 m2 ms. unfold struct_map.
  assert (H : forall slots, st_run m1 tbl slots ms = st_run m2 tbl slots ms).
  { induction ms as [| [k v] ms IH]; intros slots; [reflexivity |].
    cbn [st_run]. rewrite (st_step_stable tbl Hs m1 m2).
    destruct (st_step m2 tbl slots k v); [apply IH | reflexivity]. }
  now rewrite H.
Qed.

Lemma struct_seq_stable : forall tbl, tbl_stable tbl ->
  forall m1 m2 l, struct_seq m1 tbl l = struct_seq m2 tbl l.
Proof.
  induction tbl as [| e tbl IH]; intros Hs m1 m2 l; [reflexivity |].
  assert (Hs' : tbl_stable tbl) by (intros e' H; apply Hs; now right).
  cbn [struct_seq]. destruct l as [| v l].
  - now rewrite (IH Hs' m1 m2).
  - rewrite (Hs e (or_introl eq_refl) m1 m2 v). now rewrite (IH Hs' m1 m2).
Qed.

Lemma ftable_stable : forall fs,
  Forall (fun f => forall m1 m2 v, decoder (snd (fst f)) m1 v = decoder (snd (fst f)) m2 v) fs ->
  tbl_stable (ftable fs).
Proof.
  intros fs HF e Hin. unfold ftable in Hin. apply in_map_iff in Hin as [f [He Hin]]. subst e.
  cbn [fe_dec]. rewrite Forall_forall in HF. exact (HF f Hin).
Qed.

Lemma mode_stable_decoder : forall s, mode_stable s = true ->
  forall m1 m2 v, decoder s m1 v = decoder s m2 v.
Proof.
  induction s as [| | lo hi | b | s IH | s IH | fs IH | | | t c vs IH | alts IH] using shape_ind';
    intros Hst m1 m2 v; try reflexivity; try discriminate.
  - rewrite !decoder_option. cbn [mode_stable] in Hst. now rewrite (IH Hst m1 m2).
  - rewrite !decoder_seq. cbn [mode_stable] in Hst. destruct v; try reflexivity.
    f_equal. apply map_opt_ext. intros x _. apply IH. exact Hst.
  - rewrite !decoder_struct. rewrite mode_stable_struct in Hst.
    assert (Hs : tbl_stable (ftable fs)).
    { apply ftable_stable. unfold fields_stable in Hst. rewrite forallb_forall in Hst.
      rewrite Forall_forall in *. intros f Hin. apply IH; [exact Hin | now apply Hst]. }
    destruct v; try reflexivity.
    + now rewrite (struct_seq_stable _ Hs m1 m2).
    + now rewrite (struct_map_stable _ Hs m1 m2).
Qed.

Lemma fields_stable_tbl : forall fs, fields_stable fs = true -> tbl_stable (ftable fs).
Proof.
  intros fs H. apply ftable_stable. unfold fields_stable in H. rewrite forallb_forall in H.
  apply Forall_forall. intros f Hin. apply mode_stable_decoder. now apply H.
Qed.

(* ---------------------------------------------------------------- adjacently tagged enums *)
(* does the tag come before the content? *)
Fixpoint tag_first (tag content : string) (ms : members) : bool :=
  match ms with
  | [] => true
  | (k, _) :: ms' =>
      if String.eqb k tag then true
      else if String.eqb k content then false
      else tag_first tag content ms'
  end.

Lemma next_rel_none : forall t c ms,
  next_rel t c ms = None -> lookup t ms = None /\ lookup c ms = None.
Proof.
  intros t c. induction ms as [| [k v] ms IH]; intros H; [split; reflexivity |].
  cbn [next_rel lookup] in *.
  destruct (String.eqb k t); [discriminate |]. destruct (String.eqb k c); [discriminate |].
  now apply IH.
Qed.

Lemma next_rel_tag : forall t c ms v rest,
  t <> c -> NoDup (keys ms) -> next_rel t c ms = Some (true, v, rest) ->
  lookup t ms = Some v /\ lookup t rest = None /\ lookup c ms = lookup c rest /\
  NoDup (keys rest) /\ tag_first t c ms = true.
Proof.
  intros t c ms v rest Hne. induction ms as [| [k x] ms IH]; intros Hnd H; [discriminate |].
  cbn [next_rel lookup tag_first] in *. inversion Hnd as [| ? ? Hnot Hnd']. subst.
  destruct (String.eqb k t) eqn:Et.
  - inversion H. subst. apply String.eqb_eq in Et. subst k.
    assert (Ec : String.eqb t c = false) by now apply String.eqb_neq.
    rewrite Ec. repeat split; try assumption. now apply lookup_none_iff.
  - destruct (String.eqb k c) eqn:Ec; [discriminate |]. now apply IH.
Qed.

Lemma next_rel_content : forall t c ms v rest,
  t <> c -> NoDup (keys ms) -> next_rel t c ms = Some (false, v, rest) ->
  lookup c ms = Some v /\ lookup c rest = None /\ lookup t ms = lookup t rest /\
  NoDup (keys rest) /\ tag_first t c ms = false.
Proof.
  intros t c ms v rest Hne. induction ms as [| [k x] ms IH]; intros Hnd H; [discriminate |].
  cbn [next_rel lookup tag_first] in *. inversion Hnd as [| ? ? Hnot Hnd']. subst.
  destruct (String.eqb k t) eqn:Et; [discriminate |].
  destruct (String.eqb k c) eqn:Ec.
  - inversion H. subst. apply String.eqb_eq in Ec. subst k.
    repeat split; try assumption. now apply lookup_none_iff.
  - now apply IH.
Qed.

Lemma next_rel_of_lookups : forall t c ms,
  lookup t ms = None -> lookup c ms = None -> next_rel t c ms = None.
Proof.
  intros t c. induction ms as [| [k v] ms IH]; intros Ht Hc; [reflexivity |].
  cbn [next_rel lookup] in *.
  destruct (String.eqb k t); [discriminate |]. destruct (String.eqb k c); [discriminate |].
  now apply IH.
Qed.

(* The adjacently tagged visitor, for an object without duplicate member names: only the tag
   member, the content member and which of them comes first matter. *)
Definition adj_lookup (m : mode) (tag content : string) (vt : list ventry) (ms : members)
  : option rval :=
  match lookup tag ms with
  | None => None
  | Some t =>
      match dec_tag m (vnames vt) t with
      | None => None
      | Some i =>
          match lookup content ms with
          | None => missing_content_at vt i
          | Some c => dec_variant_at (if tag_first tag content ms then m else Owned) vt i c
          end
      end
  end.

Lemma adj_map_lookup : forall m tag content vt ms,
  tag <> content -> NoDup (keys ms) ->
  adj_map m tag content vt ms = adj_lookup m tag content vt ms.
Proof.
  intros m tag content vt ms Hne Hnd. unfold adj_map, adj_lookup.
  destruct (next_rel tag content ms) as [[[b v] rest] |] eqn:E1.
  - destruct b.
    + destruct (next_rel_tag _ _ _ _ _ Hne Hnd E1) as (Ht & Htr & Hc & Hndr & Hf).
      rewrite Ht, Hf. destruct (dec_tag m (vnames vt) v) as [i |]; [| reflexivity].
      destruct (next_rel tag content rest) as [[[b2 v2] rest2] |] eqn:E2.
      * destruct b2.
        -- destruct (next_rel_tag _ _ _ _ _ Hne Hndr E2) as (Ht2 & _). congruence.
        -- destruct (next_rel_content _ _ _ _ _ Hne Hndr E2) as (Hc2 & Hcr2 & Ht2 & Hndr2 & _).
           rewrite Hc, Hc2. destruct (dec_variant_at m vt i v2) as [r |]; [| reflexivity].
           rewrite (next_rel_of_lookups tag content rest2); [reflexivity | congruence | exact Hcr2].
      * destruct (next_rel_none _ _ _ E2) as (_ & Hc2). rewrite Hc, Hc2. reflexivity.
    + destruct (next_rel_content _ _ _ _ _ Hne Hnd E1) as (Hc & Hcr & Ht & Hndr & Hf).
      rewrite Hc, Hf, Ht.
      destruct (next_rel tag content rest) as [[[b2 v2] rest2] |] eqn:E2.
      * destruct b2.
        -- destruct (next_rel_tag _ _ _ _ _ Hne Hndr E2) as (Ht2 & Htr2 & Hc2 & Hndr2 & _).
           rewrite Ht2. destruct (dec_tag m (vnames vt) v2) as [i |]; [| reflexivity].
           destruct (dec_variant_at Owned vt i v) as [r |]; [| reflexivity].
           rewrite (next_rel_of_lookups tag content rest2); [reflexivity | exact Htr2 | congruence].
        -- destruct (next_rel_content _ _ _ _ _ Hne Hndr E2) as (Hc2 & _). congruence.
      * destruct (next_rel_none _ _ _ E2) as (Ht2 & _). now rewrite Ht2.
  - destruct (next_rel_none _ _ _ E1) as (Ht & _). now rewrite Ht.
Qed.

Definition vt_stable (vt : list ventry) : Prop :=
  forall e, In e vt -> tbl_stable (snd e).

Lemma dec_variant_at_stable : forall vt, vt_stable vt ->
  forall m1 m2 i c, dec_variant_at m1 vt i c = dec_variant_at m2 vt i c.
Proof.
  intros vt Hs m1 m2 i c. unfold dec_variant_at, variant_at.
  destruct (nth_error vt i) as [[[n k] ft] |] eqn:E; [| reflexivity].
  apply nth_error_In in E. specialize (Hs _ E). cbn [snd] in Hs.
  destruct k; cbn [dec_variant]; try reflexivity.
  destruct c; try reflexivity. now rewrite (struct_map_stable _ Hs m1 m2).
Qed.

Lemma tag_first_irrelevant : forall m tag content vt ms, vt_stable vt ->
  adj_lookup m tag content vt ms =
  match lookup tag ms with
  | None => None
  | Some t =>
      match dec_tag m (vnames vt) t with
      | None => None
      | Some i => match lookup content ms with
                  | None => missing_content_at vt i
                  | Some c => dec_variant_at m vt i c
                  end
      end
  end.
Proof.
  intros m tag content vt ms Hs. unfold adj_lookup.
  destruct (lookup tag ms) as [t |]; [| reflexivity].
  destruct (dec_tag m (vnames vt) t) as [i |]; [| reflexivity].
  destruct (lookup content ms) as [c |]; [| reflexivity].
  apply dec_variant_at_stable. exact Hs.
Qed.

Definition variants_stable (vs : variants) : bool := forallb (fun v => fields_stable (snd v)) vs.

Lemma vtable_stable : forall vs, variants_stable vs = true -> vt_stable (vtable vs).
Proof.
  intros vs H e Hin. unfold vtable in Hin. apply in_map_iff in Hin as [v [He Hin]]. subst e.
  cbn [snd]. apply fields_stable_tbl. unfold variants_stable in H. rewrite forallb_forall in H.
  now apply H.
Qed.

(* Member order is irrelevant for a tagged enum whose variant fields are mode-stable. *)
Lemma adj_map_perm : forall m tag content vs ms ms',
  tag <> content -> variants_stable vs = true -> NoDup (keys ms) -> Permutation ms ms' ->
  adj_map m tag content (vtable vs) ms' = adj_map m tag content (vtable vs) ms.
Proof.
  intros m tag content vs ms ms' Hne Hs Hnd Hp.
  assert (Hnd' : NoDup (keys ms')).
  { unfold keys. eapply Permutation_NoDup; [apply Permutation_map; exact Hp | exact Hnd]. }
  rewrite !adj_map_lookup by assumption.
  rewrite !tag_first_irrelevant by (now apply vtable_stable).
  now rewrite !(lookup_perm _ _ _ Hnd Hp).
Qed.

(* without a tag member the adjacently tagged visitor fails, duplicates or not *)
Lemma adj_no_tag : forall m tag content vt ms,
  ~ In tag (keys ms) -> adj_map m tag content vt ms = None.
Proof.
  intros m tag content vt ms Hno. unfold adj_map.
  assert (Hnr : forall ms, ~ In tag (keys ms) ->
            next_rel tag content ms = None \/
            exists c rest, next_rel tag content ms = Some (false, c, rest) /\ ~ In tag (keys rest)).
  { clear. induction ms as [| [k v] ms IH]; intros Hno; [now left |].
    cbn [next_rel]. cbn [keys map fst In] in Hno.
    destruct (String.eqb k tag) eqn:E.
    - apply String.eqb_eq in E. subst. exfalso. apply Hno. now left.
    - destruct (String.eqb k content).
      + right. exists v, ms. split; [reflexivity |]. intros H. apply Hno. now right.
      + apply IH. intros H. apply Hno. now right. }
  destruct (Hnr ms Hno) as [-> | (c & rest & -> & Hrest)]; [reflexivity |].
  destruct (Hnr rest Hrest) as [-> | (c2 & rest2 & -> & _)]; reflexivity.
Qed.

