(* Model of the call / error / reply envelopes: zlink-core/src/call/{mod,ser,de}.rs,
   zlink-core/src/reply.rs, the ReplyError derive's Serialize (zlink-macros/src/reply_error.rs:121-223)
   and varlink_service::Method (zlink-core/src/varlink_service/api.rs:13-26). *)
From ZV Require Export Shapes.Reply.

(* ---------------------------------------------------------------- Call<M> *)
(* A decoded call: RStruct [method; RBool oneway; RBool more; RBool upgrade]. *)
Definition mk_call (meth : rval) (ow mo up : bool) : rval :=
  RStruct [meth; RBool ow; RBool mo; RBool up].

(* call/ser.rs:8-35: serialize_map; the method type writes its own entries through FlatSerializer
   (which accepts serialize_map / serialize_struct only, everything else is an error); then
   "oneway", "more", "upgrade" are appended, each only when set. *)
Definition flag_members (ow mo up : bool) : members :=
  ((if ow then [("oneway", JBool true)] else []) ++
   (if mo then [("more", JBool true)] else []) ++
   (if up then [("upgrade", JBool true)] else []))%list.

Definition enc_call (M : shape) (c : rval) : option jval :=
  match c with
  | RStruct [meth; RBool ow; RBool mo; RBool up] =>
      match encoder M meth with
      | Some (JObj ms) => Some (JObj (ms ++ flag_members ow mo up)%list)
      | _ => None
      end
  | _ => None
  end.

(* call/de.rs.  CallVisitor::visit_map wraps the map access in FilterMap and hands it to
   M::deserialize(MapAccessDeserializer).  FilterMap::next_key_seed looks at every member name in
   place (KeySeed; since 4eaac7f a name written with escape sequences is fine - the tree as pinned
   read names as `&str` and failed on them), captures "oneway" / "more" / "upgrade" (value read as
   bool; a later occurrence overwrites an earlier one) and hands every other name to M's key seed.
   The flags are recognised by their decoded name, however the text spells it and whichever
   deserializer drives the visitor (names lent out of the input or transient ones: from_str,
   from_slice, from_value, from_reader, a buffered Content).
   Every derived / Value visitor drains the map before it succeeds, and every error anywhere makes
   the whole decode fail, so the streaming is modelled as one pass that splits the members. *)
Record cells := mk_cells { c_oneway : option bool; c_more : option bool; c_upgrade : option bool }.

Definition no_cells : cells := mk_cells None None None.

Fixpoint filter_call (ms : members) (cs : cells) : option (members * cells) :=
  match ms with
  | [] => Some ([], cs)
  | (k, v) :: ms' =>
      if String.eqb k "oneway" then
        match v with
        | JBool b => filter_call ms' (mk_cells (Some b) (c_more cs) (c_upgrade cs))
        | _ => None
        end
      else if String.eqb k "more" then
        match v with
        | JBool b => filter_call ms' (mk_cells (c_oneway cs) (Some b) (c_upgrade cs))
        | _ => None
        end
      else if String.eqb k "upgrade" then
        match v with
        | JBool b => filter_call ms' (mk_cells (c_oneway cs) (c_more cs) (Some b))
        | _ => None
        end
      else
        match filter_call ms' cs with
        | Some (ys, cs') => Some ((k, v) :: ys, cs')
        | None => None
        end
  end.

(* serde's MapAccessDeserializer forwards everything except deserialize_enum to visit_map: only
   targets whose visitor has visit_map can be a method type. *)
Definition map_capable (M : shape) : bool :=
  match M with
  | SStruct _ | SAdj _ _ _ | SAny | SUntagged _ => true
  | _ => false
  end.

Definition unwrap_or_false (o : option bool) : bool := match o with Some b => b | None => false end.

Definition dec_call (M : shape) (v : jval) : option rval :=
  match v with
  | JObj ms =>                                           (* deserializer.deserialize_map *)
      if map_capable M then
        match filter_call ms no_cells with
        | None => None
        | Some (ys, cs) =>
            match decoder M Direct (JObj ys) with
            | None => None
            | Some meth => Some (mk_call meth (unwrap_or_false (c_oneway cs))
                                         (unwrap_or_false (c_more cs))
                                         (unwrap_or_false (c_upgrade cs)))
            end
        end
      else None
  | _ => None
  end.

(* The property, order-free (objects without duplicate member names): flags by lookup, absent =
   false; the method type sees exactly the other members. *)
Definition is_flag (k : string) : bool :=
  String.eqb k "oneway" || String.eqb k "more" || String.eqb k "upgrade".

Definition spec_flag (k : string) (ms : members) : option bool :=
  match lookup k ms with
  | None => Some false
  | Some (JBool b) => Some b
  | Some _ => None
  end.

Definition spec_call (M : shape) (ms : members) : option rval :=
  if map_capable M then
    match spec_flag "oneway" ms, spec_flag "more" ms, spec_flag "upgrade" ms with
    | Some ow, Some mo, Some up =>
        match decoder M Direct (JObj (filter (fun m => negb (is_flag (fst m))) ms)) with
        | Some meth => Some (mk_call meth ow mo up)
        | None => None
        end
    | _, _, _ => None
    end
  else None.

(* varlink_service::Method<'a>, api.rs:13-26: serde's own adjacently tagged derive.
   Tree as pinned: GetInfo was a plain unit variant (KUnit).
   Since ab57644 `fix: org.varlink.service.GetInfo accepts an empty parameters object` it carries
   #[serde(deserialize_with = "no_parameters")] (null or any object; absent still accepted). *)
Definition vs_getinfo_kind : vkind := KLenient.

Definition vs_method_shape : shape :=
  SAdj "method" "parameters"
    [ ("org.varlink.service.GetInfo", vs_getinfo_kind, []);
      ("org.varlink.service.GetInterfaceDescription", KStruct, [("interface", SStr true, FPlain)]) ].

(* ---------------------------------------------------------------- errors and replies *)
Definition enc_error (E : shape) (e : rval) : option jval := encoder E e.
Definition dec_error (E : shape) (v : jval) : option rval := decoder E Direct v.

Definition enc_reply (P : shape) (r : rval) : option jval := encoder (reply_shape P) r.
Definition dec_reply (P : shape) (v : jval) : option rval := decoder (reply_shape P) Direct v.

(* ---------------------------------------------------------------- building calls and replies *)
(* call/mod.rs: Call::new(method) (all flags false; `From<M>` is Call::new), and the setters
   set_oneway / set_more / set_upgrade, each assigning its own field and nothing else.
   reply.rs: Reply::new(parameters) (continues: None; `From<Params>` is Reply::new(Some(p))) and
   set_continues.  A value is built by a constructor followed by setters IN SOME ORDER; what goes
   on the wire must depend on the resulting logical value only. *)
Inductive flag := Oneway | More | Upgrade.

Record callv := mk_callv { cv_meth : rval; cv_oneway : bool; cv_more : bool; cv_upgrade : bool }.

Definition call_new (meth : rval) : callv := mk_callv meth false false false.

Definition call_set (c : callv) (op : flag * bool) : callv :=
  match op with
  | (Oneway, b) => mk_callv (cv_meth c) b (cv_more c) (cv_upgrade c)
  | (More, b) => mk_callv (cv_meth c) (cv_oneway c) b (cv_upgrade c)
  | (Upgrade, b) => mk_callv (cv_meth c) (cv_oneway c) (cv_more c) b
  end.

Definition build_call (meth : rval) (ops : list (flag * bool)) : callv :=
  fold_left call_set ops (call_new meth).

Definition call_rval (c : callv) : rval :=
  mk_call (cv_meth c) (cv_oneway c) (cv_more c) (cv_upgrade c).

(* the logical value, order-free: a flag is what its LAST setter said, false if there was none *)
Definition flag_eqb (a b : flag) : bool :=
  match a, b with Oneway, Oneway | More, More | Upgrade, Upgrade => true | _, _ => false end.

Fixpoint last_set (f : flag) (ops : list (flag * bool)) (dflt : bool) : bool :=
  match ops with
  | [] => dflt
  | (g, b) :: ops' => last_set f ops' (if flag_eqb f g then b else dflt)
  end.

Record replyv := mk_replyv { rv_params : rval; rv_continues : option bool }.   (* rv_params: RNone | RSome p *)

Definition reply_new (params : rval) : replyv := mk_replyv params None.
Definition reply_from (p : rval) : replyv := reply_new (RSome p).
Definition reply_set_continues (r : replyv) (c : option bool) : replyv := mk_replyv (rv_params r) c.

Definition build_reply (params : rval) (ops : list (option bool)) : replyv :=
  fold_left reply_set_continues ops (reply_new params).

Definition reply_rval (r : replyv) : rval :=
  RStruct [rv_params r; match rv_continues r with Some b => RSome (RBool b) | None => RNone end; RDefault].
