(* Shapes of the compiled corpus of harness/src/bin/envelope.rs (parameter, error and method types)
   and of the library's own types.  The correspondence run is what ties each of these to the Rust
   type of the same name. *)
From ZV Require Export Shapes.Envelope.

Definition u8 := SInt 0 255.
Definition u32 := SInt 0 4294967295.
Definition i32 := SInt (-2147483648) 2147483647.
Definition i64 := SInt (-9223372036854775808) 9223372036854775807.
Definition str := SStr false.
Definition bstr := SStr true.

(* parameter types *)
Definition P_unit := SUnit.
Definition P_allopt := SStruct [("a", SOption u32, FPlain); ("b", SOption str, FPlain)].
Definition P_strict := SStruct [("id", u32, FPlain); ("name", str, FPlain)].
Definition P_value := SAny.
Definition P_leaf := SStruct [("x", i64, FPlain)].
Definition P_nested := SStruct [("leaf", SOption P_leaf, FPlain); ("flag", SBool, FPlain)].
Definition P_optnested := SOption P_nested.
Definition P_borrowed := SStruct [("name", bstr, FPlain); ("n", u8, FPlain)].
Definition P_listy := SStruct [("items", SSeq i32, FPlain)].

(* error types: #[derive(ReplyError)] *)
Definition E_simple := err_shape "org.example.E"
  [ ("NotFound", derive_unit, []); ("Busy", derive_unit, []);
    ("Invalid", KStruct, [("field", str, FPlain); ("code", i32, FPlain)]) ].
Definition E_renamed := err_shape "com.example.Ren"
  [ ("Plain", derive_unit, []);
    ("Named", KStruct, [("actualName", bstr, FPlain); ("errorCode", i32, FPlain);
                        ("optionalData", SOption bstr, FPlain)]);
    ("Timeout", KStruct, [("seconds", u32, FPlain)]) ].
Definition E_opts := err_shape "org.example.Opts"
  [ ("Detail", KStruct, [("a", SOption u32, FPlain); ("b", SOption SBool, FPlain)]);
    ("Gone", derive_unit, []) ].
Definition E_empty := err_shape "org.example.Empty" [].
Definition E_shadow := err_shape "org.varlink.service"
  [ ("PermissionDenied", derive_unit, []); ("Custom", KStruct, [("why", str, FPlain)]) ].

(* the options of a field spread over several #[zlink(..)] attributes: the wire names are the renames *)
Definition E_spread := err_shape "org.example.Spread"
  [ ("Quota", KStruct, [("maxBytes", u32, FPlain); ("usedBytes", u32, FPlain); ("fileName", str, FPlain)]);
    ("Busy", derive_unit, []) ].

(* Fields named with raw identifiers.  The wire name of an un-renamed `r#type` is `type` (what
   serde and the rest of the crate use): E_raw.  As of fe0c0b5 the ReplyError derive takes
   `ident.to_string()` = "r#type" for both directions: E_raw_asis (open finding
   C05.reply_error_raw_identifier_field; the check reads off reply_error.rs which one the tree under
   test follows, the specification is always E_raw). *)
Definition E_raw := err_shape "org.example.Raw"
  [ ("Typed", KStruct, [("type", str, FPlain); ("count", u32, FPlain)]);
    ("Matched", KStruct, [("match", i32, FPlain); ("ref", SOption bstr, FPlain)]);
    ("Loop", derive_unit, []);
    ("Renamed", KStruct, [("in", SBool, FPlain)]);
    ("Hollow", derive_unit, []) ].   (* declared `Hollow {}`: a struct variant without fields *)
Definition E_raw_asis := err_shape "org.example.Raw"
  [ ("Typed", KStruct, [("r#type", str, FPlain); ("count", u32, FPlain)]);
    ("Matched", KStruct, [("match", i32, FPlain); ("r#ref", SOption bstr, FPlain)]);
    ("Loop", derive_unit, []);
    ("Renamed", KStruct, [("in", SBool, FPlain)]);
    ("Hollow", derive_unit, []) ].   (* declared `Hollow {}`: a struct variant without fields *)

(* method types: serde's adjacently tagged derive (unit variants stay serde's) *)
Definition M_meth := SAdj "method" "parameters"
  [ ("org.example.M.Ping", KUnit, []);
    ("org.example.M.Get", KStruct, [("id", u32, FPlain)]);
    ("org.example.M.Put", KStruct, [("name", str, FPlain); ("value", i64, FPlain);
                                    ("note", SOption str, FPlain)]) ].
Definition M_methb := SAdj "method" "parameters"
  [ ("org.example.M.Put", KStruct, [("name", bstr, FPlain); ("value", i64, FPlain)]);
    ("org.example.M.Ping", KUnit, []) ].
Definition M_meths := SStruct [("method", str, FPlain); ("parameters", SOption P_strict, FPlain)].
Definition M_methn := SStruct [("method", str, FPlain); ("More", SOption SBool, FPlain);
                              ("ONEWAY", SOption str, FPlain); ("upgrade_", SOption i64, FPlain);
                              ("mor", SOption SBool, FPlain)].
Definition M_value := SAny.
Definition M_vsmethod := vs_method_shape.
