(* The JSON grammar of RFC 8259 over bytes, as inductive predicates (insignificant whitespace is
   optional in the RFC and never produced here, so the grammar below is the whitespace-free
   sublanguage: every text it accepts is an RFC 8259 JSON text). Numbers are recognised by an
   executable function so that the float tokens handed over by the harness can be checked. *)
From ZV Require Import Common.Base Ser.Decimal.
Local Open Scope N_scope.

(* items separated by a separator *)
Fixpoint join (sep : list byte) (items : list (list byte)) : list byte :=
  match items with
  | [] => []
  | [x] => x
  | x :: rest => x ++ sep ++ join sep rest
  end.

(* ---------------------------------------------------------------- numbers
   number = [ minus ] int [ frac ] [ exp ];  int = zero / ( digit1-9 *DIGIT )
   frac = decimal-point 1*DIGIT;  exp = e [ minus / plus ] 1*DIGIT *)
Fixpoint skip_digits (l : list byte) : list byte :=
  match l with
  | b :: r => if is_digit b then skip_digits r else l
  | [] => []
  end.

Definition digits1 (l : list byte) : bool :=
  match l with [] => false | _ => forallb is_digit l end.

Definition exp_part (l : list byte) : bool :=
  match l with
  | [] => true
  | e :: r => ((e =? 101) || (e =? 69)) &&
              match r with
              | s :: r' => if (s =? 43) || (s =? 45) then digits1 r' else digits1 r
              | [] => false
              end
  end.

Definition frac_exp (l : list byte) : bool :=
  match l with
  | 46 :: r => match r with
               | d :: _ => is_digit d && exp_part (skip_digits r)
               | [] => false
               end
  | _ => exp_part l
  end.

Definition int_frac_exp (l : list byte) : bool :=
  match l with
  | [] => false
  | d :: r => if d =? 48 then frac_exp r
              else if (49 <=? d) && (d <=? 57) then frac_exp (skip_digits r)
              else false
  end.

Definition is_jnumber (l : list byte) : bool :=
  match l with
  | 45 :: r => int_frac_exp r
  | _ => int_frac_exp l
  end.

(* ---------------------------------------------------------------- strings
   string = quotation-mark *char quotation-mark
   char = unescaped / escape ( one of  " \ / b f n r t )  / escape u 4HEXDIG
   unescaped = %x20-21 / %x23-5B / %x5D-10FFFF   (on bytes: anything >= 0x20 except " and \;
   that the bytes >= 0x80 form well-formed UTF-8 is the separate statement C03_utf8) *)
Definition unescaped (b : byte) : Prop := 32 <= b /\ b <> 34 /\ b <> 92.
Definition hexdig (b : byte) : Prop := 48 <= b <= 57 \/ 65 <= b <= 70 \/ 97 <= b <= 102.

Inductive jchars : list byte -> Prop :=
| jc_nil : jchars []
| jc_plain b r : unescaped b -> jchars r -> jchars (b :: r)
| jc_esc c r : In c [34; 92; 47; 98; 102; 110; 114; 116] -> jchars r -> jchars (92 :: c :: r)
| jc_u h1 h2 h3 h4 r : hexdig h1 -> hexdig h2 -> hexdig h3 -> hexdig h4 -> jchars r ->
                       jchars (92 :: 117 :: h1 :: h2 :: h3 :: h4 :: r).

Inductive jstring : list byte -> Prop :=
| jstr cs : jchars cs -> jstring (34 :: cs ++ [34]).

(* ---------------------------------------------------------------- values *)
Definition member_text (m : list byte * list byte) : list byte := fst m ++ [58] ++ snd m.

Inductive jvalue : list byte -> Prop :=
| jv_null : jvalue [110; 117; 108; 108]
| jv_true : jvalue [116; 114; 117; 101]
| jv_false : jvalue [102; 97; 108; 115; 101]
| jv_num n : is_jnumber n = true -> jvalue n
| jv_str s : jstring s -> jvalue s
| jv_arr items : Forall jvalue items -> jvalue ([91] ++ join [44] items ++ [93])
| jv_obj members : Forall (fun m => jstring (fst m) /\ jvalue (snd m)) members ->
                   jvalue ([123] ++ join [44] (map member_text members) ++ [125]).

(* ---------------------------------------------------------------- lemmas *)
Lemma jchars_app : forall a b, jchars a -> jchars b -> jchars (a ++ b).
Proof.
  intros a b Ha Hb. induction Ha; cbn [app]; try assumption; constructor; assumption.
Qed.

Lemma skip_digits_all : forall l, Forall (fun b => is_digit b = true) l -> skip_digits l = [].
Proof. induction 1 as [|b l Hb _ IH]; cbn [skip_digits]; [reflexivity|]. rewrite Hb. exact IH. Qed.

(* a formatted integer is a JSON number *)
Lemma fmt_N_jnumber : forall n, int_frac_exp (fmt_N n) = true.
Proof.
  intros n. destruct (fmt_N_canon n) as [->|(d & ds & -> & Hd & Hds)].
  - reflexivity.
  - cbn [int_frac_exp]. destruct (N.eqb_spec d 48) as [->|_]; [lia|].
    replace ((49 <=? d) && (d <=? 57)) with true
      by (symmetry; apply andb_true_iff; rewrite !N.leb_le; lia).
    rewrite (skip_digits_all ds Hds). reflexivity.
Qed.

Lemma fmt_int_jnumber : forall z, is_jnumber (fmt_int z) = true.
Proof.
  intros [|p|p]; cbn [fmt_int].
  - reflexivity.
  - destruct (fmt_N_canon (Npos p)) as [He|(d & ds & He & Hd & Hds)].
    + rewrite He. reflexivity.
    + pose proof (fmt_N_jnumber (Npos p)) as H. rewrite He in *. unfold is_jnumber.
      destruct (N.eqb_spec d 45) as [->|Hne]; [lia|].
      destruct d as [|dp]; [lia|].
      do 6 (destruct dp as [dp|dp|]; try exact H). exfalso. apply Hne. reflexivity.
  - unfold is_jnumber. apply fmt_N_jnumber.
Qed.
