(* Correspondence driver for the serializer model: evaluates `zser` (model) and `ref_enc` (spec)
   on a case and compares with what the implementation and serde_json produced. *)
From ZV Require Import Common.Exec Ser.SerdeModel.
Local Open Scope N_scope.

Definition obytes_eqb (a b : option (list byte)) : bool :=
  match a, b with
  | Some x, Some y => bytes_eqb x y
  | None, None => true
  | _, _ => false
  end.

Record scase := {
  sc_v : sval;
  (* implementation, zlink_core::verif::to_slice(v, buf[..n]) per tried n:
     (n, 0) Ok with bytes = sc_out; (n, 1) BufferTooSmall; (n, 2) KeyMustBeAString;
     (n, 3) Ok with bytes different from sc_out *)
  sc_sweep : list (N * N);
  sc_out : option (list byte);     (* bytes of the successful run with the largest n, if any *)
  sc_serde : option (list byte);   (* serde_json::to_vec(v); None = serde_json refused *)
  (* send path, Connection::send_reply(&Reply{parameters: Some(v), continues}) with the frame
     captured from the socket (same frame at every tried initial free space, checked by the driver):
     0 = not run; 1 = frame in sc_frame; 2 = refused with a JSON error *)
  sc_send : N;
  sc_cont : option bool;           (* the `continues` member *)
  sc_frame : list byte
}.

Definition name_Reply : list byte := [82; 101; 112; 108; 121].
Definition name_parameters : list byte := [112; 97; 114; 97; 109; 101; 116; 101; 114; 115].
Definition name_continues : list byte := [99; 111; 110; 116; 105; 110; 117; 101; 115].
(* what #[derive(Serialize)] issues for Reply<T> with skip_serializing_if = Option::is_none *)
Definition reply_wrap (v : sval) (cont : option bool) : sval :=
  match cont with
  | None => SStruct name_Reply 1 [(name_parameters, SSome v)]
  | Some c => SStruct name_Reply 2 [(name_parameters, SSome v); (name_continues, SSome (SBool c))]
  end.

Definition model_code (c : scase) (n : N) : N :=
  match zser (sc_v c) n with
  | Ok bs => if obytes_eqb (Some bs) (sc_out c) then 0 else 3
  | Err BufferTooSmall => 1
  | Err KeyMustBeAString => 2
  | Err Unreachable => 9
  end.

Definition big : N := 1048576.

Definition model_bad (c : scase) : bool :=
  negb (forallb (fun e => model_code c (fst e) =? snd e) (sc_sweep c)) ||
  match sc_send c with
  | 1 => match zser (reply_wrap (sc_v c) (sc_cont c)) big with
         | Ok bs => negb (bytes_eqb bs (sc_frame c))
         | _ => true
         end
  | 2 => match zser (reply_wrap (sc_v c) (sc_cont c)) big with
         | Err KeyMustBeAString => false
         | _ => true
         end
  | _ => false
  end.

(* the property, on the implementation's results alone *)
Definition spec_bad (c : scase) : bool :=
  match sc_out c with
  | Some bs =>
      negb (obytes_eqb (ref_enc (sc_v c)) (Some bs)) ||              (* equals the reference *)
      negb (forallb (fun b => 32 <=? b) bs) ||                        (* no control byte, no NUL *)
      negb (keys_ok (sc_v c)) ||                                      (* bad keys are refused *)
      negb (forallb (fun e => if N.of_nat (length bs) <=? fst e then snd e =? 0 else snd e =? 1)
                    (sc_sweep c))                                     (* buffer contract *)
  | None => existsb (fun e => (snd e =? 0) || (snd e =? 3)) (sc_sweep c)
  end ||
  match sc_send c with
  | 1 => negb (obytes_eqb (ref_enc (reply_wrap (sc_v c) (sc_cont c))) (Some (sc_frame c))) ||
         negb (keys_ok (sc_v c)) || negb (forallb (fun b => 32 <=? b) (sc_frame c))
  | _ => false
  end.

(* serde_json itself against the reference encoder (ties the spec to the real serde_json) *)
Definition ref_bad (c : scase) : bool := negb (obytes_eqb (ref_enc (sc_v c)) (sc_serde c)).

(* 0 = all agree; bit 0 = implementation differs from the model; bit 1 = implementation differs
   from the specification; bit 2 = serde_json differs from the reference encoder *)
Definition check (c : scase) : N :=
  (if model_bad c then 1 else 0) + (if spec_bad c then 2 else 0) + (if ref_bad c then 4 else 0).

(* for replay files *)
Definition show (c : scase) :=
  (map (fun e => (fst e, model_code c (fst e))) (sc_sweep c), ref_enc (sc_v c),
   zser (reply_wrap (sc_v c) (sc_cont c)) big).
