(* Correspondence driver for the serializer model: evaluates `zser` (model) and `ref_enc` (spec)
   on a case and compares with what the implementation and serde_json produced. *)
From ZV Require Import Common.Exec Ser.SerdeModel.
Local Open Scope N_scope.

(* named byte constants: the case files spell bytes as x00 .. xff (identifiers elaborate several
   times faster than numerals, and the case files are mostly bytes) *)
Definition x00 : N := 0. Definition x01 : N := 1. Definition x02 : N := 2. Definition x03 : N := 3. Definition x04 : N := 4. Definition x05 : N := 5. Definition x06 : N := 6. Definition x07 : N := 7.
Definition x08 : N := 8. Definition x09 : N := 9. Definition x0a : N := 10. Definition x0b : N := 11. Definition x0c : N := 12. Definition x0d : N := 13. Definition x0e : N := 14. Definition x0f : N := 15.
Definition x10 : N := 16. Definition x11 : N := 17. Definition x12 : N := 18. Definition x13 : N := 19. Definition x14 : N := 20. Definition x15 : N := 21. Definition x16 : N := 22. Definition x17 : N := 23.
Definition x18 : N := 24. Definition x19 : N := 25. Definition x1a : N := 26. Definition x1b : N := 27. Definition x1c : N := 28. Definition x1d : N := 29. Definition x1e : N := 30. Definition x1f : N := 31.
Definition x20 : N := 32. Definition x21 : N := 33. Definition x22 : N := 34. Definition x23 : N := 35. Definition x24 : N := 36. Definition x25 : N := 37. Definition x26 : N := 38. Definition x27 : N := 39.
Definition x28 : N := 40. Definition x29 : N := 41. Definition x2a : N := 42. Definition x2b : N := 43. Definition x2c : N := 44. Definition x2d : N := 45. Definition x2e : N := 46. Definition x2f : N := 47.
Definition x30 : N := 48. Definition x31 : N := 49. Definition x32 : N := 50. Definition x33 : N := 51. Definition x34 : N := 52. Definition x35 : N := 53. Definition x36 : N := 54. Definition x37 : N := 55.
Definition x38 : N := 56. Definition x39 : N := 57. Definition x3a : N := 58. Definition x3b : N := 59. Definition x3c : N := 60. Definition x3d : N := 61. Definition x3e : N := 62. Definition x3f : N := 63.
Definition x40 : N := 64. Definition x41 : N := 65. Definition x42 : N := 66. Definition x43 : N := 67. Definition x44 : N := 68. Definition x45 : N := 69. Definition x46 : N := 70. Definition x47 : N := 71.
Definition x48 : N := 72. Definition x49 : N := 73. Definition x4a : N := 74. Definition x4b : N := 75. Definition x4c : N := 76. Definition x4d : N := 77. Definition x4e : N := 78. Definition x4f : N := 79.
Definition x50 : N := 80. Definition x51 : N := 81. Definition x52 : N := 82. Definition x53 : N := 83. Definition x54 : N := 84. Definition x55 : N := 85. Definition x56 : N := 86. Definition x57 : N := 87.
Definition x58 : N := 88. Definition x59 : N := 89. Definition x5a : N := 90. Definition x5b : N := 91. Definition x5c : N := 92. Definition x5d : N := 93. Definition x5e : N := 94. Definition x5f : N := 95.
Definition x60 : N := 96. Definition x61 : N := 97. Definition x62 : N := 98. Definition x63 : N := 99. Definition x64 : N := 100. Definition x65 : N := 101. Definition x66 : N := 102. Definition x67 : N := 103.
Definition x68 : N := 104. Definition x69 : N := 105. Definition x6a : N := 106. Definition x6b : N := 107. Definition x6c : N := 108. Definition x6d : N := 109. Definition x6e : N := 110. Definition x6f : N := 111.
Definition x70 : N := 112. Definition x71 : N := 113. Definition x72 : N := 114. Definition x73 : N := 115. Definition x74 : N := 116. Definition x75 : N := 117. Definition x76 : N := 118. Definition x77 : N := 119.
Definition x78 : N := 120. Definition x79 : N := 121. Definition x7a : N := 122. Definition x7b : N := 123. Definition x7c : N := 124. Definition x7d : N := 125. Definition x7e : N := 126. Definition x7f : N := 127.
Definition x80 : N := 128. Definition x81 : N := 129. Definition x82 : N := 130. Definition x83 : N := 131. Definition x84 : N := 132. Definition x85 : N := 133. Definition x86 : N := 134. Definition x87 : N := 135.
Definition x88 : N := 136. Definition x89 : N := 137. Definition x8a : N := 138. Definition x8b : N := 139. Definition x8c : N := 140. Definition x8d : N := 141. Definition x8e : N := 142. Definition x8f : N := 143.
Definition x90 : N := 144. Definition x91 : N := 145. Definition x92 : N := 146. Definition x93 : N := 147. Definition x94 : N := 148. Definition x95 : N := 149. Definition x96 : N := 150. Definition x97 : N := 151.
Definition x98 : N := 152. Definition x99 : N := 153. Definition x9a : N := 154. Definition x9b : N := 155. Definition x9c : N := 156. Definition x9d : N := 157. Definition x9e : N := 158. Definition x9f : N := 159.
Definition xa0 : N := 160. Definition xa1 : N := 161. Definition xa2 : N := 162. Definition xa3 : N := 163. Definition xa4 : N := 164. Definition xa5 : N := 165. Definition xa6 : N := 166. Definition xa7 : N := 167.
Definition xa8 : N := 168. Definition xa9 : N := 169. Definition xaa : N := 170. Definition xab : N := 171. Definition xac : N := 172. Definition xad : N := 173. Definition xae : N := 174. Definition xaf : N := 175.
Definition xb0 : N := 176. Definition xb1 : N := 177. Definition xb2 : N := 178. Definition xb3 : N := 179. Definition xb4 : N := 180. Definition xb5 : N := 181. Definition xb6 : N := 182. Definition xb7 : N := 183.
Definition xb8 : N := 184. Definition xb9 : N := 185. Definition xba : N := 186. Definition xbb : N := 187. Definition xbc : N := 188. Definition xbd : N := 189. Definition xbe : N := 190. Definition xbf : N := 191.
Definition xc0 : N := 192. Definition xc1 : N := 193. Definition xc2 : N := 194. Definition xc3 : N := 195. Definition xc4 : N := 196. Definition xc5 : N := 197. Definition xc6 : N := 198. Definition xc7 : N := 199.
Definition xc8 : N := 200. Definition xc9 : N := 201. Definition xca : N := 202. Definition xcb : N := 203. Definition xcc : N := 204. Definition xcd : N := 205. Definition xce : N := 206. Definition xcf : N := 207.
Definition xd0 : N := 208. Definition xd1 : N := 209. Definition xd2 : N := 210. Definition xd3 : N := 211. Definition xd4 : N := 212. Definition xd5 : N := 213. Definition xd6 : N := 214. Definition xd7 : N := 215.
Definition xd8 : N := 216. Definition xd9 : N := 217. Definition xda : N := 218. Definition xdb : N := 219. Definition xdc : N := 220. Definition xdd : N := 221. Definition xde : N := 222. Definition xdf : N := 223.
Definition xe0 : N := 224. Definition xe1 : N := 225. Definition xe2 : N := 226. Definition xe3 : N := 227. Definition xe4 : N := 228. Definition xe5 : N := 229. Definition xe6 : N := 230. Definition xe7 : N := 231.
Definition xe8 : N := 232. Definition xe9 : N := 233. Definition xea : N := 234. Definition xeb : N := 235. Definition xec : N := 236. Definition xed : N := 237. Definition xee : N := 238. Definition xef : N := 239.
Definition xf0 : N := 240. Definition xf1 : N := 241. Definition xf2 : N := 242. Definition xf3 : N := 243. Definition xf4 : N := 244. Definition xf5 : N := 245. Definition xf6 : N := 246. Definition xf7 : N := 247.
Definition xf8 : N := 248. Definition xf9 : N := 249. Definition xfa : N := 250. Definition xfb : N := 251. Definition xfc : N := 252. Definition xfd : N := 253. Definition xfe : N := 254. Definition xff : N := 255.

Definition obytes_eqb (a b : option (list byte)) : bool :=
  match a, b with
  | Some x, Some y => bytes_eqb x y
  | None, None => true
  | _, _ => false
  end.

Record scase := {
  sc_v : sval;
  (* implementation, zlink_core::verif::to_slice(v, buf[..n]) for every n in lo..=hi:
     (lo, hi, 0) Ok with bytes = sc_out; 1 BufferTooSmall; 2 KeyMustBeAString;
     3 Ok with bytes different from sc_out *)
  sc_sweep : list (N * N * N);
  sc_out : option (list byte);     (* bytes of the successful run with the largest n, if any *)
  (* serde_json::to_vec(v): 0 = refused, 1 = the same bytes as sc_out, 2 = the bytes sc_serde_x *)
  sc_serde : N;
  sc_serde_x : list byte;
  (* send path, Connection::send_reply(&Reply{parameters: Some(v), continues}) with the frame
     captured from the socket (same frame at every tried initial free space, checked by the driver):
     0 = not run; 1 = the frame is `{"parameters":` sc_out [`,"continues":b`] `}`;
     2 = refused with a JSON error; 3 = the frame is sc_frame_x *)
  sc_send : N;
  sc_cont : option bool;           (* the `continues` member *)
  sc_frame_x : list byte
}.

Definition name_Reply : list byte := [82; 101; 112; 108; 121].
Definition name_parameters : list byte := [112; 97; 114; 97; 109; 101; 116; 101; 114; 115].
Definition name_continues : list byte := [99; 111; 110; 116; 105; 110; 117; 101; 115].
(* what #[derive(Serialize)] issues for Reply<T> with skip_serializing_if = Option::is_none *)
Definition reply_wrap (v : sval) (cont : option bool) : sval :=
  match cont with
  | None => SStruct name_Reply 1 [(name_parameters, SSome v)]
  | Some c => SStruct name_Reply 2 [(name_parameters, SSome v); (name_continues, SSome (SBool c))]
  end.

(* the text of that frame around the text of the parameters *)
Definition wrap_text (o : list byte) (cont : option bool) : list byte :=
  [123; 34] ++ name_parameters ++ [34; 58] ++ o ++
  match cont with
  | None => []
  | Some c => [44; 34] ++ name_continues ++ [34; 58] ++ ref_bool c
  end ++ [125].

Definition serde_bytes (c : scase) : option (list byte) :=
  match sc_serde c with 0 => None | 1 => sc_out c | _ => Some (sc_serde_x c) end.
Definition frame_bytes (c : scase) : list byte :=
  match sc_send c, sc_out c with
  | 1, Some o => wrap_text o (sc_cont c)
  | _, _ => sc_frame_x c
  end.
Definition frame_given (c : scase) : bool := (sc_send c =? 1) || (sc_send c =? 3).

Definition model_code (c : scase) (n : N) : N :=
  match zser (sc_v c) n with
  | Ok bs => if obytes_eqb (Some bs) (sc_out c) then 0 else 3
  | Err BufferTooSmall => 1
  | Err KeyMustBeAString => 2
  | Err Unreachable => 9
  end.

(* all n in lo..=hi (count = hi - lo + 1 as fuel) *)
Fixpoint range_all (f : N -> bool) (lo : N) (count : nat) : bool :=
  match count with O => true | S k => f lo && range_all f (lo + 1) k end.
Definition sweep_all (f : N -> N -> bool) (sw : list (N * N * N)) : bool :=
  forallb (fun e => let '(lo, hi, code) := e in
                    range_all (fun n => f n code) lo (N.to_nat (hi + 1 - lo))) sw.

Definition big : N := 1048576.

Definition model_bad (c : scase) : bool :=
  negb (sweep_all (fun n code => model_code c n =? code) (sc_sweep c)) ||
  match sc_send c with
  | 0 => false
  | 2 => match zser (reply_wrap (sc_v c) (sc_cont c)) big with
         | Err KeyMustBeAString => false
         | _ => true
         end
  | _ => match zser (reply_wrap (sc_v c) (sc_cont c)) big with
         | Ok bs => negb (bytes_eqb bs (frame_bytes c))
         | _ => true
         end
  end.

(* the property, on the implementation's results alone *)
Definition spec_bad (c : scase) : bool :=
  match sc_out c with
  | Some bs =>
      negb (obytes_eqb (ref_enc (sc_v c)) (Some bs)) ||              (* equals the reference *)
      negb (forallb (fun b => 32 <=? b) bs) ||                        (* no control byte, no NUL *)
      negb (keys_ok (sc_v c)) ||                                      (* bad keys are refused *)
      negb (sweep_all (fun n code => if N.of_nat (length bs) <=? n then code =? 0 else code =? 1)
                      (sc_sweep c))                                   (* buffer contract *)
  | None => existsb (fun e => (snd e =? 0) || (snd e =? 3)) (sc_sweep c) ||
            keys_ok (sc_v c)            (* acceptable keys are accepted (the sweep includes 64 KiB) *)
  end ||
  (frame_given c &&
   (negb (obytes_eqb (ref_enc (reply_wrap (sc_v c) (sc_cont c))) (Some (frame_bytes c))) ||
    negb (keys_ok (sc_v c)) || negb (forallb (fun b => 32 <=? b) (frame_bytes c)))).

(* serde_json itself against the reference encoder (ties the spec to the real serde_json) *)
Definition ref_bad (c : scase) : bool := negb (obytes_eqb (ref_enc (sc_v c)) (serde_bytes c)).

(* 0 = all agree; bit 0 = implementation differs from the model; bit 1 = implementation differs
   from the specification; bit 2 = serde_json differs from the reference encoder *)
Definition check (c : scase) : N :=
  (if model_bad c then 1 else 0) + (if spec_bad c then 2 else 0) + (if ref_bad c then 4 else 0).

(* for replay files: the model's code at both ends of every swept range, the reference encoding,
   the model's frame *)
Definition show (c : scase) :=
  (map (fun e => let '(lo, hi, code) := e in (lo, model_code c lo, hi, model_code c hi)) (sc_sweep c),
   ref_enc (sc_v c), zser (reply_wrap (sc_v c) (sc_cont c)) big).
