From ZV Require Import Ser.SerdeModel.
Local Open Scope N_scope.
