(* Proofs about the serializer model (Ser/SerdeModel.v).

   Structure: every model function is shown to behave like a *trace* — the bytes it tries to write,
   in order, followed by an optional error — fed to the bounded writer (`spec`). The trace of a
   value is a pure function (`trace`); all theorems are then facts about `trace` and `ref_enc`. *)
From ZV Require Import Ser.SerdeModel.
Local Open Scope N_scope.

(* ------------------------------------------------------------------ induction over sval *)
Section SvalInd.
Variable P : sval -> Prop.
Hypothesis HBool : forall b, P (SBool b).
Hypothesis HInt : forall k z, P (SInt k z).
Hypothesis HF32 : forall f, P (SF32 f).
Hypothesis HF64 : forall f, P (SF64 f).
Hypothesis HChar : forall c, P (SChar c).
Hypothesis HStr : forall s, P (SStr s).
Hypothesis HBytes : forall bs, P (SBytes bs).
Hypothesis HNone : P SNone.
Hypothesis HSome : forall v, P v -> P (SSome v).
Hypothesis HUnit : P SUnit.
Hypothesis HUnitStruct : forall n, P (SUnitStruct n).
Hypothesis HUnitVariant : forall n i var, P (SUnitVariant n i var).
Hypothesis HNewtypeStruct : forall n v, P v -> P (SNewtypeStruct n v).
Hypothesis HNewtypeVariant : forall n i var v, P v -> P (SNewtypeVariant n i var v).
Hypothesis HSeq : forall len es, Forall P es -> P (SSeq len es).
Hypothesis HTuple : forall len es, Forall P es -> P (STuple len es).
Hypothesis HTupleStruct : forall n len es, Forall P es -> P (STupleStruct n len es).
Hypothesis HTupleVariant : forall n i var len es, Forall P es -> P (STupleVariant n i var len es).
Hypothesis HMap : forall len kvs, Forall (fun kv => P (snd kv)) kvs -> P (SMap len kvs).
Hypothesis HStruct : forall n len fs, Forall (fun kv => P (snd kv)) fs -> P (SStruct n len fs).
Hypothesis HStructVariant : forall n i var len fs, Forall (fun kv => P (snd kv)) fs ->
                                                   P (SStructVariant n i var len fs).
Hypothesis HCollectStr : forall frags, P (SCollectStr frags).
Hypothesis HHumanReadable : forall hr compact, P hr -> P compact -> P (SHumanReadable hr compact).

Fixpoint sval_ind' (v : sval) : P v :=
  let fix all (es : list sval) : Forall P es :=
    match es with [] => Forall_nil _ | e :: r => Forall_cons _ (sval_ind' e) (all r) end in
  let fix allm (kvs : list (sval * sval)) : Forall (fun kv => P (snd kv)) kvs :=
    match kvs with
    | [] => Forall_nil _
    | kv :: r => Forall_cons kv (match kv return P (snd kv) with (_, x) => sval_ind' x end) (allm r)
    end in
  let fix allf (fs : list (list byte * sval)) : Forall (fun kv => P (snd kv)) fs :=
    match fs with
    | [] => Forall_nil _
    | kv :: r => Forall_cons kv (match kv return P (snd kv) with (_, x) => sval_ind' x end) (allf r)
    end in
  match v with
  | SBool b => HBool b
  | SInt k z => HInt k z
  | SF32 f => HF32 f
  | SF64 f => HF64 f
  | SChar c => HChar c
  | SStr s => HStr s
  | SBytes bs => HBytes bs
  | SNone => HNone
  | SSome x => HSome x (sval_ind' x)
  | SUnit => HUnit
  | SUnitStruct n => HUnitStruct n
  | SUnitVariant n i var => HUnitVariant n i var
  | SNewtypeStruct n x => HNewtypeStruct n x (sval_ind' x)
  | SNewtypeVariant n i var x => HNewtypeVariant n i var x (sval_ind' x)
  | SSeq len es => HSeq len es (all es)
  | STuple len es => HTuple len es (all es)
  | STupleStruct n len es => HTupleStruct n len es (all es)
  | STupleVariant n i var len es => HTupleVariant n i var len es (all es)
  | SMap len kvs => HMap len kvs (allm kvs)
  | SStruct n len fs => HStruct n len fs (allf fs)
  | SStructVariant n i var len fs => HStructVariant n i var len fs (allf fs)
  | SCollectStr frags => HCollectStr frags
  | SHumanReadable a b => HHumanReadable a b (sval_ind' a) (sval_ind' b)
  end.
End SvalInd.

(* ------------------------------------------------------------------ traces *)
Definition T := (list byte * option serr)%type.
Definition temit (bs : list byte) : T := (bs, None).
Definition tfail (e : serr) : T := ([], Some e).
Definition tseq (a b : T) : T :=
  match snd a with Some _ => a | None => (fst a ++ fst b, snd b) end.
Infix "+>" := tseq (at level 60, right associativity).

Lemma tseq_emit_l : forall a b, temit a +> b = (a ++ fst b, snd b).
Proof. reflexivity. Qed.
Lemma tseq_emit_emit : forall a b, temit a +> temit b = temit (a ++ b).
Proof. reflexivity. Qed.
Lemma tseq_fail_l : forall e b, tfail e +> b = tfail e.
Proof. reflexivity. Qed.
Lemma tseq_nil_l : forall t, temit [] +> t = t.
Proof. intros [bs e]. reflexivity. Qed.
Lemma tseq_nil_r : forall t, t +> temit [] = t.
Proof. intros [bs [e|]]; unfold tseq; cbn [fst snd temit]; [reflexivity|]. rewrite app_nil_r. reflexivity. Qed.
Lemma tseq_assoc : forall a b c, (a +> b) +> c = a +> (b +> c).
Proof.
  intros [a [ea|]] [b [eb|]] [c ec]; unfold tseq; cbn [fst snd]; try reflexivity.
  rewrite app_assoc. reflexivity.
Qed.
Lemma tseq_emit_fail : forall a e, snd (temit a +> tfail e) = Some e.
Proof. reflexivity. Qed.
Lemma tseq_err_l : forall a b e, snd a = Some e -> snd (a +> b) = Some e.
Proof. intros [a ea] b e H. cbn [snd] in H. subst. reflexivity. Qed.
Lemma tseq_emit_err : forall a b e, snd b = Some e -> snd (temit a +> b) = Some e.
Proof. intros a b e H. exact H. Qed.

(* --- the trace of each model function, mirroring SerdeModel.v *)
Definition t_esc_byte (b : byte) : T :=
  if escape_of b =? 0 then temit [b]
  else match classify (escape_of b) b with
       | None => tfail Unreachable
       | Some ce => temit (concat (escape_writes ce))
       end.
Fixpoint t_contents (s : list byte) : T :=
  match s with [] => temit [] | b :: r => t_esc_byte b +> t_contents r end.
Definition t_str (s : list byte) : T := temit [34] +> t_contents s +> temit [34].

Definition sepb (first : bool) : list byte := if first then [] else [44].

Fixpoint t_bytes_loop (first : bool) (value : list byte) : T :=
  match value with
  | [] => temit [93]
  | b :: r => temit (sepb first) +> temit (fmt_int (Z.of_N b)) +> t_bytes_loop false r
  end.
Definition t_byte_array (value : list byte) : T := temit [91] +> t_bytes_loop true value.

Fixpoint t_key (k : sval) : T :=
  match k with
  | SStr s => t_str s
  | SUnitVariant _ _ variant => t_str variant
  | SNewtypeStruct _ x => t_key x
  | SInt _ z => temit [34] +> temit (fmt_int z) +> temit [34]
  | SChar c => t_str (utf8_encode c)
  | SCollectStr frags => t_str (concat frags)
  | SHumanReadable hr compact => if human_readable then t_key hr else t_key compact
  | _ => tfail KeyMustBeAString
  end.

Definition t_loop {A} (titem : A -> cstate -> T) (tfin : cstate -> T) :=
  fix go (l : list A) (st : cstate) : T :=
    match l with [] => tfin st | a :: r => titem a st +> go r Rest end.

Definition endb (cls : byte) (st : cstate) : list byte := match st with Empty => [] | _ => [cls] end.
Definition t_seq_element (tf : sval -> T) (e : sval) (st : cstate) : T :=
  temit (sepb (is_first st)) +> tf e.
Definition t_seq_end (st : cstate) : T := temit (endb 93 st).
Definition t_tuple_variant_end (st : cstate) : T := temit (endb 93 st) +> temit [125].
Definition t_map_key (k : sval) (st : cstate) : T := temit (sepb (is_first st)) +> t_key k.
Definition t_map_value (tf : sval -> T) (x : sval) : T := temit [58] +> tf x.
Definition t_map_entry (tf : sval -> T) (kv : sval * sval) (st : cstate) : T :=
  t_map_key (fst kv) st +> t_map_value tf (snd kv).
Definition t_struct_field (tf : sval -> T) (kv : list byte * sval) (st : cstate) : T :=
  t_map_key (SStr (fst kv)) st +> t_map_value tf (snd kv).
Definition t_map_end (st : cstate) : T := temit (endb 125 st).
Definition t_struct_variant_end (st : cstate) : T := temit (endb 125 st) +> temit [125].
Definition t_open (opn cls : byte) (len : option N) (body : cstate -> T) : T :=
  temit [opn] +> (if hint0 len then temit [cls] +> body Empty else body First).
Definition t_variant_header (variant : list byte) : T :=
  temit [123] +> t_str variant +> temit [58].

Fixpoint trace (v : sval) : T :=
  match v with
  | SBool b => temit (ref_bool b)
  | SInt _ z => temit (fmt_int z)
  | SF32 f | SF64 f => temit (ref_float f)
  | SChar c => t_str (utf8_encode c)
  | SStr s => t_str s
  | SBytes bs => t_byte_array bs
  | SUnit | SNone | SUnitStruct _ => temit ref_null
  | SUnitVariant _ _ variant => t_str variant
  | SNewtypeStruct _ x | SSome x => trace x
  | SNewtypeVariant _ _ variant x => t_variant_header variant +> trace x +> temit [125]
  | SSeq len es => t_open 91 93 len (t_loop (t_seq_element trace) t_seq_end es)
  | STuple len es | STupleStruct _ len es =>
      t_open 91 93 (Some len) (t_loop (t_seq_element trace) t_seq_end es)
  | STupleVariant _ _ variant len es =>
      t_variant_header variant +> t_open 91 93 (Some len) (t_loop (t_seq_element trace) t_tuple_variant_end es)
  | SMap len kvs => t_open 123 125 len (t_loop (t_map_entry trace) t_map_end kvs)
  | SStruct _ len fs => t_open 123 125 (Some len) (t_loop (t_struct_field trace) t_map_end fs)
  | SStructVariant _ _ variant len fs =>
      t_variant_header variant +> t_open 123 125 (Some len) (t_loop (t_struct_field trace) t_struct_variant_end fs)
  | SCollectStr frags => t_str (concat frags)
  | SHumanReadable hr compact => if human_readable then trace hr else trace compact
  end.

(* ------------------------------------------------------------------ model = writer fed with the trace *)
Section Spec.
Variable avail : N.

Definition wpush (w : writer) (bs : list byte) : writer :=
  mkW (pos w + N.of_nat (length bs)) (rev_append bs (out w)).

Definition outcome (w : writer) (t : T) : res writer :=
  if pos w + N.of_nat (length (fst t)) <=? avail
  then match snd t with None => Ok (wpush w (fst t)) | Some e => Err e end
  else Err BufferTooSmall.

Definition spec (f : writer -> res writer) (t : T) : Prop :=
  forall w, pos w <= avail -> f w = outcome w t.

Lemma wpush_nil : forall w, wpush w [] = w.
Proof. intros [p o]. unfold wpush. cbn [pos out length rev_append]. f_equal. lia. Qed.

Lemma rev_append_app : forall (a b c : list byte), rev_append (a ++ b) c = rev_append b (rev_append a c).
Proof. induction a as [|x a IH]; intros b c; cbn [app rev_append]; [reflexivity|apply IH]. Qed.

Lemma wpush_app : forall w a b, wpush (wpush w a) b = wpush w (a ++ b).
Proof.
  intros [p o] a b. unfold wpush. cbn [pos out]. rewrite rev_append_app, app_length. f_equal. lia.
Qed.

Lemma spec_write : forall bs, spec (fun w => write_all avail w bs) (temit bs).
Proof.
  intros bs w Hw. unfold write_all, outcome. cbn [fst snd temit].
  destruct (N.ltb_spec avail (pos w + N.of_nat (length bs))) as [H|H];
    destruct (N.leb_spec (pos w + N.of_nat (length bs)) avail) as [H'|H']; try lia; reflexivity.
Qed.

Lemma spec_ok : spec (fun w => Ok w) (temit []).
Proof.
  intros w Hw. unfold outcome. cbn [fst snd temit length]. rewrite wpush_nil.
  destruct (N.leb_spec (pos w + N.of_nat 0) avail); [reflexivity|lia].
Qed.

Lemma spec_err : forall e, spec (fun _ => Err e) (tfail e).
Proof.
  intros e w Hw. unfold outcome. cbn [fst snd tfail length].
  destruct (N.leb_spec (pos w + N.of_nat 0) avail); [reflexivity|lia].
Qed.

Lemma spec_bind : forall f g a b, spec f a -> spec g b -> spec (fun w => tri (f w) g) (a +> b).
Proof.
  intros f g [a ea] [b eb] Hf Hg w Hw. rewrite (Hf w Hw). unfold outcome, tseq. cbn [fst snd].
  destruct ea as [e|].
  - cbn [fst snd]. destruct (pos w + N.of_nat (length a) <=? avail); reflexivity.
  - cbn [fst snd]. rewrite app_length.
    destruct (N.leb_spec (pos w + N.of_nat (length a)) avail) as [H|H]; cbn [tri].
    + rewrite (Hg (wpush w a)) by (cbn [wpush pos]; exact H).
      unfold outcome. cbn [fst snd wpush pos].
      replace (pos w + N.of_nat (length a) + N.of_nat (length b))
        with (pos w + N.of_nat (length a + length b)) by lia.
      destruct (pos w + N.of_nat (length a + length b) <=? avail); [|reflexivity].
      destruct eb; [reflexivity|]. rewrite wpush_app. reflexivity.
    + destruct (N.leb_spec (pos w + N.of_nat (length a + length b)) avail); [lia|reflexivity].
Qed.

Lemma spec_conv : forall f t t', spec f t -> t = t' -> spec f t'.
Proof. intros f t t' H <-. exact H. Qed.

Lemma spec_ext : forall f g t, (forall w, f w = g w) -> spec g t -> spec f t.
Proof. intros f g t He H w Hw. rewrite He. apply H. exact Hw. Qed.

(* Formatter pieces *)
Lemma spec_sep : forall first, spec (fun w => begin_array_value avail w first) (temit (sepb first)).
Proof. intros [|]; [apply spec_ok|apply spec_write]. Qed.
Lemma spec_ksep : forall first, spec (fun w => begin_object_key avail w first) (temit (sepb first)).
Proof. intros [|]; [apply spec_ok|apply spec_write]. Qed.

Lemma spec_write_seq : forall chunks, spec (fun w => write_seq avail w chunks) (temit (concat chunks)).
Proof.
  induction chunks as [|c cs IH]; cbn [write_seq concat].
  - apply spec_ok.
  - eapply spec_conv; [apply spec_bind; [apply spec_write|exact IH]|reflexivity].
Qed.

Lemma spec_flush_run : forall run, spec (fun w => flush_run avail w run) (temit (rev run)).
Proof.
  intros [|b run]; [apply spec_ok|]. unfold flush_run, write_string_fragment. apply spec_write.
Qed.

Lemma spec_contents : forall bytes run,
  spec (fun w => escaped_contents avail w run bytes) (temit (rev run) +> t_contents bytes).
Proof.
  induction bytes as [|b rest IH]; intros run; cbn [escaped_contents t_contents].
  - eapply spec_conv; [apply spec_flush_run|]. rewrite tseq_emit_emit, app_nil_r. reflexivity.
  - unfold t_esc_byte. destruct (escape_of b =? 0).
    + eapply spec_conv; [apply IH|]. cbn [rev]. rewrite <- tseq_assoc, tseq_emit_emit. reflexivity.
    + destruct (classify (escape_of b) b) as [ce|].
      * eapply spec_conv.
        { apply spec_bind; [apply spec_flush_run|].
          apply spec_bind; [apply spec_write_seq|apply (IH [])]. }
        cbn [rev]. rewrite tseq_nil_l. reflexivity.
      * eapply spec_conv; [apply spec_bind; [apply spec_flush_run|apply spec_err]|].
        rewrite tseq_fail_l. reflexivity.
Qed.

Lemma spec_str : forall s, spec (fun w => format_escaped_str avail w s) (t_str s).
Proof.
  intros s. unfold format_escaped_str, t_str.
  apply spec_bind; [apply spec_write|]. apply spec_bind; [|apply spec_write].
  eapply spec_conv; [apply (spec_contents s [])|]. cbn [rev]. apply tseq_nil_l.
Qed.

Lemma spec_bytes_loop : forall value first,
  spec (fun w => byte_array_loop avail w first value) (t_bytes_loop first value).
Proof.
  induction value as [|b rest IH]; intros first; cbn [byte_array_loop t_bytes_loop].
  - apply spec_write.
  - apply spec_bind; [apply spec_sep|]. apply spec_bind; [apply spec_write|].
    unfold end_array_value. cbn [tri]. apply IH.
Qed.

Lemma spec_byte_array : forall value, spec (fun w => write_byte_array avail w value) (t_byte_array value).
Proof. intros. apply spec_bind; [apply spec_write|apply spec_bytes_loop]. Qed.

Lemma spec_key : forall k, spec (zkey avail k) (t_key k).
Proof.
  induction k; cbn [zkey t_key]; try apply spec_err; try (apply spec_str).
  - apply spec_bind; [apply spec_write|]. apply spec_bind; apply spec_write.
  - exact IHk.
  - exact IHk1.
Qed.

Lemma spec_loop : forall A (item : A -> cstate -> writer -> res writer) fin titem tfin l,
  Forall (fun a => forall st, spec (item a st) (titem a st)) l ->
  (forall st, spec (fin st) (tfin st)) ->
  forall st, spec (loop item fin l st) (t_loop titem tfin l st).
Proof.
  intros A item fin titem tfin l Hl Hfin. induction Hl as [|a r Ha _ IH]; intros st; cbn [loop t_loop].
  - apply Hfin.
  - apply spec_bind; [apply Ha|apply IH].
Qed.

Lemma spec_seq_end : forall st, spec (seq_end avail st) (t_seq_end st).
Proof. intros [| |]; [apply spec_ok|apply spec_write|apply spec_write]. Qed.
Lemma spec_map_end : forall st, spec (map_end avail st) (t_map_end st).
Proof. intros [| |]; [apply spec_ok|apply spec_write|apply spec_write]. Qed.
Lemma spec_tuple_variant_end : forall st, spec (tuple_variant_end avail st) (t_tuple_variant_end st).
Proof.
  intros st. unfold tuple_variant_end, t_tuple_variant_end, end_object_value.
  apply spec_bind; [|cbn [tri]; apply spec_write].
  destruct st; [apply spec_ok|apply spec_write|apply spec_write].
Qed.
Lemma spec_struct_variant_end : forall st, spec (struct_variant_end avail st) (t_struct_variant_end st).
Proof.
  intros st. unfold struct_variant_end, t_struct_variant_end, end_object_value.
  apply spec_bind; [|cbn [tri]; apply spec_write].
  destruct st; [apply spec_ok|apply spec_write|apply spec_write].
Qed.

Lemma spec_seq_element : forall f tf e st, spec (f e) (tf e) ->
  spec (seq_element avail f e st) (t_seq_element tf e st).
Proof.
  intros f tf e st H. unfold seq_element, t_seq_element, end_array_value.
  apply spec_bind; [apply spec_sep|].
  eapply spec_conv; [apply spec_bind; [exact H|apply spec_ok]|apply tseq_nil_r].
Qed.

Lemma spec_map_key : forall k st, spec (map_key avail k st) (t_map_key k st).
Proof.
  intros k st. unfold map_key, t_map_key, end_object_key.
  apply spec_bind; [apply spec_ksep|].
  eapply spec_conv; [apply spec_bind; [apply spec_key|apply spec_ok]|apply tseq_nil_r].
Qed.

Lemma spec_map_value : forall f tf x, spec (f x) (tf x) -> spec (map_value avail f x) (t_map_value tf x).
Proof.
  intros f tf x H. unfold map_value, t_map_value, end_object_value.
  apply spec_bind; [apply spec_write|].
  eapply spec_conv; [apply spec_bind; [exact H|apply spec_ok]|apply tseq_nil_r].
Qed.

Lemma spec_map_entry : forall f tf kv st, spec (f (snd kv)) (tf (snd kv)) ->
  spec (map_entry avail f kv st) (t_map_entry tf kv st).
Proof.
  intros f tf [k x] st H. unfold map_entry, t_map_entry. cbn [fst snd] in *.
  apply spec_bind; [apply spec_map_key|apply spec_map_value; exact H].
Qed.

Lemma spec_struct_field : forall f tf kv st, spec (f (snd kv)) (tf (snd kv)) ->
  spec (struct_field avail f kv st) (t_struct_field tf kv st).
Proof.
  intros f tf [k x] st H. unfold struct_field, t_struct_field. cbn [fst snd] in *.
  apply spec_bind; [apply spec_map_key|apply spec_map_value; exact H].
Qed.

Lemma spec_serialize_seq : forall len body tbody, (forall st, spec (body st) (tbody st)) ->
  spec (serialize_seq avail len body) (t_open 91 93 len tbody).
Proof.
  intros len body tbody H. unfold serialize_seq, t_open.
  apply spec_bind; [apply spec_write|]. destruct (hint0 len); [|apply H].
  apply spec_bind; [apply spec_write|apply H].
Qed.

Lemma spec_serialize_map : forall len body tbody, (forall st, spec (body st) (tbody st)) ->
  spec (serialize_map avail len body) (t_open 123 125 len tbody).
Proof.
  intros len body tbody H. unfold serialize_map, t_open.
  apply spec_bind; [apply spec_write|]. destruct (hint0 len); [|apply H].
  apply spec_bind; [apply spec_write|apply H].
Qed.

Lemma spec_variant_header : forall variant, spec (variant_header avail variant) (t_variant_header variant).
Proof.
  intros variant. unfold variant_header, t_variant_header, begin_object_key, end_object_key.
  apply spec_bind; [apply spec_write|]. cbn [tri].
  apply spec_bind; [apply spec_str|apply spec_write].
Qed.

Lemma Forall_elems : forall (P : sval -> Prop) (Q : sval -> Prop) es,
  (forall e, P e -> Q e) -> Forall P es -> Forall Q es.
Proof. intros P Q es H HF. eapply Forall_impl; eassumption. Qed.

(* the value serializer behaves as the writer fed with the value's trace *)
Theorem zs_spec : forall v, spec (zs avail v) (trace v).
Proof.
  induction v using sval_ind'; cbn [zs trace].
  - apply spec_write.
  - apply spec_write.
  - destruct f; apply spec_write.
  - destruct f; apply spec_write.
  - apply spec_str.
  - apply spec_str.
  - apply spec_byte_array.
  - apply spec_write.
  - exact IHv.
  - apply spec_write.
  - apply spec_write.
  - apply spec_str.
  - exact IHv.
  - apply spec_bind; [apply spec_variant_header|]. apply spec_bind; [exact IHv|].
    unfold end_object_value. cbn [tri]. apply spec_write.
  - apply spec_serialize_seq. intros st. apply spec_loop; [|apply spec_seq_end].
    eapply Forall_impl; [|exact H]. intros e He st'. apply spec_seq_element. exact He.
  - apply spec_serialize_seq. intros st. apply spec_loop; [|apply spec_seq_end].
    eapply Forall_impl; [|exact H]. intros e He st'. apply spec_seq_element. exact He.
  - apply spec_serialize_seq. intros st. apply spec_loop; [|apply spec_seq_end].
    eapply Forall_impl; [|exact H]. intros e He st'. apply spec_seq_element. exact He.
  - apply spec_bind; [apply spec_variant_header|].
    apply spec_serialize_seq. intros st. apply spec_loop; [|apply spec_tuple_variant_end].
    eapply Forall_impl; [|exact H]. intros e He st'. apply spec_seq_element. exact He.
  - apply spec_serialize_map. intros st. apply spec_loop; [|apply spec_map_end].
    eapply Forall_impl; [|exact H]. intros e He st'. apply spec_map_entry. exact He.
  - apply spec_serialize_map. intros st. apply spec_loop; [|apply spec_map_end].
    eapply Forall_impl; [|exact H]. intros e He st'. apply spec_struct_field. exact He.
  - apply spec_bind; [apply spec_variant_header|].
    apply spec_serialize_map. intros st. apply spec_loop; [|apply spec_struct_variant_end].
    eapply Forall_impl; [|exact H]. intros e He st'. apply spec_struct_field. exact He.
  - apply spec_str.
  - exact IHv1.
Qed.

End Spec.

(* what to_slice returns, in terms of the trace *)
Theorem zser_trace : forall v n,
  zser v n = if N.of_nat (length (fst (trace v))) <=? n
             then match snd (trace v) with None => Ok (fst (trace v)) | Some e => Err e end
             else Err BufferTooSmall.
Proof.
  intros v n. unfold zser, zser_at. rewrite (zs_spec n v wnew) by (cbn [wnew pos]; lia).
  unfold outcome. cbn [wnew pos]. rewrite N.add_0_l.
  destruct (N.of_nat (length (fst (trace v))) <=? n); [|reflexivity].
  destruct (snd (trace v)); [reflexivity|]. cbn [tri wpush out wnew].
  rewrite rev_append_rev, app_nil_r, rev_involutive. reflexivity.
Qed.

(* ------------------------------------------------------------------ the trace, characterised *)

(* every byte is escaped exactly as the reference escapes it (uses the table theorem re-proved
   against the translated table on every run); the `unreachable_unchecked` arm is never taken *)
Lemma t_esc_byte_ref : forall b, t_esc_byte b = temit (ref_byte b).
Proof.
  intros b. unfold t_esc_byte, ref_byte.
  destruct (N.lt_ge_cases b 256) as [Hb|Hb].
  - destruct (C03_escape_table b Hb) as [Hiff Hesc].
    destruct (N.eqb_spec (escape_of b) 0) as [Hz|Hnz].
    + destruct (needs_escape b) eqn:Hn; [|reflexivity].
      apply needs_escape_spec in Hn. apply Hiff in Hn. contradiction.
    + destruct (Hesc Hnz) as (ce & Hc & Hw). rewrite Hc, Hw.
      replace (needs_escape b) with true; [reflexivity|].
      symmetry. apply needs_escape_spec. apply Hiff. exact Hnz.
  - rewrite (escape_of_big b Hb). cbn [N.eqb].
    replace (needs_escape b) with false; [reflexivity|].
    symmetry. unfold needs_escape. rewrite !orb_false_iff, N.ltb_ge, !N.eqb_neq. lia.
Qed.

Lemma t_contents_ref : forall s, t_contents s = temit (flat_map ref_byte s).
Proof.
  induction s as [|b r IH]; cbn [t_contents flat_map]; [reflexivity|].
  rewrite t_esc_byte_ref, IH. apply tseq_emit_emit.
Qed.

Lemma t_str_ref : forall s, t_str s = temit (ref_string s).
Proof. intros s. unfold t_str, ref_string. rewrite t_contents_ref, !tseq_emit_emit. reflexivity. Qed.

(* items each preceded by a comma / the same without the very first comma *)
Definition commas (items : list (list byte)) : list byte := concat (map (fun i => 44 :: i) items).
Definition body (first : bool) (items : list (list byte)) : list byte :=
  match items with [] => [] | i :: r => sepb first ++ i ++ commas r end.
Definition st_after {A} (st : cstate) (l : list A) : cstate := match l with [] => st | _ => Rest end.

Lemma join_commas : forall i r, join [44] (i :: r) = i ++ commas r.
Proof.
  intros i r. revert i. induction r as [|j r IH]; intros i.
  - cbn. rewrite app_nil_r. reflexivity.
  - change (join [44] (i :: j :: r)) with (i ++ [44] ++ join [44] (j :: r)). rewrite IH. reflexivity.
Qed.

Lemma body_false : forall items, body false items = commas items.
Proof. intros [|i r]; reflexivity. Qed.

Lemma bracket_ok : forall (opn cls : byte) (early : bool) items,
  [opn] ++ (if early then [cls] ++ body false items ++ endb cls (st_after Empty items)
            else body true items ++ endb cls (st_after First items))
  = bracketed opn cls early items.
Proof.
  intros opn cls early [|i r]; destruct early; cbn [body st_after endb bracketed sepb app];
    try reflexivity; rewrite join_commas.
  - cbn [app]. rewrite <- !app_assoc. reflexivity.
  - rewrite <- !app_assoc. reflexivity.
Qed.

Lemma t_bytes_loop_ref : forall value first,
  t_bytes_loop first value = temit (body first (map (fun b => fmt_int (Z.of_N b)) value) ++ [93]).
Proof.
  induction value as [|b r IH]; intros first; cbn [t_bytes_loop map]; [reflexivity|].
  rewrite IH, !tseq_emit_emit, body_false. cbn [body]. rewrite <- !app_assoc. reflexivity.
Qed.

Lemma t_byte_array_ref : forall value,
  t_byte_array value = temit (ref_array false (map (fun b => fmt_int (Z.of_N b)) value)).
Proof.
  intros value. unfold t_byte_array, ref_array. rewrite t_bytes_loop_ref, tseq_emit_emit.
  rewrite <- (bracket_ok 91 93 false). f_equal. f_equal.
  destruct value; reflexivity.
Qed.

Definition KEY := KeyMustBeAString.

Lemma t_key_char : forall k,
  (key_ok k = true -> exists bs, t_key k = temit bs /\ ref_key k = Some bs) /\
  (key_ok k = false -> t_key k = tfail KEY).
Proof.
  induction k; cbn [key_ok t_key ref_key]; split; intros Hk; try discriminate; try reflexivity.
  - eexists. split; [rewrite !tseq_emit_emit; reflexivity|reflexivity].
  - eexists. split; [apply t_str_ref|reflexivity].
  - eexists. split; [apply t_str_ref|reflexivity].
  - eexists. split; [apply t_str_ref|reflexivity].
  - apply IHk. exact Hk.
  - apply IHk. exact Hk.
  - eexists. split; [apply t_str_ref|reflexivity].
  - apply IHk1. exact Hk.
  - apply IHk1. exact Hk.
Qed.

Lemma t_loop_char : forall A (titem : A -> cstate -> T) tfin (ok : A -> bool)
                           (ritem : A -> option (list byte)) (fb : cstate -> list byte) l,
  (forall st, tfin st = temit (fb st)) ->
  Forall (fun a => (ok a = true -> exists i, ritem a = Some i /\
                                   forall st, titem a st = temit (sepb (is_first st) ++ i)) /\
                   (ok a = false -> forall st, snd (titem a st) = Some KEY)) l ->
  (forallb ok l = true ->
     exists items, sequence (map ritem l) = Some items /\
       forall st, t_loop titem tfin l st = temit (body (is_first st) items ++ fb (st_after st items))) /\
  (forallb ok l = false -> forall st, snd (t_loop titem tfin l st) = Some KEY).
Proof.
  intros A titem tfin ok ritem fb l Hfin Hl. induction Hl as [|a r [Hat Haf] _ [IHt IHf]].
  - split; [|discriminate]. intros _. exists []. split; [reflexivity|]. intros st. apply Hfin.
  - cbn [forallb]. split.
    + intros H. apply andb_true_iff in H. destruct H as [Ha Hr].
      destruct (Hat Ha) as (i & Hi & Hti). destruct (IHt Hr) as (items & Hs & Ht).
      exists (i :: items). split.
      * cbn [map sequence]. rewrite Hi, Hs. reflexivity.
      * intros st. cbn [t_loop]. rewrite Hti, Ht, tseq_emit_emit. cbn [is_first body st_after].
        rewrite body_false, <- !app_assoc.
        replace (st_after Rest items) with Rest by (destruct items; reflexivity). reflexivity.
    + intros H st. cbn [t_loop]. destruct (ok a) eqn:Ha.
      * destruct (Hat eq_refl) as (i & _ & Hti). rewrite Hti. apply tseq_emit_err. apply IHf. exact H.
      * apply tseq_err_l. apply Haf. reflexivity.
Qed.

Definition char_of (v : sval) : Prop :=
  (keys_ok v = true -> exists bs, trace v = temit bs /\ ref_enc v = Some bs) /\
  (keys_ok v = false -> snd (trace v) = Some KEY).

Lemma t_open_char : forall opn cls A (titem : A -> cstate -> T) tfin ok ritem fb l,
  (forall st, tfin st = temit (fb st)) ->
  Forall (fun a => (ok a = true -> exists i, ritem a = Some i /\
                                   forall st, titem a st = temit (sepb (is_first st) ++ i)) /\
                   (ok a = false -> forall st, snd (titem a st) = Some KEY)) l ->
  (forallb ok l = true ->
     exists items, sequence (map ritem l) = Some items /\
       forall len, t_open opn cls len (t_loop titem tfin l)
                   = temit ([opn] ++ if hint0 len then [cls] ++ body false items ++ fb (st_after Empty items)
                                     else body true items ++ fb (st_after First items))) /\
  (forallb ok l = false -> forall len, snd (t_open opn cls len (t_loop titem tfin l)) = Some KEY).
Proof.
  intros opn cls A titem tfin ok ritem fb l Hfin Hl.
  destruct (t_loop_char A titem tfin ok ritem fb l Hfin Hl) as [Ht Hf]. split.
  - intros H. destruct (Ht H) as (items & Hs & Hl'). exists items. split; [exact Hs|].
    intros len. unfold t_open. destruct (hint0 len); rewrite !Hl', !tseq_emit_emit; reflexivity.
  - intros H len. unfold t_open. apply tseq_emit_err. destruct (hint0 len).
    + apply tseq_emit_err. apply Hf. exact H.
    + apply Hf. exact H.
Qed.

Lemma elems_premise : forall es, Forall char_of es ->
  Forall (fun a => (keys_ok a = true -> exists i, ref_enc a = Some i /\
                      forall st, t_seq_element trace a st = temit (sepb (is_first st) ++ i)) /\
                   (keys_ok a = false -> forall st, snd (t_seq_element trace a st) = Some KEY)) es.
Proof.
  intros es H. eapply Forall_impl; [|exact H]. intros a [Ht Hf]. split.
  - intros Hk. destruct (Ht Hk) as (bs & Htr & Hr). exists bs. split; [exact Hr|].
    intros st. unfold t_seq_element. rewrite Htr. apply tseq_emit_emit.
  - intros Hk st. unfold t_seq_element. apply tseq_emit_err. apply Hf. exact Hk.
Qed.

Lemma member_premise : forall (k : sval) (x : sval),
  char_of x ->
  (key_ok k && keys_ok x = true -> exists i, ref_member (ref_key k) (ref_enc x) = Some i /\
      forall st, t_map_key k st +> t_map_value trace x = temit (sepb (is_first st) ++ i)) /\
  (key_ok k && keys_ok x = false -> forall st, snd (t_map_key k st +> t_map_value trace x) = Some KEY).
Proof.
  intros k x [Ht Hf]. destruct (t_key_char k) as [Hkt Hkf]. split.
  - intros H. apply andb_true_iff in H. destruct H as [Hk Hx].
    destruct (Hkt Hk) as (kb & Hkb & Hrk). destruct (Ht Hx) as (xb & Hxb & Hrx).
    exists (member_text (kb, xb)). rewrite Hrk, Hrx. split; [reflexivity|].
    intros st. unfold t_map_key, t_map_value. rewrite Hkb, Hxb, !tseq_emit_emit.
    unfold member_text. cbn [fst snd]. rewrite <- !app_assoc. reflexivity.
  - intros H st. unfold t_map_key, t_map_value. destruct (key_ok k) eqn:Hk.
    + destruct (Hkt eq_refl) as (kb & Hkb & _). rewrite Hkb, tseq_emit_emit.
      apply tseq_emit_err. apply tseq_emit_err. apply Hf. exact H.
    + rewrite (Hkf eq_refl). reflexivity.
Qed.

Lemma entries_premise : forall kvs, Forall (fun kv : sval * sval => char_of (snd kv)) kvs ->
  Forall (fun kv => (key_ok (fst kv) && keys_ok (snd kv) = true ->
                       exists i, ref_member (ref_key (fst kv)) (ref_enc (snd kv)) = Some i /\
                         forall st, t_map_entry trace kv st = temit (sepb (is_first st) ++ i)) /\
                    (key_ok (fst kv) && keys_ok (snd kv) = false ->
                       forall st, snd (t_map_entry trace kv st) = Some KEY)) kvs.
Proof.
  intros kvs H. eapply Forall_impl; [|exact H]. intros [k x] Hx. cbn [fst snd] in *.
  unfold t_map_entry. cbn [fst snd]. apply member_premise. exact Hx.
Qed.

Lemma fields_premise : forall fs, Forall (fun kv : list byte * sval => char_of (snd kv)) fs ->
  Forall (fun kv => (keys_ok (snd kv) = true ->
                       exists i, ref_member (Some (ref_string (fst kv))) (ref_enc (snd kv)) = Some i /\
                         forall st, t_struct_field trace kv st = temit (sepb (is_first st) ++ i)) /\
                    (keys_ok (snd kv) = false ->
                       forall st, snd (t_struct_field trace kv st) = Some KEY)) fs.
Proof.
  intros fs H. eapply Forall_impl; [|exact H]. intros [k x] Hx. cbn [fst snd] in *.
  unfold t_struct_field. cbn [fst snd].
  destruct (member_premise (SStr k) x Hx) as [Ht Hf]. cbn [key_ok ref_key andb] in *. split; assumption.
Qed.

Lemma t_variant_header_ref : forall variant,
  t_variant_header variant = temit ([123] ++ ref_string variant ++ [58]).
Proof. intros. unfold t_variant_header. rewrite t_str_ref, !tseq_emit_emit. reflexivity. Qed.

Lemma tagged_ok : forall variant content,
  [123] ++ ref_string variant ++ [58] ++ content ++ [125] = ref_tagged variant content.
Proof.
  intros. unfold ref_tagged, ref_object, bracketed, member_text. cbn [join fst snd map].
  rewrite <- !app_assoc. reflexivity.
Qed.

(* The trace of a value whose keys are all acceptable is exactly the reference encoding, with no
   error; a value with an unacceptable key somewhere ends in KeyMustBeAString. *)
Theorem trace_char : forall v, char_of v.
Proof.
  induction v using sval_ind'; unfold char_of; cbn [keys_ok trace ref_enc];
    try (split; [intros _; eexists; split; reflexivity|discriminate]).
  - (* char *) split; [intros _; eexists; split; [apply t_str_ref|reflexivity]|discriminate].
  - (* str *) split; [intros _; eexists; split; [apply t_str_ref|reflexivity]|discriminate].
  - (* bytes *) split; [intros _; eexists; split; [apply t_byte_array_ref|reflexivity]|discriminate].
  - exact IHv.
  - (* unit variant *) split; [intros _; eexists; split; [apply t_str_ref|reflexivity]|discriminate].
  - exact IHv.
  - (* newtype variant *) destruct IHv as [Ht Hf]. split.
    + intros Hk. destruct (Ht Hk) as (bs & Htr & Hr). rewrite Htr, Hr, t_variant_header_ref.
      eexists. split; [rewrite !tseq_emit_emit; reflexivity|]. cbn [option_map]. f_equal.
      rewrite <- tagged_ok, <- !app_assoc. reflexivity.
    + intros Hk. rewrite t_variant_header_ref. apply tseq_emit_err. apply tseq_err_l. apply Hf. exact Hk.
  - (* seq *)
    destruct (t_open_char 91 93 _ (t_seq_element trace) t_seq_end keys_ok ref_enc (endb 93) es
                (fun st => eq_refl) (elems_premise es H)) as [Ht Hf]. split.
    + intros Hk. destruct (Ht Hk) as (items & Hs & Ho). rewrite Hs, Ho. eexists. split; [reflexivity|].
      cbn [option_map]. f_equal. symmetry. apply bracket_ok.
    + intros Hk. apply Hf. exact Hk.
  - (* tuple *)
    destruct (t_open_char 91 93 _ (t_seq_element trace) t_seq_end keys_ok ref_enc (endb 93) es
                (fun st => eq_refl) (elems_premise es H)) as [Ht Hf]. split.
    + intros Hk. destruct (Ht Hk) as (items & Hs & Ho). rewrite Hs, Ho. eexists. split; [reflexivity|].
      cbn [option_map]. f_equal. symmetry. apply bracket_ok.
    + intros Hk. apply Hf. exact Hk.
  - (* tuple struct *)
    destruct (t_open_char 91 93 _ (t_seq_element trace) t_seq_end keys_ok ref_enc (endb 93) es
                (fun st => eq_refl) (elems_premise es H)) as [Ht Hf]. split.
    + intros Hk. destruct (Ht Hk) as (items & Hs & Ho). rewrite Hs, Ho. eexists. split; [reflexivity|].
      cbn [option_map]. f_equal. symmetry. apply bracket_ok.
    + intros Hk. apply Hf. exact Hk.
  - (* tuple variant *)
    destruct (t_open_char 91 93 _ (t_seq_element trace) t_tuple_variant_end keys_ok ref_enc
                (fun st => endb 93 st ++ [125]) es (fun st => eq_refl) (elems_premise es H)) as [Ht Hf].
    split.
    + intros Hk. destruct (Ht Hk) as (items & Hs & Ho). rewrite Hs, Ho, t_variant_header_ref.
      eexists. split; [rewrite tseq_emit_emit; reflexivity|]. cbn [option_map]. f_equal.
      rewrite <- tagged_ok, <- (bracket_ok 91 93). unfold ref_array.
      destruct (hint0 (Some len)); rewrite <- !app_assoc; reflexivity.
    + intros Hk. rewrite t_variant_header_ref. apply tseq_emit_err. apply Hf. exact Hk.
  - (* map *)
    destruct (t_open_char 123 125 _ (t_map_entry trace) t_map_end
                (fun kv => key_ok (fst kv) && keys_ok (snd kv))
                (fun kv => ref_member (ref_key (fst kv)) (ref_enc (snd kv))) (endb 125) kvs
                (fun st => eq_refl) (entries_premise kvs H)) as [Ht Hf]. split.
    + intros Hk. destruct (Ht Hk) as (items & Hs & Ho). rewrite Hs, Ho. eexists. split; [reflexivity|].
      cbn [option_map]. f_equal. symmetry. apply bracket_ok.
    + intros Hk. apply Hf. exact Hk.
  - (* struct *)
    destruct (t_open_char 123 125 _ (t_struct_field trace) t_map_end
                (fun kv => keys_ok (snd kv))
                (fun kv => ref_member (Some (ref_string (fst kv))) (ref_enc (snd kv))) (endb 125) fs
                (fun st => eq_refl) (fields_premise fs H)) as [Ht Hf]. split.
    + intros Hk. destruct (Ht Hk) as (items & Hs & Ho). rewrite Hs, Ho. eexists. split; [reflexivity|].
      cbn [option_map]. f_equal. symmetry. apply bracket_ok.
    + intros Hk. apply Hf. exact Hk.
  - (* struct variant *)
    destruct (t_open_char 123 125 _ (t_struct_field trace) t_struct_variant_end
                (fun kv => keys_ok (snd kv))
                (fun kv => ref_member (Some (ref_string (fst kv))) (ref_enc (snd kv)))
                (fun st => endb 125 st ++ [125]) fs
                (fun st => eq_refl) (fields_premise fs H)) as [Ht Hf]. split.
    + intros Hk. destruct (Ht Hk) as (items & Hs & Ho). rewrite Hs, Ho, t_variant_header_ref.
      eexists. split; [rewrite tseq_emit_emit; reflexivity|]. cbn [option_map]. f_equal.
      rewrite <- tagged_ok, <- (bracket_ok 123 125). unfold ref_object.
      destruct (hint0 (Some len)); rewrite <- !app_assoc; reflexivity.
    + intros Hk. rewrite t_variant_header_ref. apply tseq_emit_err. apply Hf. exact Hk.
  - (* collect_str *) split; [intros _; eexists; split; [apply t_str_ref|reflexivity]|discriminate].
  - (* is_human_readable *) exact IHv1.
Qed.

(* ================================================================== the theorems *)

Lemma trace_ok_or_key : forall v,
  (keys_ok v = true /\ exists bs, trace v = temit bs /\ ref_enc v = Some bs) \/
  (keys_ok v = false /\ snd (trace v) = Some KEY).
Proof.
  intros v. destruct (trace_char v) as [Ht Hf]. destruct (keys_ok v); [left|right]; auto.
Qed.

(* success means: the keys were acceptable and the bytes are the reference bytes *)
Lemma zser_ok_inv : forall v n bs, zser v n = Ok bs ->
  keys_ok v = true /\ ref_enc v = Some bs /\ trace v = temit bs /\ N.of_nat (length bs) <= n.
Proof.
  intros v n bs H. rewrite zser_trace in H.
  destruct (N.leb_spec (N.of_nat (length (fst (trace v)))) n) as [Hle|Hgt]; [|discriminate].
  destruct (trace_ok_or_key v) as [(Hk & bs' & Ht & Hr)|(Hk & He)].
  - rewrite Ht in *. cbn [fst snd temit] in *. inversion H; subst. auto.
  - rewrite He in H. discriminate.
Qed.

Theorem equal : forall v n bs, zser v n = Ok bs -> ref_enc v = Some bs.
Proof. intros v n bs H. apply (zser_ok_inv v n bs H). Qed.

Theorem buffer_independent : forall v n bs, zser v n = Ok bs ->
  N.of_nat (length bs) <= n /\
  forall m, (N.of_nat (length bs) <= m -> zser v m = Ok bs) /\
            (m < N.of_nat (length bs) -> zser v m = Err BufferTooSmall).
Proof.
  intros v n bs H. destruct (zser_ok_inv v n bs H) as (_ & _ & Ht & Hn). split; [exact Hn|].
  intros m. rewrite zser_trace, Ht. cbn [fst snd temit]. split; intros Hm.
  - destruct (N.leb_spec (N.of_nat (length bs)) m); [reflexivity|lia].
  - destruct (N.leb_spec (N.of_nat (length bs)) m); [lia|reflexivity].
Qed.

Theorem never_unreachable : forall v n, zser v n <> Err Unreachable.
Proof.
  intros v n. rewrite zser_trace. destruct (N.of_nat (length (fst (trace v))) <=? n); [|discriminate].
  destruct (trace_ok_or_key v) as [(_ & bs & Ht & _)|(_ & He)].
  - rewrite Ht. discriminate.
  - rewrite He. discriminate.
Qed.

Theorem bad_keys_refused : forall v, keys_ok v = false ->
  (forall n bs, zser v n <> Ok bs) /\
  exists n0, forall n, (n0 <= n -> zser v n = Err KeyMustBeAString) /\
                       (n < n0 -> zser v n = Err BufferTooSmall).
Proof.
  intros v Hk. split.
  - intros n bs H. apply zser_ok_inv in H. destruct H as [H _]. congruence.
  - exists (N.of_nat (length (fst (trace v)))). intros n. rewrite zser_trace.
    destruct (trace_char v) as [_ Hf]. rewrite (Hf Hk). split; intros Hn.
    + destruct (N.leb_spec (N.of_nat (length (fst (trace v)))) n); [reflexivity|lia].
    + destruct (N.leb_spec (N.of_nat (length (fst (trace v)))) n); [lia|reflexivity].
Qed.

(* and conversely, acceptable keys always serialize once the buffer is large enough *)
Theorem good_keys_accepted : forall v, keys_ok v = true ->
  exists bs, ref_enc v = Some bs /\ forall n, N.of_nat (length bs) <= n -> zser v n = Ok bs.
Proof.
  intros v Hk. destruct (trace_char v) as [Ht _]. destruct (Ht Hk) as (bs & Htr & Hr).
  exists bs. split; [exact Hr|]. intros n Hn. rewrite zser_trace, Htr. cbn [fst snd temit].
  destruct (N.leb_spec (N.of_nat (length bs)) n); [reflexivity|lia].
Qed.

(* ------------------------------------------------------------------ predicates closed under
   concatenation carry over from the strings of a value to its encoding *)
Lemma all_of_Forall : forall A (P : A -> Prop) l, all_of P l <-> Forall P l.
Proof.
  intros A P l. induction l as [|a r IH]; cbn [all_of fold_right].
  - split; [constructor|trivial].
  - fold (all_of P r). rewrite IH. split; [intros [? ?]; constructor; assumption|inversion 1; auto].
Qed.

Lemma sequence_Forall2 : forall A B (f : A -> option B) l items,
  sequence (map f l) = Some items -> Forall2 (fun a i => f a = Some i) l items.
Proof.
  intros A B f l. induction l as [|a r IH]; intros items H; cbn [map sequence] in H.
  - inversion H. constructor.
  - destruct (f a) as [i|] eqn:Hf; [|discriminate].
    destruct (sequence (map f r)) as [xs|] eqn:Hs; [|discriminate]. inversion H; subst.
    constructor; [exact Hf|apply IH; reflexivity].
Qed.

Section Closed.
Variable Q : list byte -> Prop.
Hypothesis Qapp : forall a b, Q a -> Q b -> Q (a ++ b).
Hypothesis Qascii : forall l, Forall (fun b => 32 <= b < 128) l -> Q l.
Variables (Pf Ps : list byte -> Prop) (Pc : N -> Prop).
Hypothesis Qtok : forall tok, Pf tok -> Q tok.
Hypothesis Qstr : forall s, Ps s -> Q (ref_string s).
Hypothesis Qchar : forall c, Pc c -> Q (ref_string (utf8_encode c)).

Lemma Q1 : forall b, 32 <= b < 128 -> Q [b].
Proof. intros b Hb. apply Qascii. constructor; [exact Hb|constructor]. Qed.
Lemma Qnil : Q [].
Proof. apply Qascii. constructor. Qed.

Lemma Q_join : forall items, Forall Q items -> Q (join [44] items).
Proof.
  induction 1 as [|i r Hi Hr IH]; [apply Qnil|].
  destruct r as [|j r']; [exact Hi|].
  change (join [44] (i :: j :: r')) with (i ++ [44] ++ join [44] (j :: r')).
  apply Qapp; [exact Hi|]. apply Qapp; [apply Q1; lia|exact IH].
Qed.

Lemma Q_bracketed : forall opn cls early items, 32 <= opn < 128 -> 32 <= cls < 128 ->
  Forall Q items -> Q (bracketed opn cls early items).
Proof.
  intros opn cls early items Ho Hc Hi. unfold bracketed. destruct items as [|i r].
  - apply Qascii. repeat constructor; lia.
  - destruct early.
    + apply Qapp; [apply Qascii; repeat constructor; lia|].
      apply Qapp; [apply Q_join; exact Hi|apply Q1; exact Hc].
    + apply Qapp; [apply Q1; exact Ho|]. apply Qapp; [apply Q_join; exact Hi|apply Q1; exact Hc].
Qed.

Lemma Q_int : forall z, Q (fmt_int z).
Proof.
  intros z. apply Qascii. eapply Forall_impl; [|apply fmt_int_bytes]. cbv beta. intros; lia.
Qed.
Lemma Q_bool : forall b, Q (ref_bool b).
Proof. intros [|]; apply Qascii; repeat constructor; lia. Qed.
Lemma Q_null : Q ref_null.
Proof. apply Qascii; repeat constructor; lia. Qed.
Lemma Q_float : forall f, fval_All Pf f -> Q (ref_float f).
Proof. intros [tok|] H; [apply Qtok; exact H|apply Q_null]. Qed.
Lemma Q_quoted : forall t, Q t -> Q (quoted t).
Proof. intros t H. unfold quoted. apply Qapp; [apply Q1; lia|]. apply Qapp; [exact H|apply Q1; lia]. Qed.
Lemma Q_member : forall k x, Q k -> Q x -> Q (member_text (k, x)).
Proof.
  intros k x Hk Hx. unfold member_text. cbn [fst snd].
  apply Qapp; [exact Hk|]. apply Qapp; [apply Q1; lia|exact Hx].
Qed.
Lemma Q_tagged : forall variant content, Ps variant -> Q content -> Q (ref_tagged variant content).
Proof.
  intros variant content Hv Hc. unfold ref_tagged, ref_object.
  apply Q_bracketed; try lia. constructor; [|constructor]. apply Q_member; [apply Qstr; exact Hv|exact Hc].
Qed.

Lemma Q_key : forall k bs, sval_All Pf Ps Pc k -> ref_key k = Some bs -> Q bs.
Proof.
  induction k; intros bs' HA H; cbn [ref_key sval_All] in *; try discriminate;
    try (injection H as <-).
  - apply Q_quoted, Q_bool.
  - apply Q_quoted, Q_int.
  - destruct f as [tok|]; [|discriminate]. injection H as <-. apply Q_quoted, Qtok. exact HA.
  - destruct f as [tok|]; [|discriminate]. injection H as <-. apply Q_quoted, Qtok. exact HA.
  - apply Qchar. exact HA.
  - apply Qstr. exact HA.
  - apply IHk; assumption.
  - apply Qstr. exact HA.
  - apply IHk; assumption.
  - apply Qstr. exact HA.
  - exact (IHk1 bs' HA H).
Qed.

Definition closed_of (v : sval) : Prop :=
  forall bs, sval_All Pf Ps Pc v -> ref_enc v = Some bs -> Q bs.

Lemma Q_items : forall es items, Forall closed_of es -> all_of (sval_All Pf Ps Pc) es ->
  sequence (map ref_enc es) = Some items -> Forall Q items.
Proof.
  intros es items HF HA Hs. apply all_of_Forall in HA. apply sequence_Forall2 in Hs.
  induction Hs as [|e i es' items' He _ IH]; [constructor|].
  pose proof (Forall_inv HF) as Hc. pose proof (Forall_inv_tail HF) as HF'.
  pose proof (Forall_inv HA) as HAe. pose proof (Forall_inv_tail HA) as HA'.
  constructor; [apply (Hc i HAe He)|apply IH; assumption].
Qed.

Lemma Q_members : forall kvs items, Forall (fun kv : sval * sval => closed_of (snd kv)) kvs ->
  all_of (fun kv => sval_All Pf Ps Pc (fst kv) /\ sval_All Pf Ps Pc (snd kv)) kvs ->
  sequence (map (fun kv => ref_member (ref_key (fst kv)) (ref_enc (snd kv))) kvs) = Some items ->
  Forall Q items.
Proof.
  intros kvs items HF HA Hs. apply all_of_Forall in HA. apply sequence_Forall2 in Hs.
  induction Hs as [|[k x] i kvs' items' He _ IH]; [constructor|].
  pose proof (Forall_inv HF) as Hc. pose proof (Forall_inv_tail HF) as HF'.
  pose proof (Forall_inv HA) as [HAk HAx]. pose proof (Forall_inv_tail HA) as HA'.
  constructor; [|apply IH; assumption].
  cbn [fst snd] in *. destruct (ref_key k) as [kb|] eqn:Hk; [|discriminate].
  destruct (ref_enc x) as [xb|] eqn:Hx; [|discriminate]. cbn [ref_member] in He. injection He as <-.
  apply Q_member; [apply (Q_key k kb HAk Hk)|apply (Hc xb HAx Hx)].
Qed.

Lemma Q_fields : forall fs items, Forall (fun kv : list byte * sval => closed_of (snd kv)) fs ->
  all_of (fun kv => Ps (fst kv) /\ sval_All Pf Ps Pc (snd kv)) fs ->
  sequence (map (fun kv => ref_member (Some (ref_string (fst kv))) (ref_enc (snd kv))) fs) = Some items ->
  Forall Q items.
Proof.
  intros fs items HF HA Hs. apply all_of_Forall in HA. apply sequence_Forall2 in Hs.
  induction Hs as [|[k x] i fs' items' He _ IH]; [constructor|].
  pose proof (Forall_inv HF) as Hc. pose proof (Forall_inv_tail HF) as HF'.
  pose proof (Forall_inv HA) as [HAk HAx]. pose proof (Forall_inv_tail HA) as HA'.
  constructor; [|apply IH; assumption].
  cbn [fst snd] in *. destruct (ref_enc x) as [xb|] eqn:Hx; [|discriminate].
  cbn [ref_member] in He. injection He as <-.
  apply Q_member; [apply Qstr; exact HAk|apply (Hc xb HAx Hx)].
Qed.

Theorem ref_enc_closed : forall v, closed_of v.
Proof.
  induction v using sval_ind'; unfold closed_of; intros bs' HA Hr; cbn [ref_enc sval_All] in *;
    try (injection Hr as <-).
  - apply Q_bool.
  - apply Q_int.
  - apply Q_float; exact HA.
  - apply Q_float; exact HA.
  - apply Qchar; exact HA.
  - apply Qstr; exact HA.
  - unfold ref_array. apply Q_bracketed; try lia.
    induction bs as [|b r IH]; cbn [map]; constructor; [apply Q_int|exact IH].
  - apply Q_null.
  - apply IHv; assumption.
  - apply Q_null.
  - apply Q_null.
  - apply Qstr; exact HA.
  - apply IHv; assumption.
  - destruct (ref_enc v) as [xb|] eqn:Hx; [|discriminate]. injection Hr as <-.
    destruct HA as [Hv HAx]. apply Q_tagged; [exact Hv|apply IHv; auto].
  - destruct (sequence (map ref_enc es)) as [items|] eqn:Hs; [|discriminate]. injection Hr as <-.
    unfold ref_array. apply Q_bracketed; try lia. eapply Q_items; eassumption.
  - destruct (sequence (map ref_enc es)) as [items|] eqn:Hs; [|discriminate]. injection Hr as <-.
    unfold ref_array. apply Q_bracketed; try lia. eapply Q_items; eassumption.
  - destruct (sequence (map ref_enc es)) as [items|] eqn:Hs; [|discriminate]. injection Hr as <-.
    unfold ref_array. apply Q_bracketed; try lia. eapply Q_items; eassumption.
  - destruct (sequence (map ref_enc es)) as [items|] eqn:Hs; [|discriminate]. injection Hr as <-.
    destruct HA as [Hv HAx]. apply Q_tagged; [exact Hv|].
    unfold ref_array. apply Q_bracketed; try lia. eapply Q_items; eassumption.
  - destruct (sequence _) as [items|] eqn:Hs; [|discriminate]. injection Hr as <-.
    unfold ref_object. apply Q_bracketed; try lia. eapply Q_members; eassumption.
  - destruct (sequence _) as [items|] eqn:Hs; [|discriminate]. injection Hr as <-.
    unfold ref_object. apply Q_bracketed; try lia. eapply Q_fields; eassumption.
  - destruct (sequence _) as [items|] eqn:Hs; [|discriminate]. injection Hr as <-.
    destruct HA as [Hv HAx]. apply Q_tagged; [exact Hv|].
    unfold ref_object. apply Q_bracketed; try lia. eapply Q_fields; eassumption.
  - apply Qstr; exact HA.
  - exact (IHv1 bs' HA Hr).
Qed.
End Closed.

(* --- the bytes of an escaped string *)
Lemma hexl_bounds : forall d, d < 16 -> 48 <= hexl d <= 102.
Proof. intros d Hd. unfold hexl. destruct (N.ltb_spec d 10); lia. Qed.

Lemma rfc_escape_bytes : forall b, b < 128 -> Forall (fun x => 32 <= x < 128) (rfc_escape b).
Proof.
  intros b Hb. unfold rfc_escape.
  repeat match goal with |- context [if ?c then _ else _] => destruct c end;
    repeat constructor; try lia.
  - pose proof (N.div_mod b 16 ltac:(discriminate)). pose proof (N.mod_upper_bound b 16 ltac:(discriminate)).
    set (q := b / 16) in *. set (r := b mod 16) in *. clearbody q r.
    pose proof (hexl_bounds q ltac:(lia)). lia.
  - pose proof (N.div_mod b 16 ltac:(discriminate)). pose proof (N.mod_upper_bound b 16 ltac:(discriminate)).
    set (q := b / 16) in *. set (r := b mod 16) in *. clearbody q r.
    pose proof (hexl_bounds q ltac:(lia)). lia.
  - pose proof (N.mod_upper_bound b 16 ltac:(discriminate)). set (r := b mod 16) in *. clearbody r.
    pose proof (hexl_bounds r ltac:(lia)). lia.
  - pose proof (N.mod_upper_bound b 16 ltac:(discriminate)). set (r := b mod 16) in *. clearbody r.
    pose proof (hexl_bounds r ltac:(lia)). lia.
Qed.

Lemma needs_escape_false : forall b, needs_escape b = false -> 32 <= b /\ b <> 34 /\ b <> 92.
Proof.
  intros b H. unfold needs_escape in H. rewrite !orb_false_iff, N.ltb_ge, !N.eqb_neq in H. lia.
Qed.

Lemma needs_escape_lt : forall b, needs_escape b = true -> b < 128.
Proof. intros b H. apply needs_escape_spec in H. lia. Qed.

(* no control byte in an escaped string, whatever the bytes of the string *)
Lemma ref_string_clean : forall s, Forall (fun b => 32 <= b) (ref_string s).
Proof.
  intros s. unfold ref_string. apply Forall_app. split; [repeat constructor; lia|].
  apply Forall_app. split; [|repeat constructor; lia].
  induction s as [|b r IH]; cbn [flat_map]; [constructor|]. apply Forall_app. split; [|exact IH].
  unfold ref_byte. destruct (needs_escape b) eqn:Hn.
  - eapply Forall_impl; [|apply rfc_escape_bytes, needs_escape_lt; exact Hn]. cbv beta. intros; lia.
  - apply needs_escape_false in Hn. constructor; [lia|constructor].
Qed.

Lemma ref_string_utf8 : forall s, utf8 s -> utf8 (ref_string s).
Proof.
  intros s Hs. unfold ref_string. apply utf8_app; [apply utf8_ascii; repeat constructor; lia|].
  apply utf8_app; [|apply utf8_ascii; repeat constructor; lia].
  apply utf8_flat_map; [| |exact Hs].
  - intros b Hb. unfold ref_byte. replace (needs_escape b) with false; [reflexivity|].
    symmetry. unfold needs_escape. rewrite !orb_false_iff, N.ltb_ge, !N.eqb_neq. lia.
  - intros b Hb. unfold ref_byte. destruct (needs_escape b).
    + eapply Forall_impl; [|apply rfc_escape_bytes; exact Hb]. cbv beta. intros; lia.
    + constructor; [exact Hb|constructor].
Qed.

Theorem clean_bytes : forall v n bs, floats_clean v -> zser v n = Ok bs -> Forall (fun b => 32 <= b) bs.
Proof.
  intros v n bs Hf H. apply equal in H.
  refine (ref_enc_closed (Forall (fun b => 32 <= b)) _ _ _ _ _ _ _ _ v bs Hf H).
  - intros a b Ha Hb. apply Forall_app. auto.
  - intros l Hl. eapply Forall_impl; [|exact Hl]. cbv beta. intros; lia.
  - intros tok Ht. exact Ht.
  - intros s _. apply ref_string_clean.
  - intros c _. apply ref_string_clean.
Qed.

Theorem output_utf8 : forall v n bs, text_utf8 v -> zser v n = Ok bs -> utf8 bs.
Proof.
  intros v n bs Hf H. apply equal in H.
  refine (ref_enc_closed utf8 _ _ _ _ _ _ _ _ v bs Hf H).
  - apply utf8_app.
  - intros l Hl. apply utf8_ascii. eapply Forall_impl; [|exact Hl]. cbv beta. intros; lia.
  - intros tok Ht. exact Ht.
  - intros s Hs. apply ref_string_utf8. exact Hs.
  - intros c Hc. apply ref_string_utf8. apply utf8_encode_valid. exact Hc.
Qed.

(* ------------------------------------------------------------------ the output is JSON *)
Lemma hexl_hexdig : forall d, d < 16 -> hexdig (hexl d).
Proof. intros d Hd. unfold hexdig, hexl. destruct (N.ltb_spec d 10); lia. Qed.

Lemma jchars_ref_byte : forall b, jchars (ref_byte b).
Proof.
  intros b. unfold ref_byte. destruct (needs_escape b) eqn:Hn.
  - pose proof (needs_escape_lt b Hn) as Hb. unfold rfc_escape.
    repeat match goal with |- context [if ?c then _ else _] => destruct c end;
      try (apply (jc_esc _ []); [cbn [In]; tauto|constructor]).
    pose proof (N.div_mod b 16 ltac:(discriminate)). pose proof (N.mod_upper_bound b 16 ltac:(discriminate)).
    apply (jc_u 48 48 _ _ []).
    + unfold hexdig; lia.
    + unfold hexdig; lia.
    + apply hexl_hexdig. set (q := b / 16) in *. set (r := b mod 16) in *. clearbody q r. lia.
    + apply hexl_hexdig. assumption.
    + constructor.
  - apply needs_escape_false in Hn. apply jc_plain; [exact Hn|constructor].
Qed.

Lemma jstring_ref_string : forall s, jstring (ref_string s).
Proof.
  intros s. unfold ref_string. cbn [app]. constructor.
  induction s as [|b r IH]; cbn [flat_map]; [constructor|]. apply jchars_app; [apply jchars_ref_byte|exact IH].
Qed.

Lemma jstring_quoted_int : forall z, jstring (quoted (fmt_int z)).
Proof.
  intros z. unfold quoted. cbn [app]. constructor.
  pose proof (fmt_int_bytes z) as H. induction H as [|b r Hb _ IH]; constructor; [|exact IH].
  unfold unescaped. lia.
Qed.

Lemma jstring_key : forall k bs, key_ok k = true -> ref_key k = Some bs -> jstring bs.
Proof.
  induction k; intros bs' Hk H; cbn [key_ok ref_key] in *; try discriminate; try (injection H as <-).
  - apply jstring_quoted_int.
  - apply jstring_ref_string.
  - apply jstring_ref_string.
  - apply jstring_ref_string.
  - apply IHk; assumption.
  - apply jstring_ref_string.
  - exact (IHk1 bs' Hk H).
Qed.

Lemma bracketed_plain : forall (opn cls : byte) (early : bool) items,
  early = false \/ items = [] -> bracketed opn cls early items = [opn] ++ join [44] items ++ [cls].
Proof.
  intros opn cls early [|i r] [H|H]; subst; try discriminate; reflexivity.
Qed.

Lemma sequence_nil : forall A B (f : A -> option B) l items,
  sequence (map f l) = Some items -> l = [] -> items = [].
Proof. intros A B f l items H ->. cbn in H. injection H as <-. reflexivity. Qed.

Lemma hint_ok_plain : forall A B (f : A -> option B) len (l : list A) items,
  hint_ok len l = true -> sequence (map f l) = Some items -> hint0 len = false \/ items = [].
Proof.
  intros A B f len l items Hh Hs. unfold hint_ok in Hh. apply orb_true_iff in Hh. destruct Hh as [Hh|Hh].
  - left. apply negb_true_iff. exact Hh.
  - right. destruct l; [|discriminate]. eapply sequence_nil; [exact Hs|reflexivity].
Qed.

Definition json_of (v : sval) : Prop :=
  forall bs, keys_ok v = true -> hints_ok v = true -> floats_ok v -> ref_enc v = Some bs -> jvalue bs.

Lemma jvalue_tagged : forall variant content, jvalue content -> jvalue (ref_tagged variant content).
Proof.
  intros variant content Hc.
  change (ref_tagged variant content)
    with ([123] ++ join [44] (map member_text [(ref_string variant, content)]) ++ [125]).
  apply jv_obj. constructor; [|constructor]. cbn [fst snd]. split; [apply jstring_ref_string|exact Hc].
Qed.

Lemma json_items : forall es items, Forall json_of es ->
  forallb keys_ok es = true -> forallb hints_ok es = true -> all_of floats_ok es ->
  sequence (map ref_enc es) = Some items -> Forall jvalue items.
Proof.
  intros es items HF Hk Hh Hf Hs. apply all_of_Forall in Hf. apply sequence_Forall2 in Hs.
  induction Hs as [|e i es' items' He _ IH]; [constructor|].
  cbn [forallb] in Hk, Hh. apply andb_true_iff in Hk, Hh. destruct Hk as [Hk Hk']. destruct Hh as [Hh Hh'].
  pose proof (Forall_inv HF) as Hc. pose proof (Forall_inv_tail HF) as HF'.
  pose proof (Forall_inv Hf) as Hfe. pose proof (Forall_inv_tail Hf) as Hf'.
  constructor; [apply (Hc i Hk Hh Hfe He)|apply IH; assumption].
Qed.

Lemma json_members : forall kvs items, Forall (fun kv : sval * sval => json_of (snd kv)) kvs ->
  forallb (fun kv => key_ok (fst kv) && keys_ok (snd kv)) kvs = true ->
  forallb (fun kv => hints_ok (snd kv)) kvs = true ->
  all_of (fun kv => floats_ok (fst kv) /\ floats_ok (snd kv)) kvs ->
  sequence (map (fun kv => ref_member (ref_key (fst kv)) (ref_enc (snd kv))) kvs) = Some items ->
  exists members, items = map member_text members /\
                  Forall (fun m => jstring (fst m) /\ jvalue (snd m)) members.
Proof.
  intros kvs items HF Hk Hh Hf Hs. apply all_of_Forall in Hf. apply sequence_Forall2 in Hs.
  induction Hs as [|[k x] i kvs' items' He _ IH]; [exists []; split; [reflexivity|constructor]|].
  cbn [forallb fst snd] in Hk, Hh. apply andb_true_iff in Hk, Hh.
  destruct Hk as [Hk Hk']. destruct Hh as [Hh Hh']. apply andb_true_iff in Hk. destruct Hk as [Hkk Hkx].
  pose proof (Forall_inv HF) as Hc. pose proof (Forall_inv_tail HF) as HF'.
  pose proof (Forall_inv Hf) as [Hfk Hfx]. pose proof (Forall_inv_tail Hf) as Hf'.
  destruct (IH HF' Hk' Hh' Hf') as (members & -> & Hm).
  cbn [fst snd] in *. destruct (ref_key k) as [kb|] eqn:Hrk; [|discriminate].
  destruct (ref_enc x) as [xb|] eqn:Hrx; [|discriminate]. cbn [ref_member] in He. injection He as <-.
  exists ((kb, xb) :: members). split; [reflexivity|]. constructor; [|exact Hm]. cbn [fst snd]. split.
  - apply (jstring_key k kb Hkk Hrk).
  - apply (Hc xb Hkx Hh Hfx Hrx).
Qed.

Lemma json_fields : forall fs items, Forall (fun kv : list byte * sval => json_of (snd kv)) fs ->
  forallb (fun kv => keys_ok (snd kv)) fs = true ->
  forallb (fun kv => hints_ok (snd kv)) fs = true ->
  all_of (fun kv : list byte * sval => True /\ floats_ok (snd kv)) fs ->
  sequence (map (fun kv => ref_member (Some (ref_string (fst kv))) (ref_enc (snd kv))) fs) = Some items ->
  exists members, items = map member_text members /\
                  Forall (fun m => jstring (fst m) /\ jvalue (snd m)) members.
Proof.
  intros fs items HF Hk Hh Hf Hs. apply all_of_Forall in Hf. apply sequence_Forall2 in Hs.
  induction Hs as [|[k x] i fs' items' He _ IH]; [exists []; split; [reflexivity|constructor]|].
  cbn [forallb fst snd] in Hk, Hh. apply andb_true_iff in Hk, Hh.
  destruct Hk as [Hkx Hk']. destruct Hh as [Hh Hh'].
  pose proof (Forall_inv HF) as Hc. pose proof (Forall_inv_tail HF) as HF'.
  pose proof (Forall_inv Hf) as [_ Hfx]. pose proof (Forall_inv_tail Hf) as Hf'.
  destruct (IH HF' Hk' Hh' Hf') as (members & -> & Hm).
  cbn [fst snd] in *. destruct (ref_enc x) as [xb|] eqn:Hrx; [|discriminate].
  cbn [ref_member] in He. injection He as <-.
  exists ((ref_string k, xb) :: members). split; [reflexivity|]. constructor; [|exact Hm]. cbn [fst snd]. split.
  - apply jstring_ref_string.
  - apply (Hc xb Hkx Hh Hfx Hrx).
Qed.

Lemma jvalue_array : forall early items, early = false \/ items = [] ->
  Forall jvalue items -> jvalue (ref_array early items).
Proof.
  intros early items Hp Hi. unfold ref_array. rewrite bracketed_plain by exact Hp. apply jv_arr. exact Hi.
Qed.

Lemma jvalue_object : forall early members, early = false \/ map member_text members = [] ->
  Forall (fun m => jstring (fst m) /\ jvalue (snd m)) members ->
  jvalue (ref_object early (map member_text members)).
Proof.
  intros early members Hp Hm. unfold ref_object. rewrite bracketed_plain by exact Hp. apply jv_obj. exact Hm.
Qed.

Theorem ref_enc_json : forall v, json_of v.
Proof.
  induction v using sval_ind'; unfold json_of; intros bs' Hk Hh Hf Hr;
    cbn [ref_enc keys_ok hints_ok] in *; unfold floats_ok in Hf; cbn [sval_All fval_All] in Hf;
    try (injection Hr as <-).
  - destruct b; constructor.
  - apply jv_num. apply fmt_int_jnumber.
  - destruct f as [tok|]; [apply jv_num; exact Hf|constructor].
  - destruct f as [tok|]; [apply jv_num; exact Hf|constructor].
  - apply jv_str, jstring_ref_string.
  - apply jv_str, jstring_ref_string.
  - apply jvalue_array; [left; reflexivity|].
    induction bs as [|b r IH]; cbn [map]; constructor; [apply jv_num, fmt_int_jnumber|exact IH].
  - constructor.
  - apply IHv; assumption.
  - constructor.
  - constructor.
  - apply jv_str, jstring_ref_string.
  - apply IHv; assumption.
  - destruct (ref_enc v) as [xb|] eqn:Hx; [|discriminate]. injection Hr as <-.
    apply jvalue_tagged. apply (IHv xb Hk Hh (proj2 Hf) Hx).
  - destruct (sequence (map ref_enc es)) as [items|] eqn:Hs; [|discriminate]. injection Hr as <-.
    apply andb_true_iff in Hh. destruct Hh as [Hh Hh'].
    apply jvalue_array; [exact (hint_ok_plain _ _ ref_enc _ es items Hh Hs)|eapply json_items; eassumption].
  - destruct (sequence (map ref_enc es)) as [items|] eqn:Hs; [|discriminate]. injection Hr as <-.
    apply andb_true_iff in Hh. destruct Hh as [Hh Hh'].
    apply jvalue_array; [exact (hint_ok_plain _ _ ref_enc _ es items Hh Hs)|eapply json_items; eassumption].
  - destruct (sequence (map ref_enc es)) as [items|] eqn:Hs; [|discriminate]. injection Hr as <-.
    apply andb_true_iff in Hh. destruct Hh as [Hh Hh'].
    apply jvalue_array; [exact (hint_ok_plain _ _ ref_enc _ es items Hh Hs)|eapply json_items; eassumption].
  - destruct (sequence (map ref_enc es)) as [items|] eqn:Hs; [|discriminate]. injection Hr as <-.
    apply andb_true_iff in Hh. destruct Hh as [Hh Hh']. destruct Hf as [_ Hf]. apply jvalue_tagged.
    apply jvalue_array; [exact (hint_ok_plain _ _ ref_enc _ es items Hh Hs)|eapply json_items; eassumption].
  - destruct (sequence _) as [items|] eqn:Hs; [|discriminate]. injection Hr as <-.
    apply andb_true_iff in Hh. destruct Hh as [Hh Hh'].
    pose proof (hint_ok_plain _ _ _ _ _ _ Hh Hs) as Hp.
    destruct (json_members kvs items H Hk Hh' Hf Hs) as (members & -> & Hm).
    apply jvalue_object; assumption.
  - destruct (sequence _) as [items|] eqn:Hs; [|discriminate]. injection Hr as <-.
    apply andb_true_iff in Hh. destruct Hh as [Hh Hh'].
    pose proof (hint_ok_plain _ _ _ _ _ _ Hh Hs) as Hp.
    destruct (json_fields fs items H Hk Hh' Hf Hs) as (members & -> & Hm).
    apply jvalue_object; assumption.
  - destruct (sequence _) as [items|] eqn:Hs; [|discriminate]. injection Hr as <-.
    apply andb_true_iff in Hh. destruct Hh as [Hh Hh']. destruct Hf as [_ Hf].
    pose proof (hint_ok_plain _ _ _ _ _ _ Hh Hs) as Hp.
    destruct (json_fields fs items H Hk Hh' Hf Hs) as (members & -> & Hm).
    apply jvalue_tagged. apply jvalue_object; assumption.
  - apply jv_str, jstring_ref_string.
  - exact (IHv1 bs' Hk Hh Hf Hr).
Qed.

(* a successful output is a JSON text (RFC 8259), provided the value's length hints are truthful
   and its float texts are JSON numbers *)
Theorem is_json : forall v n bs, hints_ok v = true -> floats_ok v -> zser v n = Ok bs -> jvalue bs.
Proof.
  intros v n bs Hh Hf H. destruct (zser_ok_inv v n bs H) as (Hk & Hr & _ & _).
  apply (ref_enc_json v bs Hk Hh Hf Hr).
Qed.
