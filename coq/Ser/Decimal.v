(* Decimal formatting of integers (the contract of the `itoa` crate: shortest decimal, '-' for
   negatives, no '+', no leading zeros), with its correctness lemmas. *)
From ZV Require Import Common.Base.
From Coq Require Import ZArith.
Local Open Scope N_scope.

Definition is_digit (b : byte) : bool := (48 <=? b) && (b <=? 57).

(* digits of n, most significant first, pushed in front of acc; one digit per unit of fuel *)
Fixpoint digits_fuel (fuel : nat) (n : N) (acc : list byte) : list byte :=
  match fuel with
  | O => acc
  | S f => let acc' := (48 + n mod 10) :: acc in
           if n / 10 =? 0 then acc' else digits_fuel f (n / 10) acc'
  end.

(* a number below 2^k has at most k decimal digits (k >= 1) *)
Definition fmt_N (n : N) : list byte := digits_fuel (S (N.to_nat (N.log2 n))) n [].

Definition fmt_int (z : Z) : list byte :=
  match z with
  | Z0 => [48]
  | Zpos p => fmt_N (Npos p)
  | Zneg p => 45 :: fmt_N (Npos p)
  end.

(* reading back *)
Definition dec_step (a : N) (d : byte) : N := 10 * a + (d - 48).
Definition dec_val (l : list byte) : N := fold_left dec_step l 0.
Definition int_val (l : list byte) : Z :=
  match l with
  | b :: r => if b =? 45 then (- Z.of_N (dec_val r))%Z else Z.of_N (dec_val l)
  | [] => 0%Z
  end.

(* canonical shape: "0" or a non-zero digit followed by digits *)
Definition canon_nat (l : list byte) : Prop :=
  l = [48] \/ exists d ds, l = d :: ds /\ 49 <= d <= 57 /\ Forall (fun b => is_digit b = true) ds.

(* ------------------------------------------------------------------ proofs *)

Lemma is_digit_spec : forall b, is_digit b = true <-> 48 <= b <= 57.
Proof. intros b. unfold is_digit. rewrite andb_true_iff, !N.leb_le. tauto. Qed.

Lemma fold_dec_app : forall l1 l2 a, fold_left dec_step (l1 ++ l2) a = fold_left dec_step l2 (fold_left dec_step l1 a).
Proof. intros. apply fold_left_app. Qed.

Lemma digits_fuel_spec : forall fuel n acc,
  0 < n -> n < 2 ^ N.of_nat fuel ->
  exists d ds, digits_fuel fuel n acc = (d :: ds) ++ acc /\ 49 <= d <= 57 /\
               Forall (fun b => is_digit b = true) ds /\
               forall a, fold_left dec_step (d :: ds) a = a * 10 ^ N.of_nat (length (d :: ds)) + n.
Proof.
  induction fuel as [|f IH]; intros n acc Hpos Hlt.
  - cbn in Hlt. lia.
  - pose proof (N.div_mod n 10 ltac:(discriminate)) as Hdm.
    pose proof (N.mod_upper_bound n 10 ltac:(discriminate)) as Hr.
    replace (N.of_nat (S f)) with (N.succ (N.of_nat f)) in Hlt by lia.
    rewrite N.pow_succ_r' in Hlt.
    cbn [digits_fuel]. set (r := n mod 10) in *. set (q := n / 10) in *. clearbody r q.
    destruct (N.eqb_spec q 0) as [Hz|Hnz].
    + (* single digit *)
      exists (48 + r), []. split; [reflexivity|]. split; [lia|]. split; [constructor|].
      intros a. cbn [fold_left length]. unfold dec_step. change (N.of_nat 1) with 1.
      rewrite N.pow_1_r. lia.
    + assert (Hq : 0 < q) by lia.
      assert (Hlt' : q < 2 ^ N.of_nat f) by lia.
      destruct (IH q ((48 + r) :: acc) Hq Hlt') as (d & ds & He & Hd & Hds & Hv).
      exists d, (ds ++ [48 + r]). rewrite He. split.
      { cbn [app]. rewrite <- app_assoc. reflexivity. }
      split; [exact Hd|]. split.
      { apply Forall_app. split; [exact Hds|]. constructor; [|constructor].
        apply is_digit_spec. lia. }
      intros a. change (d :: ds ++ [48 + r]) with ((d :: ds) ++ [48 + r]).
      rewrite fold_dec_app, Hv. cbn [fold_left]. unfold dec_step.
      rewrite app_length. cbn [length]. rewrite Nat.add_1_r.
      replace (N.of_nat (S (S (length ds)))) with (N.succ (N.of_nat (S (length ds)))) by lia.
      rewrite N.pow_succ_r'. lia.
Qed.

Lemma fmt_N_pos : forall n, 0 < n ->
  exists d ds, fmt_N n = d :: ds /\ 49 <= d <= 57 /\ Forall (fun b => is_digit b = true) ds /\
               dec_val (d :: ds) = n.
Proof.
  intros n Hn. unfold fmt_N.
  assert (Hlt : n < 2 ^ N.of_nat (S (N.to_nat (N.log2 n)))).
  { replace (N.of_nat (S (N.to_nat (N.log2 n)))) with (N.succ (N.log2 n)) by lia.
    apply N.log2_spec. exact Hn. }
  destruct (digits_fuel_spec _ n [] Hn Hlt) as (d & ds & He & Hd & Hds & Hv).
  exists d, ds. rewrite He, app_nil_r. repeat split; try assumption; try lia.
  unfold dec_val. rewrite Hv. lia.
Qed.

Lemma fmt_N_zero : fmt_N 0 = [48].
Proof. reflexivity. Qed.

Lemma fmt_N_canon : forall n, canon_nat (fmt_N n).
Proof.
  intros n. destruct (N.eq_dec n 0) as [->|Hn].
  - left. reflexivity.
  - right. destruct (fmt_N_pos n ltac:(lia)) as (d & ds & He & Hd & Hds & _).
    exists d, ds. auto.
Qed.

Lemma fmt_N_val : forall n, dec_val (fmt_N n) = n.
Proof.
  intros n. destruct (N.eq_dec n 0) as [->|Hn]; [reflexivity|].
  destruct (fmt_N_pos n ltac:(lia)) as (d & ds & He & _ & _ & Hv). rewrite He. exact Hv.
Qed.

Lemma fmt_N_digits : forall n, Forall (fun b => is_digit b = true) (fmt_N n).
Proof.
  intros n. destruct (fmt_N_canon n) as [->|(d & ds & -> & Hd & Hds)].
  - constructor; [reflexivity|constructor].
  - constructor; [apply is_digit_spec; lia|exact Hds].
Qed.

(* the decimal formatter is correct: reading the text back gives the integer *)
Lemma fmt_int_correct : forall z, int_val (fmt_int z) = z.
Proof.
  intros [|p|p]; cbn [fmt_int].
  - reflexivity.
  - destruct (fmt_N_pos (Npos p) ltac:(lia)) as (d & ds & He & Hd & _ & Hv).
    rewrite He. unfold int_val.
    destruct (N.eqb_spec d 45) as [->|_]; [lia|]. rewrite Hv. reflexivity.
  - unfold int_val. rewrite N.eqb_refl, fmt_N_val. reflexivity.
Qed.

(* every byte of a formatted integer is a digit or the leading minus sign *)
Lemma fmt_int_bytes : forall z, Forall (fun b => 45 <= b <= 57) (fmt_int z).
Proof.
  intros z.
  assert (H : forall n, Forall (fun b => 45 <= b <= 57) (fmt_N n)).
  { intros n. eapply Forall_impl; [|apply fmt_N_digits]. cbv beta. intros b Hb.
    apply is_digit_spec in Hb. lia. }
  destruct z; cbn [fmt_int].
  - constructor; [lia|constructor].
  - apply H.
  - constructor; [lia|apply H].
Qed.
