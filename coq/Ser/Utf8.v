(* UTF-8 (RFC 3629): well-formed byte sequences as an inductive grammar, the encoder that
   `char::encode_utf8` implements, and the two facts the serializer proofs need: well-formedness is
   closed under concatenation, and replacing ASCII bytes by ASCII strings preserves it. *)
From ZV Require Import Common.Base.
Local Open Scope N_scope.

Definition cont (b : byte) : Prop := 128 <= b <= 191.

(* second byte of a three / four byte sequence (excludes overlong forms, surrogates, > U+10FFFF) *)
Definition ok3 (b0 b1 : byte) : Prop :=
  (b0 = 224 /\ 160 <= b1 <= 191) \/ (225 <= b0 <= 236 /\ cont b1) \/
  (b0 = 237 /\ 128 <= b1 <= 159) \/ (238 <= b0 <= 239 /\ cont b1).
Definition ok4 (b0 b1 : byte) : Prop :=
  (b0 = 240 /\ 144 <= b1 <= 191) \/ (241 <= b0 <= 243 /\ cont b1) \/ (b0 = 244 /\ 128 <= b1 <= 143).

Inductive utf8 : list byte -> Prop :=
| u_nil : utf8 []
| u_1 b r : b < 128 -> utf8 r -> utf8 (b :: r)
| u_2 b0 b1 r : 194 <= b0 <= 223 -> cont b1 -> utf8 r -> utf8 (b0 :: b1 :: r)
| u_3 b0 b1 b2 r : ok3 b0 b1 -> cont b2 -> utf8 r -> utf8 (b0 :: b1 :: b2 :: r)
| u_4 b0 b1 b2 b3 r : ok4 b0 b1 -> cont b2 -> cont b3 -> utf8 r -> utf8 (b0 :: b1 :: b2 :: b3 :: r).

(* char::encode_utf8 *)
Definition utf8_encode (c : N) : list byte :=
  if c <? 128 then [c]
  else if c <? 2048 then [192 + c / 64; 128 + c mod 64]
  else if c <? 65536 then [224 + c / 64 / 64; 128 + (c / 64) mod 64; 128 + c mod 64]
  else [240 + c / 64 / 64 / 64; 128 + (c / 64 / 64) mod 64; 128 + (c / 64) mod 64; 128 + c mod 64].

(* a Rust `char`: a Unicode scalar value *)
Definition is_scalar (c : N) : Prop := c < 55296 \/ (57344 <= c /\ c < 1114112).

Lemma utf8_app : forall a b, utf8 a -> utf8 b -> utf8 (a ++ b).
Proof.
  intros a b Ha Hb. induction Ha; cbn [app]; try assumption; constructor; assumption.
Qed.

Lemma utf8_ascii : forall l, Forall (fun b => b < 128) l -> utf8 l.
Proof. induction 1; constructor; assumption. Qed.

Lemma utf8_concat : forall ls, Forall utf8 ls -> utf8 (concat ls).
Proof.
  induction 1; cbn [concat]; [constructor|apply utf8_app; assumption].
Qed.

(* substituting ASCII strings for ASCII bytes (what escaping does) preserves well-formedness *)
Lemma utf8_flat_map : forall (f : byte -> list byte),
  (forall b, 128 <= b -> f b = [b]) ->
  (forall b, b < 128 -> Forall (fun x => x < 128) (f b)) ->
  forall s, utf8 s -> utf8 (flat_map f s).
Proof.
  intros f Hhi Hlo s Hs. induction Hs; cbn [flat_map].
  - constructor.
  - apply utf8_app; [apply utf8_ascii, Hlo; assumption|assumption].
  - unfold cont in *. rewrite (Hhi b0), (Hhi b1) by lia. cbn [app]. constructor; assumption.
  - assert (128 <= b0 /\ 128 <= b1) as [? ?] by (unfold ok3, cont in *; lia).
    unfold cont in *. rewrite (Hhi b0), (Hhi b1), (Hhi b2) by lia. cbn [app]. constructor; assumption.
  - assert (128 <= b0 /\ 128 <= b1) as [? ?] by (unfold ok4, cont in *; lia).
    unfold cont in *. rewrite (Hhi b0), (Hhi b1), (Hhi b2), (Hhi b3) by lia. cbn [app].
    constructor; assumption.
Qed.

Ltac divmod64 c q r :=
  pose proof (N.div_mod c 64 ltac:(discriminate));
  pose proof (N.mod_upper_bound c 64 ltac:(discriminate));
  set (r := c mod 64) in *; set (q := c / 64) in *; clearbody r.

Lemma utf8_encode_valid : forall c, is_scalar c -> utf8 (utf8_encode c).
Proof.
  intros c Hc. unfold utf8_encode, is_scalar in *.
  destruct (N.ltb_spec c 128) as [H1|H1].
  { apply u_1; [assumption|constructor]. }
  destruct (N.ltb_spec c 2048) as [H2|H2].
  { divmod64 c q0 r0. clearbody q0. apply u_2; [lia|unfold cont; lia|constructor]. }
  destruct (N.ltb_spec c 65536) as [H3|H3].
  { divmod64 c q0 r0. divmod64 q0 q1 r1. clearbody q1. clearbody q0.
    apply u_3; [unfold ok3, cont; lia|unfold cont; lia|constructor]. }
  divmod64 c q0 r0. divmod64 q0 q1 r1. divmod64 q1 q2 r2. clearbody q2. clearbody q1. clearbody q0.
  apply u_4; [unfold ok4, cont; lia|unfold cont; lia|unfold cont; lia|constructor].
Qed.

(* every byte of an encoded scalar below 2^21 is a byte; the bytes of a non-ASCII one are >= 128 *)
Lemma utf8_encode_ascii : forall c, c < 128 -> utf8_encode c = [c].
Proof. intros c H. unfold utf8_encode. apply N.ltb_lt in H. rewrite H. reflexivity. Qed.
