(* Model of zlink-core/src/json_ser.rs (the built-in JSON serializer writing into a byte slice)
   and an independent reference encoder for serde_json's compact format.
   Executable; proofs live in SerdeProofs.v.

   A value to serialize is the tree of serde `Serializer` calls it issues (`sval`), one constructor
   per entry point of the trait. `zser v avail` follows json_ser.rs method by method with the writer
   state (`pos`, the bytes written so far) threaded through every `tri!`. *)
From ZV Require Export Common.Base Ser.Decimal Ser.Utf8 Ser.Json gen.Escape.
From Coq Require Export ZArith.
Local Open Scope N_scope.

(* ------------------------------------------------------------------ the serde data model *)
Inductive ikind := I8 | I16 | I32 | I64 | I128 | U8 | U16 | U32 | U64 | U128.

(* a float as the serializer sees it: NaN/infinite (FpCategory::Nan | Infinite), or finite, in
   which case `tok` is the text ryu::Buffer::format_finite produces for it (opaque here) *)
Inductive fval := FFinite (tok : list byte) | FNonFinite.

Inductive sval :=
| SBool (b : bool)                                    (* serialize_bool *)
| SInt (k : ikind) (z : Z)                            (* serialize_i8 .. serialize_u128 *)
| SF32 (f : fval)                                     (* serialize_f32 *)
| SF64 (f : fval)                                     (* serialize_f64 *)
| SChar (c : N)                                       (* serialize_char; c = the scalar value *)
| SStr (s : list byte)                                (* serialize_str; s = the bytes of the &str *)
| SBytes (bs : list byte)                             (* serialize_bytes *)
| SNone                                               (* serialize_none *)
| SSome (v : sval)                                    (* serialize_some *)
| SUnit                                               (* serialize_unit *)
| SUnitStruct (name : list byte)                      (* serialize_unit_struct *)
| SUnitVariant (name : list byte) (idx : N) (variant : list byte)
| SNewtypeStruct (name : list byte) (v : sval)
| SNewtypeVariant (name : list byte) (idx : N) (variant : list byte) (v : sval)
| SSeq (len : option N) (es : list sval)              (* serialize_seq(len) + elements + end *)
| STuple (len : N) (es : list sval)                   (* serialize_tuple(len) .. *)
| STupleStruct (name : list byte) (len : N) (es : list sval)
| STupleVariant (name : list byte) (idx : N) (variant : list byte) (len : N) (es : list sval)
| SMap (len : option N) (kvs : list (sval * sval))    (* serialize_map(len) + entries + end *)
| SStruct (name : list byte) (len : N) (fs : list (list byte * sval))
| SStructVariant (name : list byte) (idx : N) (variant : list byte) (len : N)
                 (fs : list (list byte * sval))
(* Serializer::collect_str(&d) for a Display value d whose fmt writes the fragments `frags`, one
   write_str each (the idiom of Display newtypes, chrono, semver, DisplayFromStr; zlink's own
   InterfaceDescription) *)
| SCollectStr (frags : list (list byte))
(* a Serialize impl that consults Serializer::is_human_readable() and issues the calls `hr` when
   it answers true, the calls `compact` otherwise (std::net::IpAddr & co., uuid, chrono, url ..) *)
| SHumanReadable (hr compact : sval).

(* ------------------------------------------------------------------ results and the writer *)
(* json_ser.rs:30-35 plus the one undefined-behaviour site (`unreachable_unchecked`, :1277) *)
Inductive serr := BufferTooSmall | KeyMustBeAString | Unreachable.
Inductive res (A : Type) := Ok (a : A) | Err (e : serr).
Arguments Ok {A} a.
Arguments Err {A} e.

(* the `tri!` macro, json_ser.rs:92-99 *)
Definition tri {A B} (r : res A) (k : A -> res B) : res B :=
  match r with Ok a => k a | Err e => Err e end.
Notation "x <- e ;; k" := (tri e (fun x => k)) (at level 61, e at next level, right associativity).

(* ByteSliceWriter (json_ser.rs:352-370): `pos` and the bytes output[0..pos) (kept reversed) *)
Record writer := mkW { pos : N; out : list byte }.
Definition wnew : writer := mkW 0 [].

(* Compound's State (json_ser.rs:374-378) *)
Inductive cstate := Empty | First | Rest.
Definition is_first (s : cstate) : bool := match s with First => true | _ => false end.

Definition hint0 (len : option N) : bool := match len with Some 0 => true | _ => false end.

(* Serializer::is_human_readable(): neither `impl Serializer for &mut Serializer` (json_ser.rs:
   101-348) nor `impl Serializer for MapKeySerializer` (:603-798) overrides it, so serde's default
   applies (serde_core-1.0.228/src/ser/mod.rs:1459-1461: `fn is_human_readable(&self) -> bool {
   true }`): zlink's JSON serializer is human-readable, as JSON formats are. *)
Definition human_readable : bool := true.

Section Model.
Variable avail : N.      (* output.len() *)

(* write_all, json_ser.rs:362-369 *)
Definition write_all (w : writer) (buf : list byte) : res writer :=
  let n := N.of_nat (length buf) in
  if avail <? pos w + n then Err BufferTooSmall
  else Ok (mkW (pos w + n) (rev_append buf (out w))).

(* --- Formatter (json_ser.rs:826-1175), CompactFormatter uses every default *)
Definition write_null w := write_all w [110; 117; 108; 108].
Definition write_bool w (b : bool) :=
  write_all w (if b then [116; 114; 117; 101] else [102; 97; 108; 115; 101]).
Definition write_int w (z : Z) := write_all w (fmt_int z).        (* itoa::Buffer::format *)
Definition write_float w (tok : list byte) := write_all w tok.    (* ryu::Buffer::format_finite *)
Definition begin_string w := write_all w [34].
Definition end_string w := write_all w [34].
Definition write_string_fragment w (frag : list byte) := write_all w frag.
Fixpoint write_seq w (chunks : list (list byte)) : res writer :=
  match chunks with
  | [] => Ok w
  | c :: cs => w <- write_all w c;; write_seq w cs
  end.
(* write_char_escape, :1028-1049; the per-arm writes are translated from the source *)
Definition write_char_escape w (ce : char_escape) := write_seq w (escape_writes ce).
Definition begin_array w := write_all w [91].
Definition end_array w := write_all w [93].
Definition begin_array_value w (first : bool) := if first then Ok w else write_all w [44].
Definition end_array_value (w : writer) : res writer := Ok w.
Definition begin_object w := write_all w [123].
Definition end_object w := write_all w [125].
Definition begin_object_key w (first : bool) := if first then Ok w else write_all w [44].
Definition end_object_key (w : writer) : res writer := Ok w.
Definition begin_object_value w := write_all w [58].
Definition end_object_value (w : writer) : res writer := Ok w.

(* write_byte_array, :1052-1066 *)
Fixpoint byte_array_loop w (first : bool) (value : list byte) : res writer :=
  match value with
  | [] => end_array w
  | b :: rest =>
      w <- begin_array_value w first;;
      w <- write_int w (Z.of_N b);;
      w <- end_array_value w;;
      byte_array_loop w false rest
  end.
Definition write_byte_array w (value : list byte) :=
  w <- begin_array w;; byte_array_loop w true value.

(* --- format_escaped_str_contents, :1238-1289. `run` is the pending unescaped run
   bytes[0..i) (reversed); an escaped byte flushes it, writes the escape, restarts after it. *)
Definition flush_run w (run : list byte) : res writer :=
  match run with [] => Ok w | _ => write_string_fragment w (rev run) end.
Fixpoint escaped_contents w (run : list byte) (bytes : list byte) : res writer :=
  match bytes with
  | [] => flush_run w run                                           (* :1283-1288 *)
  | byte :: rest =>
      let escape := escape_of byte in                               (* :1251 *)
      if escape =? 0 then escaped_contents w (byte :: run) rest     (* :1254-1256 *)
      else
        w <- flush_run w run;;                                      (* :1262-1265 *)
        match classify escape byte with                             (* :1267-1278 *)
        | None => Err Unreachable
        | Some ce => w <- write_char_escape w ce;; escaped_contents w [] rest
        end
  end.
(* format_escaped_str, :1227-1236 *)
Definition format_escaped_str w (value : list byte) : res writer :=
  w <- begin_string w;; w <- escaped_contents w [] value;; end_string w.

(* --- MapKeySerializer, :603-798 *)
Fixpoint zkey (k : sval) (w : writer) : res writer :=
  match k with
  | SStr s => format_escaped_str w s                                (* :619 *)
  | SUnitVariant _ _ variant => format_escaped_str w variant        (* :624 *)
  | SNewtypeStruct _ x => zkey x w                                  (* :634 *)
  | SBool _ => Err KeyMustBeAString                                 (* :641 *)
  | SInt _ z => w <- begin_string w;; w <- write_int w z;; end_string w   (* :645-703 *)
  | SF32 _ | SF64 _ => Err KeyMustBeAString                         (* :705-711 *)
  | SChar c => format_escaped_str w (utf8_encode c)                 (* :713 *)
  (* no collect_str in the impl: serde's default (serde_core ser/mod.rs:1373-1378)
     `self.serialize_str(&value.to_string())` — the fragments are first joined in a String *)
  | SCollectStr frags => format_escaped_str w (concat frags)
  | SHumanReadable hr compact => if human_readable then zkey hr w else zkey compact w
  | SBytes _ | SUnit | SUnitStruct _ | SNewtypeVariant _ _ _ _ | SNone | SSome _
  | SSeq _ _ | STuple _ _ | STupleStruct _ _ _ | STupleVariant _ _ _ _ _
  | SMap _ _ | SStruct _ _ _ | SStructVariant _ _ _ _ _ => Err KeyMustBeAString   (* :719-797 *)
  end.

(* --- Compound (json_ser.rs:389-596). One loop for the successive serialize_element /
   serialize_entry / serialize_field calls a value issues, followed by `end`: `item` is the method,
   called with the state the compound is in, after which the state is Rest; `fin` is the matching
   `end` method, called with the state the compound is then in. *)
Definition loop {A} (item : A -> cstate -> writer -> res writer)
                    (fin : cstate -> writer -> res writer) :=
  fix go (l : list A) (state : cstate) (w : writer) : res writer :=
    match l with
    | [] => fin state w
    | a :: rest => w <- item a state w;; (* *state = State::Rest *) go rest Rest w
    end.

(* SerializeSeq::serialize_element (:397-411); Tuple, TupleStruct, TupleVariant forward to it *)
Definition seq_element (f : sval -> writer -> res writer) (value : sval) (state : cstate) w :=
  w <- begin_array_value w (is_first state);;
  w <- f value w;;
  end_array_value w.
(* SerializeSeq::end (:414-421), also Tuple and TupleStruct *)
Definition seq_end (state : cstate) w : res writer :=
  match state with Empty => Ok w | _ => end_array w end.
(* SerializeTupleVariant::end (:482-493) *)
Definition tuple_variant_end (state : cstate) w : res writer :=
  w <- match state with Empty => Ok w | _ => end_array w end;;
  w <- end_object_value w;;
  end_object w.

(* SerializeMap::serialize_key (:504-520) and serialize_value (:523-534); serde's default
   serialize_entry calls one after the other *)
Definition map_key (key : sval) (state : cstate) w : res writer :=
  w <- begin_object_key w (is_first state);;
  w <- zkey key w;;
  end_object_key w.
Definition map_value (f : sval -> writer -> res writer) (value : sval) w : res writer :=
  w <- begin_object_value w;;
  w <- f value w;;
  end_object_value w.
Definition map_entry (f : sval -> writer -> res writer) (kv : sval * sval) (state : cstate) w :=
  let (key, value) := kv in
  w <- map_key key state w;;
  map_value f value w.
(* SerializeStruct / SerializeStructVariant::serialize_field (:555-560, :576-581):
   serialize_entry(key: &'static str, value); the &str key goes through MapKeySerializer *)
Definition struct_field (f : sval -> writer -> res writer) (kv : list byte * sval) (state : cstate) w :=
  let (key, value) := kv in
  w <- map_key (SStr key) state w;;
  map_value f value w.
(* SerializeMap::end (:537-544), also Struct *)
Definition map_end (state : cstate) w : res writer :=
  match state with Empty => Ok w | _ => end_object w end.
(* SerializeStructVariant::end (:584-595) *)
Definition struct_variant_end (state : cstate) w : res writer :=
  w <- match state with Empty => Ok w | _ => end_object w end;;
  w <- end_object_value w;;
  end_object w.

(* serialize_seq (:265-279): '[' and, for len == Some(0), ']' at once and State::Empty *)
Definition serialize_seq (len : option N) (body : cstate -> writer -> res writer) w : res writer :=
  w <- begin_array w;;
  if hint0 len then w <- end_array w;; body Empty w else body First w.
(* serialize_map (:312-326) *)
Definition serialize_map (len : option N) (body : cstate -> writer -> res writer) w : res writer :=
  w <- begin_object w;;
  if hint0 len then w <- end_object w;; body Empty w else body First w.
(* the `{"variant":` prefix shared by the newtype/tuple/struct variant methods *)
Definition variant_header (variant : list byte) w : res writer :=
  w <- begin_object w;;
  w <- begin_object_key w true;;
  w <- format_escaped_str w variant;;
  w <- end_object_key w;;
  begin_object_value w.

(* --- impl ser::Serializer for &mut Serializer (json_ser.rs:101-348) *)
Fixpoint zs (v : sval) (w : writer) : res writer :=
  match v with
  | SBool b => write_bool w b                                       (* :117 *)
  | SInt _ z => write_int w z                                       (* :122-167 *)
  | SF32 f | SF64 f =>                                              (* :170-183 *)
      match f with FNonFinite => write_null w | FFinite tok => write_float w tok end
  | SChar c => format_escaped_str w (utf8_encode c)                 (* :186-190 *)
  | SStr s => format_escaped_str w s                                (* :193 *)
  | SBytes bs => write_byte_array w bs                              (* :198 *)
  | SUnit => write_null w                                           (* :203 *)
  | SUnitStruct _ => write_null w                                   (* :208 *)
  | SUnitVariant _ _ variant => format_escaped_str w variant        (* :213-220 *)
  | SNewtypeStruct _ x => zs x w                                    (* :223-228 *)
  | SNewtypeVariant _ _ variant x =>                                (* :231-249 *)
      w <- variant_header variant w;;
      w <- zs x w;;
      w <- end_object_value w;;
      end_object w
  | SNone => write_null w                                           (* :252 *)
  | SSome x => zs x w                                               (* :257-262 *)
  | SSeq len es => serialize_seq len (loop (seq_element zs) seq_end es) w        (* :265 *)
  | STuple len es => serialize_seq (Some len) (loop (seq_element zs) seq_end es) w          (* :282 *)
  | STupleStruct _ len es => serialize_seq (Some len) (loop (seq_element zs) seq_end es) w  (* :287 *)
  | STupleVariant _ _ variant len es =>                             (* :296-309 *)
      w <- variant_header variant w;;
      serialize_seq (Some len) (loop (seq_element zs) tuple_variant_end es) w
  | SMap len kvs => serialize_map len (loop (map_entry zs) map_end kvs) w    (* :312 *)
  | SStruct _ len fs => serialize_map (Some len) (loop (struct_field zs) map_end fs) w      (* :329 *)
  | SStructVariant _ _ variant len fs =>                            (* :334-347 *)
      w <- variant_header variant w;;
      serialize_map (Some len) (loop (struct_field zs) struct_variant_end fs) w
  (* no collect_str in the impl: serde's default (serde_core ser/mod.rs:1373-1378)
     `self.serialize_str(&value.to_string())`, i.e. one String, then :193 *)
  | SCollectStr frags => format_escaped_str w (concat frags)
  | SHumanReadable hr compact => if human_readable then zs hr w else zs compact w
  end.

(* to_slice (:19-26): the bytes buf[..n] on success *)
Definition zser_at (v : sval) : res (list byte) :=
  w <- zs v wnew;; Ok (rev (out w)).

End Model.

Definition zser (v : sval) (avail : N) : res (list byte) := zser_at avail v.

(* ================================================================== the reference encoder
   serde_json's compact output, written from the value grammar: a JSON value is null, true, false,
   a number, a string, an array `[v,v,..]` or an object `{"k":v,..}`; strings are quoted with the
   mandatory escapes of RFC 8259 section 7 in serde_json's spelling (gen/Escape.v: rfc_escape,
   fixed text). serde's data model is mapped as the serde_json documentation describes:
   unit/None -> null, Some(x)/newtype struct -> x, unit variant -> "Variant",
   other variants -> {"Variant": content}, seq/tuple -> array, map/struct -> object, bytes -> array
   of numbers, non-finite floats -> null; map keys must be string-like: strings, chars, unit
   variants, and (quoted) integers, booleans and finite floats; Some(k)/newtype(k) -> k. *)

Definition ref_byte (b : byte) : list byte := if needs_escape b then rfc_escape b else [b].
Definition ref_string (s : list byte) : list byte := [34] ++ flat_map ref_byte s ++ [34].
Definition quoted (t : list byte) : list byte := [34] ++ t ++ [34].

(* serde_json's Serializer and MapKeySerializer do not override is_human_readable either *)
Definition ref_human_readable : bool := true.

Definition ref_null : list byte := [110; 117; 108; 108].
Definition ref_bool (b : bool) : list byte :=
  if b then [116; 114; 117; 101] else [102; 97; 108; 115; 101].
Definition ref_float (f : fval) : list byte :=
  match f with FFinite tok => tok | FNonFinite => ref_null end.

(* `early` = the length hint said "no elements" (Some(0)): serde_json then writes the closing
   bracket at once; if the value nevertheless issues elements (a Serialize impl lying about its
   length) they follow, each preceded by a comma, and the bracket is written a second time. With a
   truthful hint this is just `open items,.. close`. *)
Definition bracketed (opn cls : byte) (early : bool) (items : list (list byte)) : list byte :=
  match items with
  | [] => [opn; cls]
  | _ => if early then [opn; cls; 44] ++ join [44] items ++ [cls]
         else [opn] ++ join [44] items ++ [cls]
  end.
Definition ref_array := bracketed 91 93.
Definition ref_object := bracketed 123 125.
(* one member `"key":value` *)
Definition ref_member (k v : option (list byte)) : option (list byte) :=
  match k, v with Some k, Some v => Some (member_text (k, v)) | _, _ => None end.
(* externally tagged enum variant: {"Variant":content} *)
Definition ref_tagged (variant content : list byte) : list byte :=
  ref_object false [member_text (ref_string variant, content)].

Fixpoint sequence {A} (l : list (option A)) : option (list A) :=
  match l with
  | [] => Some []
  | None :: _ => None
  | Some x :: r => match sequence r with Some xs => Some (x :: xs) | None => None end
  end.

Fixpoint ref_key (k : sval) : option (list byte) :=
  match k with
  | SStr s => Some (ref_string s)
  | SChar c => Some (ref_string (utf8_encode c))
  | SUnitVariant _ _ variant => Some (ref_string variant)
  | SInt _ z => Some (quoted (fmt_int z))
  | SBool b => Some (quoted (ref_bool b))
  | SF32 (FFinite tok) | SF64 (FFinite tok) => Some (quoted tok)
  | SNewtypeStruct _ x | SSome x => ref_key x
  (* serde_json's collect_str (ser.rs:410, :1147): the Display output as one escaped string *)
  | SCollectStr frags => Some (ref_string (concat frags))
  | SHumanReadable hr compact => if ref_human_readable then ref_key hr else ref_key compact
  | _ => None
  end.

Fixpoint ref_enc (v : sval) : option (list byte) :=
  match v with
  | SBool b => Some (ref_bool b)
  | SInt _ z => Some (fmt_int z)
  | SF32 f | SF64 f => Some (ref_float f)
  | SChar c => Some (ref_string (utf8_encode c))
  | SStr s => Some (ref_string s)
  | SBytes bs => Some (ref_array false (map (fun b => fmt_int (Z.of_N b)) bs))
  | SNone | SUnit | SUnitStruct _ => Some ref_null
  | SSome x | SNewtypeStruct _ x => ref_enc x
  | SUnitVariant _ _ variant => Some (ref_string variant)
  | SNewtypeVariant _ _ variant x => option_map (ref_tagged variant) (ref_enc x)
  | SSeq len es => option_map (ref_array (hint0 len)) (sequence (map ref_enc es))
  | STuple len es | STupleStruct _ len es =>
      option_map (ref_array (hint0 (Some len))) (sequence (map ref_enc es))
  | STupleVariant _ _ variant len es =>
      option_map (fun items => ref_tagged variant (ref_array (hint0 (Some len)) items))
                 (sequence (map ref_enc es))
  | SMap len kvs =>
      option_map (ref_object (hint0 len))
                 (sequence (map (fun kv => ref_member (ref_key (fst kv)) (ref_enc (snd kv))) kvs))
  | SStruct _ len fs =>
      option_map (ref_object (hint0 (Some len)))
                 (sequence (map (fun kv => ref_member (Some (ref_string (fst kv))) (ref_enc (snd kv))) fs))
  | SStructVariant _ _ variant len fs =>
      option_map (fun ms => ref_tagged variant (ref_object (hint0 (Some len)) ms))
                 (sequence (map (fun kv => ref_member (Some (ref_string (fst kv))) (ref_enc (snd kv))) fs))
  | SCollectStr frags => Some (ref_string (concat frags))
  | SHumanReadable hr compact => if ref_human_readable then ref_enc hr else ref_enc compact
  end.

(* ================================================================== predicates used by the theorems *)

(* a key MapKeySerializer accepts: str / char / integer / unit variant / newtype struct of those *)
Fixpoint key_ok (k : sval) : bool :=
  match k with
  | SStr _ | SChar _ | SInt _ _ | SUnitVariant _ _ _ | SCollectStr _ => true
  | SNewtypeStruct _ x => key_ok x
  | SHumanReadable hr compact => if human_readable then key_ok hr else key_ok compact
  | _ => false
  end.

(* every map key that the value serializer reaches is acceptable *)
Fixpoint keys_ok (v : sval) : bool :=
  match v with
  | SSome x | SNewtypeStruct _ x | SNewtypeVariant _ _ _ x => keys_ok x
  | SSeq _ es | STuple _ es | STupleStruct _ _ es | STupleVariant _ _ _ _ es => forallb keys_ok es
  | SMap _ kvs => forallb (fun kv => key_ok (fst kv) && keys_ok (snd kv)) kvs
  | SStruct _ _ fs | SStructVariant _ _ _ _ fs => forallb (fun kv => keys_ok (snd kv)) fs
  | SHumanReadable hr compact => if human_readable then keys_ok hr else keys_ok compact
  | _ => true
  end.

(* the length hints are truthful where it matters (a hint of zero only on an empty compound) *)
Definition hint_ok {A} (len : option N) (l : list A) : bool :=
  negb (hint0 len) || match l with [] => true | _ => false end.
Fixpoint hints_ok (v : sval) : bool :=
  match v with
  | SSome x | SNewtypeStruct _ x | SNewtypeVariant _ _ _ x => hints_ok x
  | SSeq len es => hint_ok len es && forallb hints_ok es
  | STuple len es | STupleStruct _ len es | STupleVariant _ _ _ len es =>
      hint_ok (Some len) es && forallb hints_ok es
  | SMap len kvs => hint_ok len kvs && forallb (fun kv => hints_ok (snd kv)) kvs
  | SStruct _ len fs | SStructVariant _ _ _ len fs =>
      hint_ok (Some len) fs && forallb (fun kv => hints_ok (snd kv)) fs
  | SHumanReadable hr compact => if human_readable then hints_ok hr else hints_ok compact
  | _ => true
  end.

(* a property of every float token / every string / every char the serializer is handed,
   map keys, field names and variant names included *)
Definition all_of {A} (P : A -> Prop) (l : list A) : Prop :=
  fold_right (fun a acc => P a /\ acc) True l.

Section Forall_sval.
Variables (Pf : list byte -> Prop) (Ps : list byte -> Prop) (Pc : N -> Prop).
Definition fval_All (f : fval) : Prop := match f with FFinite tok => Pf tok | FNonFinite => True end.
Fixpoint sval_All (v : sval) : Prop :=
  match v with
  | SF32 f | SF64 f => fval_All f
  | SChar c => Pc c
  | SStr s => Ps s
  | SUnitVariant _ _ variant => Ps variant
  | SSome x | SNewtypeStruct _ x => sval_All x
  | SNewtypeVariant _ _ variant x => Ps variant /\ sval_All x
  | SSeq _ es | STuple _ es | STupleStruct _ _ es => all_of sval_All es
  | STupleVariant _ _ variant _ es => Ps variant /\ all_of sval_All es
  | SMap _ kvs => all_of (fun kv => sval_All (fst kv) /\ sval_All (snd kv)) kvs
  | SStruct _ _ fs => all_of (fun kv => Ps (fst kv) /\ sval_All (snd kv)) fs
  | SStructVariant _ _ variant _ fs =>
      Ps variant /\ all_of (fun kv => Ps (fst kv) /\ sval_All (snd kv)) fs
  | SCollectStr frags => Ps (concat frags)
  | SHumanReadable hr compact => if human_readable then sval_All hr else sval_All compact
  | _ => True
  end.
End Forall_sval.

(* ryu's contract: the text of a finite float is a JSON number *)
Definition floats_ok (v : sval) : Prop :=
  sval_All (fun tok => is_jnumber tok = true) (fun _ => True) (fun _ => True) v.
(* the weaker fact the clean-bytes theorem needs: no control byte in a float's text *)
Definition floats_clean (v : sval) : Prop :=
  sval_All (Forall (fun b => 32 <= b)) (fun _ => True) (fun _ => True) v.
(* every &str handed to the serializer is UTF-8 (true of any Rust &str), every char is a Unicode
   scalar value (true of any Rust char), float texts are UTF-8 (they are ASCII) *)
Definition text_utf8 (v : sval) : Prop := sval_All utf8 utf8 is_scalar v.
