#!/usr/bin/env python3
"""C11 — data borrowed from a received reply is never overwritten while still usable (partial;
open finding C11.later_item_needs_transport_read)."""
import os, sys, json
sys.path.insert(0, os.path.join(os.path.dirname(os.path.abspath(__file__)), "..", "lib"))
from vlib import *
import framegen as fg
from rconn import constants

PID = "C11"
HEADER = "From ZV Require Import Common.Exec Framing.ReadConn Framing.Borrow Framing.BorrowExec.\nOpen Scope N_scope.\n"
PREFIX = b'{"parameters":{"note":"'
SUFFIX = b'"}}'
SIG = "C11.later_item_needs_transport_read"


def note(rng, ln):
    alphabet = "abcdefghijklmnopqrstuvwxyz0123456789-_ ."
    return "".join(rng.choice(alphabet) for _ in range(ln))


def fr(t):
    return PREFIX + t.encode() + SUFFIX


def frame_bytes(k, t):
    if k == "ok":
        return fr(t)
    if k == "okws":                       # insignificant whitespace in front of the document
        return b"\n " + fr(t)
    if k == "okcont":                     # a reply that says more will follow for the same call
        return CONT + t.encode() + SUFFIX
    if k == "okpretty":                   # tabs and line breaks between the tokens (pretty-printed by the peer)
        return PRETTY + t.encode() + SUFFIX
    if k == "badutf8":                    # not valid UTF-8: must be a decode error
        return PREFIX + t.encode() + b"\xff" + SUFFIX
    return OTHER[k]


CONT = b'{"continues":true,"parameters":{"note":"'
PRETTY = b'{\n\t"parameters":\t{\n\t\t"note":\t"'


def note_off(k):
    if k == "okpretty":
        return len(PRETTY)
    if k == "okcont":
        return len(CONT)
    return len(PREFIX) + (2 if k == "okws" else 0)


EXPECT = {"ok": "ok", "okws": "ok", "okpretty": "ok", "okcont": "ok", "merr": "merr", "bad": "err:json", "badutf8": "err:json"}


OTHER = {
    "merr": b'{"error":"org.example.Busy"}',
    "vs": b'{"error":"org.varlink.service.MethodNotFound","parameters":{"method":"a.B"}}',
    "bad": b'{"parameters":{"note":42}}',
}


def gen_cases(ck, limit, step):
    rng = ck.rng
    cases = []
    quick = ck.tier == "quick"

    def add(frames, events, tag, pre=0, take=None, owed=0):
        """frames: list of (kind, text) in wire order; the first `pre` are received before the chain;
        take: stop after that many stream items and drop the unfinished stream; owed: calls of the
        chain beyond the replies in the script (the stream then ends in end-of-file or stays pending)."""
        c = {"id": len(cases), "n": len(frames) - pre, "pre": pre, "frames": frames, "events": events, "tag": tag}
        if take is not None:
            c["take"] = take
        nc = sum(1 for k, t in frames[pre:] if k == "okcont")
        if owed or nc:
            # a "continues" reply does not finish its call: the chain has one call per final reply
            c["calls"] = len(frames) - pre - nc + owed
            c["items"] = len(frames) - pre + 2
        cases.append(c)

    def chunk(stream, mode):
        if mode == "one_read":
            cuts = []
        elif mode == "per_reply":
            cuts = [j + 1 for j, b in enumerate(stream) if b == 0]
        elif mode == "two_bursts":
            nul = [j + 1 for j, b in enumerate(stream) if b == 0]
            cuts = [rng.choice(nul[:-1])] if len(nul) > 1 else []
        else:
            cuts = fg.random_cuts(rng, len(stream), rng.randrange(1, 6))
        return fg.events_of(rng, fg.chunks_from_cuts(stream, cuts), pend_prob=rng.choice([0, 0.3]))

    def wire(frames):
        return fg.wire([frame_bytes(k, t) for k, t in frames])
    corpus = os.path.join(VERIF, "corpus", "c11.jsonl")
    if os.path.exists(corpus):
        for line in open(corpus):
            if line.strip():
                c = json.loads(line)
                add([tuple(f) for f in c["frames"]], c["events"], "corpus", c.get("pre", 0))
    # (a) random reply strings, several chunkings
    for i in range(400 if quick else 8000):
        n = rng.randrange(2, 7)
        frames = [("ok", note(rng, rng.choice([1, 3, 8, 20, rng.randrange(1, 60),
                                                rng.randrange(100, 400) if rng.random() < 0.3 else 5])))
                  for _ in range(n)]
        stream = wire(frames)
        if len(stream) >= limit:
            continue
        mode = rng.choice(["one_read", "per_reply", "random", "two_bursts"])
        add(frames, chunk(stream, mode), mode)
    # (b) bursts whose total length lands on / next to every growth step (one read)
    base = len(PREFIX) + len(SUFFIX) + 1
    for k in range(1, 6 if quick else 12):
        for d in (-2, -1, 0, 1, 2):
            total = k * step + d
            n = rng.randrange(2, 5)
            short = [note(rng, rng.randrange(1, 12)) for _ in range(n - 1)]
            rest = total - sum(len(t) + base for t in short) - base
            if rest < 1:
                continue
            for pos in (0, n - 1):
                texts = list(short)
                texts.insert(pos, note(rng, rest))
                frames = [("ok", t) for t in texts]
                assert len(wire(frames)) == total
                if total < limit:
                    add(frames, chunk(wire(frames), "one_read"), "burst_on_growth_step")
                    # the same burst with replies that say "continues" (17 bytes longer each): the burst ends a
                    # little before / after the step
                    fc = [("okcont" if j < len(frames) - 1 and rng.random() < 0.7 else "ok", t) for j, (k_, t) in enumerate(frames)]
                    if any(k_ == "okcont" for k_, t in fc) and len(wire(fc)) < limit:
                        add(fc, chunk(wire(fc), "one_read"), "burst_with_continuing_replies")
    # (b2) bursts with continuing replies that leave 0..70 bytes of the buffer free
    for k in range(1, 4 if quick else 10):
        for free in (0, 1, 2, 17, 33, 63, 64, 65, 70):
            total = k * step - free
            n = rng.randrange(3, 6)
            kinds = ["okcont" if rng.random() < 0.6 else "ok" for _ in range(n - 1)] + ["ok"]
            if "okcont" not in kinds:
                kinds[0] = "okcont"
            texts = [note(rng, rng.randrange(1, 12)) for _ in range(n)]
            frs = list(zip(kinds, texts))
            rest = total - len(wire(frs))
            if rest < 0:
                continue
            j = rng.randrange(0, n)
            frs[j] = (frs[j][0], frs[j][1] + note(rng, rest))
            assert len(wire(frs)) == total
            if total < limit:
                add(frs, chunk(wire(frs), "one_read"), "burst_with_continuing_replies")
    # (c) a later reply in the same burst that is an error / undecodable / service error
    for i in range(60 if quick else 600):
        n = rng.randrange(2, 6)
        frames = [("ok", note(rng, rng.randrange(1, 40))) for _ in range(n)]
        frames.insert(rng.randrange(1, n + 1), (rng.choice(["merr", "vs", "bad"]), ""))
        add(frames, chunk(wire(frames), rng.choice(["one_read", "one_read", "two_bursts"])), "non_success_in_burst")
    # (c2) replies with insignificant leading whitespace; replies that are not valid UTF-8
    for i in range(60 if quick else 600):
        n = rng.randrange(2, 6)
        frames = [(rng.choice(["ok", "okws", "okws", "okpretty", "okpretty"]), note(rng, rng.randrange(1, 40))) for _ in range(n)]
        if rng.random() < 0.5:
            frames[0] = ("ok", note(rng, rng.randrange(20, 60)))     # a long first note under the later frames' blanks
        if rng.random() < 0.4:
            j = rng.randrange(0, n)
            frames[j] = ("badutf8", frames[j][1])
            if rng.random() < 0.5 and j + 1 < n:
                frames[-1] = ("badutf8", frames[-1][1])
        stream = wire(frames)
        mode = rng.choice(["one_read", "one_read", "two_bursts", "per_reply"])
        ev = chunk(stream, mode)
        if mode == "one_read" and rng.random() < 0.5:
            # more data arrives later on the transport (a later exchange)
            ev = ev[:-1] + [["p"], ["d", fg.wire([fr("later")]).hex()], ["e"]]
            frames = frames + [("ok", "later")]
        add(frames, ev, "leading_whitespace_or_bad_utf8")
    # (c3) the caller stops early and drops the unfinished stream while holding earlier items
    for i in range(60 if quick else 600):
        n = rng.randrange(2, 6)
        frames = [("ok", note(rng, rng.randrange(1, 40))) for _ in range(n)]
        add(frames, chunk(wire(frames), rng.choice(["one_read", "one_read", "two_bursts"])), "drop_unfinished_stream",
            take=rng.randrange(1, n))
    # (c4) the chain is owed more replies than arrive: the held items are re-read after the stream
    # reported end-of-file, and after a poll that found the transport empty (nothing is read in either)
    for i in range(80 if quick else 800):
        n = rng.randrange(1, 5)
        big = rng.random() < 0.5
        frames = [("ok", note(rng, rng.randrange(100, 400) if big and j == 0 else rng.randrange(1, 40))) for j in range(n)]
        pre = 0
        if rng.random() < 0.3:           # the buffer was grown by an earlier exchange
            frames = [("ok", note(rng, rng.choice([300, 700, 1500])))] + frames
            pre = 1
        ev = chunk(wire(frames), rng.choice(["one_read", "one_read", "two_bursts", "per_reply"]))
        if i % 2:
            ev = ev[:-1] + [["p"]] * rng.randrange(0, 3)       # no end-of-file: the last poll stays pending
        add(frames, ev, "owed_more_than_arrives_" + ("pending" if i % 2 else "eof"), pre=pre, owed=rng.randrange(1, 3))
    # (d) a connection whose buffer was grown by an earlier large reply, then a chain of short replies
    for i in range(60 if quick else 600):
        pre = [("ok", note(rng, rng.choice([300, 700, 1100, 1500, 2500])))]
        n = rng.randrange(2, 5)
        frames = pre + [("ok", note(rng, rng.randrange(1, 30))) for _ in range(n)]
        head = wire(pre)
        tail = wire(frames[1:])
        ev = chunk(head, "one_read")[:-1] + chunk(tail, rng.choice(["one_read", "one_read", "per_reply"]))
        add(frames, ev, "after_large_reply", pre=1)
    # (e) large bursts (> 4 growth steps) in one read ending in a short reply
    for i in range(30 if quick else 300):
        frames = [("ok", note(rng, rng.randrange(250, 500))) for _ in range(rng.randrange(3, 6))] + \
                 [("ok", note(rng, rng.randrange(1, 20)))]
        if len(wire(frames)) < limit:
            add(frames, chunk(wire(frames), "one_read"), "large_burst_short_last")
    return cases


def settle(ck, c, r, leg=""):
    """Spec-level checks of the events in which nothing is read from the transport: the end of the
    stream, polling a finished stream again, a poll that stays pending, the end-of-file report.
    Returns the result cut back to the steps the model runs, and whether the case is still clean."""
    steps = r["steps"]

    def show(vs):
        return [bytes.fromhex(v)[:24] for v in vs]
    last_ok = [s_ for s_ in steps if s_.get("views") is not None]
    for key, what in (("after_end", "the stream reported its end"), ("after_stuck", "a poll found the transport empty")):
        a = r.get(key)
        if a and last_ok:
            ref = last_ok[-1]["views"]
            for vk in ("views", "views_again", "views_after_drop"):
                if vk in a and a[vk] != ref and a["data_reads"] == last_ok[-1]["data_reads"]:
                    ck.violation("%sheld reply strings changed when %s (%s), although nothing was read from the "
                                 "transport: %s -> %s" % (leg, what, vk, show(ref), show(a[vk])),
                                 {"leg": "production" if leg else "hook", "case": c, "impl": r}, tag="e%s%d" % (leg[:1], c["id"]))
                    return r, False
            if key == "after_end" and not a.get("none_again", True):
                ck.violation("%sa finished reply stream yielded something when polled again" % leg,
                             {"leg": "production" if leg else "hook", "case": c, "impl": r}, tag="f%s%d" % (leg[:1], c["id"]))
                return r, False
    if "calls" in c and len(steps) >= len(c["frames"]):
        nfr = len(c["frames"])
        extra = steps[nfr:]
        # at most one more step: the end-of-file report (no data was read for it)
        for s_ in extra:
            if s_["data_reads"] == steps[nfr - 1]["data_reads"] and s_["views"] != steps[nfr - 1]["views"]:
                ck.violation("%sheld reply strings changed when the stream reported %s for a reply that never came, "
                             "although nothing was read from the transport: %s -> %s" % (
                                 leg, s_["res"], show(steps[nfr - 1]["views"]), show(s_["views"])),
                             {"leg": "production" if leg else "hook", "case": c, "impl": r}, tag="o%s%d" % (leg[:1], c["id"]))
                return r, False
        if extra and not (len(extra) == 1 and extra[0]["res"] == "err:eof"):
            ck.violation("%sa chain owed %d more replies than arrived yielded %s after the replies" % (
                leg, c["calls"] - (nfr - c["pre"]), [s_["res"] for s_ in extra]),
                {"leg": "production" if leg else "hook", "case": c, "impl": r}, tag="x%s%d" % (leg[:1], c["id"]))
            return r, False
        r = dict(r)
        r["steps"] = steps[:nfr]
    return r, True


def render(c, r, step, limit):
    views = [coq_list([coq_bytes(bytes.fromhex(v)) for v in s["views"]]) for s in r["steps"]]
    flags, prev = [], 0
    for s in r["steps"]:
        flags.append("true" if s["data_reads"] > prev else "false")
        prev = s["data_reads"]
    mask = ["true" if (k in ("ok", "okws", "okpretty", "okcont") and i >= c["pre"]) else "false" for i, (k, t) in enumerate(c["frames"])]
    notes = [coq_bytes(t.encode()) if k in ("ok", "okws", "okpretty", "okcont") else "[]" for k, t in c["frames"]]
    offs = ["%d%%nat" % note_off(k) for k, t in c["frames"]]
    return ("{| bc_step := %d; bc_limit := %d; bc_events := %s; bc_n := %d%%nat; bc_offs := %s; "
            "bc_suf := %d%%nat; bc_notes := %s; bc_mask := %s; bc_views := %s; bc_reads := %s |}") % (
        step, limit, fg.coq_events(c["events"]), len(c["frames"]), coq_list(offs), len(SUFFIX),
        coq_list(notes), coq_list(mask), coq_list(views), coq_list(flags))


def main():
    ck = Check(PID)
    step, limit, _ = constants(ck)
    if getattr(ck, "proof_ok", True):
        ck.prove(["gen/Consts.v", "Framing/BorrowExec.v"], "props/C11.v")
    if ck.replay:
        rp = json.load(open(ck.replay))
        cases = [rp["case"]] if "case" in rp and rp.get("leg") != "production" else []
        for i, c in enumerate(cases):
            c["id"] = i
    else:
        cases = gen_cases(ck, limit, step)
    ok, log = ck.harness_build(["borrow"])
    if not ok:
        ck.violation("harness does not build against /repo", {"log": log[-3000:]}, tag="build", no_input=True)
        ck.finish()
    results = ck.harness_run("borrow", cases)
    ck.ran_correspondence = True
    items = []
    for c, r in zip(cases, results):
        if r.get("panic") or r.get("crash"):
            ck.violation("reply stream panicked/crashed while items were held", {"case": c, "impl": r},
                         tag="panic%d" % c["id"])
            continue
        # every item must be classified as its frame prescribes (a reply that is not valid UTF-8 or
        # of the wrong shape is a decode error and ends the stream; nothing is yielded for it)
        exp = []
        for k, t in c["frames"][: len(r["steps"])]:
            exp.append("vs" if k == "vs" else EXPECT[k])
        got = ["vs" if s_["res"].startswith("vs:") else s_["res"] for s_ in r["steps"]]
        if got[:len(exp)] != exp[:len(got)] or (len(got) < len(exp) and "take" not in c and not r.get("stuck")):
            ck.violation("stream items were not classified as the reply frames prescribe: got %s, frames %s" % (
                got, [k for k, t in c["frames"]]), {"case": c, "impl": r}, tag="r%d" % c["id"])
            continue
        # dropping an unfinished stream is not a transport read: what is held must stay as it was
        if r.get("after_drop") is not None and r["steps"]:
            if r["after_drop"] != r["steps"][-1]["views"]:
                ck.violation("held reply strings changed when the unfinished stream was dropped: %s -> %s" % (
                    [bytes.fromhex(v)[:24] for v in r["steps"][-1]["views"]],
                    [bytes.fromhex(v)[:24] for v in r["after_drop"]]), {"case": c, "impl": r}, tag="d%d" % c["id"])
                continue
        r, ok2 = settle(ck, c, r)
        if not ok2:
            continue
        items.append((c, r))
    try:
        bad = ck.coq_eval("cases", HEADER, items, lambda it: render(it[0], it[1], step, limit))
    except RuntimeError as e:
        ck.violation("model evaluation failed: " + str(e)[:300], {"log": str(e)}, tag="eval", no_input=True)
        bad = {}
    known = corrupted_overwritten = corrupted_freed = 0
    shown = 0
    for idx in sorted(bad):
        c, r = items[idx]
        code = bad[idx]
        if code & 4 and not (code & 3):
            known += 1
            last = r["steps"][-1]["views"]
            if any(set(bytes.fromhex(v)) == {0xDD} for v in last if v):
                corrupted_freed += 1
            else:
                corrupted_overwritten += 1
            if known == 1:
                first = c
            ck.violation("a held reply string changed after a later item was read from the transport",
                         {"case": c, "impl": r}, tag="k%d" % c["id"], sig=SIG)
            continue
        if shown >= 4:
            continue
        shown += 1
        term = render(c, r, step, limit)
        model = ck.coq_show(HEADER, "(map (fun x => (snd (fst x), notes_of (bc_suf (%s)) (bc_offs (%s)) (snd x))) (bmodel (%s)))" % (term, term, term))
        if code & 2:
            ck.violation("a held reply string changed although no later item needed a transport read",
                         {"case": c, "impl": r, "model": model}, tag="c%d" % c["id"])
        else:
            ck.violation("implementation differs from the buffer shadow model (Framing/Borrow.v)",
                         {"case": c, "impl": r, "model": model,
                          "correspondence": "Borrow.run_hold vs held &str re-read after each stream item"},
                         tag="m%d" % c["id"], no_input=True)
    # ---- production buffer limit (borrow harness built WITHOUT the hook cfg): replies far beyond the
    # hook's limit. Every chain here has all its replies in ONE transport burst, so no later item needs
    # a transport read and the theorem's conclusion applies as it stands (it is proved for every limit):
    # each held string reads as it was yielded, after every later item, after the end of the stream,
    # after a pending poll and after an end-of-file report.
    prod_runs = 0
    if not ck.replay or json.load(open(ck.replay)).get("leg") == "production":
        root = harness_root()
        rc_, log_ = sh("cargo build --offline --bin borrow --target-dir %s" % os.path.join(root, "target-nohook"),
                       timeout=1500, cwd=root, env={"RUSTFLAGS": ""})
        if rc_ != 0:
            ck.violation("borrow harness does not build against /repo without the hook cfg", {"log": log_[-3000:]},
                         tag="pbuild", no_input=True)
        else:
            rng = ck.rng
            pcases = []
            if ck.replay:
                pc = json.load(open(ck.replay))["case"]
                pc["id"] = 0
                pcases.append(pc)
            SIZES = [limit - 40, limit, limit + step, 2 * limit, 4 * limit + 3, 5 * limit, 16 * limit + 100, 17 * limit, 40 * limit]
            for i in range(0 if ck.replay else (36 if ck.tier == "quick" else 300)):
                n = rng.randrange(2, 5)
                lens = [rng.randrange(1, 60) for _ in range(n)]
                lens[rng.randrange(0, n)] = rng.choice(SIZES)
                if rng.random() < 0.3:
                    lens[rng.randrange(0, n)] = rng.choice(SIZES[:6])
                frames = [("ok", note(rng, 8) * (ln // 8) + note(rng, ln % 8)) for ln in lens]
                pre = 0
                ev = []
                if rng.random() < 0.35:      # an earlier exchange grew the buffer
                    frames = [("ok", note(rng, 10) * (rng.choice(SIZES) // 10))] + frames
                    pre = 1
                    ev = [["d", fg.wire([frame_bytes(*frames[0])]).hex()], ["p"]]
                ev.append(["d", fg.wire([frame_bytes(k, t) for k, t in frames[pre:]]).hex()])
                mode = i % 3
                owed = 0
                if mode == 0:
                    ev.append(["e"])
                elif mode == 1:
                    owed = rng.randrange(1, 3)
                    ev += [["p"]] * rng.randrange(0, 2)
                else:
                    owed = rng.randrange(1, 3)
                    ev.append(["e"])
                c = {"id": len(pcases), "n": len(frames) - pre, "pre": pre, "frames": frames, "events": ev,
                     "tag": ["all_arrive", "owed_pending", "owed_eof"][mode]}
                if owed:
                    c["calls"] = len(frames) - pre + owed
                pcases.append(c)
            exe = os.path.join(root, "target-nohook", "debug", "borrow")
            n_sh = 12
            parts = [pcases[j::n_sh] for j in range(n_sh) if pcases[j::n_sh]]
            from concurrent.futures import ThreadPoolExecutor

            def prun(part):
                inp = "\n".join(json.dumps({k: v for k, v in c.items() if k != "frames"}) for c in part) + "\n"
                rc2, out2 = sh(exe, timeout=900, input=inp)
                got = {}
                for l in out2.splitlines():
                    if l.startswith("{"):
                        try:
                            o = json.loads(l)
                            got[o.get("id")] = o
                        except ValueError:
                            pass
                return got
            pres = {}
            with ThreadPoolExecutor(max_workers=n_sh) as ex:
                for got in ex.map(prun, parts):
                    pres.update(got)
            for c in pcases:
                prod_runs += 1
                r = pres.get(c["id"])
                sizes = [len(t) for k, t in c["frames"]]
                slim = dict(c)
                slim["frames"] = [[k, "<%d bytes>" % len(t)] if len(t) > 200 else [k, t] for k, t in c["frames"]]
                if r is None or r.get("panic"):
                    ck.violation("production limit: reply stream crashed/panicked while replies of %s bytes were held" % sizes,
                                 {"leg": "production", "case": c, "impl": r}, tag="pp%d" % c["id"])
                    continue
                want_all = [t.encode().hex() for k, t in c["frames"][c["pre"]:]]
                okc = True
                for j, s_ in enumerate(r["steps"]):
                    k_items = max(0, min(j + 1 - c["pre"], len(want_all)))
                    if j < len(c["frames"]) and (s_["res"] != "ok" or s_["views"] != want_all[:k_items]):
                        okc = False
                        first_bad = j
                        break
                if not okc:
                    r2 = dict(r)
                    r2["steps"] = [{"res": s_["res"], "views": [v[:48] for v in s_["views"]]} for s_ in r["steps"]]
                    ck.violation("production limit: replies of %s bytes in one burst: after item %d the held strings no "
                                 "longer read as they were yielded" % (sizes, first_bad),
                                 {"leg": "production", "case": c, "impl": r2}, tag="pv%d" % c["id"])
                    continue
                if len(r["steps"]) < len(c["frames"]):
                    ck.violation("production limit: only %d of %d replies of %s bytes were yielded" % (
                        len(r["steps"]), len(c["frames"]), sizes), {"leg": "production", "case": c, "impl": r},
                        tag="pn%d" % c["id"])
                    continue
                settle(ck, c, r, leg="production limit: ")
    hist = {}
    for c in cases:
        hist[c["tag"]] = hist.get(c["tag"], 0) + 1
    nontriv = {case_hash([c["frames"], c["events"]]) for c in cases}
    ck.cov.update({"evaluations": len(cases), "distinct_nontrivial": len(nontriv),
                   "traces_validated_against_impl": len(items), "case_classes": hist,
                   "cases_in_known_finding_class_with_corruption": known,
                   "of_which_overwritten_in_place": corrupted_overwritten,
                   "of_which_freed_by_reallocation": corrupted_freed,
                   "cases_all_items_stable": len(items) - len(bad),
                   "production_limit_runs": prod_runs})
    for c in cases[:2]:
        ck.samples.append({"frames": [(k, t[:30]) for k, t in c["frames"]], "events": [e[0] for e in c["events"]]})
    ck.assumptions += [
        "PARTIAL: the model tracks which bytes a yielded item points to and what later reads do to them; undefined "
        "behaviour itself (a live shared reference to rewritten/freed memory) is outside Gallina; the harness makes the "
        "effect observable with an allocator that always moves on realloc and poisons+leaks freed buffers",
        "Vec growth policy (capacity doubles; reallocation only when the length exceeds the capacity) is modelled as "
        "observed for this toolchain's alloc::raw_vec and tied by the correspondence",
    ]
    ck.finish(rule="a case = (reply strings, chunking of the reply stream); all items are held while the stream is "
                   "polled to its end; distinct by hash")


if __name__ == "__main__":
    main()
