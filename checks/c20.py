#!/usr/bin/env python3
"""C20 — notified state: subscribers converge on the latest value, in order; one-shot
notification; zlink-tokio and zlink-smol behave identically."""
import os, sys, json, itertools
sys.path.insert(0, os.path.join(os.path.dirname(os.path.abspath(__file__)), "..", "lib"))
from vlib import *

PID = "C20"
HEADER = ("From ZV Require Import Common.Exec Notified.Notified Notified.NotifiedExec.\n"
          "Open Scope N_scope.\n")


# ------------------------------------------------------------------ case generation
# operations (JSON): ["set",h,v] ["get",h] ["sub",h] ["poll",s] ["dropsub",s] ["clone",h]
# ["drophandle",h] ["notify",v] ["dropnotifier"] ["pollonce"]; h = handle index (0 = State::new)
def seqs(alpha, maxlen, max_sets, max_subs, max_handles=1, need_sub=True):
    """All operation lists over `alpha` (pairs (kind, index)) up to `maxlen` in which a handle /
    subscriber is only used once it exists and is not dropped twice; the values of the sets are
    11, 12, ..."""
    out = []

    def rec(prefix, nset, nsub, dsub, nh, dh):
        if prefix and (nsub >= 1 or not need_sub):
            out.append(list(prefix))
        if len(prefix) >= maxlen:
            return
        for k, i in alpha:
            if k in ("set", "get", "sub", "clone", "drophandle"):
                if i >= nh or i in dh:
                    continue
                if k == "set":
                    if nset < max_sets:
                        prefix.append(["set", i, 11 + nset])
                        rec(prefix, nset + 1, nsub, dsub, nh, dh)
                        prefix.pop()
                elif k == "get":
                    if not prefix or prefix[-1][0] != "get":
                        prefix.append(["get", i])
                        rec(prefix, nset, nsub, dsub, nh, dh)
                        prefix.pop()
                elif k == "sub":
                    if nsub < max_subs:
                        prefix.append(["sub", i])
                        rec(prefix, nset, nsub + 1, dsub, nh, dh)
                        prefix.pop()
                elif k == "clone":
                    if nh < max_handles:
                        prefix.append(["clone", i])
                        rec(prefix, nset, nsub, dsub, nh + 1, dh)
                        prefix.pop()
                else:
                    prefix.append(["drophandle", i])
                    rec(prefix, nset, nsub, dsub, nh, dh | {i})
                    prefix.pop()
            elif k == "poll":
                if i < nsub and i not in dsub:
                    prefix.append(["poll", i])
                    rec(prefix, nset, nsub, dsub, nh, dh)
                    prefix.pop()
            elif k == "dropsub":
                if i < nsub and i not in dsub:
                    prefix.append(["dropsub", i])
                    rec(prefix, nset, nsub, dsub | {i}, nh, dh)
                    prefix.pop()
    rec([], 0, 0, frozenset(), 1, frozenset())
    return out


def random_ops(rng, max_sets, max_subs, length):
    ops, nset, nsub, nh, dh = [], 0, 0, 1, set()
    repeat_vals = rng.random() < 0.25
    kinds = ["set"] * 4 + ["sub"] * 2 + ["poll"] * 8 + ["dropsub"] + ["once"] * 2 + ["get"]
    if rng.random() < 0.5:
        kinds += ["clone", "drophandle"]
    if rng.random() < 0.3:
        kinds += ["drophandle"]

    def handle():
        live = [h for h in range(nh) if h not in dh]
        if live and rng.random() < 0.93:
            return rng.choice(live)
        return rng.randrange(0, nh + 1)          # sometimes a dropped / not yet existing handle
    while len(ops) < length:
        k = rng.choice(kinds)
        alive = len(dh) < nh
        if k == "set":
            if nset >= max_sets and alive:
                continue
            v = rng.choice([11, 12]) if repeat_vals else 11 + nset
            ops.append(["set", handle(), v])
            nset += 1
        elif k == "get":
            ops.append(["get", handle()])
        elif k == "sub":
            if nsub >= max_subs and alive:
                continue
            h = handle()
            ops.append(["sub", h])
            if h < nh and h not in dh:
                nsub += 1
        elif k == "clone":
            if nh >= 4:
                continue
            h = handle()
            ops.append(["clone", h])
            if h < nh and h not in dh:
                nh += 1
        elif k == "drophandle":
            h = handle()
            ops.append(["drophandle", h])
            if h < nh:
                dh.add(h)
        elif k == "poll":
            # mostly existing subscribers, sometimes one that does not exist (yet)
            s = rng.randrange(0, max(1, nsub)) if rng.random() < 0.95 else nsub + rng.randrange(0, 2)
            ops.append(["poll", s])
            if rng.random() < 0.4:
                ops.append(["poll", s])
        elif k == "dropsub":
            ops.append(["dropsub", rng.randrange(0, max(1, nsub))])
        else:
            ops.append(rng.choice([["pollonce"], ["pollonce"], ["notify", 70 + rng.randrange(0, 9)],
                                   ["dropnotifier"]]))
    return ops[:length]


def gen_cases(ck):
    rng = ck.rng
    quick = ck.tier == "quick"
    cases = []
    exhaustive = {}

    def add(ops, tag):
        cases.append({"id": len(cases), "ops": ops, "tag": tag})

    corpus = os.path.join(VERIF, "corpus", "c20.jsonl")
    if os.path.exists(corpus):
        for line in open(corpus):
            if line.strip():
                add(json.loads(line)["ops"], "corpus")

    def family(tag, alpha, maxlen, max_sets, max_subs, max_handles=1, need_sub=True):
        ls = seqs(alpha, maxlen, max_sets, max_subs, max_handles, need_sub)
        # a list covers its prefixes (results are compared operation by operation): keep the
        # lists of full length and the shorter ones that cannot be extended
        full = [l for l in ls if len(l) == maxlen]
        pre = set()
        for l in full:
            for i in range(1, len(l)):
                pre.add(json.dumps(l[:i]))
        keep = full + [l for l in ls if len(l) < maxlen and json.dumps(l) not in pre]
        for l in keep:
            add(l, tag)
        exhaustive[tag] = {"alphabet": ["%s%d" % a for a in alpha],
                           "max_len": maxlen, "max_sets": max_sets, "max_subs": max_subs,
                           "max_handles": max_handles,
                           "op_lists_covered_including_prefixes": len(ls), "cases_run": len(keep)}

    S = lambda h: ("set", h)
    U = lambda h: ("sub", h)
    P = lambda i: ("poll", i)
    D = lambda i: ("dropsub", i)
    C = lambda h: ("clone", h)
    X = lambda h: ("drophandle", h)
    G = lambda h: ("get", h)
    # (a) every interleaving of <= 4 sets with polls of 1..2 subscribers created at arbitrary points
    family("sets_polls_2subs", [S(0), U(0), P(0), P(1)], 10 if quick else 12, 4, 2)
    # (b) the same with subscribers and the state being dropped
    family("with_drops", [S(0), U(0), P(0), P(1), D(0), D(1), X(0)], 7 if quick else 9, 4, 2)
    # (c) <= 6 sets, 3 subscribers: exhaustive up to the length bound
    family("sets_polls_3subs", [S(0), U(0), P(0), P(1), P(2)], 7 if quick else 10, 6, 3)
    # (d) several handles to one state: clone, set / subscribe / get through either handle, drop
    #     either handle (a non-last drop must change nothing for the subscribers; the stream ends
    #     only when all handles are gone and the buffered value was delivered)
    family("handles_1sub", [S(0), S(1), U(0), U(1), P(0), C(0), X(0), X(1)], 8 if quick else 10, 3, 1, 2)
    family("handles_2subs_get", [S(0), S(1), G(0), G(1), U(0), U(1), P(0), P(1), C(0), C(1), X(0), X(1), X(2), D(0)],
           5 if quick else 6, 2, 2, 3)
    # (e) one-shot: every list of notify / drop / poll (notify before/after the first poll,
    #     notifier dropped without notifying, repeated polls, second notify attempt)
    n1 = 5 if quick else 7
    once_lists = []
    for n in range(1, n1 + 1):
        for t in itertools.product(["pollonce", "notify", "dropnotifier"], repeat=n):
            once_lists.append([[x, 71 + i] if x == "notify" else [x] for i, x in enumerate(t)])
    for l in once_lists:
        if len(l) == n1:
            add(l, "once")
    exhaustive["once"] = {"alphabet": ["pollonce", "notify", "dropnotifier"], "max_len": n1,
                          "op_lists_covered_including_prefixes": len(once_lists),
                          "cases_run": sum(1 for l in once_lists if len(l) == n1)}
    # (f) seeded random: <= 6 sets (sometimes with repeated values), <= 3 subscribers, up to 4
    #     handles, drops, gets, one-shot operations interleaved
    for i in range(4000 if quick else 50000):
        add(random_ops(rng, 6, 3, rng.choice([8, 12, 16, 24, 32])), "random")
    return cases, exhaustive


# ------------------------------------------------------------------ rendering
def coq_op(o):
    k = o[0]
    if k == "set":
        return "Set_ %d %d" % (o[1], o[2])
    if k == "get":
        return "Get %d" % o[1]
    if k == "sub":
        return "Subscribe %d" % o[1]
    if k == "poll":
        return "Poll %d" % o[1]
    if k == "dropsub":
        return "DropSub %d" % o[1]
    if k == "clone":
        return "CloneH %d" % o[1]
    if k == "drophandle":
        return "DropH %d" % o[1]
    if k == "notify":
        return "Notify %d" % o[1]
    if k == "dropnotifier":
        return "DropNotifier"
    if k == "pollonce":
        return "PollOnce"
    raise ValueError(k)


def coq_nn(ll):
    return coq_list(["[" + ";".join(str(x) for x in l) + "]" for l in ll])


def render_case(c, r):
    return "{| nc_ops := %s; nc_tokio := %s; nc_smol := %s; nc_tokio_w := %s; nc_smol_w := %s |}" % (
        coq_list([coq_op(o) for o in c["ops"]]), coq_nn(r["tokio"]), coq_nn(r["smol"]),
        coq_nn(r.get("tokio_w", [])), coq_nn(r.get("smol_w", [])))


WORDS = {0: "done", 3: "Pending", 4: "End", 5: "gone", 6: "PANIC", 8: "fuel"}


def word(x):
    if x[0] == 1:
        return "set(get=%d)" % x[1]
    if x[0] == 2:
        return "Item(%s,continues=%s)" % (x[2] if x[1] else "no-params", ["None", "Some(false)", "Some(true)"][x[3]])
    if x[0] == 7:
        return "sub#%d" % x[1]
    if x[0] == 9:
        return "get=%d" % x[1]
    if x[0] == 10:
        return "handle#%d" % x[1]
    return WORDS.get(x[0], str(x))


def describe(code):
    parts = []
    if code & 64:
        parts.append("zlink-tokio and zlink-smol differ from each other")
    if code & 16:
        parts.append("zlink-tokio's stream violates the property")
    if code & 32:
        parts.append("zlink-smol's stream violates the property")
    if code & 512:
        parts.append("zlink-tokio does not wake a subscriber it owes a wake-up (its poll returned Pending, then "
                     "something to receive arrived): an awaited stream would hang")
    if code & 1024:
        parts.append("zlink-smol does not wake a subscriber it owes a wake-up (its poll returned Pending, then "
                     "something to receive arrived): an awaited stream would hang")
    if code & 128:
        parts.append("zlink-tokio's wake-ups differ from its model")
    if code & 256:
        parts.append("zlink-smol's wake-ups differ from its model")
    if code & 4:
        parts.append("zlink-tokio differs from its model")
    if code & 8:
        parts.append("zlink-smol differs from its model")
    return "; ".join(parts)


def evaluate(ck, name, cases):
    """Run harness and Coq on the cases. Returns (results, {idx: code})."""
    results = ck.harness_run("notified", cases)
    items, crashed = [], []
    for c, r in zip(cases, results):
        if r.get("crash") or "tokio" not in r:
            crashed.append((c, r))
        else:
            items.append((c, r))
    bad = ck.coq_eval(name, HEADER, items, lambda it: render_case(it[0], it[1]), per_shard=400)
    return items, crashed, bad


def shrink(ck, c, code_mask):
    """Greedy removal of operations while the case keeps failing with the same kind of code."""
    ops = c["ops"]
    for rnd in range(40):
        cands = []
        for i in range(len(ops)):
            o2 = ops[:i] + ops[i + 1:]
            # keep subscriber numbering meaningful: removing a "sub" renumbers; allowed, the
            # candidate is evaluated from scratch anyway
            cands.append({"id": len(cands), "ops": o2, "tag": "shrink"})
        if not cands:
            break
        try:
            items, crashed, bad = evaluate(ck, "shrink", cands)
        except RuntimeError:
            break
        pick = None
        for idx in sorted(bad):
            if bad[idx] & code_mask:
                pick = items[idx][0]["ops"]
                break
        if pick is None:
            break
        ops = pick
    return ops


def main():
    ck = Check(PID)
    ck.prove(["Notified/NotifiedExec.v", "Notified/NotifiedWake.v", "Notified/NotifiedProofs.v", "Notified/NotifiedHandles.v"], "props/C20.v",
             extra_audit=["Notified/NotifiedExec.v"])

    exhaustive = {}
    if ck.replay:
        rp = json.load(open(ck.replay))
        cases = [dict(rp["case"], id=0)] if "case" in rp else []
    else:
        cases, exhaustive = gen_cases(ck)

    ok, log = ck.harness_build(["notified"])
    if not ok:
        ck.violation("harness does not build against /repo", {"log": log[-3000:]}, tag="build", no_input=True)
        ck.finish()
    try:
        items, crashed, bad = evaluate(ck, "cases", cases)
    except RuntimeError as e:
        ck.violation("model evaluation failed: " + str(e)[:300], {"log": str(e)}, tag="eval", no_input=True)
        items, crashed, bad = [], [], {}
    ck.ran_correspondence = True
    for c, r in crashed[:3]:
        ck.violation("the notified harness crashed on an operation list", {"case": c, "impl": r},
                     tag="crash%d" % c["id"])

    # report: property violations first (shortest first), at most 5; then model-only differences
    order = sorted(bad, key=lambda i: (0 if bad[i] & 2 else 1, len(items[i][0]["ops"]), i))
    n_rep, n_try, seen_small = 0, 0, set()
    for idx in order:
        if n_rep >= 5 or n_try >= 12:
            break
        c, r = items[idx]
        code = bad[idx]
        n_try += 1
        small = c["ops"]
        if n_try <= 4 and not ck.replay and len(small) > 3:
            small = shrink(ck, c, 2 if code & 2 else 1)
        key = json.dumps([[o[0]] + ([o[1]] if o[0] != "notify" and len(o) > 1 else []) for o in small])
        if key in seen_small:
            continue            # the same minimal scenario (up to the values) was already reported
        seen_small.add(key)
        n_rep += 1
        cs = {"id": 0, "ops": small, "tag": c["tag"]}
        rs = ck.harness_run("notified", [cs])[0]
        term = render_case(cs, rs)
        shown = ck.coq_show(HEADER, "(check (%s), show (%s))" % (term, term))
        obj = {"case": cs, "original_case": c, "code": code, "meaning": describe(code),
               "impl": {"tokio": [word(x) for x in rs["tokio"]], "smol": [word(x) for x in rs["smol"]],
                        "tokio_wakes_per_op": rs.get("tokio_w"), "smol_wakes_per_op": rs.get("smol_w")},
               "impl_raw": rs, "check_and_models(tokio,smol,reference)": shown}
        opsdesc = " ".join(coq_op(o).replace(" ", "") for o in small)
        if code & 2:
            wk = ""
            if code & (128 | 256 | 512 | 1024):
                wk = " wakes(tokio)=%s wakes(smol)=%s" % (rs.get("tokio_w"), rs.get("smol_w"))
            ck.violation("%s on [%s]: tokio=%s smol=%s%s" % (
                describe(code), opsdesc, [word(x) for x in rs["tokio"]], [word(x) for x in rs["smol"]], wk),
                obj, tag="c%d" % c["id"])
        else:
            obj["correspondence"] = "Notified/Notified.v run vs zlink_{tokio,smol}::notified"
            ck.violation("%s (the property itself holds on this history) on [%s]" % (describe(code), opsdesc),
                         obj, tag="m%d" % c["id"], no_input=True)

    # coverage
    hashes, nontriv, hist, kinds, lens = set(), set(), {}, {}, {}
    for c in cases:
        h = case_hash(c["ops"])
        hashes.add(h)
        nset = sum(1 for o in c["ops"] if o[0] == "set")
        npoll = sum(1 for o in c["ops"] if o[0] in ("poll", "pollonce"))
        if (nset >= 2 and npoll >= 1) or any(o[0] in ("notify", "dropnotifier") for o in c["ops"]):
            nontriv.add(h)
        hist[c["tag"]] = hist.get(c["tag"], 0) + 1
        for o in c["ops"]:
            kinds[o[0]] = kinds.get(o[0], 0) + 1
        lens[len(c["ops"])] = lens.get(len(c["ops"]), 0) + 1
    lagged = sum(1 for c, r in items if lag_happened(c))
    ck.cov.update({
        "evaluations": len(cases), "distinct_nontrivial": len(nontriv), "distinct": len(hashes),
        "traces_validated_against_impl": len(items), "crates": ["zlink-tokio", "zlink-smol"],
        "case_classes": hist, "op_kinds": kinds, "op_list_lengths": {str(k): v for k, v in sorted(lens.items())},
        "cases_with_a_lagging_subscriber": lagged, "exhaustive_families": exhaustive,
        "wakeups_observed": sum(len(w) for c, r in items for k in ("tokio_w", "smol_w") for w in r.get(k, [])),
        "cases_with_a_wakeup_owed": sum(1 for c, r in items if any(r.get("tokio_w", []))),
    })
    for c in cases[:2] + cases[len(cases) // 2: len(cases) // 2 + 2] + cases[-2:]:
        ck.samples.append({"ops": " ".join(coq_op(o).replace(" ", "") for o in c["ops"]), "tag": c["tag"]})
    ck.assumptions += [
        "the models of tokio::sync::broadcast(1)/BroadcastStream/oneshot and async-broadcast/async-channel are "
        "hand-written (Notified/Notified.v) from the crate versions in Cargo.lock; their tie to the code is the "
        "per-operation correspondence with the real crates on the generated operation lists",
        "one thread, one operation at a time, no runtime: every stream is polled with its own counting waker "
        "and the wake-ups each operation causes are compared with the models and with the obligation "
        "(Pending => registered; what makes a registered stream ready wakes it); locks and concurrent "
        "senders are outside the model; position counters are unbounded (no 2^64 wrap)",
        "the one-shot stream is not dropped before the notifier in the scenarios; State handles are cloned and "
        "dropped freely (each clone is a handle to the same channel with its own value copy)",
    ]
    ck.finish(rule="a case = one operation list run against both crates; distinct by hash of the list; "
                   "non-trivial = at least two sets and a poll, or a one-shot notify/drop")


def lag_happened(c):
    """Some subscriber had two or more sets between two of its polls."""
    since = {}
    nsub = 0
    for o in c["ops"]:
        if o[0] == "sub":
            since[nsub] = 0
            nsub += 1
        elif o[0] == "set":
            for k in since:
                since[k] += 1
        elif o[0] == "poll" and o[1] in since:
            if since[o[1]] >= 2:
                return True
            since[o[1]] = 0
    return False


if __name__ == "__main__":
    main()
