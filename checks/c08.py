#!/usr/bin/env python3
"""C08 — the server answers each call once, in order, on its own connection; oneway gets none."""
import os, sys, json
sys.path.insert(0, os.path.join(os.path.dirname(os.path.abspath(__file__)), "..", "lib"))
from vlib import *
import servergen as sg

PID = "C08"

# per-connection call lists (<= 3 calls): kind, oneway
MENU = [
    [("Echo", False)],
    [("Echo", True)],
    [("Fail", False)],
    [("Echo", False), ("Echo", True)],
    [("Echo", True), ("Echo", False)],
    [("Fail", True), ("Count", False)],
    [("Count", False), ("Count", False)],
    [("Echo", False), ("Fail", False), ("Echo", False)],
    [("Echo", True), ("Echo", True), ("Ping", False)],
    [("Count", False), ("Echo", True), ("Count", False)],
    [("Ping", True), ("Fail", False), ("Count", True)],
    [("Say", False), ("Echo", False)],
    [("Say", False), ("Say", True), ("Say", False)],
]


def frames_for(rng, tags, cid, calls):
    out = []
    for kind, ow in calls:
        out.append(sg.call(kind, cid, tags.next(), v=rng.randrange(0, 1000), oneway=ow,
                           more=rng.choice([False, False, True, "false"]),      # the flag does not decide the answer
                           s=sg.nasty(rng), raw_utf8=rng.random() < 0.3, extra=sg.pick_extra(rng)))
    return out


def salient_cuts(frames):
    """Cut positions worth trying: around every terminator and in the middle of every frame."""
    pos, p = set(), 0
    for f in frames:
        pos.update([p + 1, p + len(f) // 2, p + len(f), p + len(f) + 1])
        p += len(f) + 1
    return sorted(x for x in pos if 0 < x < p)


def gen_cases(ck):
    rng = ck.rng
    quick = ck.tier == "quick"
    cases = sg.load_corpus("c08.jsonl")

    def add(script, hyp, tag, info):
        cases.append({"script": script, "hyp": hyp, "tag": tag, "info": info})

    # (a) one connection: every call list, every single cut and pairs of salient cuts, polled after
    #     every arrival or only at the end
    for calls in MENU:
        tags = sg.Tags()
        fr = frames_for(rng, tags, 0, calls)
        stream = sg.wire(fr)
        sal = salient_cuts(fr)
        cutsets = [[]] + [[p] for p in (range(1, len(stream)) if not quick else sal)]
        cutsets += [[a, b] for a in sal for b in sal if a < b]
        for cs in cutsets:
            chunks = sg.cut(stream, cs)
            evs = [["n", 0]] + [["a", 0, ch.hex()] for ch in chunks]
            for mask in ((1 << len(evs)) - 1, 0):
                add(sg.with_polls(evs, mask), [0], "one_conn", {"calls": calls, "cuts": cs})
    # (b) two connections: exhaustive interleavings of (connect, chunk, chunk, ..) sequences for
    #     call lists x <= 2 cut points, polled after every event; all poll masks for a sample
    pairs = [(a, b) for a in MENU for b in MENU]
    rng.shuffle(pairs)
    n_pairs = 16 if quick else 40
    for calls_a, calls_b in pairs[:n_pairs]:
        tags = sg.Tags()
        fa, fb = frames_for(rng, tags, 0, calls_a), frames_for(rng, tags, 1, calls_b)
        sa, sb = sg.wire(fa), sg.wire(fb)
        for _ in range(2 if quick else 4):
            ca = sorted(rng.sample(salient_cuts(fa), min(rng.randrange(0, 3), len(salient_cuts(fa)))))
            cb = sorted(rng.sample(salient_cuts(fb), min(rng.randrange(0, 3), len(salient_cuts(fb)))))
            seq_a = [["n", 0]] + [["a", 0, ch.hex()] for ch in sg.cut(sa, ca)]
            seq_b = [["n", 1]] + [["a", 1, ch.hex()] for ch in sg.cut(sb, cb)]
            merges = list(sg.interleavings([seq_a, seq_b]))
            for m in merges:
                add(sg.with_polls(m, (1 << len(m)) - 1), [0, 1], "two_conn_all_interleavings",
                    {"calls": [calls_a, calls_b], "cuts": [ca, cb]})
            m = rng.choice(merges)
            masks = range(1 << len(m)) if len(m) <= (6 if quick else 8) else \
                [rng.getrandbits(len(m)) for _ in range(40)]
            for mask in masks:
                add(sg.with_polls(m, mask), [0, 1], "two_conn_all_poll_masks",
                    {"calls": [calls_a, calls_b], "cuts": [ca, cb], "mask": mask})
    # (s) complete calls of two (three) connections become available between the same two polls of the server,
    #     with every previous winner (both round-robin orders): none may be consumed and thrown away
    for nconn in (2, 3):
        for last in range(nconn):
            for calls_each in (1, 2):
                for ow in (False, True):
                    tags = sg.Tags()
                    warm = [["n", c] for c in range(nconn)] + [["p"]]
                    warm += [["a", last, sg.wire([sg.call("Echo", last, tags.next(), v=1)]).hex()], ["p"]]
                    arr = [["a", c, sg.wire([sg.call(rng.choice(["Echo", "Count", "Fail"]), c, tags.next(), v=c,
                                                     oneway=ow and j == 0) for j in range(calls_each)]).hex()]
                           for c in range(nconn)]
                    for order in (arr, arr[::-1]):
                        add(warm + order + [["p"], ["p"]], list(range(nconn)), "calls_same_poll",
                            {"conns": nconn, "last_winner": last})
    # (e) the service echoes client-provided strings: U+0000 and other control characters, quotes, backslashes,
    #     multi-byte characters; every reply must be exactly one frame (serde_json's rendering + one NUL) and
    #     the replies behind it must not shift
    for i, text in enumerate(sg.NASTY + [sg.nasty(rng) for _ in range(10 if quick else 200)]):
        tags = sg.Tags()
        fr = [sg.call("Say", 0, tags.next(), s=text, raw_utf8=(i % 2 == 1)), sg.call("Echo", 0, tags.next(), v=i),
              sg.call("Say", 0, tags.next(), s=text + text), sg.call("Count", 0, tags.next())]
        other = [sg.call("Say", 1, tags.next(), s=sg.nasty(rng)), sg.call("Echo", 1, tags.next(), v=1)]
        add([["n", 0], ["a", 0, sg.wire(fr).hex()], ["p"]], [0], "echo_strings", {"s": repr(text)})
        add(sg.with_polls([["n", 0], ["n", 1], ["a", 0, sg.wire(fr[:2]).hex()], ["a", 1, sg.wire(other).hex()],
                           ["a", 0, sg.wire(fr[2:]).hex()]], rng.getrandbits(5)), [0, 1], "echo_strings",
            {"s": repr(text)})
    # (m) the answer kind is the service's decision, not the flag's: streaming answers for calls with `more`
    #     absent, false and true, plain answers for calls with "more":true, with calls pipelined behind
    for more in sg.MORE:
        for n_items in (0, 1, 3):
            for split in (False, True):
                tags = sg.Tags()
                fr = [sg.call("Echo", 0, tags.next(), v=1, more=True), sg.call("Sub", 0, tags.next(), more=more),
                      sg.call("Fail", 0, tags.next(), v=2, more=True), sg.call("Count", 0, tags.next(), more="false")]
                arr = [["a", 0, sg.wire(fr).hex()]] if not split else [["a", 0, sg.wire([f]).hex()] for f in fr]
                sev = [["si", 0, 10 + j, rng.randrange(0, 3)] for j in range(n_items)] + [["se", 0]]
                m = [["n", 0]] + sg.random_merge(rng, [arr, sev])
                add(sg.with_polls(m, (1 << len(m)) - 1), [0], "answer_kind_vs_more_flag", {"more": more, "items": n_items})
                add(sg.with_polls(m, 0), [0], "answer_kind_vs_more_flag", {"more": more, "items": n_items})
    # (f) flag combinations: oneway / more / upgrade each absent, true or written-out false (27 combinations),
    #     the flag members in any position of the object, for calls the service answers Single, Error and
    #     Multi.  Whether a call is oneway is read off the frame by the harness independently of zlink's
    #     call deserializer; a oneway call gets nothing, whatever else it carries, and the next call's reply
    #     must not shift
    for ki, kind in enumerate(("Echo", "Fail", "Sub", "Say")):
        for fi, (o, m, u) in enumerate(sg.FLAG_COMBOS):
            tags = sg.Tags()
            order = sg.MEMBER_ORDERS[(fi + ki) % len(sg.MEMBER_ORDERS)]
            fr = [sg.call(kind, 0, tags.next(), v=7, oneway=o, more=m, upgrade=u, order=order, s="x\u0000y"),
                  sg.call("Echo", 0, tags.next(), v=8),
                  sg.call(kind, 0, tags.next(), v=9, oneway=o, more=m, upgrade=u, shuffle=rng, s="z"),
                  sg.call("Count", 0, tags.next())]
            sev = [["si", 0, 5, 1], ["se", 0], ["si", 0, 6, 2], ["se", 0]] if kind == "Sub" else []
            add([["n", 0], ["a", 0, sg.wire(fr).hex()], ["p"]] + [x for e in sev for x in (e, ["p"])], [0],
                "flag_combinations", {"kind": kind, "oneway": o, "more": m, "upgrade": u, "order": order})
            if quick and fi % 3:
                continue
            other = [sg.call("Echo", 1, tags.next(), v=1, oneway=o, more=m, upgrade=u, shuffle=rng),
                     sg.call("Count", 1, tags.next())]
            ev = [["n", 0], ["n", 1], ["a", 0, sg.wire(fr[:1]).hex()], ["a", 1, sg.wire(other).hex()],
                  ["a", 0, sg.wire(fr[1:]).hex()]] + sev
            add(sg.with_polls(ev, rng.getrandbits(len(ev))), [0, 1], "flag_combinations",
                {"kind": kind, "oneway": o, "more": m, "upgrade": u})
    # (g) suspension points: Service::handle of a call stays pending for k polls, or the write of its reply
    #     does, and MEANWHILE a new client connects / another connection's call arrives / an item of an open
    #     reply stream becomes ready.  The call must still be answered exactly once, in order, and nothing of
    #     the others may be lost (sequential reference only: the model assumes immediate completion)
    for k in (1, 2, 3):
        for what in ("handle", "write", "both"):
            for meanwhile in ("connect", "call", "item", "all"):
                for variant in range(1 if quick else 4):
                    tags = sg.Tags()
                    t1 = tags.next()
                    fr0 = [sg.call(rng.choice(["Echo", "Fail", "Count"]), 0, t1, v=1),
                           sg.call("Count", 0, tags.next()), sg.call("Echo", 0, tags.next(), v=2, oneway=(variant == 1))]
                    fr1 = [sg.call("Sub", 1, tags.next(), more=True), sg.call("Echo", 1, tags.next(), v=3)]
                    fr2 = [sg.call("Echo", 2, tags.next(), v=4), sg.call("Count", 2, tags.next())]
                    fr3 = [sg.call("Say", 3, tags.next(), s="late"), sg.call("Echo", 3, tags.next(), v=5)]
                    ev = [["n", 0], ["n", 1], ["n", 2], ["a", 1, sg.wire(fr1).hex()], ["p"]]
                    if what in ("handle", "both"):
                        ev.append(["hg", t1, k])
                    if what in ("write", "both"):
                        ev.append(["wp", 0, 0, k])
                    ev += [["a", 0, sg.wire(fr0).hex()], ["p"]]          # the server is now suspended in t1
                    if meanwhile in ("connect", "all"):
                        ev += [["n", 3], ["a", 3, sg.wire(fr3).hex()]]
                    if meanwhile in ("call", "all"):
                        ev += [["a", 2, sg.wire(fr2).hex()]]
                    if meanwhile in ("item", "all"):
                        ev += [["si", 1, 77, 1]]
                    ev += [["p"]] * (2 * k + 2) + [["si", 1, 78, 2], ["se", 1], ["a", 2, sg.wire(fr2[:1]).hex()]] + [["p"]] * 3
                    cases.append({"script": ev, "hyp": [0, 1, 2] + ([3] if meanwhile in ("connect", "all") else []),
                                  "tag": "suspended_handle_or_write", "spec_only": True,
                                  "info": {"k": k, "what": what, "meanwhile": meanwhile}})
    # (n) MANY simultaneously connected clients: 33, 40, 64, 100 -- idle ones plus one busy one placed last /
    #     first / in the middle; all busy; everybody answered, in order, and the oneway calls handled
    for n in (33, 40, 64, 100):
        for shape in ("last_busy", "first_busy", "middle_busy", "all_busy", "late_half"):
            if quick and n in (40, 64) and shape in ("first_busy", "middle_busy"):
                continue
            tags = sg.Tags()
            busy = {"last_busy": [n - 1], "first_busy": [0], "middle_busy": [n // 2, 32, 33 % n],
                    "all_busy": list(range(n)), "late_half": list(range(n // 2, n))}[shape]
            busy = sorted(set(busy))
            ev = [["n", c] for c in range(n)] + [["p"]]
            rounds = 2 if shape in ("all_busy", "late_half") else 3
            for rnd in range(rounds):
                for c in busy:
                    fr = [sg.call(rng.choice(["Echo", "Count", "Fail"]), c, tags.next(), v=c, oneway=(rnd == 1 and c % 2 == 0)),
                          sg.call("Count", c, tags.next())]
                    ev.append(["a", c, sg.wire(fr).hex()])
                ev.append(["p"])
            ev.append(["p"])
            add(ev, busy, "many_connections", {"connections": n, "shape": shape, "busy": len(busy)})
    # (w) one connection's writes fail (at every position) while the others have calls pending / pipelined:
    #     the others are answered as if nothing had happened
    for k in range(0, 4):
        for nother in (1, 2, 3):
            for variant in range(2 if quick else 8):
                tags = sg.Tags()
                bad = rng.randrange(0, nother + 1)
                seqs = []
                for cid in range(nother + 1):
                    fr = [sg.call(rng.choice(["Echo", "Count", "Fail", "Say"]), cid, tags.next(), v=cid,
                                  s=sg.nasty(rng)) for _ in range(4 if cid == bad else rng.randrange(2, 5))]
                    seq = [["a", cid, sg.wire(fr).hex()]] if variant % 2 == 0 else \
                        [["a", cid, ch.hex()] for ch in sg.cut(sg.wire(fr), [rng.randrange(1, len(sg.wire(fr)))])]
                    seqs.append(([sg.fw(cid, k, sg.IO_KINDS[(k * 3 + nother + variant) % len(sg.IO_KINDS)])] if cid == bad else []) + seq)
                m = [["n", c] for c in range(nother + 1)] + sg.random_merge(rng, seqs)
                mask = 0 if variant % 2 == 0 else rng.getrandbits(len(m))
                add(sg.with_polls(m, mask) + [["p"]], [c for c in range(nother + 1) if c != bad],
                    "write_failure_elsewhere", {"failing": bad, "at_write": k, "others": nother})
    # (c) seeded random: up to 4 connections x up to 5 calls, any cuts, any merge, any polls
    kinds = ["Echo", "Echo", "Fail", "Count", "Ping", "Total", "Sub", "Say"]
    for i in range(1400 if quick else 12000):
        nconn = rng.randrange(1, 5)
        tags = sg.Tags()
        seqs, hyp = [], []
        for cid in range(nconn):
            ncalls = rng.randrange(0, 6)
            frames, shared, nsub = [], False, 0
            for _ in range(ncalls):
                kind = rng.choice(kinds)
                ow = rng.random() < 0.3
                if kind == "Total":
                    shared = True
                if kind == "Sub":
                    nsub += 1
                frames.append(sg.call(kind, cid, tags.next(), v=rng.randrange(0, 100000),
                                      oneway=ow or rng.choice([False, False, "false"]),
                                      more=rng.choice(sg.MORE), upgrade=rng.choice([False, False, True, "false"]),
                                      shuffle=rng if rng.random() < 0.3 else None,
                                      s=sg.nasty(rng), raw_utf8=rng.random() < 0.3))
            stream = sg.wire(frames)
            ncut = rng.choice([0, 0, 1, 2, 2, 3, 5])
            chunks = sg.cut(stream, [rng.randrange(1, max(2, len(stream))) for _ in range(ncut)]) if stream else []
            seq = [["n", cid]] + [["a", cid, ch.hex()] for ch in chunks]
            sevs = []
            for _ in range(nsub):
                for j in range(rng.randrange(0, 3)):
                    sevs.append(["si", cid, rng.randrange(0, 1000), rng.randrange(0, 3)])
                if rng.random() < 0.85:
                    sevs.append(["se", cid])
            seqs.append(seq)
            if sevs:
                seqs.append(sevs)
            if not shared:
                hyp.append(cid)
        m = sg.random_merge(rng, seqs)
        mask = rng.choice([(1 << len(m)) - 1, 0, rng.getrandbits(max(1, len(m)))])
        add(sg.with_polls(m, mask), hyp, "random", {"conns": nconn})
    return cases


def big_upload_pairs(ck):
    """Inputs far above the hook limit, on the harness built without the cfg: client 0 uploads a call of
    70 KiB / 1.2 MiB (and calls whose frame is exactly 65536, 65792, 131072 bytes long, i.e. bursts that
    fill the 256-byte-stepped read buffer to the brim and end in NUL) in pieces while client 1 makes calls
    between the pieces.  Reference: the reply does not depend on the padding -- the same scenario with a
    one-byte padding must give every connection exactly the same writes."""
    rng = ck.rng
    quick = ck.tier == "quick"
    pairs = []
    sizes = [(70 * 1024 + 13, 8 * 1024), (65536, 65536), (65536, 4096), (65792, 65792), (65792, 10000),
             (131072, 131072), (131072, 30000)]
    sizes += [(1200 * 1024 + 7, 64 * 1024)] if quick else [(1200 * 1024 + 7, 64 * 1024), (1200 * 1024, 100000),
                                                          (1048576 + 256, 65536), (262144, 262144)]
    for total, piece in sizes:
        for other_active in (True, False):
            tags = sg.Tags()
            t_big, t_after, t_after2 = tags.next(), tags.next(), tags.next()
            small_calls = [sg.wire([sg.call("Echo", 1, tags.next(), v=j)]) for j in range(40)]

            def script(frame):
                data = frame + b"\0"
                chunks = [data[i:i + piece] for i in range(0, len(data), piece)] if len(data) > 200 else [data]
                ev = [["n", 0], ["n", 1], ["p"], ["a", 0, sg.wire([sg.call("Count", 0, tags.n + 100)]).hex()], ["p"]]
                n_pieces = max(1, (total + piece - 1) // piece)
                j = 0
                for i in range(n_pieces):
                    if len(chunks) == n_pieces:
                        ev.append(["a", 0, chunks[i].hex()])
                    elif i == n_pieces - 1:
                        ev.append(["a", 0, data.hex()])        # the small twin: everything with the last piece
                    if other_active and j < len(small_calls):
                        ev.append(["a", 1, small_calls[j].hex()])
                        j += 1
                    ev.append(["p"])
                ev += [["a", 0, sg.wire([sg.call("Echo", 0, t_after, v=2), sg.call("Count", 0, t_after2)]).hex()],
                       ["a", 1, small_calls[-1].hex()], ["p"], ["p"]]
                return ev
            big = {"script": script(sg.big_call(0, t_big, total)), "hyp": [], "tag": "big_upload", "nohook": True,
                   "info": {"frame_bytes": total, "piece": piece, "other_client_active": other_active}}
            small = {"script": script(sg.big_call(0, t_big, 80)), "hyp": [], "tag": "big_upload_small_twin",
                     "nohook": True, "info": {"twin_of": total}}
            pairs.append((big, small))
    return pairs


def check_big_uploads(ck, pairs):
    flat = [c for p in pairs for c in p]
    res = sg.run_nohook(ck, flat)
    if res is None:
        return 0
    n = 0
    for (big, small), rb, rs in zip(pairs, res[0::2], res[1::2]):
        slim = dict(big, script=[e if e[0] != "a" or len(e[2]) < 400 else ["a", e[1], e[2][:200] + "...(%d bytes)" % (len(e[2]) // 2)]
                                 for e in big["script"]])
        msg = None
        if rb.get("panic") or rb.get("crash"):
            msg = "Server::run panicked or exceeded its budget: %s" % (rb.get("why") or "no result")[:200]
        elif rb.get("sleeps"):
            msg = "Server::run went to sleep although it could make progress: %s" % "; ".join(rb["sleeps"][:2])
        elif not (rs.get("panic") or rs.get("crash")):
            def per_poll(r, k):
                return [[bytes(e[2:]) for e in p["tr"] if e[0] == 3 and e[1] == k] for p in r["polls"]]
            for k in (0, 1):
                if per_poll(rb, k) != per_poll(rs, k):
                    late = next(i for i, (x, y) in enumerate(zip(per_poll(rb, k), per_poll(rs, k))) if x != y)
                    msg = ("connection %d: after poll %d the replies written differ from the same scenario without "
                           "padding (a complete call was not served when it had arrived, or a reply is missing)"
                           % (k, late))
                    break
                if sg.writes_of(rb, k) != sg.writes_of(rs, k) or k in sg.dropped(rb):
                    msg = ("connection %d got %d replies with the large upload present, %d with the same call "
                           "without padding (or was dropped)" % (k, len(sg.writes_of(rb, k)), len(sg.writes_of(rs, k))))
                    break
        if msg and n < 5:
            n += 1
            ck.violation("production buffer sizes: " + msg + " [big_upload %s]" % big["info"],
                         {"case": big if len(json.dumps(big)) < 400000 else slim, "generator": big["info"],
                          "impl_trace": sg.pretty_trace(rb)[-12:] if "polls" in rb else rb},
                         tag="big%d" % big["id"])
    ck.cov["big_upload_pairs_without_hook_cfg"] = len(pairs)
    return n


def main():
    ck = Check(PID)
    step, limit = sg.consts(ck)
    if getattr(ck, "proof_ok", True):
        ck.prove(["gen/Consts.v", "Server/ServerExec.v"], "props/C08.v")
    if ck.replay:
        rp = json.load(open(ck.replay))
        cases = [rp["case"]] if "case" in rp else []
    else:
        cases = gen_cases(ck)
    big = [c for c in cases if c.get("nohook")]
    cases = [c for c in cases if not c.get("nohook")]
    if not ck.replay:
        check_big_uploads(ck, big_upload_pairs(ck))
    elif big:
        # replay of a big_upload case: run it with its small twin regenerated from the generator parameters
        check_big_uploads(ck, [p for p in big_upload_pairs(ck) if p[0]["info"] == big[0].get("info")] or
                          [(big[0], dict(big[0]))])
    out = sg.run_cases(ck, cases, step, limit)
    n_viol = 0
    for c, r, code in sorted(out, key=lambda x: (0 if x[2] & 2 else 1, x[0]["id"])):
        if not code or n_viol >= 5:
            continue
        n_viol += 1
        detail = {"case": c, "impl_trace": sg.pretty_trace(r), "script": sg.script_summary(c["script"]),
                  "model_and_spec": sg.show_model(ck, c, r, step, limit)}
        if code & 2:
            ck.violation("a connection's output differs from the sequential reference of its own calls "
                         "(each call answered once, in order, oneway calls not at all) [%s]" % c["tag"],
                         detail, tag="c%d" % c["id"])
        else:
            detail["correspondence"] = "Server/Server.v run vs Server::run trace"
            ck.violation("implementation differs from the Server model (outputs agree with the spec) [%s]"
                         % c["tag"], detail, tag="m%d" % c["id"], no_input=True)
    hist, nontriv, hashes = {}, set(), set()
    ncalls = 0
    for c in cases:
        h = case_hash(c["script"])
        hashes.add(h)
        arr = [e for e in c["script"] if e[0] == "a"]
        if len(arr) >= 2:
            nontriv.add(h)
        hist[c["tag"]] = hist.get(c["tag"], 0) + 1
    for c, r, code in out:
        ncalls += len(sg.invocations(r))
    ck.cov.update({
        "evaluations": len(cases), "distinct_nontrivial": len(nontriv), "distinct": len(hashes),
        "traces_validated_against_impl": len(out), "service_invocations_observed": ncalls,
        "case_classes": hist, "step": step, "limit_under_hook": limit,
        "spec_checked_connections": sum(len(c.get("hyp", [])) for c in cases),
        "exhaustive_parts": "all merges of the two connections' (connect, chunk..) sequences for the sampled "
                      "call lists and cut sets; all poll masks for one merge each",
    })
    for c in cases[:2] + cases[len(cases) // 2: len(cases) // 2 + 2]:
        ck.samples.append({"script": sg.script_summary(c["script"])[:8], "tag": c["tag"]})
    ck.assumptions += [
        "decode(frame) is obtained by running serde_json::from_slice::<Call<M>> on the isolated frame; "
        "reply texts are rendered by serde_json from the same values (templates), independently of the server",
        "the model is hand-written (Server/Server.v); its tie to server/mod.rs and select_all.rs is the "
        "trace-level correspondence after every poll of the real Server::run future (ordered accepts, "
        "service invocations, write calls with bytes and boundaries, failed writes, dropped sockets and "
        "streams, unread bytes per socket)",
        "writes complete immediately and Service::handle is ready immediately in the harness; the two "
        "`unsafe` reborrows in the loop are outside the model",
    ]
    ck.finish(rule="a case = an environment script (connects, byte arrivals, stream events, polls); distinct "
                   "by hash of the script; non-trivial = at least two byte arrivals")


if __name__ == "__main__":
    main()
