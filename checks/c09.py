#!/usr/bin/env python3
"""C09 — a faulty client ends only its own connection; the server and the others carry on."""
import os, sys, json
sys.path.insert(0, os.path.join(os.path.dirname(os.path.abspath(__file__)), "..", "lib"))
from vlib import *
import servergen as sg

PID = "C09"

FAULTS = ["garbage", "unknown_method", "wrong_types", "missing_params", "not_object", "truncated_json",
          "deep_200_arr_p", "deep_200_obj_p", "deep_150_arr_m", "deep_127_obj_p",
          "truncated_then_eof", "eof_mid_burst", "eof_clean", "read_error", "write_error", "oversize",
          "empty_frame"]


def healthy_seq(rng, tags, cid, streams):
    """connect + arrivals of a well-behaved client (per-connection service only)."""
    frames, sevs = [], []
    for _ in range(rng.randrange(1, 5)):
        kind = rng.choice(["Echo", "Count", "Fail", "Ping", "Count"] + (["Sub"] if streams else []))
        frames.append(sg.call(kind, cid, tags.next(), v=rng.randrange(0, 1000), oneway=rng.random() < 0.15,
                              more=rng.choice(sg.MORE) if kind == "Sub" else rng.choice([False, False, True]),
                              extra=sg.pick_extra(rng)))
        if kind == "Sub":
            sevs += [["si", cid, rng.randrange(0, 99), rng.randrange(0, 3)] for _ in range(rng.randrange(0, 3))]
            sevs.append(["se", cid])
    stream = sg.wire(frames)
    chunks = sg.cut(stream, [rng.randrange(1, len(stream)) for _ in range(rng.choice([0, 0, 1, 2]))])
    return [["n", cid]] + [["a", cid, ch.hex()] for ch in chunks], sevs


def faulty_seq(rng, tags, cid, fault, place, limit):
    """connect + events of a client with one fault after `place` valid calls."""
    def valid():
        return sg.call(rng.choice(["Echo", "Count", "Fail"]), cid, tags.next(), v=rng.randrange(0, 1000),
                       extra=sg.pick_extra(rng, 0.15))
    pre = [valid() for _ in range(place)]
    post = [valid() for _ in range(rng.randrange(0, 2))]
    seq = [["n", cid]]
    if fault in ("garbage", "unknown_method", "wrong_types", "missing_params", "not_object", "truncated_json") \
            or fault.startswith("utf8_") or fault.startswith("deep_"):
        stream = sg.wire(pre + [sg.bad_frame(fault, cid, tags.next())] + post)
        seq += [["a", cid, ch.hex()] for ch in sg.cut(stream, [rng.randrange(1, len(stream)) for _ in range(rng.randrange(0, 3))])]
    elif fault == "empty_frame":
        stream = sg.wire(pre) + b"\0" + sg.wire(post)
        seq += [["a", cid, ch.hex()] for ch in sg.cut(stream, [rng.randrange(1, max(2, len(stream))) for _ in range(rng.randrange(0, 2))])]
    elif fault == "truncated_then_eof":
        stream = sg.wire(pre) + valid()[:rng.randrange(1, 30)]
        cuts = [len(sg.wire(pre))] if pre and rng.random() < 0.5 else []
        seq += [["a", cid, ch.hex()] for ch in sg.cut(stream, cuts)] + [["c", cid]]
    elif fault == "eof_mid_burst":
        stream = sg.wire(pre + [valid()]) + valid()[:rng.randrange(1, 30)]
        seq += [["a", cid, stream.hex()], ["c", cid]]
    elif fault == "eof_clean":
        if pre:
            seq += [["a", cid, sg.wire(pre).hex()]]
        seq += [["c", cid]]
    elif fault == "read_error":
        if pre:
            seq += [["a", cid, sg.wire(pre).hex()]]
        seq += [["fr", cid]]
        if post:
            seq += [["a", cid, sg.wire(post).hex()]]
    elif fault.startswith("read_io:"):
        # the read half fails with Error::Io(kind), once or persistently, at the start of a frame or inside one
        _, kind, pers, where = fault.split(":")
        stream = sg.wire(pre) + (valid()[:rng.randrange(1, 30)] if where == "mid" else b"")
        if stream:
            seq += [["a", cid, stream.hex()]]
        seq += [sg.fr(cid, kind, pers == "1")]
        seq += [["a", cid, sg.wire([valid()] + post).hex()]]
    elif fault == "write_error":
        calls = pre + [valid()] + post
        seq += [sg.fw(cid, place, rng.choice(sg.IO_KINDS))] + [["a", cid, sg.wire(calls).hex()]]
    elif fault == "oversize":
        big = b'{"method":"org.zv.Echo","parameters":{"c":%d,"t":%d,"v":1,"pad":"' % (cid, tags.next()) + \
              b"x" * (limit + rng.randrange(-40, 300)) + b'"}}'
        stream = sg.wire(pre) + big + b"\0" + sg.wire(post)
        seq += [["a", cid, ch.hex()] for ch in sg.cut(stream, [rng.randrange(1, len(stream)) for _ in range(rng.randrange(0, 3))])]
    else:
        raise ValueError(fault)
    return seq


def without(script, faulty):
    return [e for e in script if not (e[0] in ("n", "a", "c", "fr", "fw", "si", "se", "wp") and e[1] in faulty)]


def gen_cases(ck, limit):
    rng = ck.rng
    quick = ck.tier == "quick"
    cases = []
    for c in sg.load_corpus("c09.jsonl"):
        cases.append(c)
        cases.append(dict(c, script=without(c["script"], c["faulty"]), pair=len(cases) - 1, tag="corpus_without"))

    def add(script, faulty, healthy, tag, info):
        cases.append({"script": script, "hyp": healthy, "faulty": faulty, "healthy": healthy, "tag": tag,
                      "info": info})
        cases.append({"script": without(script, faulty), "hyp": healthy, "faulty": faulty, "healthy": healthy,
                      "tag": tag + "_without", "pair": len(cases) - 1, "info": info})

    # (a) one fault, every kind x placement, one healthy client: all interleavings, polled after every event
    for fault in FAULTS:
        for place in (0, 1, 2):
            if fault == "oversize" and (place > 0 and quick):
                continue
            tags = sg.Tags()
            fcid = rng.randrange(0, 2)
            hseq, _ = healthy_seq(rng, tags, 1 - fcid, False)
            fseq = faulty_seq(rng, tags, fcid, fault, place, limit)
            hseq, fseq = hseq[:4], fseq
            merges = list(sg.interleavings([hseq, fseq]))
            if len(merges) > (30 if quick else 400):
                merges = rng.sample(merges, 30 if quick else 400)
            if fault == "oversize":
                merges = merges[:3 if quick else 20]
            for m in merges:
                add(sg.with_polls(m, (1 << len(m)) - 1), [fcid], [1 - fcid], "one_fault_all_interleavings",
                    {"fault": fault, "place": place})
    # (b) random: one or two faulty clients among 1..3 healthy ones, streams allowed, random polls
    for i in range(1000 if quick else 8000):
        nh = rng.randrange(1, 4)
        nf = rng.choice([1, 1, 2])
        ids = list(range(nh + nf))
        rng.shuffle(ids)
        fids, hids = ids[:nf], ids[nf:]
        tags = sg.Tags()
        seqs, faults = [], []
        for h in hids:
            s, sevs = healthy_seq(rng, tags, h, rng.random() < 0.4)
            seqs.append(s)
            if sevs:
                seqs.append(sevs)
        for f in fids:
            fault = rng.choice([x for x in FAULTS if x != "oversize"] + (["oversize"] if rng.random() < 0.1 else []))
            faults.append(fault)
            seqs.append(faulty_seq(rng, tags, f, fault, rng.randrange(0, 3), limit))
        m = sg.random_merge(rng, seqs)
        mask = rng.choice([(1 << len(m)) - 1, 0, rng.getrandbits(len(m)), rng.getrandbits(len(m))])
        add(sg.with_polls(m, mask), fids, hids, "random_%d_faults" % nf, {"faults": faults})
    # (r) READ failures by io::ErrorKind: Error::Io(kind) for Interrupted, WouldBlock, TimedOut, ConnectionReset,
    #     UnexpectedEof, Other, once or on every further read, at the start of a frame and in the middle of one:
    #     at most that connection ends, the others get their replies, Server::run returns from the poll
    for ki, kind in enumerate(sg.READ_KINDS):
        for pers in ("0", "1"):
            for where in ("start", "mid"):
                for variant in range(2 if quick else 6):
                    tags = sg.Tags()
                    nh = 1 + (ki + variant) % 2
                    ids = list(range(nh + 1))
                    rng.shuffle(ids)
                    f, hids = ids[0], ids[1:]
                    fault = "read_io:%s:%s:%s" % (kind, pers, where)
                    seqs = [faulty_seq(rng, tags, f, fault, variant % 2, limit)]
                    for h in hids:
                        hs, hv = healthy_seq(rng, tags, h, variant == 1)
                        seqs.append(hs)
                        if hv:
                            seqs.append(hv)
                    m = sg.random_merge(rng, seqs)
                    add(sg.with_polls(m, (1 << len(m)) - 1 if variant == 0 else rng.getrandbits(len(m))), [f], hids,
                        "read_error_by_kind", {"fault": fault})
    # (u) frames that are not UTF-8 (lone continuation bytes, truncated and overlong sequences, 0xff/0xfe, an
    #     encoded surrogate, beyond U+10FFFF), bare, before/after an otherwise valid call, inside a string
    #     parameter, inside the method name, inside a key: the connection ends, nobody else notices, and
    #     the server does not panic
    for ui, fault in enumerate(sg.UTF8_BAD):
        for variant in range(1 if quick else 4):
            tags = sg.Tags()
            fcid = (ui + variant) % 2
            hseq, _ = healthy_seq(rng, tags, 1 - fcid, False)
            fseq = faulty_seq(rng, tags, fcid, fault, (ui + variant) % 3, limit)
            m = sg.random_merge(rng, [hseq, fseq])
            add(sg.with_polls(m, (1 << len(m)) - 1 if variant == 0 else rng.getrandbits(len(m))), [fcid], [1 - fcid],
                "invalid_utf8", {"fault": fault})
    # (h) a client hangs up or gets a read error WHILE another client's subscription is open; the items and
    #     the end of that stream come only afterwards
    for how in ("c", "fr"):
        for n_items in (0, 2):
            for behind in (0, 2):
                for fpos in (0, 1):
                    tags = sg.Tags()
                    h, f = 1 - fpos, fpos
                    frh = [sg.call("Sub", h, tags.next(), more=rng.choice(sg.MORE))] + \
                          [sg.call(rng.choice(["Echo", "Count"]), h, tags.next(), v=4) for _ in range(behind)]
                    ev = [["n", 0], ["n", 1], ["a", h, sg.wire(frh).hex()], ["p"],
                          ["a", f, sg.wire([sg.call("Echo", f, tags.next(), v=5)]).hex()], [how, f], ["p"]]
                    for j in range(n_items):
                        ev += [["si", h, 40 + j, 1], ["p"]]
                    ev += [["se", h], ["p"], ["p"]]
                    add(ev, [f], [h], "hangup_during_stream", {"fault": "hangup_" + how, "items": n_items})
    # (g) the fault happens while Service::handle / a reply write for a healthy client is suspended
    for k in (1, 2):
        for fault in ("garbage", "eof_clean", "read_error", "utf8_ff@bare"):
            for what in ("hg", "wp"):
                tags = sg.Tags()
                t1 = tags.next()
                frh = [sg.call("Echo", 1, t1, v=1), sg.call("Count", 1, tags.next())]
                fseq = faulty_seq(rng, tags, 0, fault, 0, limit)[1:]
                for late in (False, True):
                    # late: the faulty client also CONNECTS while the healthy client's call is suspended
                    ev = ([["n", 1]] if late else [["n", 0], ["n", 1]]) + \
                         [["p"], (["hg", t1, k] if what == "hg" else ["wp", 1, 0, k]),
                          ["a", 1, sg.wire(frh).hex()], ["p"]] + ([["n", 0]] if late else []) + fseq + \
                         [["p"]] * (2 * k + 3)
                    add(ev, [0], [1], "fault_while_suspended", {"fault": fault, "k": k, "what": what, "late": late})
                    cases[-1]["spec_only"] = cases[-2]["spec_only"] = True
    # (d) the faulty client is in reply-stream mode: it makes a `more` call (the service answers Multi), some
    #     items go through, then its write fails at item k (every k) -- with 0..3 healthy plain clients (also a
    #     healthy streaming one, so that the failing stream is not at index 0), and with NO other connection,
    #     in which case a client that connects afterwards must still be served
    for n_items in (1, 2, 3, 4):
        for k in range(0, n_items):
            for nh in (0, 1, 2, 3):
                for variant in range(2 if quick else 6):
                    tags = sg.Tags()
                    ids = list(range(nh + 1))
                    rng.shuffle(ids)
                    f, hids = ids[0], ids[1:]
                    pre = rng.randrange(0, 2)
                    frames = [sg.call("Echo", f, tags.next(), v=1) for _ in range(pre)]
                    frames.append(sg.call("Sub", f, tags.next(), more=sg.MORE[(n_items + k + nh) % 3]))
                    frames += [sg.call("Echo", f, tags.next(), v=2) for _ in range(rng.randrange(0, 2))]
                    fseq = [["n", f], sg.fw(f, pre + k, sg.IO_KINDS[(n_items + k + nh + variant) % len(sg.IO_KINDS)]), ["a", f, sg.wire(frames).hex()]]
                    fsev = [["si", f, 100 + j, 1] for j in range(n_items)] + [["se", f]]
                    seqs, hsevs = [], []
                    for h in hids:
                        if variant % 2 == 1 and h == hids[0]:
                            hs, hv = healthy_seq(rng, tags, h, True)
                            hs.insert(1, ["a", h, sg.wire([sg.call("Sub", h, tags.next(), more=True)]).hex()])
                            hv = [["si", h, 7, 1], ["si", h, 8, 1]] + hv + [["se", h]]
                        else:
                            hs, hv = healthy_seq(rng, tags, h, False)
                        seqs.append(hs)
                        if hv:
                            hsevs.append(hv)
                    late = nh + 1
                    healthy = list(hids)
                    if variant % 2 == 0:
                        # everybody connected and the faulty stream open before the items arrive
                        m = [x for sq in ([fseq] + seqs) for x in sq[:1]] + fseq[1:] + \
                            sg.random_merge(rng, [sq[1:] for sq in seqs] + hsevs + [fsev])
                    else:
                        m = sg.random_merge(rng, [fseq, fsev] + seqs + hsevs)
                    if nh == 0 or rng.random() < 0.3:
                        m += [["p"], ["n", late], ["a", late, sg.wire([sg.call("Count", late, tags.next()),
                                                                       sg.call("Echo", late, tags.next(), v=3)]).hex()]]
                        healthy.append(late)
                    mask = (1 << len(m)) - 1 if variant < 2 else rng.getrandbits(len(m))
                    add(sg.with_polls(m, mask), [f], healthy, "stream_write_failure",
                        {"fault": "stream_write_error", "items": n_items, "fail_at_item": k, "healthy": nh})
    # (e) a fault on A and a call on B become available between the same two polls of the server, with
    #     both round-robin orders (the previous winner is A resp. B); every fault kind
    for fault in FAULTS:
        if fault == "oversize" and quick:
            continue
        for last in (0, 1):
            for fcid in (0, 1):
                tags = sg.Tags()
                hcid = 1 - fcid
                warm = [["n", 0], ["n", 1], ["p"],
                        ["a", last, sg.wire([sg.call("Echo", last, tags.next(), v=9)]).hex()], ["p"]]
                fseq = faulty_seq(rng, tags, fcid, fault, 1 if fault == "write_error" else 0, limit)[1:]
                hseq = [["a", hcid, sg.wire([sg.call("Count", hcid, tags.next()),
                                             sg.call("Echo", hcid, tags.next(), v=5)]).hex()]]
                body = (fseq + hseq) if rng.random() < 0.5 else (hseq + fseq)
                add(warm + body + [["p"], ["p"]], [fcid], [hcid], "fault_and_call_same_poll",
                    {"fault": fault, "last_winner": last, "faulty": fcid})
    # (c) the listener fails at some moment (the only legitimate end of the loop): model correspondence of
    #     the exit path (everything is dropped, streams before connections), no pairwise comparison
    for i in range(80 if quick else 1500):
        nh = rng.randrange(1, 4)
        tags = sg.Tags()
        seqs = []
        for h in range(nh):
            s_, sevs = healthy_seq(rng, tags, h, rng.random() < 0.6)
            seqs.append(s_)
            if sevs:
                seqs.append(sevs[:rng.randrange(0, len(sevs) + 1)])
        m = sg.random_merge(rng, seqs)
        m.insert(rng.randrange(1, len(m) + 1), ["lf"])
        if rng.random() < 0.3:
            m.append(["n", nh])
        mask = rng.choice([(1 << len(m)) - 1, rng.getrandbits(len(m)), rng.getrandbits(len(m))])
        cases.append({"script": sg.with_polls(m, mask) + [["p"]], "hyp": [], "faulty": [], "healthy": [],
                      "lf": True, "tag": "listener_fail", "info": {"fault": "listener_fail"}})
    return cases


def deep_pairs(ck):
    """Deeply nested frames far above the hook limit (nohook harness): one well-framed call nested 200, 5000,
    100000 levels deep (arrays / objects; parameters before or after the method).  The frame is generated
    inside the harness from the recipe ["deep", c, depth, opener, pfirst]."""
    rng = ck.rng
    pairs = []
    for depth in (200, 5000, 100000):
        for opener in ("[", '{"a":'):
            for pfirst in (1, 0):
                tags = sg.Tags()
                h = [sg.call("Count", 1, tags.next()), sg.call("Echo", 1, tags.next(), v=7)]
                with_f = [["n", 1], ["n", 0], ["p"], ["a", 1, sg.wire(h[:1]).hex()], ["p"],
                          ["a", 0, sg.wire([sg.call("Echo", 0, tags.next(), v=1)]).hex()], ["p"],
                          ["deep", 0, depth, opener, pfirst], ["a", 1, sg.wire(h[1:]).hex()], ["p"],
                          ["a", 1, sg.wire([sg.call("Count", 1, tags.next())]).hex()], ["p"], ["p"]]
                without_f = [e for e in with_f if not (e[0] in ("n", "a", "deep") and e[1] == 0)]
                info = {"fault": "deeply_nested_frame", "depth": depth, "opener": opener, "parameters_first": pfirst}
                pairs.append(({"script": with_f, "tag": "deeply_nested_frame", "info": info, "nohook": True},
                              {"script": without_f, "tag": "deeply_nested_frame_without", "info": info, "nohook": True}))
    return pairs


def check_deep(ck, pairs):
    flat = [c for p in pairs for c in p]
    res = sg.run_nohook(ck, flat, one_process_per_case=True)      # a process that dies takes only its own case
    if res is None:
        return
    n = 0
    for (cw, co), rw, ro in zip(pairs, res[0::2], res[1::2]):
        msg = None
        if rw.get("crash"):
            msg = "the whole process died (no result: stack overflow / abort) on one client's frame"
        elif rw.get("panic"):
            msg = "Server::run panicked or exceeded its budget: %s" % (rw.get("why") or "")[:200]
        elif rw.get("exited"):
            msg = "the server future completed although the listener never failed"
        elif 1 in sg.dropped(rw):
            msg = "the healthy connection was dropped"
        elif rw.get("sleeps"):
            msg = "Server::run went to sleep although it could make progress: %s" % "; ".join(rw["sleeps"][:2])
        elif not (ro.get("crash") or ro.get("panic")) and sg.writes_of(rw, 1) != sg.writes_of(ro, 1):
            msg = "the healthy connection received different replies with and without the faulty client"
        if msg and n < 5:
            n += 1
            ck.violation("deeply nested frame (%s): %s [deeply_nested_frame]" % (cw["info"], msg),
                         {"case": cw, "impl_trace": sg.pretty_trace(rw)[-12:] if "polls" in rw else rw},
                         tag="deep%d" % cw["id"])
    ck.cov["deeply_nested_frame_pairs_without_hook_cfg"] = len(pairs)


def main():
    ck = Check(PID)
    step, limit = sg.consts(ck)
    if getattr(ck, "proof_ok", True):
        ck.prove(["gen/Consts.v", "Server/ServerExec.v"], "props/C09.v")
    if ck.replay:
        rp = json.load(open(ck.replay))
        cases = []
        if "case" in rp and rp["case"].get("nohook"):
            c = rp["case"]
            check_deep(ck, [(c, dict(c, script=[e for e in c["script"] if not (e[0] in ("n", "a", "deep") and e[1] == 0)]))])
        elif "case" in rp:
            c = rp["case"]
            c.pop("pair", None)
            cases = [c, dict(c, script=without(c["script"], c["faulty"]), pair=0)]
    else:
        cases = gen_cases(ck, limit)
        check_deep(ck, deep_pairs(ck))
    out = sg.run_cases(ck, cases, step, limit, per_shard=40)
    byid = {c["id"]: (c, r, code) for c, r, code in out}
    fault_hist = {}
    def classify(c, r, code):
        detail = {"case": c, "impl_trace": sg.pretty_trace(r), "script": sg.script_summary(c["script"])}
        healthy, faulty = c.get("healthy", []), c.get("faulty", [])
        drops = sg.dropped(r)
        msg = None
        if c.get("lf"):
            if any(e[0] == "lf" for e in c["script"]) and not r["exited"] and \
                    any(e[0] == "p" for e in c["script"][[e[0] for e in c["script"]].index("lf"):]):
                msg = "the listener failed but the server future did not complete"
            return msg, detail
        if r["exited"]:
            msg = "the server future completed although the listener never failed"
        elif any(h in drops for h in healthy):
            msg = "a healthy connection was dropped"
        elif len(set(drops)) != len(drops):
            msg = "a connection was dropped twice"
        elif any(d not in faulty for d in drops):
            msg = "a connection without a fault was dropped"
        elif "pair" in c and c["pair"] in byid:
            c0, r0, _ = byid[c["pair"]]
            for h in healthy:
                if sg.writes_of(r, h) != sg.writes_of(r0, h):
                    msg = "healthy connection %d received different replies with and without the faulty client" % h
                    detail.update({"case": c0, "script": sg.script_summary(c0["script"]),
                                   "impl_trace": sg.pretty_trace(r0), "impl_trace_without_faulty": sg.pretty_trace(r),
                                   "with": [w.decode("latin1") for w in sg.writes_of(r0, h)],
                                   "without": [w.decode("latin1") for w in sg.writes_of(r, h)]})
        if msg is None and code & 2:
            msg = "a healthy connection's output differs from the sequential reference of its own calls"
            detail["want_model"] = True
        return msg, detail
    n_viol = 0
    verdicts = [(c, r, code) + classify(c, r, code) for c, r, code in out]
    for c, r, code, msg, detail in verdicts:
        if msg and n_viol < 5:
            n_viol += 1
            if detail.pop("want_model", False):
                detail["model_and_spec"] = sg.show_model(ck, c, r, step, limit)
            ck.violation(msg + " [%s]" % c["tag"], detail, tag="c%d" % c["id"])
    for c, r, code, msg, detail in verdicts:
        if not msg and code and n_viol < 5:
            n_viol += 1
            sg.report_model_mismatch(ck, c, r, step, limit, " (healthy clients unaffected)")
    for c in cases:
        for f in (c.get("info") or {}).get("faults", [(c.get("info") or {}).get("fault")]):
            if "pair" not in c:
                fault_hist[f] = fault_hist.get(f, 0) + 1
    sg.coverage(ck, cases, out, step, limit, {
        "fault_kinds": fault_hist, "pairs_compared": sum(1 for c in cases if "pair" in c),
    })
    ck.finish(rule=sg.RULE + "; every scenario is run with and without the faulty client(s)")


if __name__ == "__main__":
    main()
