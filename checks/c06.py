#!/usr/bin/env python3
"""C06 — a chain's reply stream yields exactly the replies its calls are owed."""
import os, sys, json, itertools
sys.path.insert(0, os.path.join(os.path.dirname(os.path.abspath(__file__)), "..", "lib"))
from vlib import *
import framegen as fg
from rconn import constants, RES

PID = "C06"
HEADER = ("From ZV Require Import Common.Exec Framing.ReadConn Framing.ReadConnExec Framing.Chain "
          "Framing.ChainExec.\nOpen Scope N_scope.\n")
# a standard org.varlink.service error is the error reply of ONE call (the property's "or its error"), like a
# declared method error: it ends that call's replies, not the chain's
KIND = {"okc": 0, "ok": 1, "merr": 2, "vs": 2}


# members a success reply's parameters may carry besides `id` (the reply type ignores what it does not
# know): names and values that spell the envelope's own member names
NOISE = [("level", "error"), ("error", "none"), ("error", None), ("note", "\"error\":"), ("continues", True),
         ("parameters", {"error": "x"}), ("x", ["error", "continues"]), ("e", "org.varlink.service.MethodNotFound")]


def okp(rng):
    """Parameters of a success reply: {"id": n}, now and then with noise members around it."""
    d = {"id": rng.randrange(0, 999)}
    if rng.random() < 0.3:
        k, v = rng.choice(NOISE)
        d = dict([(k, v), ("id", d["id"])]) if rng.random() < 0.5 else dict([("id", d["id"]), (k, v)])
    return d


def reply_frames(rng, flags, target, conts=None):
    """A conforming server's replies for the chain, as frames with labels."""
    out = []
    for i, f in enumerate(flags):
        if f in ("oneway", "both"):
            continue
        if f == "more":
            for _ in range(rng.choice([0, 0, 1, 2, 3]) if conts is None else conts):
                out.append(fg.jb({"parameters": okp(rng), "continues": True}))
        end = rng.choice(["ok", "ok", "okf", "err", "errp", "svc", "noparams"] if target == "value" else
                         ["ok", "ok", "okf", "err", "errp", "svc"])
        if end == "ok":
            out.append(fg.jb({"parameters": okp(rng)}))
        elif end == "okf":
            out.append(fg.jb({"parameters": okp(rng), "continues": False}))
        elif end == "err":
            out.append(fg.jb({"error": "org.example.Busy"}))
        elif end == "errp":
            out.append(fg.jb({"error": "org.example.NotFound", "parameters": {"id": 4}}))
        elif end == "svc":
            out.append(fg.jb(rng.choice([
                {"error": "org.varlink.service.MethodNotFound", "parameters": {"method": "org.example.Get"}},
                {"error": "org.varlink.service.PermissionDenied"},
                {"error": "org.varlink.service.InvalidParameter", "parameters": {"parameter": "id"}},
                {"error": "org.varlink.service.ExpectedMore", "parameters": {}}])))
        else:
            out.append(fg.jb({}))
    return out


def gen_cases(ck, limit, step):
    rng = ck.rng
    cases = []
    quick = ck.tier == "quick"

    def add(target, flags, frames, events, after, inhyp, tag, pads=None):
        cases.append({"id": len(cases), "target": target, "flags": flags, "events": events, "after": after,
                      "frames": [f.hex() for f in frames], "inhyp": inhyp, "tag": tag, "pads": pads or []})
    corpus = os.path.join(VERIF, "corpus", "c06.jsonl")
    if os.path.exists(corpus):
        for line in open(corpus):
            if line.strip():
                c = json.loads(line)
                add(c["target"], c["flags"], [bytes.fromhex(f) for f in c["frames"]], c["events"], c["after"],
                    c["inhyp"], "corpus")
    maxlen = 4 if quick else 6
    reps = 2 if quick else 3
    # every flag sequence up to maxlen, several reply scripts / trailing frames / chunkings each
    for n in range(1, maxlen + 1):
        for flags in itertools.product(["plain", "oneway", "more"], repeat=n):
            if not quick and n == 6 and rng.random() < 0.6:
                continue
            for rep in range(reps):
                # a call flagged both oneway and more is owed nothing, like a oneway call
                if rep % 2 == 1 and "oneway" in flags:
                    flags = tuple("both" if f == "oneway" and rng.random() < 0.6 else f for f in flags)
                target = rng.choice(["typed", "value"])
                frames = reply_frames(rng, flags, target)
                trailing = [fg.jb({"parameters": {"id": 7000 + j}}) for j in range(rng.choice([0, 0, 1, 2]))]
                allf = frames + trailing
                stream = fg.wire(allf)
                cuts = fg.random_cuts(rng, len(stream), rng.choice([0, 1, 2, 4, 8])) if stream else []
                if stream and rng.random() < 0.3:
                    cuts = sorted(set(cuts + [j + 1 for j, b in enumerate(stream) if b == 0 and rng.random() < 0.5]))
                ev = fg.events_of(rng, fg.chunks_from_cuts(stream, cuts), pend_prob=rng.choice([0, 0.3])) \
                    if stream else [["e"]]
                add(target, list(flags), allf, ev, len(trailing) + 1, True, "flags_len%d" % n)
    # call sizes: sweep the size of the first call of a [plain, oneway, more] chain so that a later
    # call ends at every offset relative to the write buffer's growth steps
    for pad in range(0, 3 * step, 1 if not quick else 1):
        flags = ["plain", "oneway", "more"]
        frames = reply_frames(rng, flags, "typed")
        trailing = [fg.jb({"parameters": {"id": 7001}})]
        stream = fg.wire(frames + trailing)
        ev = fg.events_of(rng, fg.chunks_from_cuts(stream, fg.random_cuts(rng, len(stream), 2)), 0.2)
        add("typed", flags, frames + trailing, ev, 2, True, "call_size_sweep", [pad, rng.randrange(0, 40), 0])
    # long streams: a `more` call answered by hundreds of continuing replies (more than any small
    # per-stream budget), delivered in bursts of 5..25 replies, some with suspensions in between
    for k_ in ([127, 128, 129, 200] if quick else [64, 127, 128, 129, 130, 200, 255, 256, 257, 400, 700]):
        for flags in (["more"], ["plain", "more", "plain"], ["more", "more"]):
            target = rng.choice(["typed", "value"])
            frames = reply_frames(rng, flags, target, conts=k_)
            trailing = [fg.jb({"parameters": {"id": 7000}})]
            allf = frames + trailing
            stream = fg.wire(allf)
            nul = [j + 1 for j, b in enumerate(stream) if b == 0]
            cuts, j = [], 0
            while j < len(nul):
                j += rng.randrange(5, 26)
                if j < len(nul):
                    cuts.append(nul[j])
            ev = fg.events_of(rng, fg.chunks_from_cuts(stream, cuts), pend_prob=rng.choice([0, 0, 0.3]))
            add(target, list(flags), allf, ev, 2, True, "long_stream")
    # non-conforming scripts (outside the theorem: model correspondence only)
    for i in range(60 if quick else 600):
        n = rng.randrange(1, 5)
        flags = [rng.choice(["plain", "oneway", "more", "both"]) for _ in range(n)]
        target = rng.choice(["typed", "value"])
        frames = reply_frames(rng, flags, target)
        mode = rng.choice(["short", "garbage", "extra_cont"])
        if mode == "short" and frames:
            frames = frames[:-1]
        elif mode == "garbage":
            frames.insert(rng.randrange(0, len(frames) + 1), b'{"parameters":{"id":"x"}')
        elif mode == "service_error":
            frames.insert(rng.randrange(0, len(frames) + 1),
                          fg.jb({"error": "org.varlink.service.MethodNotFound", "parameters": {"method": "a.B"}}))
        else:
            frames.insert(0, fg.jb({"parameters": {"id": 1}, "continues": True}))
        stream = fg.wire(frames)
        ev = fg.events_of(rng, fg.chunks_from_cuts(stream, fg.random_cuts(rng, len(stream), 3)), 0.2) if stream else [["e"]]
        add(target, flags, frames, ev, 2, False, "nonconforming_" + mode)
    return cases


def kind_of(s):
    return KIND.get(s.split(":")[0], 3)


def render(c, r, codes, step, limit):
    tab = ["(%s, %d)" % (coq_bytes(bytes.fromhex(h)), codes[s]) for h, s in r["segs"].items()]
    used = set(r["segs"].values()) | {i["res"] for i in r["items"]} | {i["res"] for i in r["after"]}
    ktab = ["(%d, %d)" % (codes[k], kind_of(k)) for k in sorted(used)]
    return ("{| ch_step := %d; ch_limit := %d; ch_tab := %s; ch_ktab := %s; ch_oneway := %s; ch_events := %s; "
            "ch_after := %d%%nat; ch_frames := %s; ch_inhyp := %s; ch_items := %s; ch_ended := %s; "
            "ch_afterres := %s; ch_final := [%d;%d;%d] |}") % (
        step, limit, coq_list(tab), coq_list(ktab),
        coq_list(["true" if f in ("oneway", "both") else "false" for f in c["flags"]]),
        fg.coq_events(c["events"]), c["after"],
        coq_list([coq_bytes(bytes.fromhex(f)) for f in c["frames"]]),
        "true" if c["inhyp"] else "false",
        "[" + ";".join(str(codes[i["res"]]) for i in r["items"]) + "]",
        "true" if r["ended"] else "false",
        "[" + ";".join(str(codes[i["res"]]) for i in r["after"]) + "]",
        r["final_st"][0], r["final_st"][1], r["final_st"][2])


def main():
    ck = Check(PID)
    step, limit, _ = constants(ck)
    if getattr(ck, "proof_ok", True):
        ck.prove(["gen/Consts.v", "Framing/ChainExec.v"], "props/C06.v")
    if ck.replay:
        rp = json.load(open(ck.replay))
        cases = [rp["case"]] if "case" in rp and rp.get("leg") != "production" else []
        for i, c in enumerate(cases):
            c["id"] = i
    else:
        cases = gen_cases(ck, limit, step)
    ok, log = ck.harness_build(["chain"])
    if not ok:
        ck.violation("harness does not build against /repo", {"log": log[-3000:]}, tag="build", no_input=True)
        ck.finish()
    results = ck.harness_run("chain", cases)
    ck.ran_correspondence = True
    codes = dict(RES)
    for r in results:
        for s in list(r.get("segs", {}).values()) + [i["res"] for i in r.get("items", [])] + \
                [i["res"] for i in r.get("after", [])]:
            if s not in codes:
                codes[s] = len(codes) + 10
    items = []
    nviol = 0
    for c, r in zip(cases, results):
        if r.get("panic") or r.get("crash"):
            ck.violation("chain send / reply stream panicked", {"case": c, "impl": r}, tag="panic%d" % c["id"])
            continue
        # one write, in chain order (spec level; theorem C06_one_write)
        if r["writes"] != [r["expected_write"]] and nviol < 3:
            nviol += 1
            ck.violation("the chain's calls did not reach the transport as one write of the calls in order (flags %s)"
                         % c["flags"], {"case": c, "writes": r["writes"], "expected": r["expected_write"]},
                         tag="w%d" % c["id"])
        # a chain owing nothing must end without reading
        if all(f in ("oneway", "both") for f in c["flags"]) and (r["items"] or not r["ended"] or r["reads_at_end"] != 0) and nviol < 3:
            nviol += 1
            ck.violation("an all-oneway chain's stream did not end at once without touching the transport "
                         "(items %s, transport reads %d)" % ([i["res"] for i in r["items"]], r["reads_at_end"]),
                         {"case": c, "impl": {k: v for k, v in r.items() if k not in ("segs", "writes", "expected_write")}},
                         tag="z%d" % c["id"])
            continue
        items.append((c, r))
    try:
        bad = ck.coq_eval("cases", HEADER, items, lambda it: render(it[0], it[1], codes, step, limit))
    except RuntimeError as e:
        ck.violation("model evaluation failed: " + str(e)[:300], {"log": str(e)}, tag="eval", no_input=True)
        bad = {}
    for idx in sorted(bad)[:5]:
        c, r = items[idx]
        term = render(c, r, codes, step, limit)
        model = ck.coq_show(HEADER, "(ch_model (%s), ch_spec (%s))" % (term, term))
        slim = {k: v for k, v in r.items() if k not in ("segs", "writes", "expected_write")}
        if bad[idx] & 2:
            ck.violation("reply stream did not yield exactly the owed replies / consumed a later frame (flags %s)" % c["flags"],
                         {"case": c, "impl": slim, "model_and_spec": model, "codes": codes}, tag="c%d" % c["id"])
        else:
            ck.violation("implementation differs from the chain model (results agree with the spec)",
                         {"case": c, "impl": slim, "model_and_spec": model, "codes": codes,
                          "correspondence": "Framing/Chain.v collect vs Chain::send() stream"},
                         tag="m%d" % c["id"], no_input=True)
    # ---- long chains at the production limit (chain harness built WITHOUT the hook cfg): tens of
    # thousands of calls in one chain (the write queue is megabytes; any narrow counter overflows), the
    # replies arriving in bursts of hundreds. Compared with the theorem's conclusion directly: one write
    # of all the calls, exactly one item per call, then the end, and the next frame is still there.
    long_runs = 0
    if not ck.replay or json.load(open(ck.replay)).get("leg") == "production":
        root = harness_root()
        rc_, log_ = sh("cargo build --offline --bin chain --target-dir %s" % os.path.join(root, "target-nohook"),
                       timeout=1500, cwd=root, env={"RUSTFLAGS": ""})
        if rc_ != 0:
            ck.violation("chain harness does not build against /repo without the hook cfg", {"log": log_[-3000:]},
                         tag="pbuild", no_input=True)
        else:
            if ck.replay:
                lcases = [json.load(open(ck.replay))["case"]]
            else:
                ns = [300, 65535, 65537] if ck.tier == "quick" else [129, 300, 4097, 32768, 65535, 65536, 65537, 70000, 140000]
                lcases = [{"id": i, "target": ck.rng.choice(["typed", "value"]), "gen_flags": n,
                           "gen": {"n": n, "burst": ck.rng.choice([1, 40, 700])}, "after": 2, "max_items": n + 10,
                           "slim": True} for i, n in enumerate(ns)]
            rc2, out2 = sh(os.path.join(root, "target-nohook", "debug", "chain"), timeout=900,
                           input="\n".join(json.dumps(c) for c in lcases) + "\n")
            got = {}
            for l in out2.splitlines():
                if l.startswith("{"):
                    try:
                        o = json.loads(l)
                        got[o.get("id")] = o
                    except ValueError:
                        pass
            for c in lcases:
                long_runs += 1
                r = got.get(c["id"]) or {"crash": True, "log": out2[-300:]}
                n = c["gen_flags"]
                after = [a.get("res", "") for a in r.get("after", [])]
                okc = (r.get("n_items") == n and r.get("item_kinds") == {"ok": n} and r.get("ended") and not r.get("stuck")
                       and r.get("write_ok") and r.get("n_writes") == 1 and not r.get("send_err")
                       and len(after) == 2 and after[0].startswith("ok") and after[1] == "err:eof"
                       and not r.get("lost_wakeups"))
                if not okc:
                    ck.violation("production limit: a chain of %d calls (replies in bursts of %d): %s items %s, ended=%s, "
                                 "%s write(s) (content %s), the two receives after the stream gave %s; expected one write of "
                                 "the calls, one item per call, the end, then the unrelated frame and end-of-file" % (
                                     n, c["gen"]["burst"], r.get("n_items"), r.get("item_kinds"), r.get("ended"),
                                     r.get("n_writes"), "ok" if r.get("write_ok") else "DIFFERS", after),
                                 {"leg": "production", "case": c, "impl": r}, tag="long%d" % c["id"])
    hist = {}
    for c in cases:
        hist[c["tag"]] = hist.get(c["tag"], 0) + 1
    nontriv = {case_hash([c["flags"], c["events"]]) for c in cases if len(c["flags"]) >= 2}
    ck.cov["production_limit_long_chain_runs"] = long_runs
    ck.cov.update({"evaluations": len(cases), "distinct_nontrivial": len(nontriv),
                   "traces_validated_against_impl": len(items), "case_classes": hist,
                   "all_flag_sequences_up_to": 4 if ck.tier == "quick" else 5,
                   "all_oneway_chains": sum(1 for c in cases if all(f in ("oneway", "both") for f in c["flags"]))})
    for c in cases[:2] + cases[-1:]:
        ck.samples.append({"flags": c["flags"], "frames": [bytes.fromhex(f).decode() for f in c["frames"]][:5],
                           "events": len(c["events"]), "after": c["after"]})
    ck.assumptions += [
        "decode(frame)/kind(frame) come from decoding the isolated frame with the same types (serde_json::from_slice)",
        "an undecodable reply or a transport error ends the stream early (the code treats them as fatal); the property "
        "quantifies over conforming scripts (success / declared error / standard service error / continuing replies), "
        "so scripts with undecodable frames are compared with the model only",
    ]
    ck.finish(rule="a case = (flag sequence of the chain, reply script incl. trailing frames, chunking); "
                   "non-trivial = chains of at least two calls")


if __name__ == "__main__":
    main()
