#!/usr/bin/env python3
"""C13 — the IDL parser accepts exactly the Varlink grammar and builds the denoted tree."""
import os, sys, json
sys.path.insert(0, os.path.join(os.path.dirname(os.path.abspath(__file__)), "..", "lib"))
from vlib import *
import idlgen as g

PID = "C13"
HEADER = ("From Coq Require Import List NArith.\nImport ListNotations.\n"
          "From ZV Require Import Common.Exec Idl.Idl Idl.IdlParse Idl.IdlExec.\n"
          "Open Scope N_scope.\nSet Printing Width 1000000.\n")
CLASS = {"ok": 0, "err": 1, "panic": 2}

# texts whose every prefix is tried (truncation at every byte)
FIXED_TEXTS = [
    "interface org.example.t\n\ntype T (a: int, b: ?[]string)\n\nmethod M(x: (p: int, q: (u, v))) -> (y: [string]T)\n\nerror E (reason: string)",
    "# top\ninterface a.b\n# c\nerror Foo (a: int)\n",
    "interface a.b\nmethod M(a: int) -> ()\nerror Foo ()",
    "interface a.b\ntype E (one, two, three)\n# trailing comment",
    "interface a-b.c-d.e\ntype T (\n# doc\n  a_b: ?(x: float),\n  c: object\n)\nmethod N() -> (r: bool)",
]


# legal texts re-parsed after every block of the long in-process sequences (history independence)
SENTINELS = [
    FIXED_TEXTS[0],
    "interface a.b\nmethod M(id: int) -> (r: [string]?[](a: int, b: (x, y)))",
    "interface a.b\ntype T (a: int)",
    "# c\ninterface x.y\n# d\nerror E (# e\n m: string)\n",
    "interface a.b\ntype E (one, two)\nmethod N() -> ()",
]


def gen_cases(ck):
    rng = ck.rng
    quick = ck.tier == "quick"
    cases = []

    def add(text, tag, expect=None, src=None):
        try:
            text.decode()
        except UnicodeDecodeError:
            return
        cases.append({"id": len(cases), "op": "parse", "text": text.hex(), "tag": tag,
                      "expect": g.to_wire(expect) if expect is not None else None})

    corpus = os.path.join(VERIF, "corpus", "c13.jsonl")
    if os.path.exists(corpus):
        for line in open(corpus):
            if line.strip():
                c = json.loads(line)
                add(bytes.fromhex(c["text"]), "corpus%d" % len(cases),
                    g.from_wire(c["expect"]) if c.get("expect") else None)

    for t in SENTINELS:
        add(t.encode(), "sentinel")
    laid = []   # (pieces, text) of legal layouts, for mutation and truncation
    # (a) grammar-driven texts in random legal layout: the parser must build exactly the tree
    n_legal = 700 if quick else 12000
    for i in range(n_legal):
        src = g.gen_interface(rng, max_members=6, max_depth=4, pc=rng.choice([0, 0.2, 0.5]),
                              enum_variant_comments=rng.choice([0, 0.3]))
        L = g.Layout(rng, "legal", crlf=rng.random() < 0.15)
        pieces = L.interface(src)
        text = g.text_of(pieces)
        add(text, "legal", g.strip_inline_comments(g.partition(src)))
        laid.append((pieces, text))
    # canonical renderings of generated trees (Display layout, Display member order)
    for i in range(150 if quick else 2000):
        src = g.gen_interface(rng, pc=rng.choice([0, 0.4]))
        tree = g.partition(src)
        add(g.canonical_text(tree), "canonical", g.strip_inline_comments(tree))
    # small exhaustive-ish family: every type constructor at every depth up to 4 under each prefix
    for t in small_types(3 if quick else 4):
        src = {"name": b"a.b", "comments": [], "members": [("method", {"name": b"M", "inputs": [
            {"name": b"x", "ty": t, "comments": []}], "outputs": [], "comments": []})]}
        add(g.text_of(g.Layout(rng, "legal").interface(src)), "types", g.partition(src))
    # legal layouts dense in inline types, with comment lines in the layout positions inside them whose
    # text holds arbitrary non-ASCII code points followed by text that would parse as IDL
    for i in range(150 if quick else 2500):
        src = g.gen_interface(rng, max_members=3, max_depth=3, pc=0.1)
        for kind, m in src["members"]:
            for key in ("fields", "inputs", "outputs"):
                for f in m.get(key, []):
                    if f["ty"]["t"] not in ("struct", "enum") and rng.random() < 0.6:
                        f["ty"] = g.gen_type(rng, 2, True)
        L = g.Layout(rng, "legal")
        L.drop_p = 0.7
        add(g.text_of(L.interface(src)), "legaluc", g.strip_inline_comments(g.partition(src)))
    # every special code point (General Punctuation block, NEL, NBSP, BOM, neighbours in UTF-8) inside a
    # comment in every layout position, followed by text that would parse as IDL (deterministic)
    for k, t in g.uc_comment_cases():
        add(t, "uc_" + k)
    # (a') liberal layouts: comments in every `_` position of the grammar; no expectation
    for i in range(200 if quick else 3000):
        src = g.gen_interface(rng, max_members=4, max_depth=3, pc=0.2)
        add(g.text_of(g.Layout(rng, "liberal", crlf=rng.random() < 0.3).interface(src)), "liberal")
    # (b) mutations
    n_mut = 900 if quick else 15000
    for i in range(n_mut):
        pieces, text = laid[rng.randrange(len(laid))]
        kind, m = g.mutate(rng, pieces)
        add(m, "mut_" + kind)
    # near-miss names: every name class with characters just outside its regular expression
    for i in range(250 if quick else 4000):
        pieces, text = laid[rng.randrange(len(laid))]
        for k, t in g.near_miss_names(rng, pieces, per_text=3):
            add(t, "name_" + k)
    # grammar-aware near misses: every list kind x every almost-legal list shape (extra, missing or
    # doubled commas, bare and typed entries mixed in every order, ':' without type, type without
    # name), type-prefix combinations, arrows, member shapes, keywords as names (deterministic)
    for k, t in g.near_miss_lists():
        add(t, "shape_" + k)
    # lists with 255, 256, 257, 511, 512, 513 entries in every list kind (counters of 8 bits), and a
    # mixed illegal list at those sizes; evaluated by the Coq model like every other case
    counted = []
    for lk in g.ENTRY_KINDS:
        for n in (255, 256, 257) + ((511, 512, 513) if lk in ("type_obj", "type_enum") else ()):
            text, cls, exp = g.expand_recipe({"kind": "entries", "list": lk, "n": n})
            counted.append((text, "count_" + lk, g.from_wire(json.loads(exp))))
    for lk in ("type_obj", "type_enum"):
        for n in (255, 256, 512):
            counted.append((g.expand_recipe({"kind": "entries", "list": lk, "n": n, "mixed": True})[0],
                            "count_mixed", None))
    # truncation at every byte
    trunc_src = [t.encode() for t in FIXED_TEXTS]
    short = sorted((t for _, t in laid if 20 < len(t) < (160 if quick else 400)), key=len)
    k = 12 if quick else 300
    step = max(1, len(short) // k)
    trunc_src += short[::step][:k]
    for t in trunc_src:
        for p in g.truncations(t):
            add(p, "trunc")
    # (c) byte soup
    for i in range(400 if quick else 8000):
        add(g.soup(rng), "soup")
    # the long lists cost the model seconds each: spread them over the evaluation shards
    stride = max(1, len(cases) // (len(counted) + 1))
    for j, (text, tag, expect) in enumerate(counted):
        cases.insert(min(len(cases), (j + 1) * stride), {
            "id": -1, "op": "parse", "text": text.hex(), "tag": tag,
            "expect": g.to_wire(expect) if expect is not None else None})
    for i, c in enumerate(cases):
        c["id"] = i
    return cases


def small_types(depth):
    """Every shape of type up to the given depth over a small base (prefix operators and inline
    forms), without `??`."""
    base = [{"t": "int"}, {"t": "custom", "n": b"T"}]
    level = list(base)
    allt = list(base)
    for d in range(depth):
        nxt = []
        for t in level:
            if t["t"] != "opt":
                nxt.append({"t": "opt", "i": t})
            nxt.append({"t": "arr", "i": t})
            nxt.append({"t": "map", "i": t})
            nxt.append({"t": "struct", "fs": [{"name": b"f", "ty": t, "comments": []}]})
        nxt.append({"t": "enum", "vs": [{"name": b"a", "comments": []}, {"name": b"b", "comments": []}]})
        nxt.append({"t": "struct", "fs": []})
        allt += nxt
        level = nxt
    return allt


def seq_cases(ck, items):
    """Long mixed sequences parsed inside ONE process each: up to `per` rejected texts of every
    generator class, interleaved with accepted texts; the sentinel legal texts are re-parsed after
    every block, and the whole sequence is run again in reverse order, so every text is parsed at
    least twice at different points. Sequence 0 mixes the classes, sequence 1 keeps each class
    together (long runs of the same kind of fault)."""
    rng = ck.rng
    per = 400 if ck.tier == "quick" else 3000
    sent = [(c, r) for c, r in items if c["tag"] == "sentinel"]
    by_tag = {}
    for c, r in items:
        if r["class"] == "err" and c["tag"] != "sentinel":
            by_tag.setdefault(c["tag"].rstrip("0123456789"), []).append((c, r))
    rej = []
    for tag in sorted(by_tag):
        l = by_tag[tag]
        rng.shuffle(l)
        rej.append(l[:per])
    acc = [(c, r) for c, r in items if r["class"] == "ok" and c["tag"] != "sentinel"]
    rng.shuffle(acc)
    acc = acc[:(600 if ck.tier == "quick" else 6000)]
    seqs = []
    for variant in (0, 1):
        pool = sent + [x for l in rej for x in l] + acc
        texts = [c["text"] for c, _ in pool]
        expect = [r for _, r in pool]
        ns = len(sent)
        body = list(range(ns, len(pool)))
        if variant == 0:
            rng.shuffle(body)
        order = list(range(ns))
        for i in range(0, len(body), 60):
            order += body[i:i + 60] + list(range(ns))
        order = order + order[::-1]
        seqs.append(({"id": variant, "op": "seq", "texts": texts, "order": order}, expect))
    return seqs, {t: min(per, len(l)) for t, l in by_tag.items()}


def strip_id(r):
    return {k: v for k, v in r.items() if k != "id"}


def seq_fails(ck, texts, order, expect):
    """Run one sequence in one process; None when every parse of every text gives the result of
    the main run, else a description of the first deviation."""
    res = ck.harness_run("idl", [{"id": 0, "op": "seq", "texts": texts, "order": order}], shards=1)[0]
    if res.get("crash") or res.get("class") != "seq":
        return {"crash": res}
    if res["n_diverge"]:
        d = res["diverge"][0]
        return {"kind": "two parses of the same text in one process differ", "pos": d["pos"], "index": d["index"],
                "first": d["first"], "later": d["later"], "n_diverge": res["n_diverge"]}
    for ix, (got, exp) in enumerate(zip(res["results"], expect)):
        if got is not None and strip_id(got) != strip_id(exp):
            pos = order.index(ix)
            return {"kind": "the result in the sequence differs from the result of the same text parsed elsewhere",
                    "pos": pos, "index": ix, "first": exp, "later": got, "n_diverge": 1}
    return None


def minimise_seq(ck, texts, order, expect, dev):
    """Shrink a history-dependent sequence: keep the deviating text (first and last), drop chunks of
    what lies between while the deviation persists."""
    ix, pos = dev["index"], dev["pos"]
    mid = [k for k in order[:pos] if k != ix]
    runs = 0
    chunk = max(1, len(mid) // 2)
    while chunk >= 1 and runs < 60:
        i, shrunk = 0, False
        while i < len(mid) and runs < 60:
            cand = mid[:i] + mid[i + chunk:]
            runs += 1
            if seq_fails(ck, texts, [ix] + cand + [ix], expect):
                mid, shrunk = cand, True
            else:
                i += chunk
        if chunk == 1 and not shrunk:
            break
        chunk = max(1, chunk // 2) if chunk > 1 else (1 if shrunk else 0)
    used = sorted(set([ix] + mid))
    remap = {k: j for j, k in enumerate(used)}
    return {"op": "seq", "texts": [texts[k] for k in used], "order": [remap[k] for k in [ix] + mid + [ix]]}


def history_check(ck, items):
    seqs, rejected_by_class = seq_cases(ck, items)
    parses = []
    for case, expect in seqs:
        dev = seq_fails(ck, case["texts"], case["order"], expect)
        parses.append(len(case["order"]))
        if dev and "crash" in dev:
            ck.violation("harness crashed on a long in-process sequence", {"impl": dev["crash"]},
                         tag="seqcrash%d" % case["id"], no_input=True)
        elif dev:
            small = minimise_seq(ck, case["texts"], case["order"], expect, dev)
            txt = bytes.fromhex(case["texts"][dev["index"]]).decode("utf-8", "replace")
            ck.violation("the parser is not a function of its input: %r is %s at first and %s after %d other "
                         "parses in the same process (%s)" % (
                             txt[:80], dev["first"].get("class"), dev["later"].get("class"),
                             len(small["order"]) - 2, dev["kind"]),
                         {"case": small, "deviation": dev,
                          "texts": [bytes.fromhex(t).decode("utf-8", "replace") for t in small["texts"]][:40]},
                         tag="hist%d" % case["id"])
            break
    ck.cov["history_independence"] = {
        "sequences": len(seqs), "parses_in_one_process": parses,
        "distinct_texts_per_sequence": [len(c["texts"]) for c, _ in seqs],
        "every_text_parsed_at_least": 2, "sentinels": len(SENTINELS),
        "sentinel_reparsed_after_every": 60,
        "rejected_texts_by_class": rejected_by_class,
        "rule": "each sequence runs in one process; all parses of a text must agree with each other and with "
                "the result of the same text in the main run (which the model evaluation covers)",
    }


KNOWN_DEEP = "C13.deep_nesting_stack_overflow"


def unoptimised_idl():
    """The idl harness with zlink-core compiled at opt-level 0 (own target directory under work/)."""
    root = harness_root()
    tdir = os.path.join(WORK, "idl-o0-" + os.path.basename(root.rstrip("/")))
    cmd = ("cargo build --offline --bin idl --target-dir %s "
           "--config 'profile.dev.package.zlink-core.opt-level=0'" % tdir)
    rc, out = sh(cmd, timeout=1500, cwd=root)
    exe = os.path.join(tdir, "debug", "idl")
    return (exe if rc == 0 and os.path.exists(exe) else None), out


def run_exe(exe, cases, workers=16):
    """One process per case."""
    from concurrent.futures import ThreadPoolExecutor

    def one(c):
        rc, out = sh(exe, timeout=600, input=json.dumps(c, separators=(",", ":")) + "\n")
        for line in out.splitlines():
            if line.startswith("{"):
                try:
                    return json.loads(line)
                except ValueError:
                    pass
        return {"id": c["id"], "crash": True, "log": out[-400:]}
    with ThreadPoolExecutor(max_workers=workers) as ex:
        return list(ex.map(one, cases))


def big_check(ck):
    """Large inputs, each in its own process: long runs of comment / blank lines in every layout and
    attached-comment position, lists of 2^16 +- 1 entries, 100 000 members, types nested 500 and
    2000 deep. The expected outcome and tree are known by construction of the recipe; the
    implementation's tree is compared through the CRC-32 of its canonical dump. A process that
    dies is a violation whose replay is the recipe."""
    quick = ck.tier == "quick"
    recipes = g.big_recipes(quick)
    # the open finding: nesting so deep that the recursive parser exhausts the stack
    probes = [{"kind": "deep", "prefix": pre, "depth": 100000} for pre in g.DEEP_PREFIXES]
    cases, expects = [], []
    for rc in recipes + probes:
        text, cls, exp = g.expand_recipe(rc)
        cases.append({"id": len(cases), "op": "parse", "summary": True, "text": text.hex(), "recipe": rc,
                      "tag": "big_" + rc["kind"]})
        expects.append((cls, g.expected_summary(exp), len(text)))
    results = ck.harness_run("idl", cases, shards=len(cases))
    # the repeated layout productions (`ws`, comment and blank runs) once more on a build of zlink-core
    # WITHOUT optimisation (no tail-call elimination) and on a 1 MiB thread stack: a loop rewritten as
    # recursion must not survive because the optimiser happens to turn it back into a loop
    exe0, log0 = unoptimised_idl()
    runs = [i for i, c in enumerate(cases) if c["recipe"]["kind"] == "run"]
    if exe0 is None:
        ck.violation("the unoptimised build of the idl harness failed", {"log": log0[-2000:]}, tag="o0build",
                     no_input=True)
    else:
        again = run_exe(exe0, [dict(cases[i], stack_kb=1024) for i in runs])
        for i, r in zip(runs, again):
            if r.get("crash") or r != results[i]:
                results[i] = dict(r, unoptimised=True) if not r.get("crash") else r
    n_ok, n_known = 0, 0
    for c, r, (cls, es, size) in zip(cases, results, expects):
        rc = c["recipe"]
        slim = {k: v for k, v in c.items() if k != "text"}
        what = g.describe_recipe(rc)
        probe = rc in probes
        if r.get("crash") or r.get("class") not in CLASS:
            log = (r.get("log") or "")[-200:]
            if probe:
                n_known += 1
                ck.violation("the parser process dies (stack overflow) on %s" % what, {"case": slim, "impl": r},
                             tag="deep%d" % c["id"], sig=KNOWN_DEEP)
            else:
                ck.violation("the parser process dies on %s (%d bytes): %s" % (what, size, log.strip()[-120:]),
                             {"case": slim, "impl": r, "note": "the replay holds the recipe, not the text"},
                             tag="big%d" % c["id"])
            continue
        if probe:
            if r["class"] == cls and (es is None or (r.get("tree_crc") == es["tree_crc"]
                                                     and r.get("tree_len") == es["tree_len"])):
                n_ok += 1
            elif r["class"] != "err":       # a clean rejection of absurd nesting is acceptable
                ck.violation("wrong result on %s" % what, {"case": slim, "impl": r}, tag="deep%d" % c["id"])
            continue
        if r["class"] != cls:
            ck.violation("%s (%d bytes) is %s, expected %s%s" % (
                what, size, {"ok": "accepted", "err": "rejected", "panic": "a panic"}[r["class"]],
                {"ok": "accepted", "err": "rejected"}[cls],
                (": " + r.get("panic", "")) if r["class"] == "panic" else ""),
                {"case": slim, "impl": r}, tag="big%d" % c["id"])
        elif es is not None and (r.get("tree_crc") != es["tree_crc"] or r.get("tree_len") != es["tree_len"]):
            ck.violation("%s (%d bytes) is parsed to a different tree than the one it denotes" % (what, size),
                         {"case": slim, "impl": r, "expected": es}, tag="big%d" % c["id"])
        else:
            n_ok += 1
    ck.cov["large_inputs"] = {
        "cases": len(recipes), "as_expected": n_ok, "one_process_per_case": True,
        "largest_bytes": max(e[2] for e in expects), "total_bytes": sum(e[2] for e in expects),
        "kinds": sorted(set(g.describe_recipe(rc).split(" in position")[0] if rc["kind"] == "run"
                            else g.describe_recipe(rc) for rc in recipes))[:60],
        "run_positions": g.RUN_POSITIONS,
        "evaluated_at": "specification level: the expected outcome and the expected tree are known by "
                        "construction of each recipe (lib/idlgen.py expand_recipe) and compared through the "
                        "CRC-32 and length of the canonical dump; the Coq model is NOT evaluated on these inputs "
                        "(vm_compute on megabyte texts with unary lengths is too slow); lists of 255..513 "
                        "entries go through the Coq model like every other case (class count_*)",
        "deep_nesting_probes": len(probes), "deep_nesting_probes_crashing": n_known,
        "unoptimised_rerun": "the %d comment/blank-run cases are parsed a second time by a build of zlink-core at "
                             "opt-level 0 on a 1 MiB thread stack" % len(runs),
    }


def render_case(c, r):
    tree = g.from_wire(r["tree"]) if r.get("class") == "ok" else None
    return "(mkP %s %d %s %s %s)" % (
        g.cq_bytes(bytes.fromhex(c["text"])), CLASS[r["class"]], g.cq_opt_interface(tree),
        g.cq_bytes(bytes.fromhex(r["display"])) if tree is not None else "[]",
        g.cq_opt_interface(g.from_wire(c["expect"]) if c.get("expect") else None))


def describe(code, c, r):
    txt = bytes.fromhex(c["text"]).decode("utf-8", "replace")
    short = txt if len(txt) <= 90 else txt[:87] + "..."
    if code & 4:
        return "the parser panics on %r: %s" % (short, r.get("panic", ""))
    if code & 8:
        return "the parser accepts %r although the text does not denote the tree it builds (part ignored, or a name outside the grammar)" % short
    if code & 16:
        return "a legal layout of a description is %s: %r" % (
            "rejected" if r["class"] == "err" else "parsed to a different tree", short)
    return "spec violation on %r" % short


def main():
    ck = Check(PID)
    rc, out = sh([sys.executable, os.path.join(VERIF, "translate", "idl_keywords.py")])
    if rc != 0:
        ck.proof_ok, ck.broken, ck.proof_log = False, "translator idl_keywords.py: " + out.strip()[-300:], out
    else:
        ck.samples.append("translated: " + out.strip())
        ck.prove(["gen/IdlKeywords.v", "Idl/IdlExec.v"], "props/C13.v")

    if ck.replay:
        rp = json.load(open(ck.replay))
        cases = [rp["case"]] if "case" in rp else []
        for i, c in enumerate(cases):
            c["id"] = i
        if cases and "recipe" in cases[0]:
            # a large input: regenerate the text from the recipe, one process, specification-level verdict
            ok, log = ck.harness_build(["idl"])
            c = cases[0]
            text, cls, exp = g.expand_recipe(c["recipe"])
            es = g.expected_summary(exp)
            r = ck.harness_run("idl", [dict(c, text=text.hex(), summary=True)], shards=1)[0]
            if c["recipe"]["kind"] == "run" and not r.get("crash"):
                # also on the unoptimised build with a 1 MiB thread stack (see big_check)
                exe0, log0 = unoptimised_idl()
                if exe0:
                    r2 = run_exe(exe0, [dict(c, text=text.hex(), summary=True, stack_kb=1024)])[0]
                    if r2.get("crash") or strip_id(r2) != strip_id(r):
                        r = r2
            ck.ran_correspondence = True
            slim = {k: v for k, v in c.items() if k != "text"}
            if r.get("crash") or r.get("class") not in CLASS:
                ck.violation("the parser process dies on %s" % g.describe_recipe(c["recipe"]), {"case": slim, "impl": r},
                             tag="big0", sig=KNOWN_DEEP if c["recipe"].get("depth", 0) >= 100000 else None)
            elif r["class"] != cls or (es is not None and (r.get("tree_crc") != es["tree_crc"]
                                                            or r.get("tree_len") != es["tree_len"])):
                ck.violation("wrong result on %s" % g.describe_recipe(c["recipe"]),
                             {"case": slim, "impl": r, "expected": es}, tag="big0")
            ck.cov.update({"evaluations": 1, "distinct_nontrivial": 2})
            ck.finish(rule="replay of one large input by recipe")
    else:
        cases = gen_cases(ck)

    ok, log = ck.harness_build(["idl"])
    if not ok:
        ck.violation("harness does not build against /repo", {"log": log[-3000:]}, tag="build", no_input=True)
        ck.finish()
    seq_replay = None
    if ck.replay and cases and cases[0].get("op") == "seq":
        # a history-dependence replay: run the sequence in one process, then judge every text alone
        seq_replay = cases[0]
        cases = [{"id": i, "op": "parse", "text": t, "tag": "seqtext", "expect": None}
                 for i, t in enumerate(seq_replay["texts"])]
    results = ck.harness_run("idl", cases)
    ck.ran_correspondence = True
    # a dying process takes the rest of its shard with it: run the affected cases again, one process each
    dead = [i for i, r in enumerate(results) if r.get("crash")]
    if dead:
        again = ck.harness_run("idl", [cases[i] for i in dead[:400]], shards=min(64, len(dead[:400])))
        for i, r in zip(dead[:400], again):
            results[i] = r
    items = []
    n_dead = 0
    for c, r in zip(cases, results):
        if r.get("crash") or r.get("class") not in CLASS:
            n_dead += 1
            if n_dead <= 5:
                slim = {k: v for k, v in c.items() if k != "text"} if "recipe" in c else c
                ck.violation("the parser process dies on %r" % bytes.fromhex(c["text"]).decode("utf-8", "replace")[:100],
                             {"case": slim, "impl": r}, tag="crash%d" % c["id"])
            continue
        items.append((c, r))
    if seq_replay is not None:
        dev = seq_fails(ck, seq_replay["texts"], seq_replay["order"], [r for _, r in items])
        if dev:
            ck.violation("the parser is not a function of its input (%s)" % dev.get("kind", "crash"),
                         {"case": seq_replay, "deviation": dev}, tag="hist0")
    elif not ck.replay:
        history_check(ck, items)
        big_check(ck)
    try:
        bad = ck.coq_eval("cases", HEADER, items, lambda it: render_case(it[0], it[1]), per_shard=120)
    except RuntimeError as e:
        ck.violation("model evaluation failed: " + str(e)[:300], {"log": str(e)}, tag="eval", no_input=True)
        bad = {}
    # one report per (kind of deviation, generator class): the shortest input of each
    groups = {}
    for idx, code in bad.items():
        c, r = items[idx]
        key = (code & 0x1e if code & 2 else 1, c["tag"].split("_")[0], r["class"])
        cur = groups.get(key)
        if cur is None or len(c["text"]) < len(items[cur[0]][0]["text"]):
            groups[key] = (idx, code)
    n_spec = sum(1 for code in bad.values() if code & 2)
    n_model = sum(1 for code in bad.values() if code & 1)
    shown = 0
    for key in sorted(groups, key=lambda k: (0 if groups[k][1] & 2 else 1, len(items[groups[k][0]][0]["text"]))):
        idx, code = groups[key]
        c, r = items[idx]
        if shown >= 30:
            break
        shown += 1
        term = render_case(c, r)
        view = ck.coq_show(HEADER, "model_view %s" % term)
        replay = {"case": c, "impl": r, "code": code, "model_view(class,tree,sound)": view,
                  "text": bytes.fromhex(c["text"]).decode("utf-8", "replace")}
        if code & 2:
            ck.violation(describe(code, c, r), replay, tag="c%d" % c["id"])
        else:
            ck.violation("implementation differs from the parser model (IdlParse.v) on %r%s" % (
                replay["text"][:80], " (Display differs from render)" if code & 32 else ""),
                dict(replay, correspondence="Idl/IdlParse.v parse_interface vs Interface::try_from; "
                                            "Idl/Idl.v render vs Display"),
                tag="m%d" % c["id"], no_input=True)
    # coverage
    hist, classes = {}, {}
    hashes, nontriv = set(), set()
    members = {}
    for c, r in items:
        hist[c["tag"]] = hist.get(c["tag"], 0) + 1
        k = c["tag"].split("_")[0].rstrip("0123456789") + ":" + r["class"]
        classes[k] = classes.get(k, 0) + 1
        h = case_hash(c["text"])
        hashes.add(h)
        if r["class"] == "ok":
            t = r["tree"]
            nm = len(t["types"]) + len(t["methods"]) + len(t["errors"])
            members[nm] = members.get(nm, 0) + 1
            if nm >= 1:
                nontriv.add(h)
        elif len(c["text"]) >= 2 * 24:
            nontriv.add(h)
    ck.cov.update({
        "evaluations": len(items), "distinct_inputs": len(hashes), "distinct_nontrivial": len(nontriv),
        "case_classes": hist, "outcomes_by_class": classes, "accepted_by_member_count": members,
        "spec_deviations": n_spec, "model_deviations": n_model,
        "legal_layout_cases_with_expected_tree": sum(1 for c, _ in items if c.get("expect")),
    })
    for c, r in items[:2] + items[len(items) // 3: len(items) // 3 + 2] + items[-2:]:
        ck.samples.append({"text": bytes.fromhex(c["text"]).decode("utf-8", "replace")[:200], "tag": c["tag"],
                           "class": r["class"]})
    ck.assumptions += [
        "the parser model Idl/IdlParse.v (incl. winnow 0.7's alt/separated/literal/take_while semantics) is "
        "hand-written; its tie to parse/mod.rs is the correspondence on the generated texts (outcome class "
        "and full tree incl. comments) — bounded, seeded",
        "whitespace of the specification is ASCII space, tab, CR, LF; the Unicode blanks/line separators of "
        "the published grammar are not claimed either way; the text is first trimmed as str::trim does",
        "inputs are &str, i.e. valid UTF-8 (C13_no_panic is stated for valid UTF-8 byte strings)",
    ]
    ck.finish(rule="a case = one interface text; distinct by hash of the bytes; non-trivial = accepted with at "
                   "least one member, or a rejected text of at least 24 bytes")


if __name__ == "__main__":
    main()
