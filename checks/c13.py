#!/usr/bin/env python3
"""C13 — the IDL parser accepts exactly the Varlink grammar and builds the denoted tree."""
import os, sys, json
sys.path.insert(0, os.path.join(os.path.dirname(os.path.abspath(__file__)), "..", "lib"))
from vlib import *
import idlgen as g

PID = "C13"
HEADER = ("From Coq Require Import List NArith.\nImport ListNotations.\n"
          "From ZV Require Import Common.Exec Idl.Idl Idl.IdlParse Idl.IdlExec.\n"
          "Open Scope N_scope.\nSet Printing Width 1000000.\n")
CLASS = {"ok": 0, "err": 1, "panic": 2}

# texts whose every prefix is tried (truncation at every byte)
FIXED_TEXTS = [
    "interface org.example.t\n\ntype T (a: int, b: ?[]string)\n\nmethod M(x: (p: int, q: (u, v))) -> (y: [string]T)\n\nerror E (reason: string)",
    "# top\ninterface a.b\n# c\nerror Foo (a: int)\n",
    "interface a.b\nmethod M(a: int) -> ()\nerror Foo ()",
    "interface a.b\ntype E (one, two, three)\n# trailing comment",
    "interface a-b.c-d.e\ntype T (\n# doc\n  a_b: ?(x: float),\n  c: object\n)\nmethod N() -> (r: bool)",
]


def gen_cases(ck):
    rng = ck.rng
    quick = ck.tier == "quick"
    cases = []

    def add(text, tag, expect=None, src=None):
        try:
            text.decode()
        except UnicodeDecodeError:
            return
        cases.append({"id": len(cases), "op": "parse", "text": text.hex(), "tag": tag,
                      "expect": g.to_wire(expect) if expect is not None else None})

    corpus = os.path.join(VERIF, "corpus", "c13.jsonl")
    if os.path.exists(corpus):
        for line in open(corpus):
            if line.strip():
                c = json.loads(line)
                add(bytes.fromhex(c["text"]), "corpus%d" % len(cases),
                    g.from_wire(c["expect"]) if c.get("expect") else None)

    laid = []   # (pieces, text) of legal layouts, for mutation and truncation
    # (a) grammar-driven texts in random legal layout: the parser must build exactly the tree
    n_legal = 700 if quick else 12000
    for i in range(n_legal):
        src = g.gen_interface(rng, max_members=6, max_depth=4, pc=rng.choice([0, 0.2, 0.5]),
                              enum_variant_comments=rng.choice([0, 0.3]))
        L = g.Layout(rng, "legal", crlf=rng.random() < 0.15)
        pieces = L.interface(src)
        text = g.text_of(pieces)
        add(text, "legal", g.strip_inline_comments(g.partition(src)))
        laid.append((pieces, text))
    # canonical renderings of generated trees (Display layout, Display member order)
    for i in range(150 if quick else 2000):
        src = g.gen_interface(rng, pc=rng.choice([0, 0.4]))
        tree = g.partition(src)
        add(g.canonical_text(tree), "canonical", g.strip_inline_comments(tree))
    # small exhaustive-ish family: every type constructor at every depth up to 4 under each prefix
    for t in small_types(3 if quick else 4):
        src = {"name": b"a.b", "comments": [], "members": [("method", {"name": b"M", "inputs": [
            {"name": b"x", "ty": t, "comments": []}], "outputs": [], "comments": []})]}
        add(g.text_of(g.Layout(rng, "legal").interface(src)), "types", g.partition(src))
    # (a') liberal layouts: comments in every `_` position of the grammar; no expectation
    for i in range(200 if quick else 3000):
        src = g.gen_interface(rng, max_members=4, max_depth=3, pc=0.2)
        add(g.text_of(g.Layout(rng, "liberal", crlf=rng.random() < 0.3).interface(src)), "liberal")
    # (b) mutations
    n_mut = 900 if quick else 15000
    for i in range(n_mut):
        pieces, text = laid[rng.randrange(len(laid))]
        kind, m = g.mutate(rng, pieces)
        add(m, "mut_" + kind)
    # near-miss names: every name class with characters just outside its regular expression
    for i in range(250 if quick else 4000):
        pieces, text = laid[rng.randrange(len(laid))]
        for k, t in g.near_miss_names(rng, pieces, per_text=3):
            add(t, "name_" + k)
    # grammar-aware near misses: every list kind x every almost-legal list shape (extra, missing or
    # doubled commas, bare and typed entries mixed in every order, ':' without type, type without
    # name), type-prefix combinations, arrows, member shapes, keywords as names (deterministic)
    for k, t in g.near_miss_lists():
        add(t, "shape_" + k)
    # truncation at every byte
    trunc_src = [t.encode() for t in FIXED_TEXTS]
    short = sorted((t for _, t in laid if 20 < len(t) < (160 if quick else 400)), key=len)
    k = 12 if quick else 300
    step = max(1, len(short) // k)
    trunc_src += short[::step][:k]
    for t in trunc_src:
        for p in g.truncations(t):
            add(p, "trunc")
    # (c) byte soup
    for i in range(400 if quick else 8000):
        add(g.soup(rng), "soup")
    return cases


def small_types(depth):
    """Every shape of type up to the given depth over a small base (prefix operators and inline
    forms), without `??`."""
    base = [{"t": "int"}, {"t": "custom", "n": b"T"}]
    level = list(base)
    allt = list(base)
    for d in range(depth):
        nxt = []
        for t in level:
            if t["t"] != "opt":
                nxt.append({"t": "opt", "i": t})
            nxt.append({"t": "arr", "i": t})
            nxt.append({"t": "map", "i": t})
            nxt.append({"t": "struct", "fs": [{"name": b"f", "ty": t, "comments": []}]})
        nxt.append({"t": "enum", "vs": [{"name": b"a", "comments": []}, {"name": b"b", "comments": []}]})
        nxt.append({"t": "struct", "fs": []})
        allt += nxt
        level = nxt
    return allt


def render_case(c, r):
    tree = g.from_wire(r["tree"]) if r.get("class") == "ok" else None
    return "(mkP %s %d %s %s %s)" % (
        g.cq_bytes(bytes.fromhex(c["text"])), CLASS[r["class"]], g.cq_opt_interface(tree),
        g.cq_bytes(bytes.fromhex(r["display"])) if tree is not None else "[]",
        g.cq_opt_interface(g.from_wire(c["expect"]) if c.get("expect") else None))


def describe(code, c, r):
    txt = bytes.fromhex(c["text"]).decode("utf-8", "replace")
    short = txt if len(txt) <= 90 else txt[:87] + "..."
    if code & 4:
        return "the parser panics on %r: %s" % (short, r.get("panic", ""))
    if code & 8:
        return "the parser accepts %r although the text does not denote the tree it builds (part ignored, or a name outside the grammar)" % short
    if code & 16:
        return "a legal layout of a description is %s: %r" % (
            "rejected" if r["class"] == "err" else "parsed to a different tree", short)
    return "spec violation on %r" % short


def main():
    ck = Check(PID)
    rc, out = sh([sys.executable, os.path.join(VERIF, "translate", "idl_keywords.py")])
    if rc != 0:
        ck.proof_ok, ck.broken, ck.proof_log = False, "translator idl_keywords.py: " + out.strip()[-300:], out
    else:
        ck.samples.append("translated: " + out.strip())
        ck.prove(["gen/IdlKeywords.v", "Idl/IdlExec.v"], "props/C13.v")

    if ck.replay:
        rp = json.load(open(ck.replay))
        cases = [rp["case"]] if "case" in rp else []
        for i, c in enumerate(cases):
            c["id"] = i
    else:
        cases = gen_cases(ck)

    ok, log = ck.harness_build(["idl"])
    if not ok:
        ck.violation("harness does not build against /repo", {"log": log[-3000:]}, tag="build", no_input=True)
        ck.finish()
    results = ck.harness_run("idl", cases)
    ck.ran_correspondence = True
    items = []
    for c, r in zip(cases, results):
        if r.get("crash") or r.get("class") not in CLASS:
            ck.violation("harness crashed on a parse case", {"case": c, "impl": r}, tag="crash%d" % c["id"],
                         no_input=True)
            continue
        items.append((c, r))
    try:
        bad = ck.coq_eval("cases", HEADER, items, lambda it: render_case(it[0], it[1]), per_shard=120)
    except RuntimeError as e:
        ck.violation("model evaluation failed: " + str(e)[:300], {"log": str(e)}, tag="eval", no_input=True)
        bad = {}
    # one report per (kind of deviation, generator class): the shortest input of each
    groups = {}
    for idx, code in bad.items():
        c, r = items[idx]
        key = (code & 0x1e if code & 2 else 1, c["tag"].split("_")[0], r["class"])
        cur = groups.get(key)
        if cur is None or len(c["text"]) < len(items[cur[0]][0]["text"]):
            groups[key] = (idx, code)
    n_spec = sum(1 for code in bad.values() if code & 2)
    n_model = sum(1 for code in bad.values() if code & 1)
    shown = 0
    for key in sorted(groups, key=lambda k: (0 if groups[k][1] & 2 else 1, len(items[groups[k][0]][0]["text"]))):
        idx, code = groups[key]
        c, r = items[idx]
        if shown >= 30:
            break
        shown += 1
        term = render_case(c, r)
        view = ck.coq_show(HEADER, "model_view %s" % term)
        replay = {"case": c, "impl": r, "code": code, "model_view(class,tree,sound)": view,
                  "text": bytes.fromhex(c["text"]).decode("utf-8", "replace")}
        if code & 2:
            ck.violation(describe(code, c, r), replay, tag="c%d" % c["id"])
        else:
            ck.violation("implementation differs from the parser model (IdlParse.v) on %r%s" % (
                replay["text"][:80], " (Display differs from render)" if code & 32 else ""),
                dict(replay, correspondence="Idl/IdlParse.v parse_interface vs Interface::try_from; "
                                            "Idl/Idl.v render vs Display"),
                tag="m%d" % c["id"], no_input=True)
    # coverage
    hist, classes = {}, {}
    hashes, nontriv = set(), set()
    members = {}
    for c, r in items:
        hist[c["tag"]] = hist.get(c["tag"], 0) + 1
        k = c["tag"].split("_")[0].rstrip("0123456789") + ":" + r["class"]
        classes[k] = classes.get(k, 0) + 1
        h = case_hash(c["text"])
        hashes.add(h)
        if r["class"] == "ok":
            t = r["tree"]
            nm = len(t["types"]) + len(t["methods"]) + len(t["errors"])
            members[nm] = members.get(nm, 0) + 1
            if nm >= 1:
                nontriv.add(h)
        elif len(c["text"]) >= 2 * 24:
            nontriv.add(h)
    ck.cov.update({
        "evaluations": len(items), "distinct_inputs": len(hashes), "distinct_nontrivial": len(nontriv),
        "case_classes": hist, "outcomes_by_class": classes, "accepted_by_member_count": members,
        "spec_deviations": n_spec, "model_deviations": n_model,
        "legal_layout_cases_with_expected_tree": sum(1 for c, _ in items if c.get("expect")),
    })
    for c, r in items[:2] + items[len(items) // 3: len(items) // 3 + 2] + items[-2:]:
        ck.samples.append({"text": bytes.fromhex(c["text"]).decode("utf-8", "replace")[:200], "tag": c["tag"],
                           "class": r["class"]})
    ck.assumptions += [
        "the parser model Idl/IdlParse.v (incl. winnow 0.7's alt/separated/literal/take_while semantics) is "
        "hand-written; its tie to parse/mod.rs is the correspondence on the generated texts (outcome class "
        "and full tree incl. comments) — bounded, seeded",
        "whitespace of the specification is ASCII space, tab, CR, LF; the Unicode blanks/line separators of "
        "the published grammar are not claimed either way; the text is first trimmed as str::trim does",
        "inputs are &str, i.e. valid UTF-8 (C13_no_panic is stated for valid UTF-8 byte strings)",
    ]
    ck.finish(rule="a case = one interface text; distinct by hash of the bytes; non-trivial = accepted with at "
                   "least one member, or a rejected text of at least 24 bytes")


if __name__ == "__main__":
    main()
