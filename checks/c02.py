#!/usr/bin/env python3
"""C02 — outbound framing: one JSON document plus one NUL per message, in order."""
import os, sys, json
sys.path.insert(0, os.path.join(os.path.dirname(os.path.abspath(__file__)), "..", "lib"))
from vlib import *
from rconn import constants
from wconn import *

PID = "C02"


def msg(rng, want=None):
    # failcall: a value whose Serialize impl refuses (custom serde error); its error offset is computed by
    # the harness without the serializer under test
    kind = rng.choices(["call", "ping", "reply", "error", "busy", "badcall", "badreply", "failcall", "fcall"],
                       [30, 8, 25, 12, 5, 10, 10, 7, 8])[0]
    size = want if want is not None else rng.choice(
        [0, 1, 5, rng.randrange(0, 120), rng.randrange(100, 300), rng.randrange(200, 700)])
    return {"kind": kind, "size": size, "seed": rng.randrange(0, 1000), "plain": rng.random() < 0.5}


def gen_cases(ck, limit, step):
    rng = ck.rng
    cases = []

    def add(ops, wscript, tag):
        cases.append({"id": len(cases), "ops": ops, "wscript": wscript, "tag": tag})
    corpus = os.path.join(VERIF, "corpus", "c02.jsonl")
    if os.path.exists(corpus):
        for line in open(corpus):
            if line.strip():
                c = json.loads(line)
                add(c["ops"], c.get("wscript", []), "corpus")
    quick = ck.tier == "quick"
    # (a) random histories
    for i in range(900 if quick else 20000):
        n = rng.randrange(1, 13)
        ops = []
        for _ in range(n):
            x = rng.random()
            if x < 0.05:
                ops.append(["rejoin"])       # split + join: must leave the write queue alone
            elif x < 0.2:
                ops.append(["flush"])
            else:
                m = msg(rng)
                # calls also enter the queue through the chain API (a chain started and abandoned
                # = enqueue; a one-call chain sent = send), which shares the write queue
                viachain = m["kind"] in ("call", "ping", "badcall", "failcall", "fcall") and rng.random() < 0.25
                if x < 0.6 and m["kind"] in ("call", "ping", "badcall", "failcall", "fcall"):
                    ops.append(["cenq" if viachain else "enq", m])
                else:
                    ops.append(["csend" if viachain else "send", m])
        add(ops, [], "random")
    # (b) sweep: a first enqueued call of every size 0..=2*step+90, then a second message:
    #     every free-space value is met at the start of the second message, and the first one ends
    #     at every offset relative to the buffer end (incl. 'ends exactly at the buffer end')
    top = 2 * step + 90
    for sz in range(0, top, 1 if not quick else 1):
        second = msg(rng)
        kind2 = "enq" if second["kind"] in ("call", "ping", "badcall", "failcall", "fcall") and rng.random() < 0.5 else "send"
        if second["kind"] in ("call", "ping", "badcall", "failcall", "fcall") and rng.random() < 0.3:
            kind2 = "c" + kind2
        add([["enq", {"kind": "call", "size": sz, "seed": sz, "plain": True}], [kind2, second], ["flush"]],
            [], "offset_sweep")
    # (b2) the same after the buffer was grown by an earlier large message (free space up to 700)
    for sz in range(0, 3 * step - 60, 1 if not quick else 2):
        second = msg(rng)
        kind2 = "enq" if second["kind"] in ("call", "ping", "badcall", "failcall", "fcall") and rng.random() < 0.5 else "send"
        if second["kind"] in ("call", "ping", "badcall", "failcall", "fcall") and rng.random() < 0.3:
            kind2 = "c" + kind2
        add([["send", {"kind": "reply", "size": 2 * step + 100, "seed": 1, "plain": True}],
             ["enq", {"kind": "call", "size": sz, "seed": sz, "plain": True}], [kind2, second], ["flush"]],
            [], "offset_sweep_grown")
    # (b3) histories that reach the size limit: the document fits exactly / by one / not at all
    base = 60
    for d in (range(-70, 12) if not quick else range(-12, 6)):
        for kind in ("call", "reply"):
            add([["send" if kind == "reply" else "enq", {"kind": kind, "size": limit - base + d, "seed": 3, "plain": True}],
                 ["enq", {"kind": "ping"}], ["flush"], ["send", {"kind": "busy"}]], [], "near_limit")
    for i in range(8 if quick else 300):
        first = rng.randrange(0, limit - 100)
        second = rng.randrange(max(0, limit - first - 200), limit - first + 60)
        add([["enq", {"kind": "call", "size": first, "seed": 1, "plain": True}],
             ["enq", {"kind": "call", "size": max(0, second), "seed": 2, "plain": True}],
             ["enq", {"kind": "ping"}], ["flush"], ["send", {"kind": "ping"}]], [], "refused_after_enqueued")
    # (c) failing transport writes (outside C02_framing's hypothesis: model correspondence only)
    for i in range(60 if quick else 1000):
        n = rng.randrange(2, 8)
        ops = [["send", msg(rng)] if rng.random() < 0.7 else ["flush"] for _ in range(n)]
        add(ops, [rng.random() < 0.6 for _ in range(n)], "write_failures")
    return cases


def describe(c):
    return [[o[0]] + ([o[1]["kind"], o[1].get("size")] if len(o) > 1 else []) for o in c["ops"]]


def main():
    ck = Check(PID)
    step, limit, _ = constants(ck)
    if getattr(ck, "proof_ok", True):
        ck.prove(["gen/Consts.v", "Framing/WriteConnExec.v"], "props/C02.v")
    if ck.replay:
        rp = json.load(open(ck.replay))
        cases = [rp["case"]] if "case" in rp else []
        for i, c in enumerate(cases):
            c["id"] = i
    else:
        cases = gen_cases(ck, limit, step)
    items, results = run_wcases(ck, cases, step, limit, describe, per_shard=25)
    # ---- production limit (binary built without the hook cfg): large queues must still reach the
    # transport as ONE write holding every document + NUL (C02_framing is parametric in the limit; the
    # hook-lowered limit caps a queue at 4096 bytes, so sizes beyond that are exercised here, as testing)
    big_cases, big_bad = [], 0
    if not ck.replay:
        root = harness_root()
        rc_, log_ = sh("cargo build --offline --bin biglimit --target-dir %s" % os.path.join(root, "target-nohook"),
                       timeout=1500, cwd=root, env={"RUSTFLAGS": ""})
        if rc_ != 0:
            ck.violation("production-limit harness does not build against /repo", {"log": log_[-3000:]}, tag="pbuild",
                         no_input=True)
        else:
            combos = [(300, 300), (1, 70000), (3, 33000), (2000, 100), (1, 300000), (40, 30000), (256, 200), (1, 65473),
                      (1, 65474), (1, 65475)] + [(ck.rng.randrange(2, 600), ck.rng.randrange(1, 2000)) for _ in range(10)]
            for i, (n, sz) in enumerate(combos):
                big_cases.append({"id": i, "kind": "batch", "calls": n, "size": sz, "then": i % 2 == 0})
            # queues of unequal calls: a long call behind a long queue of short ones, long calls in a row, ...
            for sizes in ([1000] * 40 + [20000], [100] * 200 + [40000], [20000, 20000, 70000], [70000, 70000],
                          [30000] + [10] * 50 + [30000], [ck.rng.randrange(1, 3000) for _ in range(60)] + [ck.rng.randrange(16000, 90000)]):
                big_cases.append({"id": len(big_cases), "kind": "batch", "sizes": sizes, "calls": len(sizes),
                                  "size": max(sizes), "then": True})
            inp = "\n".join(json.dumps(c) for c in big_cases) + "\n"
            rc_, out_ = sh(os.path.join(root, "target-nohook", "debug", "biglimit"), timeout=900, input=inp)
            res = {}
            for l in out_.splitlines():
                if l.startswith("{"):
                    r = json.loads(l)
                    res[r["id"]] = r
            for c in big_cases:
                r = res.get(c["id"], {"crash": True})
                if not (r.get("res") == "ok" and r.get("writes") == 1 and r.get("content_ok")
                        and r.get("then_ok") in (None, True)):
                    big_bad += 1
                    ck.violation("production limit: %d pipelined calls of %d payload bytes then one flush reached the transport "
                                 "as %s write(s) %s (content %s; a small call sent afterwards: %s), expected one write of %s "
                                 "bytes and then one write of that call alone" % (
                                     c["calls"], c.get("sizes", c["size"]) if len(c.get("sizes", [])) < 8 else "up to %d" % c["size"],
                                     r.get("writes"), r.get("write_sizes"),
                                     "ok" if r.get("content_ok") else "DIFFERS", r.get("then_ok"), r.get("expected_bytes")),
                                 {"side": "out-production", "case": c, "impl": r}, tag="big%d" % c["id"])
    # coverage: free space at message start, growth steps spanned, refusals
    free = set()
    spans = {}
    refusals = {}
    exact_end = 0
    for c, r in items:
        for op, o, orc in zip(c["ops"], r["ops"], r["oracles"]):
            if op[0] == "flush":
                continue
            c0, p0 = o["before"]
            free.add(c0 - p0)
            g = (o["st"][0] - c0) // step
            spans[g] = spans.get(g, 0) + 1
            if o["res"] != "ok":
                refusals[o["res"]] = refusals.get(o["res"], 0) + 1
            if orc and "good" in orc and p0 + len(orc["good"]) // 2 == c0:
                exact_end += 1
    hist = {}
    for c in cases:
        hist[c["tag"]] = hist.get(c["tag"], 0) + 1
    nontriv = {case_hash(c["ops"]) for c in cases if len(c["ops"]) >= 2}
    ck.cov.update({
        "evaluations": len(cases), "distinct_nontrivial": len(nontriv),
        "traces_validated_against_impl": len(items), "case_classes": hist,
        "free_space_values_0_600_met": len([f for f in free if 0 <= f <= 600]),
        "free_space_values_missing_0_600": [f for f in range(0, 601) if f not in free][:40],
        "growth_steps_spanned_by_one_message": spans, "refusals": refusals,
        "messages_ending_exactly_at_buffer_end": exact_end,
        "step": step, "limit_under_hook": limit,
        "production_limit_batches": len(big_cases), "production_limit_batch_failures": big_bad,
        "largest_production_batch_bytes": max([c["calls"] * (c["size"] + 70) for c in big_cases] or [0])})
    for c in cases[:2] + cases[-2:]:
        ck.samples.append({"ops": describe(c), "wscript": c["wscript"]})
    ck.assumptions += [
        "a message is abstracted as Good(bytes) with bytes = serde_json::to_vec(value) (so the check also ties the "
        "bytes on the wire to serde_json's encoding) or BadKey(k) with k measured from the serializer itself",
        "the model is hand-written (Framing/WriteConn.v); its tie to write_connection.rs is the correspondence on "
        "generated histories (result, buffer.len(), pos after every operation; every transport write call)",
    ]
    ck.finish(rule="a case = a history of enqueue_call/send_call/send_reply/send_error/flush with message sizes; "
                   "distinct by hash; non-trivial = at least two operations")


if __name__ == "__main__":
    main()
