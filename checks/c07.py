#!/usr/bin/env python3
"""C07 — receiving is cancel-safe: abandoning a receive loses or duplicates nothing."""
import os, sys, json, itertools
sys.path.insert(0, os.path.join(os.path.dirname(os.path.abspath(__file__)), "..", "lib"))
from vlib import *
import framegen as fg
from rconn import *

PID = "C07"


def gen_cases(ck, limit, step):
    rng = ck.rng
    cases = []

    def add(target, frames, events, n, cancel, tag, rejoin=None):
        # entry points: the Connection's own receive_*, the same through the read half, and with the
        # connection split into halves and joined again between any two receive futures
        if rejoin is None:
            rejoin = rng.random() < 0.25
        if target in ("call_strict", "reply_typed") and rng.random() < 0.3:
            target = "rh_" + target
        cases.append({"id": len(cases), "target": target, "events": events, "n": n,
                      "frames": [f.hex() for f in frames], "inhyp": True, "cancel": cancel,
                      "kinds": [], "tag": tag, "rejoin": rejoin})
    corpus = os.path.join(VERIF, "corpus", "c07.jsonl")
    if os.path.exists(corpus):
        for line in open(corpus):
            if line.strip():
                c = json.loads(line)
                add(c["target"], [bytes.fromhex(f) for f in c["frames"]], c["events"], c["n"], c["cancel"], "corpus",
                    rejoin=c.get("rejoin", False))
    quick = ck.tier == "quick"
    # (a) exhaustive: every subset of cancellation points for streams with <= 6 suspension points
    n_ex = 14 if quick else 80
    ALLT = fg.TARGETS + fg.CALLM_TARGETS
    for i in range(n_ex):
        target = ALLT[i % len(ALLT)]
        k = rng.randrange(1, 4)
        frames = []
        while len(frames) < k:
            f, _ = fg.frame(rng, target, kind=rng.choice(["valid", "wrong_shape", "padded", "valid", "malformed"]))
            if f and 0 not in f:
                frames.append(f)
        stream = fg.wire(frames)
        npend = rng.randrange(2, 7 if not quick else 6)
        cuts = fg.random_cuts(rng, len(stream), npend + rng.randrange(0, 2))
        chunks = fg.chunks_from_cuts(stream, cuts)
        # place exactly npend Pending events between/before chunks
        slots = sorted(rng.choice(range(len(chunks) + 1)) for _ in range(npend))
        ev = []
        for j, c in enumerate(chunks):
            ev += [["p"]] * slots.count(j)
            ev.append(["d", c.hex()])
        ev += [["p"]] * slots.count(len(chunks))
        ev.append(["e"])
        for mask in range(1 << npend):
            cancel = [b + 1 for b in range(npend) if mask >> b & 1]
            add(target, frames, ev, len(frames) + 1, cancel, "exhaustive_subsets")
    # (b) cancel every k-th poll, for all k, on longer streams; random subsets
    n_long = 40 if quick else 400
    for i in range(n_long):
        target = rng.choice(ALLT)
        k = rng.randrange(2, 7)
        frames = []
        while len(frames) < k:
            f, _ = fg.frame(rng, target)
            if f and 0 not in f:
                frames.append(f)
        stream = fg.wire(frames)
        if len(stream) >= limit:
            continue
        chunks = fg.chunks_from_cuts(stream, fg.random_cuts(rng, len(stream), rng.randrange(3, 20)))
        ev = fg.events_of(rng, chunks, pend_prob=0.55)
        npend = sum(1 for e in ev if e[0] == "p")
        for kk in range(1, min(npend, 8) + 1):
            add(target, frames, ev, len(frames) + 1, list(range(kk, npend + 1, kk)), "every_kth")
        for _ in range(3):
            add(target, frames, ev, len(frames) + 1,
                sorted(rng.sample(range(1, npend + 1), rng.randrange(0, npend + 1))) if npend else [],
                "random_subset")
    return cases


def render_c(c, res, codes, step, limit):
    npend = sum(1 for e in c["events"] if e[0] == "p")
    sched = ["true" if (i + 1) in c["cancel"] else "false" for i in range(npend)]
    return "{| cc_base := %s; cc_sched := %s |}" % (render_case(c, res, codes, step, limit), coq_list(sched))


def main():
    ck = Check(PID)
    step, limit, _ = constants(ck)
    if getattr(ck, "proof_ok", True):
        ck.prove(["gen/Consts.v", "Framing/ReadConnExec.v"], "props/C07.v")
    if ck.replay:
        rp = json.load(open(ck.replay))
        cases = [rp["case"]] if "case" in rp and rp.get("leg") != "production" else []
        for i, c in enumerate(cases):
            c["id"] = i
    else:
        cases = gen_cases(ck, limit, step)
    ok, log = ck.harness_build(["conn"])
    if not ok:
        ck.violation("harness does not build against /repo", {"log": log[-3000:]}, tag="build", no_input=True)
        ck.finish()
    results = ck.harness_run("conn", cases)
    ck.ran_correspondence = True
    codes = code_table(results)
    items = []
    cancels_done = 0
    for c, r in zip(cases, results):
        if r.get("panic") or r.get("crash"):
            ck.violation("receive panicked/crashed under cancellation", {"case": c, "impl": r}, tag="panic%d" % c["id"])
            continue
        cancels_done += r.get("cancels", 0)
        items.append((c, r))
    try:
        bad = ck.coq_eval("cases", HEADER, items, lambda it: render_c(it[0], it[1], codes, step, limit),
                          fn="check_c")
    except RuntimeError as e:
        ck.violation("model evaluation failed: " + str(e)[:300], {"log": str(e)}, tag="eval", no_input=True)
        bad = {}
    for idx in sorted(bad)[:5]:
        c, r = items[idx]
        term = render_c(c, r, codes, step, limit)
        model = ck.coq_show(HEADER, "(cmodel_trace (%s), spec_trace (cc_base (%s)))" % (term, term))
        if bad[idx] & 2:
            ck.violation("with receive futures dropped after pending polls %s the completed receives do not "
                         "return one result per frame in order" % c["cancel"],
                         {"case": c, "impl": r, "model_and_spec": model, "codes": codes}, tag="c%d" % c["id"])
        else:
            ck.violation("implementation differs from the model under cancellation (results agree with the spec)",
                         {"case": c, "impl": r, "model_and_spec": model, "codes": codes,
                          "correspondence": "ReadConn.drive_c vs Connection::receive_* with dropped futures"},
                         tag="m%d" % c["id"], no_input=True)
    # ---- production buffer limit (conn harness built WITHOUT the hook cfg, scripted transport): frames
    # beyond the hook's limit, cancellation while thousands of bytes are buffered. The theorems are proved
    # for every limit that is a multiple of the step, so the implementation's results are compared with
    # their conclusion directly (spec level: one result per frame, in order, equal to the frame decoded
    # in isolation, whatever the pattern of abandoned receives).
    prod_runs, prod_cancels = 0, 0
    if not ck.replay or (ck.replay and json.load(open(ck.replay)).get("leg") == "production"):
        root = harness_root()
        rc_, log_ = sh("cargo build --offline --bin conn --target-dir %s" % os.path.join(root, "target-nohook"),
                       timeout=1500, cwd=root, env={"RUSTFLAGS": ""})
        if rc_ != 0:
            ck.violation("conn harness does not build against /repo without the hook cfg", {"log": log_[-3000:]},
                         tag="pbuild", no_input=True)
        else:
            rng = ck.rng
            pcases = []

            def padd(target, frames, ev, cancel, tag):
                pcases.append({"id": len(pcases), "target": target, "events": ev, "n": len(frames) + 1,
                               "cancel": cancel, "tag": tag, "rejoin": rng.random() < 0.2,
                               "frames": [f.hex() for f in frames]})
            if ck.replay:
                pc = json.load(open(ck.replay))["case"]
                pc["id"] = 0
                pcases.append(pc)
            BIG = [3 * limit // 4, limit - 1, limit, limit + 1, limit + step, 2 * limit, 2 * limit + 7, 5 * limit,
                   17 * limit + 5, 40 * limit]
            for i in range(0 if ck.replay else (24 if ck.tier == "quick" else 200)):
                target = ["call_strict", "reply_typed", "call_value", "reply_value"][i % 4]
                # (i) a short frame and the first part (>= the hook limit) of a long one arrive together, the
                # receive is abandoned, the rest arrives
                small, _ = fg.frame(rng, target, kind="valid")
                big, _ = fg.frame(rng, target, kind="valid", size=rng.choice(BIG[2:]))
                tail, _ = fg.frame(rng, target, kind="valid")
                frames = [small, big, tail] if i % 2 else [big, small, big]
                stream = fg.wire(frames)
                first = len(frames[0]) + 1 + rng.choice([limit, limit + 1, limit + step + 3, 16 * limit + 300, 30 * limit])
                first = min(first, len(stream) - 2)
                cut2 = rng.randrange(first + 1, len(stream))
                ev = [["d", stream[:first].hex()], ["p"], ["d", stream[first:cut2].hex()], ["p"],
                      ["d", stream[cut2:].hex()], ["e"]]
                for cancel in ([1], [2], [1, 2], []):
                    padd(target, frames, ev, cancel, "short_then_partial_long")
                # (ii) random long frames, random large chunks, random suspension and abandonment
                k = rng.randrange(2, 5)
                frames = []
                for _ in range(k):
                    f, _ = fg.frame(rng, target, kind="valid",
                                    size=rng.choice(BIG) if rng.random() < 0.6 else None)
                    frames.append(f)
                stream = fg.wire(frames)
                chunks = fg.chunks_from_cuts(stream, fg.random_cuts(rng, len(stream), rng.randrange(3, 14)))
                ev = fg.events_of(rng, chunks, pend_prob=0.5)
                npend = sum(1 for e in ev if e[0] == "p")
                padd(target, frames, ev, list(range(1, npend + 1)), "random_long_all_abandoned")
                padd(target, frames, ev, sorted(rng.sample(range(1, npend + 1), rng.randrange(0, npend + 1))) if npend else [],
                     "random_long_random_subset")
            if not ck.replay:
                # (iii) bursts whose total length is an exact multiple of the step far above the hook limit
                # (the data ends exactly at the end of the grown buffer), alone and pipelined
                for total in ([16 * limit, 16 * limit + step, 32 * limit] if ck.tier == "quick" else
                              [16 * limit - step, 16 * limit, 16 * limit + step, 17 * limit, 32 * limit, 64 * limit, 256 * limit]):
                    for target in ("call_strict", "reply_typed"):
                        small, _ = fg.frame(rng, target, kind="valid")
                        for frames in ([None], [small, None], [None, small]):
                            rest = total - sum(len(f) + 1 for f in frames if f is not None) - 1
                            big, _ = fg.frame(rng, target, kind="valid", size=rest)
                            fr = [big if f is None else f for f in frames]
                            stream = fg.wire(fr)
                            assert len(stream) == total
                            npieces = rng.choice([1, 1, 3])
                            chunks = fg.chunks_from_cuts(stream, fg.random_cuts(rng, len(stream), npieces - 1))
                            ev = []
                            for ch in chunks:
                                ev.append(["d", ch.hex()])
                            ev.append(["e"])
                            padd(target, fr, ev, [], "exact_multiple_of_step_large")
                # (iv) one frame above a mebibyte (thousands of transport reads in one receive) in two pieces,
                # the receive abandoned at every suspension point, at the first only, or never
                for sz in ([300 * limit] if ck.tier == "quick" else [260 * limit, 300 * limit, 600 * limit]):
                    target = "call_strict"
                    big, _ = fg.frame(rng, target, kind="valid", size=sz)
                    tail, _ = fg.frame(rng, target, kind="valid")
                    stream = fg.wire([big, tail])
                    cut = sz - 3 * limit
                    ev = [["d", stream[:cut].hex()], ["p"], ["d", stream[cut:].hex()], ["e"]]
                    for cancel in ([1], list(range(1, 6)), []):
                        padd(target, [big, tail], ev, cancel, "mebibyte_frame")
            exe = os.path.join(root, "target-nohook", "debug", "conn")
            n_sh = 12
            parts = [pcases[j::n_sh] for j in range(n_sh) if pcases[j::n_sh]]
            from concurrent.futures import ThreadPoolExecutor

            def prun(part):
                inp = "\n".join(json.dumps({k: v for k, v in c.items() if k != "frames"}) for c in part) + "\n"
                rc2, out2 = sh(exe, timeout=900, input=inp)
                got = {}
                for l in out2.splitlines():
                    if l.startswith("{"):
                        try:
                            o = json.loads(l)
                            got[o.get("id")] = o
                        except ValueError:
                            pass
                return got
            pres = {}
            with ThreadPoolExecutor(max_workers=n_sh) as ex:
                for got in ex.map(prun, parts):
                    pres.update(got)
            for c in pcases:
                r = pres.get(c["id"])
                prod_runs += 1
                slim = c
                if r is None or r.get("panic"):
                    ck.violation("production limit: receive crashed/panicked under cancellation (frames of %s bytes)"
                                 % [len(f) // 2 for f in c["frames"]],
                                 {"leg": "production", "case": slim, "impl": r}, tag="pp%d" % c["id"])
                    continue
                prod_cancels += r.get("cancels", 0)
                if r.get("lost_wakeups"):
                    ck.violation("production limit: a receive returned Pending %d time(s) although the transport was not "
                                 "pending and no wake-up was arranged" % r["lost_wakeups"],
                                 {"leg": "production", "case": slim, "impl": {k: v for k, v in r.items() if k != "segs"}},
                                 tag="pw%d" % c["id"])
                    continue
                want = [r["segs"].get(f) for f in c["frames"]]
                got = [o["res"] for o in r.get("ops", [])]
                if r.get("stuck") or got[:len(want)] != want or len(got) != len(want) + 1 or got[-1].startswith("ok") \
                        or any(w is None or w.startswith("err") for w in want):
                    ck.violation("production limit: frames of %s bytes, receive futures dropped after pending polls %s: "
                                 "results %s, expected one per frame in order %s then end of stream" % (
                                     [len(f) // 2 for f in c["frames"]], c["cancel"], got, want),
                                 {"leg": "production", "case": slim, "impl": {k: v for k, v in r.items() if k != "segs"}},
                                 tag="prod%d" % c["id"])
    # ---- real transports (tokio and smol Unix sockets, binary built without the hook cfg): a peer
    # writes each frame in several segments with pauses while the receiver abandons its receive by a
    # short time-out again and again; every message must still arrive intact, once, in order. This
    # exercises the cancel-safety of the transports' own read futures, which the model assumes.
    sock_cases, sock_cancels = [], 0
    if not ck.replay:
        root = harness_root()
        rc_, log_ = sh("cargo build --offline --bin sock --target-dir %s" % os.path.join(root, "target-nohook"),
                       timeout=1500, cwd=root, env={"RUSTFLAGS": ""})
        if rc_ != 0:
            ck.violation("socket harness does not build against /repo", {"log": log_[-3000:]}, tag="sbuild", no_input=True)
        else:
            rng = ck.rng
            for i in range(6 if ck.tier == "quick" else 40):
                for rt in ("tokio", "smol"):
                    sizes = [rng.choice([1, 20, 300, 700, rng.randrange(1, 1500)]) for _ in range(rng.randrange(2, 5))]
                    cuts = [sorted(rng.sample(range(1, 60 + sz), rng.randrange(1, 4))) for sz in sizes]
                    sock_cases.append({"id": len(sock_cases), "runtime": rt, "kind": "recv_cancel", "sizes": sizes,
                                       "cuts": cuts, "gap_ms": 25, "recv_timeout_ms": rng.choice([5, 8, 12])})
            from concurrent.futures import ThreadPoolExecutor
            exe = os.path.join(root, "target-nohook", "debug", "sock")

            def one(c):
                rc2, out2 = sh(exe, timeout=120, input=json.dumps(c) + "\n")
                for l in out2.splitlines():
                    if l.startswith("{"):
                        return json.loads(l)
                return {"crash": True, "log": out2[-300:]}
            with ThreadPoolExecutor(max_workers=12) as ex:
                sres = list(ex.map(one, sock_cases))
            for c, r in zip(sock_cases, sres):
                sock_cancels += r.get("cancels", 0)
                if r.get("results") != ["ok"] * len(c["sizes"]):
                    ck.violation("over a real %s Unix socket, with the receive abandoned %s times between the segments of "
                                 "the frames, the messages did not all arrive intact and in order: %s" % (
                                     c["runtime"], r.get("cancels"), r.get("results", r)),
                                 {"case": c, "impl": r}, tag="sock%d" % c["id"])
    # ---- the server loop drops and re-creates the transports' read and accept futures on every turn:
    # real Server::run over real sockets (lib/rsrv.py), scenarios in which another arm wins while a call
    # is half received or a client has just been accepted
    import rsrv
    rsrv.run_rsrv(ck, only=("connect_while_call_ready", "split_call_between_others", "connect_during_flood",
                            "write_then_half_close", "oneway_then_exit"))
    hashes = {case_hash([c["target"], c["events"], c["n"], c["cancel"]]) for c in cases}
    nontriv = {case_hash([c["target"], c["events"], c["n"], c["cancel"]]) for c in cases if c["cancel"]}
    hist = {}
    for c in cases:
        hist[c["tag"]] = hist.get(c["tag"], 0) + 1
    ck.cov.update({"evaluations": len(cases), "distinct_nontrivial": len(nontriv),
                   "traces_validated_against_impl": len(items), "case_classes": hist,
                   "futures_dropped_total": cancels_done,
                   "production_limit_runs": prod_runs, "production_limit_receives_abandoned": prod_cancels,
                   "real_socket_runs": len(sock_cases), "real_socket_receives_abandoned": sock_cancels,
                   "exhaustive": False,
                   "exhaustive_part": "every subset of suspension points for the streams in class exhaustive_subsets"})
    for c in cases[:2] + cases[-2:]:
        ck.samples.append({"target": c["target"], "events": c["events"][:8], "cancel_after_pending_polls": c["cancel"]})
    ck.assumptions += [
        "PARTIAL: the theorem is about a model in which a pending receive holds no state of its own; that the "
        "implementation's futures have this shape is shown only by the correspondence run (real futures dropped "
        "at scripted suspension points); cancel-safety of the transport's own read future and Rust drop semantics "
        "are outside the model",
    ]
    ck.finish(rule="a case = (target, transport script, set of pending polls after which the receive future is "
                   "dropped); non-trivial = at least one future dropped")


if __name__ == "__main__":
    main()
