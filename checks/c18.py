#!/usr/bin/env python3
"""C18 — round-robin service: a flooding client cannot starve the others."""
import os, sys, json
sys.path.insert(0, os.path.join(os.path.dirname(os.path.abspath(__file__)), "..", "lib"))
from vlib import *
import servergen as sg

PID = "C18"


def gen_cases(ck):
    rng = ck.rng
    quick = ck.tier == "quick"
    cases = sg.load_corpus("c18.jsonl")

    def add(script, owner, tag, info):
        cases.append({"script": script, "hyp": [], "owner": owner, "tag": tag, "info": info})

    n_cases = 1800 if quick else 10000
    for i in range(n_cases):
        nconn = rng.randrange(2, 6)
        tags = sg.Tags()
        owner = {}
        transitions = rng.random() < 0.4
        roles = [rng.choice(["flood", "single", "single", "flood"]) for _ in range(nconn)]
        if "flood" not in roles:
            roles[rng.randrange(nconn)] = "flood"
        seqs, sseqs = [], []
        connects = [["n", c] for c in range(nconn)]
        for cid, role in enumerate(roles):
            seq = []

            def burst(k, kinds=("Echo", "Count", "Fail", "Ping")):
                fr = []
                for _ in range(k):
                    t = tags.next()
                    owner[t] = cid
                    fr.append(sg.call(rng.choice(kinds), cid, t, v=rng.randrange(0, 1000),
                                      oneway=rng.random() < 0.15))
                return ["a", cid, sg.wire(fr).hex()]
            if role == "flood":
                for _ in range(rng.randrange(1, 4)):
                    seq.append(burst(rng.randrange(3, 9)))
            else:
                for _ in range(rng.randrange(1, 3)):
                    seq.append(burst(1))
            if transitions:
                r = rng.random()
                if r < 0.15:
                    seq.append(["c", cid])
                elif r < 0.25:
                    seq.append(["fr", cid])
                elif r < 0.35:
                    seq.insert(0, sg.fw(cid, rng.randrange(0, 6), rng.choice(sg.IO_KINDS)))
                elif r < 0.55:
                    t = tags.next()
                    owner[t] = cid
                    seq.insert(rng.randrange(0, len(seq) + 1),
                               ["a", cid, sg.wire([sg.call("Sub", cid, t, more=rng.choice(sg.MORE))]).hex()])
                    sevs = [["si", cid, rng.randrange(0, 99), rng.randrange(0, 3)] for _ in range(rng.randrange(0, 3))]
                    sevs.append(["se", cid])
                    sseqs.append(sevs)
            seqs.append(seq)
        if rng.random() < 0.6:
            body = connects + sg.random_merge(rng, seqs + sseqs)      # everybody connected first
        else:
            body = sg.random_merge(rng, [[c] + s for c, s in zip(connects, seqs)] + sseqs)
        mask = rng.choice([0, 0, (1 << len(body)) - 1, rng.getrandbits(len(body)), rng.getrandbits(len(body))])
        if rng.random() < 0.5:
            mask |= (1 << nconn) - 1 if body[:nconn] == connects else 0
        add(sg.with_polls(body, mask), {str(k): v for k, v in owner.items()},
            "transitions" if transitions else "stable", {"roles": roles})
    return cases


def fairness_violation(c, r):
    """The property on the implementation's own trace: within one poll step, for every connection b
    that is in the call list with a complete call buffered/readable from the start of the step, the
    number of calls of other connections served before b's is bounded by n*(k+1) (k = transitions
    seen so far in the step, n = connections), and with k = 0 no other connection is served twice."""
    owner = {int(k): v for k, v in c["owner"].items()}
    script = c["script"]
    # calls (tags) that have arrived completely per connection, in order
    arrived = {}
    served = set()
    accepted, parked, gone = set(), set(), set()
    pi = 0
    known = set()
    for e in script:
        if e[0] == "n":
            known.add(e[1])
        if e[0] == "a" and e[1] in known:
            data = bytes.fromhex(e[2])
            for f in data.split(b"\0")[:-1]:
                try:
                    t = json.loads(f)["parameters"]["t"]
                except Exception:
                    continue
                arrived.setdefault(e[1], []).append(t)
        if e[0] != "p":
            continue
        tr = r["polls"][pi]["tr"]
        pi += 1
        waiting = {b: [t for t in ts if t not in served] for b, ts in arrived.items()
                   if b in accepted and b not in parked and b not in gone}
        waiting = {b: ts for b, ts in waiting.items() if ts}
        n = max(1, len(accepted - gone) + sum(1 for x in tr if x[0] == 1))
        k, others, seen_twice = 0, {b: 0 for b in waiting}, {b: False for b in waiting}
        count = {b: {} for b in waiting}
        done = set()
        for x in tr:
            if x[0] in (1, 5, 6, 7):
                k += 1
                if x[0] == 1:
                    accepted.add(x[1])
                if x[0] == 5:
                    gone.add(x[1])
                    done.add(x[1])
                if x[0] == 7:
                    parked.add(x[1])
                    done.add(x[1])
                if x[0] == 6:
                    parked.discard(x[1])
            if x[0] == 2:
                w = owner.get(x[1])
                served.add(x[1])
                for b in waiting:
                    if b in done:
                        continue
                    if w == b:
                        done.add(b)
                        continue
                    others[b] += 1
                    count[b][w] = count[b].get(w, 0) + 1
                    if k == 0 and count[b][w] >= 2:
                        return "connection %d served twice while connection %d had a call waiting (poll %d)" % (w, b, pi - 1)
                    if others[b] > n * (k + 1):
                        return "connection %d waited for %d other calls with %d connections and %d transitions (poll %d)" % (
                            b, others[b], n, k, pi - 1)
    return None


def main():
    ck = Check(PID)
    step, limit = sg.consts(ck)
    if getattr(ck, "proof_ok", True):
        ck.prove(["gen/Consts.v", "Server/ServerExec.v"], "props/C18.v")
    if ck.replay:
        rp = json.load(open(ck.replay))
        cases = [rp["case"]] if "case" in rp else []
    else:
        cases = gen_cases(ck)
    out = sg.run_cases(ck, cases, step, limit)
    n_viol = 0
    for c, r, code in out:
        msg = fairness_violation(c, r) if "owner" in c else None
        if msg and n_viol < 5:
            n_viol += 1
            ck.violation("round-robin service broken: " + msg,
                         {"case": c, "impl_trace": sg.pretty_trace(r), "script": sg.script_summary(c["script"]),
                          "service_order": [(t, c["owner"].get(str(t))) for t in sg.invocations(r)]},
                         tag="c%d" % c["id"])
    for c, r, code in out:
        if code and n_viol < 5:
            n_viol += 1
            sg.report_model_mismatch(ck, c, r, step, limit, " (service order satisfies the fairness bound)")
    sg.coverage(ck, cases, out, step, limit, {
        "connections_per_case": "2..5, at least one flooder (3..8 calls per burst), single-shot clients, "
                                "optional closures / read errors / write errors / stream transitions",
    })
    # ---- the real Server::run of zlink-tokio and zlink-smol over real Unix sockets, one thread,
    # client bytes written at fixed points of the service handler (lib/rsrv.py): the transports'
    # read/accept futures are dropped and re-created by the server loop on every turn
    import rsrv
    rsrv.run_rsrv(ck)
    ck.finish(rule=sg.RULE)


if __name__ == "__main__":
    main()
