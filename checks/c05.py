#!/usr/bin/env python3
"""C05 — call, reply and error envelopes follow the Varlink schema and round-trip."""
import os, sys, json
sys.path.insert(0, os.path.join(os.path.dirname(os.path.abspath(__file__)), "..", "lib"))
from vlib import *
import envgen as eg

PID = "C05"
SIG_RAW = "C05.reply_error_raw_identifier_field"
FLAGS = ("oneway", "more", "upgrade")


def pub(c):
    return {k: v for k, v in c.items() if k != "tree"}


def cf(c):
    """Short description of a case for messages."""
    if c["op"].startswith("build_"):
        return "%s %s(%s) then %s" % (c.get("m") or c.get("p"), c["ctor"], c["frame"], c["ops"])
    return c["frame"]


# ------------------------------------------------------------------------------------------------
# generation
def call_frames(rng, mname):
    """(tags, members) for one method type: tag x parameters x flags x extras."""
    _, variants = eg.MTYPES[mname]
    heads = []  # (class, [members of the method type])
    if variants is not None:
        for vn, fields in variants:
            if fields is None:
                for pcls, pv in (("absent", eg.ABSENT), ("null", None), ("empty_object", eg.O()),
                                 ("object", eg.O(("x", 1))), ("array", []), ("scalar", 0)):
                    heads.append(("unit_" + pcls, [("method", vn), ("parameters", pv)]))
            else:
                for kind in ("right", "wrong", "missing", "extra", "reordered", "dupfield"):
                    heads.append(("struct_" + kind, [("method", vn), ("parameters", eg.variant_params(rng, fields, kind))]))
                heads.append(("struct_noparams", [("method", vn)]))
                heads.append(("struct_null", [("method", vn), ("parameters", None)]))
                heads.append(("struct_array", [("method", vn), ("parameters", [1])]))
        heads.append(("unknown_method", [("method", "org.example.Nope"), ("parameters", eg.O())]))
        heads.append(("no_method", [("parameters", eg.O())]))
        heads.append(("method_not_a_name", [("method", 5)]))
        heads.append(("method_map_form", [("method", eg.O((variants[0][0], None)))]))
    elif mname == "meths":
        heads += [("struct_right", [("method", "a.B"), ("parameters", eg.O(("id", 1), ("name", "n")))]),
                  ("struct_noparams", [("method", "a.B")]), ("struct_null", [("method", "a.B"), ("parameters", None)]),
                  ("struct_wrong", [("method", "a.B"), ("parameters", eg.O(("id", "1"), ("name", "n")))]),
                  ("no_method", [("parameters", None)]), ("method_not_a_name", [("method", 1)])]
    elif mname == "methn":   # a method type whose own members are near misses of the flag names
        heads += [("near_own_members", [("method", "a.B"), ("More", True), ("ONEWAY", "no"), ("upgrade_", 7), ("mor", False)]),
                  ("near_own_members", [("method", "a.B"), ("More", False), ("mor", True)]),
                  ("near_own_members", [("method", "a.B")]),
                  ("near_own_wrong", [("method", "a.B"), ("More", "yes")]),
                  ("near_own_wrong", [("method", "a.B"), ("ONEWAY", True)])]
    else:  # serde_json::Value: everything that is not a flag passes through
        heads += [("value", [("method", "a.B"), ("parameters", eg.O(("k", [1, eg.Flt("2.5")])))]),
                  ("value", [("zeta", 1), ("alpha", eg.O(("b", 2), ("a", 1)))]), ("value", []),
                  ("value", [("method", None)])]
    out = []
    for hcls, head in heads:
        head = [m for m in head if m[1] is not eg.ABSENT]
        for mask in range(8):
            fl = [(FLAGS[i], True) for i in range(3) if mask >> i & 1]
            out.append(({"head": hcls, "flags": "set%d" % mask, "extra": 0}, head + fl))
        # flags written explicitly as false, mixed, or with a value that is not a boolean
        out.append(({"head": hcls, "flags": "all_false", "extra": 0}, head + [(f, False) for f in FLAGS]))
        out.append(({"head": hcls, "flags": "mixed", "extra": 0},
                    head + [("oneway", False), ("more", True)]))
        for bad in (None, 1, "true", eg.O()):
            out.append(({"head": hcls, "flags": "not_bool", "extra": 0}, head + [(rng.choice(FLAGS), bad)]))
        # unknown extra members
        out.append(({"head": hcls, "flags": "set2", "extra": 1}, head + [("more", True), ("x-unknown", eg.O(("oneway", True)))]))
        out.append(({"head": hcls, "flags": "set0", "extra": 2}, head + [("zz", [1]), ("aa", None)]))
        out.append(({"head": hcls, "flags": "set1", "extra": "escaped_key"}, head + [("oneway", True), ("q\"k", 1)]))
        # a member with the empty name (a legal JSON member name), before and after a flag
        out.append(({"head": hcls, "flags": "set1", "extra": "empty_key"}, [("", 0)] + head + [("oneway", True)]))
        out.append(({"head": hcls, "flags": "set2", "extra": "empty_key"}, head + [("more", True), ("", eg.O(("more", False)))]))
    # member names that are NOT flags (case variants, prefixes / suffixes, one character off, look-alikes):
    # they are ordinary members - unknown ones are passed to the method type, which ignores / keeps /
    # rejects them by its own rules - with boolean and non-boolean values, alone and next to the real flag
    own = {k for _, head in heads for k, _ in head}
    for hi, (hcls, head) in enumerate(heads):
        head = [m for m in head if m[1] is not eg.ABSENT]
        names = [n for n in eg.NEAR_FLAG_NAMES if n not in own or mname == "methn"]
        picks = [(n, v) for n in names for v in (True, "no")] if hi < 2 else \
                [(rng.choice(names), rng.choice([True, False, "no", 5, None])) for _ in range(6)]
        for n, v in picks:
            if any(k == n for k, _ in head):
                continue
            out.append(({"head": hcls, "flags": "set0", "extra": "near_flag_name"}, head + [(n, v)]))
        for n in rng.sample(names, 4):
            if any(k == n for k, _ in head):
                continue
            real = rng.choice(FLAGS)
            out.append(({"head": hcls, "flags": "near+real", "extra": "near_flag_name"},
                        head + [(n, rng.choice([True, False, "x"])), (real, True)]))
    return out


def error_frames(rng, ename):
    """(tags, members, spelling-group key | None) for the error enum and the standard errors."""
    out = []
    _, iface, variants = eg.ETYPES[ename]
    for cls, diface, decl in (("declared", iface, variants), ("standard", eg.VS[1], eg.VS[2])):
        for vn, fields in decl:
            name = "%s.%s" % (diface, vn)
            if fields is None:
                for extra in ([], [("x-unknown", 1)]):
                    gkey = (ename, name, len(extra))
                    for spell, pv in (("absent", eg.ABSENT), ("null", None), ("empty_object", eg.O())):
                        ms = [("error", name), ("parameters", pv)] + extra
                        out.append(({"error": cls + "_unit", "parameters": spell}, [m for m in ms if m[1] is not eg.ABSENT],
                                    (gkey, spell)))
                out.append(({"error": cls + "_unit", "parameters": "object"}, [("error", name), ("parameters", eg.O(("x", 1)))], None))
                out.append(({"error": cls + "_unit", "parameters": "scalar"}, [("error", name), ("parameters", 1)], None))
            else:
                for kind in ("right", "right", "wrong", "missing", "extra", "reordered", "dupfield"):
                    ms = [("error", name), ("parameters", eg.variant_params(rng, fields, kind))]
                    if rng.random() < 0.3:
                        ms.append(("continues", rng.choice([True, None])))
                    if rng.random() < 0.3:
                        ms.append(("x-unknown", eg.O(("error", "nested"))))
                    out.append(({"error": "%s_%s" % (cls, kind), "parameters": "for_variant"}, ms, None))
                out.append(({"error": cls + "_noparams", "parameters": "absent"}, [("error", name)], None))
    return out


def success_frames(rng, pname):
    out = []
    pvals = [("absent", eg.ABSENT), ("null", None)] + [("fits_P", v) for v in eg.P_GOOD[pname]] + \
            [("not_P", v) for v in eg.P_BAD[pname][:3]]
    for pcls, pv in pvals:
        for ccls, cv in (("absent", eg.ABSENT), ("true", True), ("false", False), ("null", None), ("bad", 1)):
            for extra in ([], [("x-unknown", [1])]):
                ms = [("parameters", pv), ("continues", cv)] + extra
                out.append(({"error": "no_error", "parameters": pcls, "continues": ccls},
                            [m for m in ms if m[1] is not eg.ABSENT], None))
    return out


def gen_cases(ck):
    rng = ck.rng
    quick = ck.tier == "quick"
    cases = []

    def add(op, tree, tags, frame=None, **kw):
        c = {"id": len(cases), "op": op, "tree": tree, "frame": frame or eg.jtext(tree), "tags": tags}
        c.update(kw)
        cases.append(c)
        return c

    ESC_MODES = ("one", "first", "all")

    def add_escaped(op, tree, tags, k, **kw):
        """The same object with its member names written with \\uXXXX escapes (names are decoded JSON
        strings: the spelling must not matter)."""
        mode = ESC_MODES[k % 3]
        return add(op, tree, dict(tags, names="escaped_" + mode),
                   frame=eg.jtext_esc(tree, rng, mode, top_only=(k % 2 == 1)), **kw)

    cdir = os.path.join(VERIF, "corpus")
    for fn in sorted(os.listdir(cdir)) if os.path.isdir(cdir) else []:
        if fn.startswith("c05") and fn.endswith(".jsonl"):
            for line in open(os.path.join(cdir, fn)):
                if line.strip():
                    c = json.loads(line)
                    kw = {k: c[k] for k in ("p", "e", "m", "meth") if k in c}
                    add(c["op"], eg.jparse(c["frame"]), {"class": "corpus"}, **kw)

    perm_cap = 24 if quick else 120
    rounds = 1 if quick else 6       # thorough: several rounds with freshly drawn field values
    # ---- calls
    for mname in [m for _ in range(rounds) for m in eg.MTYPES]:
        frames = call_frames(rng, mname)
        for k, (tags, ms) in enumerate(frames):
            ms = list(ms)
            if rng.random() < 0.5:
                rng.shuffle(ms)
            add("call", eg.Obj(ms), dict(tags, **{"class": "call"}), m=mname)
            # flags, `method`, `parameters` and the method's own members spelled with escapes
            if isinstance(tags["extra"], int):
                add_escaped("call", eg.Obj(ms), dict(tags, **{"class": "call_escaped_names"}), k, m=mname)
        # every order of the members
        small = [f for f in frames if 2 <= len(f[1]) <= 5 and f[0]["extra"] != "escaped_key"]
        rng.shuffle(small)
        for tags, ms in small[: (30 if quick else 80)]:
            for perm in eg.permutations_of(ms, rng, 120 if len(ms) <= 4 or not quick else perm_cap):
                add("call", eg.Obj(perm), dict(tags, **{"class": "call_permutation"}), m=mname)
        # duplicated members (flags: the last one wins; method / parameters: error)
        for tags, ms in small[: (10 if quick else 30)]:
            dv = eg.dup_variants(rng, ms)
            rng.shuffle(dv)
            for d in dv[: (12 if quick else 60)]:
                add("call", eg.Obj(d), dict(tags, **{"class": "call_duplicated"}), m=mname)
        for arr in ([], ["org.example.M.Ping", None], [None]):
            add("call", arr, {"class": "call_array"}, m=mname)
    # ---- errors (decoded directly, through receive_reply, and re-encoded)
    pnames = list(eg.PTYPES)
    for ename in [e for _ in range(rounds) for e in eg.ETYPES]:
        frames = error_frames(rng, ename)
        for tags, ms, grp in frames:
            pname = "unit" if grp else rng.choice(pnames)
            orders = [list(ms)] if len(ms) == 1 else eg.permutations_of(ms, rng, 12 if quick else 24)
            for perm in orders:
                c = add("reply", eg.Obj(perm), dict(tags, **{"class": "error"}), p=pname, e=ename)
                if grp:
                    c["spell"] = grp
            c = add_escaped("reply", eg.Obj(orders[-1]), dict(tags, **{"class": "error_escaped_names"}),
                            len(cases), p=pname, e=ename)
            if grp:
                c["spell"] = grp
            if ename == "raw":
                # the spelling the derive uses as of fe0c0b5 for un-renamed raw-identifier fields
                for perm in orders[:2]:
                    twin = eg.asis_names(eg.Obj(perm))
                    if twin != eg.Obj(perm):
                        add("reply", twin, dict(tags, **{"class": "error_raw_ident_names"}), p=pname, e=ename)
    # ---- success replies
    for pname in eg.PTYPES:
        for tags, ms, _ in success_frames(rng, pname):
            ename = rng.choice(list(eg.ETYPES))
            for perm in eg.permutations_of(ms, rng, 6 if quick else 24):
                add("reply", eg.Obj(perm), dict(tags, **{"class": "reply"}), p=pname, e=ename)
            if ms:
                add_escaped("reply", eg.Obj(ms), dict(tags, **{"class": "reply_escaped_names"}), len(cases),
                            p=pname, e=ename)
    # ---- proxy methods without output: the three spellings; with output for contrast
    for meth, (unit, ename, pname) in eg.PROXY.items():
        for extra in ([], [("continues", False)], [("x-unknown", 1)]):
            gkey = ("proxy", meth, eg.jtext(eg.Obj(extra)))
            for spell, pv in (("absent", eg.ABSENT), ("null", None), ("empty_object", eg.O())):
                ms = [m for m in [("parameters", pv)] + extra if m[1] is not eg.ABSENT]
                for perm in eg.permutations_of(ms, rng, 2):
                    c = add("proxy", eg.Obj(perm), {"class": "proxy", "parameters": spell}, meth=meth)
                    if unit:
                        c["spell"] = (gkey, spell)
                if ms:
                    c = add_escaped("proxy", eg.Obj(ms), {"class": "proxy_escaped_names", "parameters": spell},
                                    len(cases), meth=meth)
                    if unit:
                        c["spell"] = (gkey, spell)
        for v in eg.P_GOOD[pname][:3] + eg.P_BAD[pname][:2]:
            add("proxy", eg.O(("parameters", v)), {"class": "proxy", "parameters": "value"}, meth=meth)
        _, iface, variants = eg.ETYPES[ename]
        for vn, fields in variants:
            if fields is None:
                for pv in (eg.ABSENT, None, eg.O()):
                    ms = [m for m in [("error", "%s.%s" % (iface, vn)), ("parameters", pv)] if m[1] is not eg.ABSENT]
                    add("proxy", eg.Obj(ms), {"class": "proxy", "parameters": "error"}, meth=meth)
    return cases


BUILD_METHODS = {
    "meth": [eg.O(("method", "org.example.M.Ping")),
             eg.O(("method", "org.example.M.Get"), ("parameters", eg.O(("id", 4)))),
             eg.O(("method", "org.example.M.Put"), ("parameters", eg.O(("name", "q\"n"), ("value", -5), ("note", None))))],
    "methb": [eg.O(("method", "org.example.M.Put"), ("parameters", eg.O(("name", "x"), ("value", 7)))),
              eg.O(("method", "org.example.M.Ping"))],
    "meths": [eg.O(("method", "a.B"), ("parameters", eg.O(("id", 1), ("name", "n")))),
              eg.O(("method", "a.B"), ("parameters", None))],
    "value": [eg.O(("zeta", 1), ("alpha", eg.O(("b", 2), ("a", [1])))), eg.O(), 5],
    "methn": [eg.O(("method", "a.B"), ("More", True), ("ONEWAY", "no"), ("upgrade_", 7))],
    "vsmethod": [eg.O(("method", "org.varlink.service.GetInfo")),
                 eg.O(("method", "org.varlink.service.GetInterfaceDescription"), ("parameters", eg.O(("interface", "org.x"))))],
}
SETTER_OPS = [(f, b) for f in FLAGS for b in (True, False)]


def sequences(alphabet, maxlen):
    out = [[]]
    level = [[]]
    for _ in range(maxlen):
        level = [s + [a] for s in level for a in alphabet]
        out += level
    return out


def gen_build_cases(ck):
    """Calls and replies made with the public constructors (new, From, Into) and setters applied in
    every order: the wire image must depend on the logical value only."""
    import itertools
    rng = ck.rng
    quick = ck.tier == "quick"
    out = []

    def add(op, tree, ctor, ops, **kw):
        c = {"id": 1000000 + len(out), "op": op, "tree": tree, "frame": None if tree is eg.ABSENT else eg.jtext(tree),
             "ctor": ctor, "ops": [list(o) if isinstance(o, tuple) else o for o in ops],
             "tags": {"class": op}}
        c.update(kw)
        out.append(c)

    ctors = ("new", "from", "into")
    k = 0
    for mname, values in BUILD_METHODS.items():
        for vi, tree in enumerate(values):
            if (mname == "meth" and vi == 1) or not quick:
                seqs = sequences(SETTER_OPS, 3 if quick else 4)           # every sequence of setters
            else:
                # every order of the three setters x every choice of values, plus longer random ones
                seqs = [list(zip(perm, vals)) for perm in itertools.permutations(FLAGS)
                        for vals in itertools.product((True, False), repeat=3)]
                seqs += [[rng.choice(SETTER_OPS) for _ in range(rng.randrange(2, 6))] for _ in range(30)]
            for ops in seqs:
                add("build_call", tree, ctors[k % 3], ops, m=mname)
                k += 1
    rctors = ("new_some", "from", "into")
    for pname in eg.PTYPES:
        vals = eg.P_GOOD[pname][:2]
        for vi, v in enumerate(vals):
            for ci, ctor in enumerate(rctors):
                for ops in sequences((True, False, None), 3 if (ctor != "new_some" or not quick) else 2):
                    add("build_reply", v, ctor, ops, p=pname)
        for ops in sequences((True, False, None), 3):
            add("build_reply", eg.ABSENT, "new_none", ops, p=pname)
    return out


def last_flag(ops, f):
    v = False
    for g, b in ops:
        if g == f:
            v = b
    return v


def check_built(ck, bcases, bresults):
    """Python-level statement of the property for built values; returns counters."""
    n = n_bad = 0
    images = {}
    for c, r in zip(bcases, bresults):
        if r.get("panic") or r.get("crash"):
            ck.violation("building / sending a value panicked", {"case": pub(c), "impl": r}, tag="bpanic%d" % c["id"])
            continue
        if not r.get("built"):
            continue
        n += 1
        msg = None
        if c["op"] == "build_call":
            want = [last_flag(c["ops"], f) for f in FLAGS]
            logical = (c["m"], c["frame"], tuple(want))
            if r["get"] != want:
                msg = "after %s + setters %s the flags (oneway, more, upgrade) read %s, expected %s (each setter sets its own flag only)" % (
                    c["ctor"], c["ops"], r["get"], want)
            elif not r.get("same_meth"):
                msg = "the method of a built call is not the method it was made of"
            elif r.get("enc"):
                value = {"r": [r["meth"]] + [{"b": b} for b in want]}
                msg = check_call_encoding(value, r["enc"], c["tree"])
        else:
            want = c["ops"][-1] if c["ops"] else None
            logical = (c["p"], c["frame"], c["ctor"] == "new_none", want)
            got = r["continues"]["o"][0]["b"] if r["continues"]["o"] else None
            if got != want:
                msg = "after %s + set_continues %s continues() is %s, expected %s" % (c["ctor"], c["ops"], got, want)
            elif bool(r["params"]["o"]) != (c["ctor"] != "new_none"):
                msg = "parameters() of a built reply is not what it was made of"
            elif r.get("enc"):
                value = {"r": [r["params"], {"o": [] if want is None else [{"b": want}]}]}
                msg = check_reply_encoding(value, r["enc"])
        if msg is None and r.get("enc") is not None and r.get("wire") != r["enc"] + "\0":
            ck.violation("the connection writes something else than serde_json's encoding of a built value: %r" % (r.get("wire"),),
                         {"case": pub(c), "impl": r}, tag="bwire%d" % c["id"], no_input=True)
        if msg is None and r.get("enc") is not None:
            first = images.setdefault(logical, (r["enc"], c))
            if first[0] != r["enc"]:
                msg = "two ways of building the same logical value encode differently: %s (%s %s) vs %s (%s %s)" % (
                    first[0][:80], first[1]["ctor"], first[1]["ops"], r["enc"][:80], c["ctor"], c["ops"])
        if msg:
            n_bad += 1
            if n_bad <= 8:
                ck.violation("built %s: %s" % ("call" if c["op"] == "build_call" else "reply", msg),
                             {"case": pub(c), "impl": r}, tag="b%d" % c["id"])
    if n_bad > 8:
        ck.notes.append("%d built values violate the property (first 8 reported)" % n_bad)
    return n, len(images)


# ------------------------------------------------------------------------------------------------
# schema of the encodings (what the property says, checked on the encoded text)
def variant_table(shape_owner, idx):
    return shape_owner[idx]


def check_error_encoding(etable, value, enc_text):
    """value: canonical {"v": idx, "f": [...]}; etable: (coq, iface, variants)."""
    _, iface, variants = etable
    t = eg.jparse(enc_text)
    vn, fields = variants[value["v"]]
    if not isinstance(t, eg.Obj) or not t.ms or t.ms[0] != ("error", "%s.%s" % (iface, vn)):
        return "first member is not \"error\": \"%s.%s\"" % (iface, vn)
    if fields is None:
        if len(t.ms) != 1:
            return "a variant without fields is encoded with more than the `error` member"
        return None
    if len(t.ms) != 2 or t.ms[1][0] != "parameters" or not isinstance(t.ms[1][1], eg.Obj):
        return "a variant with fields is not encoded as {error, parameters: {...}}"
    if t.ms[1][1].keys() != [n for n, _ in fields]:
        return "the parameters object does not hold the fields under their wire names in order"
    return None


def check_reply_encoding(value, enc_text):
    """value: canonical {"r": [parameters option, continues option]}."""
    t = eg.jparse(enc_text)
    if not isinstance(t, eg.Obj):
        return "a reply is not encoded as an object"
    want = []
    if value["r"][0]["o"]:
        want.append("parameters")
    if value["r"][1]["o"]:
        want.append("continues")
    if t.keys() != want:
        return "a reply is encoded with members %r, expected %r (only what is present)" % (t.keys(), want)
    if "continues" in want and t.get("continues") is not value["r"][1]["o"][0]["b"]:
        return "the `continues` member does not hold the flag's value"
    return None


def check_call_encoding(value, enc_text, frame_tree):
    """value: canonical call {"r":[method, oneway, more, upgrade]}."""
    t = eg.jparse(enc_text)
    if not isinstance(t, eg.Obj):
        return "a call is not encoded as one object"
    flags = [value["r"][i + 1]["b"] for i in range(3)]
    want = [FLAGS[i] for i in range(3) if flags[i]]
    got = [k for k in t.keys() if k in FLAGS]
    if got != want:
        return "flag members in the encoding are %r, expected %r (only those that are set)" % (got, want)
    if any(t.get(k) is not True for k in want):
        return "a set flag is not encoded as true"
    tail = t.keys()[len(t.ms) - len(want):]
    if tail != want:
        return "the flags do not follow the method type's own members"
    return None


# ------------------------------------------------------------------------------------------------
def main():
    ck = Check(PID)
    eg.prove_with_decls(ck, ["Shapes/EnvExec.v"], "props/C05.v")

    if ck.replay:
        rp = json.load(open(ck.replay))
        cases = []
        bcases = []
        for c in ([rp["case"]] if "case" in rp else []) + rp.get("cases", []):
            c = dict(c)
            if c["op"].startswith("build_"):
                c["tree"] = eg.ABSENT if c["frame"] is None else eg.jparse(c["frame"])
                c["ops"] = [tuple(o) if isinstance(o, list) else o for o in c["ops"]]
                c["id"] = 1000000 + len(bcases)
                bcases.append(c)
                continue
            c["tree"] = eg.jparse(c["frame"])
            c["id"] = len(cases)
            if "spell" in c:
                c["spell"] = (json.dumps(c["spell"][0]), c["spell"][1])
            cases.append(c)
    else:
        cases = gen_cases(ck)
        bcases = gen_build_cases(ck)
        for c in bcases:
            c["ops"] = [tuple(o) if isinstance(o, list) else o for o in c["ops"]]

    ok, log = ck.harness_build(["envelope"])
    if not ok:
        ck.violation("harness does not build against /repo", {"log": log[-3000:]}, tag="build", no_input=True)
        ck.finish()
    results = eg.harness_results(ck, cases)
    bresults = eg.harness_results(ck, bcases)
    ck.ran_correspondence = True
    n_built, n_logical = check_built(ck, bcases, bresults)

    # ---- second pass: decode what was encoded (round trip on the implementation)
    second, origin = [], {}
    seen_rt = set()
    for c, r in zip(cases, results):
        if r.get("panic") or r.get("crash"):
            continue
        if c["op"] == "call" and r.get("dec") and r.get("enc"):
            key = ("call", c["m"], r["enc"])
            if key not in seen_rt:
                seen_rt.add(key)
                s = {"id": len(cases) + len(second), "op": "call", "m": c["m"], "frame": r["enc"],
                     "tree": eg.jparse(r["enc"]), "tags": {"class": "roundtrip"}}
                origin[s["id"]] = (c, r, "call")
                second.append(s)
        if c["op"] == "reply":
            for part, p, e in (("d_err", "unit", c["e"]), ("d_vs", "unit", c["e"]), ("d_rep", c["p"], c["e"])):
                if r.get(part):
                    key = (part, p, e, r[part]["enc"])
                    if key not in seen_rt:
                        seen_rt.add(key)
                        s = {"id": len(cases) + len(second), "op": "reply", "p": p, "e": e, "frame": r[part]["enc"],
                             "tree": eg.jparse(r[part]["enc"]), "tags": {"class": "roundtrip"}}
                        origin[s["id"]] = (c, r, part)
                        second.append(s)
    results2 = eg.harness_results(ck, second)
    n_rt = 0
    for s, r2 in zip(second, results2):
        c, r, part = origin[s["id"]]
        if part == "call":
            same = r2.get("dec") and r2["dec"]["v"] == r["dec"]["v"]
            wire_ok = r.get("wire") == r["enc"] + "\0"
            if not same:
                ck.violation("decode(encode(call)) differs from the call (%s): %s" % (c["m"], r["enc"][:120]),
                             {"case": pub(c), "impl": r, "encoded": r["enc"], "decoded_again": r2}, tag="rt%d" % c["id"])
            elif not wire_ok:
                ck.violation("send_call writes something else than serde_json's encoding of the call: %r" % (r.get("wire"),),
                             {"case": pub(c), "impl": r}, tag="wire%d" % c["id"], no_input=True)
        else:
            same = r2.get(part) and r2[part]["v"] == r[part]["v"]
            if not same:
                ck.violation("decode(encode(x)) differs from x for %s (%s, %s): %s"
                             % ({"d_err": "an error", "d_vs": "a standard error", "d_rep": "a reply"}[part], c["p"], c["e"],
                                r[part]["enc"][:120]),
                             {"case": pub(c), "impl": r, "encoded": r[part]["enc"], "decoded_again": r2}, tag="rt%d" % c["id"])
        n_rt += 1

    # ---- the deserializers that never lend member names (from_value, from_reader) must agree with from_str
    n_paths = 0
    for c, r in zip(cases, results):
        if c["op"] != "call" or not r.get("owned") or r.get("panic") or r.get("crash"):
            continue
        want = r.get("dec") and r["dec"]["v"]
        for part, name, applies in (("fr", "serde_json::from_reader", True),
                                    ("fv", "serde_json::from_value", eg.no_dups_deep(c["tree"]))):
            if not applies:
                continue
            n_paths += 1
            got = r.get(part) and r[part]["v"]
            if got != want:
                ck.violation("Call<%s> decoded through %s differs from serde_json::from_str: %s"
                             % (c["m"], name, c["frame"][:120]),
                             {"case": pub(c), "impl": r, "path": name}, tag="path%d" % c["id"])
                break

    # ---- schema of the encodings
    n_schema = 0
    for c, r in list(zip(cases, results)) + list(zip(second, results2)):
        if r.get("panic") or r.get("crash"):
            ck.violation("decoding an envelope panicked/crashed", {"case": pub(c), "impl": r}, tag="panic%d" % c["id"])
            continue
        msgs = []
        if c["op"] == "call" and r.get("dec") and r.get("enc"):
            msgs.append(check_call_encoding(r["dec"]["v"], r["enc"], c["tree"]))
            n_schema += 1
        if c["op"] == "reply":
            if r.get("d_err"):
                msgs.append(check_error_encoding(eg.ETYPES[c["e"]], r["d_err"]["v"], r["d_err"]["enc"]))
                n_schema += 1
            if r.get("d_vs"):
                msgs.append(check_error_encoding(eg.VS, r["d_vs"]["v"], r["d_vs"]["enc"]))
                n_schema += 1
            if r.get("d_rep"):
                msgs.append(check_reply_encoding(r["d_rep"]["v"], r["d_rep"]["enc"]))
                n_schema += 1
        for m in msgs:
            if m:
                # the un-rawed wire name of a raw-identifier field: open finding while the derive spells it r#name
                sig = SIG_RAW if (c.get("e") == "raw" and "wire names" in m and not eg.raw_ident_unrawed()[0]
                                  and any(k.startswith("r#") for k in (eg.jparse(r["d_err"]["enc"]).get("parameters") or eg.O()).keys())) \
                    else None
                ck.violation("encoding does not follow the schema: %s (%s)" % (m, c["frame"][:100]),
                             {"case": pub(c), "impl": r}, tag="schema%d" % c["id"], sig=sig)
                break
        if c["op"] == "reply" and r.get("d_err") and r["d_err"].get("wire") != r["d_err"]["enc"] + "\0":
            ck.violation("send_error writes something else than serde_json's encoding of the error: %r" % (r["d_err"].get("wire"),),
                         {"case": pub(c), "impl": r}, tag="ewire%d" % c["id"], no_input=True)

    # ---- groups: member order must not matter; the three spellings of "no parameters"
    def observable(c, r):
        if c["op"] == "call":
            return json.dumps([r.get("dec") and r["dec"]["v"], r.get("recv")], sort_keys=True)
        if c["op"] == "reply":
            return json.dumps([r["recv"].get("k"), r["recv"].get("v"), r["d_vs"] and r["d_vs"]["v"],
                               r["d_err"] and r["d_err"]["v"], r["d_rep"] and r["d_rep"]["v"]], sort_keys=True)
        return json.dumps(r["res"], sort_keys=True)

    groups = {}
    for c, r in zip(cases, results):
        if r.get("panic") or r.get("crash") or not eg.no_dups(c["tree"]):
            continue
        key = (c["op"], c.get("m"), c.get("p"), c.get("e"), c.get("meth"), eg.members_key(c["tree"]))
        groups.setdefault(key, []).append((c, r))
    n_perm_groups = 0
    for key, items in groups.items():
        if len(items) < 2:
            continue
        n_perm_groups += 1
        obs = {}
        for c, r in items:
            obs.setdefault(observable(c, r), []).append(c)
        if len(obs) > 1:
            cs = [v[0] for v in obs.values()][:2]
            ck.violation("the decoded result depends on the order of the members: %s vs %s" % (cs[0]["frame"][:90], cs[1]["frame"][:90]),
                         {"cases": [pub(x) for x in cs], "results": list(obs.keys())[:2]}, tag="order%d" % cs[0]["id"])

    spell = {}
    for c, r in zip(cases, results):
        if "spell" in c and not (r.get("panic") or r.get("crash")):
            spell.setdefault(json.dumps(c["spell"][0]) if not isinstance(c["spell"][0], str) else c["spell"][0], []).append((c, r))
    n_spell_groups = 0
    for key, items in spell.items():
        n_spell_groups += 1
        good, seen = True, set()
        for c, r in items:
            if c["op"] == "reply":
                okk = r["recv"]["k"] in ("merr", "vs") and (r["d_err"] or r["d_vs"])
            else:
                okk = r["res"]["k"] == "ok"
            seen.add(observable(c, r))
            if not okk:
                good = False
                ck.violation("a message without parameters is not recognised when `parameters` is %s: %s"
                             % (c["spell"][1], c["frame"][:120]), {"case": pub(c), "impl": r}, tag="spell%d" % c["id"])
                break
        if good and len(seen) > 1:
            ck.violation("the spellings of `no parameters` decode to different results: %s" % items[0][0]["frame"][:100],
                         {"cases": [pub(x) for x, _ in items[:3]]}, tag="spelldiff%d" % items[0][0]["id"])

    # ---- model and spec inside Coq
    allc = list(zip(cases, results)) + list(zip(second, results2))
    buckets = {"reply": [], "call": [], "proxy": []}
    for c, r in allc:
        if r.get("panic") or r.get("crash"):
            continue
        try:
            {"reply": eg.render_rcase, "call": eg.render_ccase, "proxy": eg.render_pcase}[c["op"]](c, r)
            buckets[c["op"]].append((c, r))
        except (ValueError, KeyError) as ex:
            ck.violation("unexpected harness outcome: %s" % ex, {"case": pub(c), "impl": r}, tag="odd%d" % c["id"], no_input=True)

    def evaluate(name, items, render, fn, show, what):
        if not items:
            return
        try:
            bad = ck.coq_eval(name, eg.HEADER, items, lambda it: render(it[0], it[1]), per_shard=400, fn=fn)
        except RuntimeError as e:
            ck.violation("model evaluation failed: " + str(e)[:300], {"log": str(e)}, tag="eval-" + name, no_input=True)
            return
        n_spec = n_model = 0
        n_known = [0]
        for idx in sorted(bad):
            c, r = items[idx]
            code = bad[idx] & ~64        # 64 = non-object reply frame not a decode error: C04's business
            if not code:
                continue
            spec = code & (2 | 4)
            sig = SIG_RAW if (spec and c.get("e") == "raw" and not code & (1 | 16 | 32)
                              and not eg.raw_ident_unrawed()[0]) else None
            if sig and any(fd.get("signature") == sig and fd.get("status") == "open" for fd in ck.findings):
                n_known[0] += 1
                if n_known[0] <= 2:
                    ck.violation("%s differs from what the property prescribes: %s" % (what, cf(c)[:140]),
                                 {"case": pub(c), "impl": r, "code": code}, tag="k%d" % c["id"], sig=sig)
                continue
            if (spec and n_spec >= 5) or (not spec and n_model >= 5):
                continue
            model = ck.coq_show(eg.HEADER, "%s (%s)" % (show, render(c, r)))
            if spec:
                n_spec += 1
                ck.violation("%s differs from what the property prescribes: %s" % (what, cf(c)[:140]),
                             {"case": pub(c), "impl": r, "model_spec": model, "code": code}, tag="s%d" % c["id"], sig=sig)
            else:
                n_model += 1
                names = {1: "decoding differs from the model", 8: "the connection-level receive differs from serde_json::from_str",
                         16: "a directly decoded alternative differs from the model", 32: "an encoding differs from the model"}
                ck.violation("; ".join(v for k, v in names.items() if code & k) + ": " + cf(c)[:140],
                             {"case": pub(c), "impl": r, "model_spec": model, "code": code,
                              "correspondence": "Shapes/Envelope.v vs serde_json::{from_str,to_string} of Call/Reply/error enums"},
                             tag="m%d" % c["id"], no_input=True)

    evaluate("reply", buckets["reply"], eg.render_rcase, "check_reply", "show_reply", "the classification of a reply")
    evaluate("call", buckets["call"], eg.render_ccase, "check_call", "show_call", "the decoded call")
    evaluate("proxy", buckets["proxy"], eg.render_pcase, "check_proxy", "show_proxy", "the result of a proxy method")

    bb = {"build_call": [], "build_reply": []}
    for c, r in zip(bcases, bresults):
        if not (r.get("panic") or r.get("crash")):
            bb[c["op"]].append((c, r))
    evaluate("build_call", bb["build_call"], eg.render_bccase, "check_build_call", "show_build_call",
             "a call made with the constructors and setters")
    evaluate("build_reply", bb["build_reply"], eg.render_brcase, "check_build_reply", "show_build_reply",
             "a reply made with the constructors and set_continues")

    # ---- coverage
    hist, nontriv = {}, set()
    for c, r in allc:
        cls = c["tags"].get("class", "?")
        hist[cls] = hist.get(cls, 0) + 1
        if isinstance(c["tree"], eg.Obj) and len(c["tree"].ms) >= 2:
            nontriv.add(case_hash([c["op"], c.get("p"), c.get("e"), c.get("m"), c.get("meth"), c["frame"]]))
    flagsets = {}
    for c, r in zip(cases, results):
        if c["op"] == "call" and r.get("dec"):
            fs = "".join("1" if r["dec"]["v"]["r"][i + 1]["b"] else "0" for i in range(3))
            flagsets[fs] = flagsets.get(fs, 0) + 1
    ck.cov.update({
        "evaluations": len(allc) + len(bcases), "distinct_nontrivial": len(nontriv),
        "traces_validated_against_impl": sum(len(v) for v in buckets.values()),
        "case_classes": hist, "decoded_calls_by_flag_set(oneway,more,upgrade)": flagsets,
        "round_trips_checked": n_rt, "encodings_checked_against_schema": n_schema,
        "built_values(constructor x setter order)": n_built, "distinct_logical_values_built": n_logical,
        "build_cases": {"build_call": len(bb["build_call"]), "build_reply": len(bb["build_reply"])},
        "from_value_and_from_reader_decodes_compared_with_from_str": n_paths,
        "frames_with_escaped_member_names": sum(1 for c, _ in allc if "names" in c["tags"]),
        "permutation_groups": n_perm_groups, "no_parameters_spelling_groups": n_spell_groups,
        "reply_error_derive_unraws_field_names": list(eg.raw_ident_unrawed()),
        "near_flag_name_frames": sum(1 for c, _ in allc if c["tags"].get("extra") == "near_flag_name"),
        "method_types": sorted(eg.MTYPES), "error_types": sorted(eg.ETYPES) + ["varlink_service::Error"],
        "parameter_types": sorted(eg.PTYPES), "proxy_methods": sorted(eg.PROXY),
    })
    for c, r in (allc[:2] + allc[len(allc) // 3: len(allc) // 3 + 2] + allc[-2:]):
        ck.samples.append({"op": c["op"], "types": [c.get("m"), c.get("p"), c.get("e"), c.get("meth")],
                           "frame": c["frame"][:160]})
    ck.assumptions += [
        "serde / serde_derive / serde_json behaviour is modelled by Shapes/Shapes.v (decoder, encoder) and tied only by "
        "this correspondence run on the compiled corpus of method, parameter and error types",
        "the Rust types of harness/src/bin/envelope.rs correspond to the shapes of the same name in Shapes/Corpus.v",
        "frames are valid JSON texts with minimal string escapes (non-minimal escapes such as \\u0041 are not generated; "
        "they matter only for borrowed &str targets, which is serde_json's documented behaviour)",
    ]
    ck.finish(rule="a case = (operation, types, frame text); distinct by hash of those; non-trivial = an object frame "
                   "with at least two members")


if __name__ == "__main__":
    main()
