#!/usr/bin/env python3
"""C14 — rendering an interface description and parsing it back is the identity."""
import os, sys, json
sys.path.insert(0, os.path.join(os.path.dirname(os.path.abspath(__file__)), "..", "lib"))
from vlib import *
import idlgen as g

PID = "C14"
HEADER = ("From Coq Require Import List NArith.\nImport ListNotations.\n"
          "From ZV Require Import Common.Exec Idl.Idl Idl.IdlParse Idl.IdlExec Idl.IdlNormal Idl.IdlDesc Idl.IdlDescExec.\n"
          "Open Scope N_scope.\nSet Printing Width 1000000.\n")
CLASS = {"ok": 0, "err": 1, "panic": 2}
SIG = "C14.commented_enum_variant"


def gen_cases(ck):
    rng = ck.rng
    quick = ck.tier == "quick"
    cases = []

    def add(tree, tag):
        wire = g.to_wire(tree)
        # the exchange goes through a real Connection whose buffer limit under cfg(zlink_verif) is 4096 bytes
        socket = rng.random() < 0.5 and len(g.canonical_text(tree)) < 1200
        cases.append({"id": len(cases), "op": "build", "tree": wire, "tag": tag, "socket": socket})

    corpus = os.path.join(VERIF, "corpus", "c14.jsonl")
    if os.path.exists(corpus):
        for line in open(corpus):
            if line.strip():
                add(g.from_wire(json.loads(line)["tree"]), "corpus")
    for i in range(700 if quick else 12000):
        add(g.gen_build_tree(rng, "wf_nocommentedenum"), "wf")
    for i in range(200 if quick else 3000):
        add(g.gen_build_tree(rng, "wf"), "wf_enumcomments")
    for i in range(250 if quick else 4000):
        add(g.gen_build_tree(rng, "wild"), "wild")
    for i in range(300 if quick else 5000):
        add(g.one_fault_tree(rng), "one_fault")
    # comments shaped as the derive macros produce them (leading blank, empty)
    for i in range(300 if quick else 5000):
        add(g.derive_shaped(rng, g.gen_build_tree(rng, "wf_nocommentedenum")), "derive_shaped")
    # one member of each kind around every type shape up to depth 3
    import c13 as c13mod
    for t in c13mod.small_types(2 if quick else 3):
        f = {"name": b"x", "ty": t, "comments": [b"c"]}
        add({"name": b"a.b", "comments": [], "types": [{"k": "obj", "name": b"T", "fields": [f], "comments": []}],
             "methods": [{"name": b"M", "inputs": [f], "outputs": [f, f], "comments": []}],
             "errors": [{"name": b"E", "fields": [f], "comments": []}]}, "types")
    return cases


def parser_made_cases(ck, cases):
    """Descriptions produced by the parser itself: lay generated descriptions out, parse them with
    the real parser and use the trees it built as further inputs."""
    rng = ck.rng
    texts = []
    for i in range(120 if ck.tier == "quick" else 1500):
        src = g.gen_interface(rng, pc=0.4, enum_variant_comments=0.0)
        texts.append({"id": i, "op": "parse", "text": g.text_of(g.Layout(rng, "legal").interface(src)).hex()})
    res = ck.harness_run("idl", texts)
    for r in res:
        if r.get("class") == "ok":
            cases.append({"id": len(cases), "op": "build", "tree": r["tree"], "tag": "parser_made",
                          "socket": rng.random() < 0.3 and len(r["display"]) < 2400})


def opt_tree(rep):
    return g.from_wire(rep["tree"]) if rep.get("class") == "ok" else None


def render_case(c, r):
    p, d, s = r["parse"], r["desc"], r.get("socket")
    pt = opt_tree(p)
    return "(mkD (mkB %s %s %d %s %s %s %d %s %d %s) %s)" % (
        g.cq_interface(g.from_wire(c["tree"])), g.cq_bytes(bytes.fromhex(r["display"])),
        CLASS.get(p["class"], 7), g.cq_opt_interface(pt),
        g.cq_bytes(bytes.fromhex(p["display"])) if pt is not None else "[]",
        "true" if (pt is not None and all(p["lib_eq"])) else "false",
        CLASS.get(d["class"], 5), g.cq_opt_interface(opt_tree(d)),
        9 if s is None else CLASS.get(s["class"], 6), g.cq_opt_interface(opt_tree(s) if s else None),
        g.cq_bytes(bytes.fromhex(r.get("desc_json", ""))))


def main():
    ck = Check(PID)
    rc, out = sh([sys.executable, os.path.join(VERIF, "translate", "idl_keywords.py")])
    if rc != 0:
        ck.proof_ok, ck.broken, ck.proof_log = False, "translator idl_keywords.py: " + out.strip()[-300:], out
    else:
        ck.samples.append("translated: " + out.strip())
        rc2, out2 = sh([sys.executable, os.path.join(VERIF, "translate", "escape.py")])
        if rc2 != 0:
            ck.proof_ok, ck.broken, ck.proof_log = False, "translator escape.py: " + out2.strip()[-300:], out2
        else:
            ck.samples.append("translated: " + out2.strip()[:200])
            ck.prove(["gen/IdlKeywords.v", "gen/Escape.v", "Idl/IdlDescExec.v"], "props/C14.v")

    ok, log = ck.harness_build(["idl"])
    if not ok:
        ck.violation("harness does not build against /repo", {"log": log[-3000:]}, tag="build", no_input=True)
        ck.finish()
    if ck.replay:
        rp = json.load(open(ck.replay))
        cases = [rp["case"]] if "case" in rp else []
        for i, c in enumerate(cases):
            c["id"] = i
    else:
        cases = gen_cases(ck)
        parser_made_cases(ck, cases)
    results = ck.harness_run("idl", cases)
    ck.ran_correspondence = True
    items = []
    shown_flags = 0
    for c, r in zip(cases, results):
        if r.get("crash") or "display" not in r:
            ck.violation("harness crashed/panicked while building or rendering a description",
                         {"case": c, "impl": r}, tag="crash%d" % c["id"], no_input=not r.get("class"))
            continue
        # owned and borrowed forms are the same description
        flags = [k for k in ("display_borrowed_same", "eq_owned_borrowed", "dump_owned_same",
                             "dump_borrowed_same", "desc_ser_same") if not r.get(k)]
        if r["desc"].get("raw_same") is False:
            flags.append("desc.raw_same")
        if r.get("socket") and r["socket"].get("raw") not in (None, r["display"]):
            flags.append("socket.raw_same")
        if flags and shown_flags < 3:
            shown_flags += 1
            ck.violation("borrowed/owned forms or the serialised description disagree: %s" % ",".join(flags),
                         {"case": c, "impl": r}, tag="f%d" % c["id"])
        items.append((c, r))
    try:
        bad = ck.coq_eval("cases", HEADER, items, lambda it: render_case(it[0], it[1]), per_shard=80, fn="dcheck")
    except RuntimeError as e:
        ck.violation("model evaluation failed: " + str(e)[:300], {"log": str(e)}, tag="eval", no_input=True)
        bad = {}
    groups = {}
    for idx, code in bad.items():
        c, r = items[idx]
        key = (code, c["tag"], r["parse"]["class"])
        cur = groups.get(key)
        size = len(json.dumps(c["tree"]))
        if cur is None or size < cur[2]:
            groups[key] = (idx, code, size)
    n_known = sum(1 for code in bad.values() if code & 64)
    shown = 0
    for key in sorted(groups, key=lambda k: (0 if groups[k][1] & 2 else 1, groups[k][2])):
        idx, code, _ = groups[key]
        c, r = items[idx]
        text = bytes.fromhex(r["display"]).decode("utf-8", "replace")
        replay = {"case": c, "impl": r, "code": code, "rendered": text}
        if code & 64 and not code & 3:
            ck.violation("parse(render x) fails for an enum with a commented variant: %r" % text[:160],
                         replay, tag="k%d" % c["id"], sig=SIG)
            continue
        if shown >= 12:
            continue
        shown += 1
        replay["model_view(render,parse class,description class,wf_nl,wf,known,normalise=id)"] = ck.coq_show(HEADER, "dmodel_view %s" % render_case(c, r))
        if code & 2:
            ck.violation("round trip violated: rendering %r, parse class %s, description path %s" % (
                text[:120], r["parse"]["class"], r["desc"]["class"]), replay, tag="c%d" % c["id"])
        else:
            ck.violation("implementation differs from the model (Idl.v render / IdlParse.v) on the description "
                         "rendered as %r" % text[:120],
                         dict(replay, correspondence="Idl/Idl.v render vs Display; Idl/IdlParse.v vs Interface::try_from"),
                         tag="m%d" % c["id"], no_input=True)
    hist, pcls = {}, {}
    hashes, nontriv = set(), set()
    sockets = 0
    for c, r in items:
        hist[c["tag"]] = hist.get(c["tag"], 0) + 1
        k = c["tag"] + ":" + r["parse"]["class"]
        pcls[k] = pcls.get(k, 0) + 1
        h = case_hash(c["tree"])
        hashes.add(h)
        t = c["tree"]
        if len(t["types"]) + len(t["methods"]) + len(t["errors"]) >= 1:
            nontriv.add(h)
        sockets += 1 if r.get("socket") else 0
    ck.cov.update({
        "evaluations": len(items), "distinct_nontrivial": len(nontriv), "distinct_trees": len(hashes),
        "case_classes": hist, "parse_of_rendering_by_class": pcls, "socket_exchanges": sockets,
        "known_class_cases_failing": n_known,
        "model_deviations": sum(1 for code in bad.values() if code & 1),
        "spec_deviations": sum(1 for code in bad.values() if code & 2),
    })
    for c, r in items[:2] + items[len(items) // 2: len(items) // 2 + 2]:
        ck.samples.append({"rendered": bytes.fromhex(r["display"]).decode("utf-8", "replace")[:240], "tag": c["tag"],
                           "parse": r["parse"]["class"]})
    ck.assumptions += [
        "render (Idl/Idl.v) is a hand transcription of the Display impls; its tie is byte equality with "
        "to_string() of values built through the public constructors (owned and borrowed forms) on every case",
        "the JSON string printer is C03's reference encoding (Ser/SerdeModel.v ref_string, proved equal to "
        "json_ser.rs's output there); here it is additionally compared byte for byte with "
        "serde_json::to_string of the InterfaceDescription on every case; the JSON string reader is a hand "
        "transcription of serde_json's parse_str/parse_escape, tied by the deserialize -> parse results",
        "descriptions produced by the derive macros are not part of this check's inputs (C16's corpus)",
    ]
    ck.finish(rule="a case = one description tree built through the constructors; distinct by hash of the tree; "
                   "non-trivial = at least one member")


if __name__ == "__main__":
    main()
