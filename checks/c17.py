#!/usr/bin/env python3
"""C17 — buffers are bounded: oversized traffic is refused, smaller traffic accepted."""
import os, sys, json
sys.path.insert(0, os.path.join(os.path.dirname(os.path.abspath(__file__)), "..", "lib"))
from vlib import *
import framegen as fg
from rconn import *
from wconn import *

PID = "C17"


def gen_in(ck, limit, step):
    """Inbound: frames of every size around each growth step and around the limit, unterminated
    streams, several chunkings."""
    rng = ck.rng
    cases = []
    quick = ck.tier == "quick"

    def add(target, frames, events, n, inhyp, tag, expect=None):
        cases.append({"id": len(cases), "target": target, "events": events, "n": n,
                      "frames": [f.hex() for f in frames], "inhyp": inhyp, "kinds": [], "tag": tag,
                      "expect_class": expect})
    sizes = set()
    K = limit // step
    for m in (range(1, K + 3) if not quick else [1, 2, 3, K // 2, K - 1, K, K + 1]):
        for d in (-2, -1, 0, 1, 2):
            sizes.add(m * step + d)
    if not quick:
        sizes |= set(range(limit - 40, limit + 40))
        sizes |= set(rng.randrange(1, limit + 2 * step) for _ in range(600))
    else:
        sizes |= set(rng.randrange(1, limit + 2 * step) for _ in range(25))
    base = len(b'{"parameters":{"id":7,"note":""}}')
    for total in sorted(sizes):
        # total = wire size of the frame including its terminator
        flen = total - 1
        if flen < base:
            continue
        target = rng.choice(["reply_typed", "reply_value"])
        f = b'{"parameters":{"id":7,"note":"' + b"x" * (flen - base) + b'"}}'
        assert len(f) == flen
        stream = f + b"\0"
        accept = total < limit
        chunkings = [[], [step - 1, 2 * step + 1], [len(stream) - 1], fg.random_cuts(rng, len(stream), 5)]
        if quick and abs(total - limit) > 2:
            chunkings = [rng.choice(chunkings[:3]), chunkings[3]]
        if not quick:
            chunkings.append(list(range(step, len(stream), step)))
            chunkings.append(fg.random_cuts(rng, len(stream), 40))
        for cuts in chunkings:
            ev = fg.events_of(rng, fg.chunks_from_cuts(stream, cuts), pend_prob=0.15)
            # in-hypothesis when accepted (C01/C17_inbound_accepts) or when the first `limit`
            # bytes carry no terminator (C17_inbound_overflow); total == limit is model-only
            inh = accept or flen >= limit
            add(target, [f], ev, 2, accept, "frame_size_sweep", "accept" if accept else ("overflow" if inh else None))
    # unterminated streams: must overflow at the limit, never grow beyond it
    for i in range(10 if quick else 100):
        n = limit + rng.randrange(0, 3 * step)
        stream = bytes(rng.randrange(1, 256) for _ in range(n))
        ev = fg.events_of(rng, fg.chunks_from_cuts(stream, fg.random_cuts(rng, n, rng.randrange(0, 30))), 0.2, eof=False)
        ev.append(["e"])
        add("call_value", [], ev, 2, False, "unterminated", "overflow")
    # small frames followed by an oversized one
    for i in range(10 if quick else 100):
        target = "reply_typed"
        a = b'{"parameters":{"id":1}}'
        b = b'{"parameters":{"id":7,"note":"' + b"y" * (limit + rng.randrange(0, 300)) + b'"}}'
        stream = a + b"\0"
        ev = [["d", stream.hex()]] + fg.events_of(rng, fg.chunks_from_cuts(b + b"\0", fg.random_cuts(rng, len(b), 6)), 0.2)
        add(target, [a, b], ev, 3, False, "small_then_oversized", None)
    return cases


def gen_out(ck, limit, step):
    rng = ck.rng
    cases = []
    quick = ck.tier == "quick"

    def add(ops, tag):
        cases.append({"id": len(cases), "ops": ops, "wscript": [], "tag": tag})
    base = 60
    sizes = set()
    for d in (range(-70, 12) if not quick else range(-12, 6)):
        sizes.add(limit - base + d)
    K = limit // step
    for m in (range(1, K + 1) if not quick else [1, 2, K - 1, K]):
        for d in (-2, -1, 0, 1, 2):
            sizes.add(max(0, m * step - base + d))
    if not quick:
        sizes |= set(range(limit - 200, limit + 40))
    for sz in sorted(sizes):
        kind = rng.choice(["call", "reply", "error"])
        add([["send", {"kind": kind, "size": sz, "seed": 3, "plain": True}],
             ["send", {"kind": "ping", "size": 0, "seed": 0}]], "single_near_boundary")
    # enqueue several so that the position is non-zero when the oversized one comes
    for i in range(24 if quick else 600):
        first = rng.randrange(0, limit - 100)
        second = rng.randrange(max(0, limit - first - 200), limit - first + 60)
        add([["enq", {"kind": "call", "size": first, "seed": 1, "plain": True}],
             ["enq", {"kind": "call", "size": max(0, second), "seed": 2, "plain": True}],
             ["enq", {"kind": "ping"}], ["flush"]], "refused_after_enqueued")
    # ... and a SEND (not an enqueue) that does not fit behind what is queued: refused, nothing written,
    # the queue stays as it was and goes out with the next flush
    for i in range(24 if quick else 600):
        first = rng.randrange(0, limit - 100)
        second = rng.randrange(max(0, limit - first - 200), limit - first + 60)
        kind = rng.choice(["call", "reply", "error"])
        add([["enq", {"kind": "call", "size": first, "seed": 1, "plain": True}],
             ["send", {"kind": kind, "size": max(0, second), "seed": 2, "plain": True}],
             ["flush"], ["send", {"kind": "ping"}]], "send_refused_behind_queue")
    # a message queued behind another one, ending at every offset relative to the buffer end
    # (exact multiples of the step, one less, one more: "whatever its size relative to the step")
    for sz in range(120, 120 + step + 8):
        add([["enq", {"kind": "call", "size": 30, "seed": 4, "plain": True}],
             ["enq", {"kind": "call", "size": sz, "seed": 8, "plain": True}], ["flush"]], "queued_exact_fit_sweep")
    for i in range(10 if quick else 100):
        add([["send", {"kind": "badreply", "size": limit - rng.randrange(0, 400), "seed": 5, "plain": True}],
             ["send", {"kind": "busy"}]], "badkey_near_limit")
        # a message whose last member is a float, ending at / next to the limit
        add([["send", {"kind": "fcall", "size": limit - rng.randrange(40, 110), "seed": rng.randrange(0, 8), "plain": True}],
             ["send", {"kind": "busy"}]], "float_near_limit")
        add([["enq", {"kind": "call", "size": limit - rng.randrange(150, 400), "seed": 4, "plain": True}],
             ["enq", {"kind": "fcall", "size": rng.randrange(0, 60), "seed": rng.randrange(0, 8), "plain": True}],
             ["flush"]], "float_near_limit")
        add([["send", {"kind": "failcall", "size": rng.choice([0, 3, 200, limit - rng.randrange(60, 400)]), "seed": rng.randrange(0, 8),
                       "plain": True}],
             ["send", {"kind": "busy"}]], "refusing_value")
    return cases


def main():
    ck = Check(PID)
    step, limit, prod = constants(ck)
    if getattr(ck, "proof_ok", True):
        ck.prove(["gen/Consts.v", "Framing/ReadConnExec.v", "Framing/WriteConnExec.v"], "props/C17.v")
    if ck.replay:
        rp = json.load(open(ck.replay))
        cin = [rp["case"]] if rp.get("side") == "in" else []
        cout = [rp["case"]] if rp.get("side") == "out" else []
        for i, c in enumerate(cin + cout):
            c["id"] = i
    else:
        cin, cout = gen_in(ck, limit, step), gen_out(ck, limit, step)
    # ---- inbound
    ok, log = ck.harness_build(["conn", "wconn"])
    if not ok:
        ck.violation("harness does not build against /repo", {"log": log[-3000:]}, tag="build", no_input=True)
        ck.finish()
    results = ck.harness_run("conn", cin)
    ck.ran_correspondence = True
    codes = code_table(results)
    items = []
    peak = 0
    for c, r in zip(cin, results):
        if r.get("panic") or r.get("crash"):
            ck.violation("receive panicked/crashed on an oversized stream", {"side": "in", "case": c, "impl": r},
                         tag="panic%d" % c["id"])
            continue
        items.append((c, r))
        for op in r["ops"]:
            peak = max(peak, op["st"][0])
        # spec of C17 directly on the implementation's results
        first = r["ops"][0]["res"] if r["ops"] else None
        if c["expect_class"] == "accept" and not (first or "").startswith(("ok:", "merr:", "vs:", "err:json")):
            ck.violation("a frame of wire size %d < limit %d was not accepted (%s)" % (
                len(bytes.fromhex(c["frames"][0])) + 1, limit, first), {"side": "in", "case": c, "impl": r},
                tag="in_acc%d" % c["id"])
        if c["expect_class"] == "overflow" and first != "err:overflow":
            ck.violation("%d bytes without terminator did not yield BufferOverflow (%s)" % (limit, first),
                         {"side": "in", "case": c, "impl": r}, tag="in_over%d" % c["id"])
    if peak > limit:
        ck.violation("read buffer grew to %d > limit %d" % (peak, limit), {"side": "in", "peak": peak}, tag="peak")
    try:
        bad = ck.coq_eval("cases", HEADER, items, lambda it: render_case(it[0], it[1], codes, step, limit), per_shard=6)
    except RuntimeError as e:
        ck.violation("model evaluation failed: " + str(e)[:300], {"log": str(e)}, tag="eval", no_input=True)
        bad = {}
    for idx in sorted(bad)[:4]:
        c, r = items[idx]
        term = render_case(c, r, codes, step, limit)
        model = ck.coq_show(HEADER, "(model_trace (%s))" % term)
        ck.violation("inbound: implementation differs from the ReadConnection model near the limit (class %s)" % c["tag"],
                     {"side": "in", "case": {k: v for k, v in c.items() if k != "events"} | {"events": c["events"]},
                      "impl": r, "model": model, "correspondence": "Framing/ReadConn.v vs receive_* with limit %d" % limit},
                     tag="in_m%d" % c["id"], no_input=not (bad[idx] & 2))
    # ---- outbound
    def describe(c):
        return [[o[0]] + ([o[1]["kind"], o[1].get("size")] if len(o) > 1 else []) for o in c["ops"]]
    for c in cout:
        c["id"] = 100000 + c["id"]
    witems, wres = run_wcases(ck, cout, step, limit, describe, per_shard=5)
    wpeak = 0
    over = 0
    for c, r in witems:
        for o in r["ops"]:
            wpeak = max(wpeak, o["st"][0])
            over += o["res"] == "err:overflow"
    if wpeak > limit:
        ck.violation("write buffer grew to %d > limit %d" % (wpeak, limit), {"side": "out", "peak": wpeak}, tag="wpeak")
    # ---- production limit (no hook cfg): spec-level run of the inbound theorems' conclusions
    prod_cases, prod_bad, prod_fill_runs = [], 0, 0
    if not ck.replay:
        root = harness_root()
        rc_, log_ = sh("cargo build --offline --bin biglimit --target-dir %s" % os.path.join(root, "target-nohook"),
                       timeout=1500, cwd=root, env={"RUSTFLAGS": ""})
        if rc_ != 0:
            ck.violation("production-limit harness does not build against /repo", {"log": log_[-3000:]}, tag="pbuild",
                         no_input=True)
        else:
            L = prod
            for i, ch in enumerate([1 << 20, 65536, 256, 100003]):
                prod_cases.append({"id": i, "kind": "unterminated", "size": L + 3 * step, "chunk": ch, "expect": "over"})
            for d in (-step - 1, -2, -1, 0, 1, 2, step):
                prod_cases.append({"id": len(prod_cases), "kind": "frame", "size": L + d, "chunk": ck.rng.choice([65536, 1 << 20, 70001]),
                                   "expect": "ok" if d < 0 else "over"})
            # outbound with the production limit, history-dependent: a first send that grows the write
            # buffer to tens or hundreds of kilobytes (then flushed), then the queue is filled to the limit
            fills = []
            firsts = [0, 65601] if ck.tier == "quick" else [0, 65601, 70000, 131400, 3 * 65536 + 77, 1 << 20]
            for f_ in firsts:
                fills.append({"id": 1000 + len(fills), "kind": "fill", "limit": L, "first": f_,
                              "fill": ck.rng.choice([1000, 3000, 5000, 10000]), "small": ck.rng.randrange(0, 60)})
            exe_ = os.path.join(root, "target-nohook", "debug", "biglimit")
            from concurrent.futures import ThreadPoolExecutor

            def run1(cs):
                return sh(exe_, timeout=900, input="\n".join(json.dumps(c) for c in cs) + "\n")[1]
            groups = [prod_cases] + [[f_] for f_ in fills]
            with ThreadPoolExecutor(max_workers=4) as ex:
                outs = list(ex.map(run1, groups))
            res = {}
            for out_ in outs:
                for l in out_.splitlines():
                    if l.startswith("{"):
                        r = json.loads(l)
                        res[r["id"]] = r
            for c in fills:
                r = res.get(c["id"], {"crash": True})
                rf = r.get("refusal") or {}
                okay = (r.get("res") == "ok" and not r.get("refused_early") and r.get("max_queued", L + 1) <= L
                        and rf.get("err") == "err:overflow" and rf.get("queued", 0) + rf.get("len", 0) > L
                        and r.get("flushed") == r.get("queued") and r.get("writes") == 1)
                prod_fill_runs += 1
                if not okay:
                    prod_bad += 1
                    ck.violation("production limit %d, outbound: after a first send of %d payload bytes the queue was filled "
                                 "with calls of %d and then %d payload bytes: %s (expected: every call accepted while the "
                                 "queue stays within the limit, BufferOverflow for the first that does not fit, one flush "
                                 "writing exactly what was accepted)" % (L, c["first"], c["fill"], c["small"],
                                                                          {k: r.get(k) for k in ("res", "max_queued", "queued", "refusal", "refused_early", "flushed", "writes")}),
                                 {"side": "out-production", "case": c, "impl": r}, tag="fill%d" % c["id"])
            for c in prod_cases:
                r = res.get(c["id"], {"crash": True})
                okay = (c["expect"] == "ok" and str(r.get("res", "")).startswith("ok:")) or \
                       (c["expect"] == "over" and r.get("res") == "err:overflow" and r.get("consumed") == L)
                if not okay:
                    prod_bad += 1
                    ck.violation("production limit %d: %s of wire size %d in chunks of %d gave %s after consuming %s bytes "
                                 "(expected %s)" % (L, c["kind"], c["size"], c["chunk"], r.get("res"), r.get("consumed"),
                                                    "delivery" if c["expect"] == "ok" else "BufferOverflow after exactly %d bytes" % L),
                                 {"side": "in-production", "case": c, "impl": r}, tag="prod%d" % c["id"])
    hist = {}
    for c in cin + cout:
        hist[c["tag"]] = hist.get(c["tag"], 0) + 1
    nontriv = {case_hash([c.get("events"), c.get("ops")]) for c in cin + cout}
    ck.cov.update({
        "evaluations": len(cin) + len(cout), "distinct_nontrivial": len(nontriv),
        "traces_validated_against_impl": len(items) + len(witems), "case_classes": hist,
        "inbound_peak_buffer": peak, "outbound_peak_buffer": wpeak, "outbound_overflow_refusals": over,
        "step": step, "limit_under_hook": limit, "production_limit": prod,
        "production_limit_inbound_runs": len(prod_cases), "production_limit_failures": prod_bad,
        "production_limit_outbound_fill_runs": prod_fill_runs,
        "inbound_frame_sizes_tried": len({len(bytes.fromhex(c["frames"][0])) + 1 for c in cin if c["tag"] == "frame_size_sweep"}),
    })
    ck.samples.append({"inbound": "frame of wire size s in %d chunks for s around every multiple of %d up to %d" % (5, step, limit + 2 * step)})
    for c in cout[:2]:
        ck.samples.append({"outbound": describe(c)})
    ck.assumptions += [
        "correspondence runs use the hook-lowered limit %d (cfg zlink_verif); the theorems are parametric in step and "
        "limit and C17_constants_production re-proves their side conditions for the production constants translated "
        "from connection/mod.rs (%d); with the production limit only the inbound conclusions are exercised (unterminated "
        "streams and frames of wire size limit-257..limit+256 against a build without the cfg), as testing; outbound at the "
        "production limit: a single message of that size is not run (growth re-serialises from scratch every 256 bytes), "
        "the queue is filled to the limit with many calls instead, after histories that grew and flushed the buffer" % (limit, prod),
    ]
    ck.finish(rule="a case = one frame size x chunking (inbound) or one send history near the limit (outbound); "
                   "distinct by hash of the script")


if __name__ == "__main__":
    main()
