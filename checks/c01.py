#!/usr/bin/env python3
"""C01 — inbound framing is independent of how the transport fragments the stream."""
import os, sys, json
sys.path.insert(0, os.path.join(os.path.dirname(os.path.abspath(__file__)), "..", "lib"))
from vlib import *
import framegen as fg

from rconn import *

PID = "C01"


def gen_cases(ck, limit, step):
    rng = ck.rng
    cases = []

    def add(target, frames, events, n, inhyp, kinds, tag):
        cases.append({"id": len(cases), "target": target, "events": events, "n": n,
                      "frames": [f.hex() for f in frames], "inhyp": inhyp, "kinds": kinds, "tag": tag})

    # corpus first: minimised failures of earlier runs
    corpus = os.path.join(VERIF, "corpus", "c01.jsonl")
    if os.path.exists(corpus):
        for line in open(corpus):
            if line.strip():
                c = json.loads(line)
                add(c["target"], [bytes.fromhex(f) for f in c["frames"]], c["events"], c["n"],
                    c["inhyp"], c.get("kinds", []), "corpus")
    quick = ck.tier == "quick"
    # (a) every single cut position (and all-in-one) of short streams
    n_short = 24 if quick else 120
    for i in range(n_short):
        target = fg.TARGETS[i % len(fg.TARGETS)]
        k = rng.randrange(1, 4)
        fk = [fg.frame(rng, target, kind=rng.choice(["valid", "wrong_shape", "malformed", "padded", "garbage", "valid"]))
              for _ in range(k)]
        frames = [f for f, _ in fk]
        if any(len(f) == 0 or 0 in f for f in frames):
            continue
        stream = fg.wire(frames)
        if len(stream) > 110:
            frames = frames[:1]
            fk = fk[:1]
            stream = fg.wire(frames)
        kinds = [kd for _, kd in fk]
        add(target, frames, [["d", stream.hex()], ["e"]], len(frames) + 2, True, kinds, "one_read")
        for cut in range(1, len(stream)):
            ch = fg.chunks_from_cuts(stream, [cut])
            ev = [["d", ch[0].hex()], ["p"], ["d", ch[1].hex()], ["e"]] if cut % 2 else \
                 [["d", ch[0].hex()], ["d", ch[1].hex()], ["e"]]
            add(target, frames, ev, len(frames) + 2, True, kinds, "single_cut")
    # (b) random streams with sizes around growth steps, random partitions
    n_rand = 1500 if quick else 30000
    for i in range(n_rand):
        target = rng.choice(fg.TARGETS)
        k = rng.choice([1, 2, 2, 3, 3, 4, 5, 6])
        fk = [fg.frame(rng, target) for _ in range(k)]
        frames = [f for f, _ in fk]
        frames = [f for f in frames if len(f) > 0 and 0 not in f]
        if not frames:
            continue
        # sometimes force the total stream length to land near a growth boundary
        stream = fg.wire(frames)
        if len(stream) >= limit:
            continue
        ncuts = rng.choice([0, 1, 2, 3, 5, 8, 13])
        cuts = fg.random_cuts(rng, len(stream), ncuts)
        if rng.random() < 0.3:
            # cut exactly at / next to terminators and growth-step boundaries
            pos = [j + d for j, b in enumerate(stream) if b == 0 for d in (0, 1, 2)]
            pos += [m * step + d for m in range(1, 1 + len(stream) // step) for d in (-1, 0, 1)]
            cuts = sorted(set(cuts + rng.sample(pos, min(len(pos), rng.randrange(1, 4)))))
        ev = fg.events_of(rng, fg.chunks_from_cuts(stream, cuts), pend_prob=rng.choice([0, 0.2, 0.5]))
        add(target, frames, ev, len(frames) + rng.choice([0, 1, 2]), True,
            [kd for _, kd in fk if True], "random")
    # (c) exact sizes around every growth step: k*step + {-2..2}, single frame and pairs
    mults = [1, 2, 3] if quick else list(range(1, limit // step))
    for m in mults:
        for d in (-2, -1, 0, 1, 2):
            total = m * step + d
            for target in (["call_strict", "reply_typed"] if quick else fg.TARGETS):
                if total + 1 >= limit:
                    continue
                f, kd = fg.frame(rng, target, kind="valid_big", size=total - 1)
                stream = fg.wire([f])
                for cuts in ([], [total // 2], [step - 1], [step], [step + 1], [len(stream) - 1]):
                    ev = fg.events_of(rng, fg.chunks_from_cuts(stream, cuts), pend_prob=0.2)
                    add(target, [f], ev, 2, True, [kd], "boundary")
                g, kd2 = fg.frame(rng, target, kind="valid")
                stream = fg.wire([f, g])
                ev = fg.events_of(rng, fg.chunks_from_cuts(stream, fg.random_cuts(rng, len(stream), 2)), 0.2)
                add(target, [f, g], ev, 3, True, [kd, kd2], "boundary_pair")
    # (d) malformed streams (outside the theorem's hypotheses: model correspondence only)
    n_mal = 150 if quick else 3000
    for i in range(n_mal):
        target = rng.choice(fg.TARGETS)
        k = rng.randrange(1, 4)
        frames = [fg.frame(rng, target)[0] for _ in range(k)]
        frames = [f for f in frames if 0 not in f]
        stream = fg.wire(frames)
        mode = rng.choice(["double_nul", "no_final_nul", "fail", "empty_first", "lone_nul"])
        eof = True
        if mode == "double_nul" and len(stream) > 2:
            p = rng.choice([j for j, b in enumerate(stream) if b == 0])
            stream = stream[:p] + b"\0" + stream[p:]
        elif mode == "no_final_nul":
            stream = stream[:-1]
        elif mode == "empty_first":
            stream = b"\0" + stream
        elif mode == "lone_nul":
            stream = b"\0"
        if not stream or len(stream) >= limit:
            continue
        ev = fg.events_of(rng, fg.chunks_from_cuts(stream, fg.random_cuts(rng, len(stream), rng.randrange(0, 4))), 0.2)
        if mode == "fail":
            ev.insert(rng.randrange(0, len(ev)), ["f"])
        add(target, frames, ev, k + 2, False, [mode], "malformed_stream")
    return cases


def main():
    ck = Check(PID)
    step, limit, _prod = constants(ck)
    if getattr(ck, "proof_ok", True):
        ck.prove(["gen/Consts.v", "Framing/ReadConnExec.v"], "props/C01.v")

    if ck.replay:
        rp = json.load(open(ck.replay))
        cases = [rp["case"]] if "case" in rp else []
        for i, c in enumerate(cases):
            c["id"] = i
    else:
        cases = gen_cases(ck, limit, step)

    ok, log = ck.harness_build(["conn"])
    if not ok:
        ck.violation("harness does not build against /repo", {"log": log[-3000:]}, tag="build", no_input=True)
        ck.finish()
    results = ck.harness_run("conn", cases)
    ck.ran_correspondence = True
    codes = code_table(results)
    items = []
    for c, r in zip(cases, results):
        if r.get("panic") or r.get("crash"):
            ck.violation("receive panicked/crashed on a scripted stream", {"case": c, "impl": r},
                         tag="panic%d" % c["id"])
            continue
        items.append((c, r))
    try:
        bad = ck.coq_eval("cases", HEADER, items, lambda it: render_case(it[0], it[1], codes, step, limit))
    except RuntimeError as e:
        ck.violation("model evaluation failed: " + str(e)[:300], {"log": str(e)}, tag="eval", no_input=True)
        bad = {}
    n_viol = 0
    for idx in sorted(bad):
        c, r = items[idx]
        code = bad[idx]
        if n_viol >= 5:
            break
        n_viol += 1
        term = render_case(c, r, codes, step, limit)
        model = ck.coq_show(HEADER, "(model_trace (%s), spec_trace (%s))" % (term, term))
        if code & 2:
            ck.violation("receive results differ from one-result-per-frame-in-order (frames %s, chunks %d)"
                         % (c["kinds"], sum(1 for e in c["events"] if e[0] == "d")),
                         {"case": c, "impl": r, "model_and_spec": model, "codes": codes}, tag="c%d" % c["id"])
        else:
            ck.violation("implementation differs from the ReadConnection model (results agree with the spec)",
                         {"case": c, "impl": r, "model_and_spec": model, "codes": codes,
                          "correspondence": "Framing/ReadConn.v run vs Connection::receive_*"},
                         tag="m%d" % c["id"], no_input=True)
    # coverage
    hashes = set()
    nontriv = set()
    hist = {}
    kinds = {}
    for c in cases:
        h = case_hash([c["target"], c["events"], c["n"]])
        hashes.add(h)
        nd = sum(1 for e in c["events"] if e[0] == "d")
        if len(c["frames"]) >= 2 or nd >= 2:
            nontriv.add(h)
        hist[c["tag"]] = hist.get(c["tag"], 0) + 1
        for k in c["kinds"]:
            kinds[k] = kinds.get(k, 0) + 1
    ck.cov.update({
        "evaluations": len(cases), "distinct_nontrivial": len(nontriv),
        "traces_validated_against_impl": len(items),
        "case_classes": hist, "frame_kinds": kinds,
        "targets": fg.TARGETS, "step": step, "limit_under_hook": limit,
        "in_hypotheses_cases": sum(1 for c in cases if c["inhyp"]),
    })
    for c in cases[:3] + cases[len(cases) // 2: len(cases) // 2 + 2]:
        ck.samples.append({"target": c["target"], "events": c["events"][:6], "n": c["n"], "tag": c["tag"]})
    ck.assumptions += [
        "decode(frame) is obtained by running serde_json::from_slice on the isolated frame with the same target type",
        "the model is hand-written (Framing/ReadConn.v); its tie to read_connection.rs is the state-level "
        "correspondence on the generated cases (result, buffer.len(), msg_pos, read_pos after every receive)",
    ]
    ck.finish(rule="a case = (target type, transport script, number of receives); distinct by hash of those; "
                   "non-trivial = at least two frames or at least two data chunks")


if __name__ == "__main__":
    main()
