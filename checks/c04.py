#!/usr/bin/env python3
"""C04 — a reply carrying an `error` member is never reported to the caller as success."""
import os, sys, json
sys.path.insert(0, os.path.join(os.path.dirname(os.path.abspath(__file__)), "..", "lib"))
from vlib import *
import envgen as eg

PID = "C04"
SIG_NON_OBJECT = "C04.non_object_frame"
C04_ETYPES = [e for e in eg.ETYPES if e != "raw"]     # raw-identifier field names are C05's subject
# the frames of the property's own examples, tried against every (P, E) pair first
REGRESSION = [
    eg.O(("error", "io.systemd.System")),
    eg.O(("error", "io.systemd.System"), ("parameters", eg.O(("errno", 5)))),
    eg.O(("error", "a"), ("error", "b")),
    eg.O(("error", None)),
    eg.O(("parameters", None), ("error", "io.systemd.System"), ("continues", True)),
    eg.O(("error", "org.example.E.Busy"), ("parameters", eg.O())),
    eg.O(("error", "org.varlink.service.PermissionDenied"), ("parameters", eg.O())),
    eg.O(("error", "org.example.E.Invalid"), ("error", "org.example.E.Invalid"),
         ("parameters", eg.O(("field", "f"), ("code", 1)))),
    eg.O(),
    eg.O(("parameters", eg.O())),
]


def gen_cases(ck):
    rng = ck.rng
    quick = ck.tier == "quick"
    cases = []

    def add(op, tree, tags, frame=None, **kw):
        c = {"id": len(cases), "op": op, "tree": tree, "frame": frame or eg.jtext(tree), "tags": tags}
        c.update(kw)
        cases.append(c)

    corpus = []
    for fn in sorted(os.listdir(os.path.join(VERIF, "corpus"))) if os.path.isdir(os.path.join(VERIF, "corpus")) else []:
        if fn.startswith("c04") and fn.endswith(".jsonl"):
            for line in open(os.path.join(VERIF, "corpus", fn)):
                if line.strip():
                    corpus.append(json.loads(line))
    for c in corpus:
        tree = eg.jparse(c["frame"])
        if c.get("op", "reply") == "reply":
            add("reply", tree, {"class": "corpus"}, p=c["p"], e=c["e"])
        else:
            add("proxy", tree, {"class": "corpus"}, meth=c["meth"])

    n_sample = 260 if quick else 1500
    n_perm_frames = 8 if quick else 25
    n_dup_frames = 6 if quick else 20
    for pname in eg.PTYPES:
        for ename in C04_ETYPES:
            for k, tree in enumerate(REGRESSION):
                add("reply", tree, {"class": "regression"}, p=pname, e=ename)
                # member names are decoded JSON strings: "\u0065rror" IS the member `error`
                if tree.ms:
                    add("reply", tree, {"class": "regression_escaped_names"},
                        frame=eg.jtext_esc(tree, rng, ("one", "first", "all")[k % 3]), p=pname, e=ename)
            frames = eg.reply_frames(rng, pname, ename, quick)
            rng.shuffle(frames)
            picked = frames[:n_sample]
            for tags, ms in picked:
                ms = list(ms)
                if rng.random() < 0.5:
                    rng.shuffle(ms)
                    tags = dict(tags, order="shuffled")
                add("reply", eg.Obj(ms), dict(tags, **{"class": "product"}), p=pname, e=ename)
            # every order of the members (<= 5 members: all 120)
            small = [f for f in frames[n_sample:] if 2 <= len(f[1]) <= 5][:n_perm_frames]
            for tags, ms in small:
                for perm in eg.permutations_of(ms, rng, 120 if not quick else 24):
                    add("reply", eg.Obj(perm), dict(tags, **{"class": "permutation"}), p=pname, e=ename)
            # duplicated members
            for tags, ms in frames[n_sample + 50: n_sample + 50 + n_dup_frames]:
                dv = eg.dup_variants(rng, ms)
                rng.shuffle(dv)
                for d in dv[: (12 if quick else 60)]:
                    add("reply", eg.Obj(d), dict(tags, **{"class": "duplicated"}), p=pname, e=ename)
            # frames that are not JSON objects: a reply frame is an object, anything else has to be a
            # decode error (serde's derived visitors also accept sequence forms of enums and structs)
            for arr in eg.array_frames(rng, pname, ename):
                add("reply", arr, {"class": "non_object", "shape": "array"}, p=pname, e=ename)
            for sc in (None, True, 5, "org.example.E.Busy", eg.Flt("1.5")):
                add("reply", sc, {"class": "non_object", "shape": "scalar"}, p=pname, e=ename)
    # proxy methods (generated code on top of call_method)
    for meth, (unit, ename, pname) in eg.PROXY.items():
        frames = eg.reply_frames(rng, pname, ename, quick)
        rng.shuffle(frames)
        for k, tree in enumerate(REGRESSION):
            add("proxy", tree, {"class": "regression"}, meth=meth)
            if tree.ms:
                add("proxy", tree, {"class": "regression_escaped_names"},
                    frame=eg.jtext_esc(tree, rng, ("one", "first", "all")[k % 3]), meth=meth)
        for tags, ms in frames[: (120 if quick else 1200)]:
            ms = list(ms)
            rng.shuffle(ms)
            add("proxy", eg.Obj(ms), dict(tags, **{"class": "product"}), meth=meth)
        for arr in eg.array_frames(rng, pname, ename) + [None, 5, "s"]:
            add("proxy", arr, {"class": "non_object", "shape": "array" if isinstance(arr, list) else "scalar"}, meth=meth)
    return cases


def main():
    ck = Check(PID)
    eg.prove_with_decls(ck, ["Shapes/EnvExec.v"], "props/C04.v")

    if ck.replay:
        rp = json.load(open(ck.replay))
        cases = []
        if "case" in rp:
            c = rp["case"]
            c["tree"] = eg.jparse(c["frame"])
            c["id"] = 0
            cases.append(c)
    else:
        cases = gen_cases(ck)

    ok, log = ck.harness_build(["envelope"])
    if not ok:
        ck.violation("harness does not build against /repo", {"log": log[-3000:]}, tag="build", no_input=True)
        ck.finish()
    results = eg.harness_results(ck, cases)
    ck.ran_correspondence = True

    reply_items, proxy_items = [], []
    for c, r in zip(cases, results):
        if r.get("panic") or r.get("crash"):
            ck.violation("decoding a reply frame panicked/crashed", {"case": pub(c), "impl": r}, tag="panic%d" % c["id"])
            continue
        try:
            if c["op"] == "reply":
                eg.render_rcase(c, r)
                reply_items.append((c, r))
            else:
                eg.render_pcase(c, r)
                proxy_items.append((c, r))
        except (ValueError, KeyError) as ex:
            ck.violation("unexpected harness outcome: %s" % ex, {"case": pub(c), "impl": r},
                         tag="odd%d" % c["id"], no_input=True)

    def evaluate(name, items, render, fn, show):
        try:
            bad = ck.coq_eval(name, eg.HEADER, items, lambda it: render(it[0], it[1]), per_shard=400, fn=fn)
        except RuntimeError as e:
            ck.violation("model evaluation failed: " + str(e)[:300], {"log": str(e)}, tag="eval-" + name, no_input=True)
            return
        n_spec = n_model = 0
        n_nonobj = [0]
        for idx in sorted(bad):
            c, r = items[idx]
            code = bad[idx]
            if code & 64:
                # a frame that is not a JSON object reported as something else than a decode error
                if n_nonobj[0] < 4:
                    n_nonobj[0] += 1
                    model = ck.coq_show(eg.HEADER, "%s (%s)" % (show, render(c, r)))
                    ck.violation("a frame that is not a JSON object was not reported as a decode error (%s, %s): %s -> %s"
                                 % (c.get("p", c.get("meth")), c.get("e", ""), c["frame"][:100],
                                    (r.get("recv") or r.get("res"))["k"]),
                                 {"case": pub(c), "impl": r, "model_spec": model, "code": code}, tag="n%d" % c["id"],
                                 sig=SIG_NON_OBJECT)
                if not code & 1:
                    continue
                code &= ~64
            spec = code & (2 | 4)
            if (spec and n_spec >= 6) or (not spec and n_model >= 4):
                continue
            model = ck.coq_show(eg.HEADER, "%s (%s)" % (show, render(c, r)))
            if code & 2:
                n_spec += 1
                ck.violation("a frame with an `error` member was reported as a successful reply (%s, %s): %s"
                             % (c.get("p", c.get("meth")), c.get("e", ""), c["frame"][:120]),
                             {"case": pub(c), "impl": r, "model_spec": model, "code": code}, tag="c%d" % c["id"],
                             sig="C04.error_reported_as_success")
            elif code & 4:
                n_spec += 1
                ck.violation("reply classified differently from the property (%s, %s): %s"
                             % (c.get("p", c.get("meth")), c.get("e", ""), c["frame"][:120]),
                             {"case": pub(c), "impl": r, "model_spec": model, "code": code}, tag="s%d" % c["id"],
                             sig="C04.classification")
            else:
                n_model += 1
                what = {1: "receive_reply differs from the model", 8: "call_method differs from receive_reply",
                        16: "a directly decoded alternative differs from the model",
                        32: "a re-encoding differs from the model"}
                ck.violation("; ".join(v for k, v in what.items() if code & k) + " (outcomes agree with the property): "
                             + c["frame"][:100],
                             {"case": pub(c), "impl": r, "model_spec": model, "code": code,
                              "correspondence": "Shapes/Reply.v classify vs Connection::receive_reply"},
                             tag="m%d" % c["id"], no_input=True)

    evaluate("reply", reply_items, eg.render_rcase, "check_reply", "show_reply")
    evaluate("proxy", proxy_items, eg.render_pcase, "check_proxy", "show_proxy")

    # coverage
    hist, outcomes, nontriv = {}, {}, set()
    per_dim = {"error": {}, "parameters": {}, "continues": {}}
    for c, r in reply_items + proxy_items:
        cls = c["tags"].get("class", "?")
        hist[cls] = hist.get(cls, 0) + 1
        k = (r.get("recv") or r.get("res"))["k"]
        outcomes[k] = outcomes.get(k, 0) + 1
        for d in per_dim:
            if d in c["tags"]:
                per_dim[d][c["tags"][d]] = per_dim[d].get(c["tags"][d], 0) + 1
        if isinstance(c["tree"], eg.Obj) and len(c["tree"].ms) >= 2:
            nontriv.add(case_hash([c["op"], c.get("p"), c.get("e"), c.get("meth"), c["frame"]]))
    ck.cov.update({
        "evaluations": len(cases), "distinct_nontrivial": len(nontriv),
        "traces_validated_against_impl": len(reply_items) + len(proxy_items),
        "case_classes": hist, "impl_outcomes": outcomes, "frame_dimensions": per_dim,
        "pairs": "%d parameter types x %d error types" % (len(eg.PTYPES), len(C04_ETYPES)),
        "receive_reply_object_only": list(eg.receive_reply_object_only()),
        "non_object_frames": sum(1 for c, _ in reply_items + proxy_items if not isinstance(c["tree"], eg.Obj)),
        "parameter_types": sorted(eg.PTYPES), "error_types": sorted(C04_ETYPES), "proxy_methods": sorted(eg.PROXY),
        "frames_with_error_member": sum(1 for c, _ in reply_items + proxy_items
                                        if isinstance(c["tree"], eg.Obj) and "error" in c["tree"].keys()),
    })
    for c, r in (reply_items[:2] + reply_items[len(reply_items) // 2: len(reply_items) // 2 + 3] + proxy_items[:2]):
        ck.samples.append({"op": c["op"], "types": [c.get("p"), c.get("e"), c.get("meth")], "frame": c["frame"][:160],
                           "impl": (r.get("recv") or r.get("res"))["k"]})
    ck.assumptions += [
        "serde / serde_derive / serde_json behaviour is modelled by Shapes/Shapes.v (decoder) and tied only by this "
        "correspondence run on the compiled corpus of parameter and error types",
        "the Rust types of harness/src/bin/envelope.rs correspond to the shapes of the same name in Shapes/Corpus.v",
        "frames are valid JSON texts with minimal string escapes; decoding of malformed JSON is out of scope here (C01)",
    ]
    ck.finish(rule="a case = (parameter type, error type | proxy method, frame text); distinct by hash of those; "
                   "non-trivial = an object frame with at least two members")


def pub(c):
    return {k: v for k, v in c.items() if k != "tree"}


if __name__ == "__main__":
    main()
