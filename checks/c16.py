#!/usr/bin/env python3
"""C16 — derived introspection describes the Rust type it was derived from.

translate/type_table.py -> coq/gen/TypeTable.v; theorems props/C16.v; a generated corpus of
structs / enums / error enums is compiled against /repo (cargo package under work/C16/crate), each
type's TYPE / CUSTOM_TYPE / VARIANTS is dumped and compared inside Coq with the derive model and
with the property's mapping evaluated on the same declaration; interfaces assembled from the
derived descriptions are rendered, parsed back and compared."""
import os, sys, json, re, importlib.util
sys.path.insert(0, os.path.join(os.path.dirname(os.path.abspath(__file__)), "..", "lib"))
from vlib import *
import codegengen as cg

PID = "C16"
HEADER = ("From ZV Require Import Common.Exec Codegen.IdlTy gen.TypeTable Codegen.Derive Codegen.DeriveExec.\n"
          "Open Scope string_scope.\nOpen Scope N_scope.\n")
DEPS = """zlink = { package = "zlink-core", path = "/repo/zlink-core", features = ["idl-parse", "introspection", "uuid", "chrono", "time", "url", "bytes", "indexmap"] }
serde_json = "1"
uuid = { version = "1.0", default-features = false }
chrono = { version = "0.4", default-features = false }
time = { version = "0.3", default-features = false }
url = { version = "2.5", default-features = false }
bytes = { version = "1.5", default-features = false }
indexmap = { version = "2.2" }"""

SIG_F8 = "C16.enum_variant_comment_roundtrip"
SIG_OPTOPT = "C16.nested_option_roundtrip"
SIG_ML = "C16.multiline_doc_attribute"

LEAF_SPELL = {"&str": "&'a str", "chrono::DateTime<Tz>": "chrono::DateTime<chrono::Utc>"}
UNSIZED = {"str", "std::path::Path", "std::ffi::OsStr"}
CTOR_SPELL = {
    "Vec<_>": "Vec<{}>", "&[_]": "&'a [{}]", "Option<_>": "Option<{}>", "Box<_>": "Box<{}>",
    "HashMap<String,_>": "std::collections::HashMap<String, {}>",
    "HashMap<&str,_>": "std::collections::HashMap<&'a str, {}>",
    "BTreeMap<String,_>": "std::collections::BTreeMap<String, {}>",
    "BTreeMap<&str,_>": "std::collections::BTreeMap<&'a str, {}>",
    "HashSet<_>": "std::collections::HashSet<{}>", "BTreeSet<_>": "std::collections::BTreeSet<{}>",
    "std::borrow::Cow<'_,_>": "std::borrow::Cow<'a, {}>",
    "indexmap::IndexMap<&str,_>": "indexmap::IndexMap<&'a str, {}>",
}
COW_OK = {"str", "std::path::Path", "std::ffi::OsStr", "String", "i8", "i16", "i32", "i64", "u8", "u16",
          "u32", "u64", "isize", "usize", "f32", "f64", "bool", "char"}
KEYWORDS = ["type", "match", "fn", "loop", "move", "ref", "use", "where", "async", "dyn", "in", "impl"]
WORDS = ["id", "name", "count", "value", "items", "flags", "size", "owner", "path", "addr", "when",
         "state", "kind", "note", "data", "level", "tags", "unit", "span", "mode", "index", "peer"]
DOC_SAFE = "abcdefghijklmnopqrstuvwxyzABCDEFGHIJKLMNOPQRSTUVWXYZ0123456789      .,'-"
# typographic punctuation and spaces of U+2000..U+206F (without the bidi controls rustc rejects in
# comments and without U+2028/U+2029), U+0085, U+00A0, U+FEFF, and 2-/3-/4-byte neighbours
DOC_UNI = ("\u2013\u2014\u2018\u2019\u201c\u201d\u2022\u2026\u2030\u2032\u2039\u203a\u203c\u2002\u2009\u200b\u2010\u2000\u203f\u2040\u206f"
           "\u0085\u00a0\ufeff\u00e9\u00df\u07ff\u0800\u1fff\u2070\u20ac\ufffd\U0001f600\U00010000")
DOC_FULL = DOC_SAFE + ":;()[]{}?!#*/<>=+&|@$%^~`\"\\\t_"


SPLIT_DOC_LINES = [False]     # set by main() from translate/doc_split.py


def split_doc(text):
    return [l[:-1] if l.endswith("\r") else l for l in text.split("\n")]


def comments_of(docs):
    """The comments extract_doc_comments (zlink-macros/src/utils.rs) makes of the doc attributes: one per
    attribute, or one per line of an attribute's text when the function splits at line ends."""
    out = []
    for x in docs:
        out += split_doc(x["text"]) if SPLIT_DOC_LINES[0] else [x["text"]]
    return out


def ctor_spell(name):
    if name in CTOR_SPELL:
        return CTOR_SPELL[name]
    return re.sub(r"(?<![A-Za-z0-9_])_(?![A-Za-z0-9_])", "{}", name)


class Gen:
    def __init__(self, rng, rows):
        self.rng = rng
        self.leaves = [r for r in rows if r["kind"] == "leaf"]
        self.ctors = [r for r in rows if r["kind"] == "ctor"]
        self.decls = []
        self.leaf_uses = {}
        self.ctor_uses = {}
        self.n = 0

    # ------------------------------------------------------------ types
    def leaf(self, r):
        self.leaf_uses[r["rust"]] = self.leaf_uses.get(r["rust"], 0) + 1
        sp = LEAF_SPELL.get(r["rust"], r["rust"])
        return {"rust": sp, "coq": "(RLeaf %s)" % r["id"], "lt": "'a" in sp, "unsized": r["rust"] in UNSIZED,
                "leaf": r["rust"], "obj": r["rust"] == "()", "users": []}

    def user(self, d):
        lt = d["lt"]
        nm = d["rname"] + ("<'a>" if lt else "")
        fn = "user_custom" if d["derive"] == "custom" else "user_type"
        return {"rust": nm, "coq": "(%s %s)" % (fn, d["coq"]), "lt": lt, "unsized": False, "leaf": None,
                "obj": d["derive"] == "type" and d["body"] in ("struct", "unit"), "users": [d["id"]] + d["users"]}

    def app(self, c, inner):
        self.ctor_uses[c["rust"]] = self.ctor_uses.get(c["rust"], 0) + 1
        sp = ctor_spell(c["rust"]).replace("{}", inner["rust"])
        transparent = c["val"] == "ShTransparent"
        return {"rust": sp, "coq": "(RApp %s %s)" % (c["id"], inner["coq"]),
                "lt": inner["lt"] or "'a" in ctor_spell(c["rust"]), "unsized": False, "leaf": None,
                "obj": transparent and inner["obj"], "users": inner["users"]}

    def ty(self, depth, pool, force=None):
        rng = self.rng
        if force is not None:
            kind, row = force
            if kind == "leaf":
                t = self.leaf(row)
                if t["unsized"]:
                    box = rng.choice([c for c in self.ctors if re.search(r"\b(Box|Rc|Arc|Cow)<", c["rust"])])
                    t = self.app(box, t)
                return t
            inner = self.ty(depth - 1, pool)
            return self.wrap(row, inner, pool)
        if depth <= 0 or rng.random() < 0.45:
            if pool and rng.random() < 0.3:
                return self.user(rng.choice(pool))
            t = self.leaf(rng.choice(self.leaves))
            if t["unsized"]:
                box = rng.choice([c for c in self.ctors if re.search(r"\b(Box|Rc|Arc|Cow)<", c["rust"])])
                t = self.app(box, t)
            return t
        c = rng.choice(self.ctors)
        return self.wrap(c, self.ty(depth - 1, pool), pool)

    def wrap(self, c, inner, pool):
        """Apply constructor row c to inner, repairing combinations rustc would reject."""
        if "Cow<" in c["rust"]:
            if inner["leaf"] not in COW_OK:
                inner = self.leaf(self.rng.choice([l for l in self.leaves if l["rust"] in COW_OK]))
        elif inner["unsized"] and not re.search(r"\b(Box|Rc|Arc)<", c["rust"]):
            box = self.rng.choice([x for x in self.ctors if re.search(r"\b(Box|Rc|Arc)<", x["rust"])])
            inner = self.app(box, inner)
        return self.app(c, inner)

    # ------------------------------------------------------------ names and docs
    def docs(self, full):
        """0..3 doc lines. About a third of the lines carry non-ASCII text: typographic punctuation from
        U+2000..U+206F (what real `///` docs contain), U+0085 / U+00A0 / U+FEFF, and 2-, 3- and 4-byte
        neighbours; blank `///` lines occur in the middle and at the end."""
        rng = self.rng
        k = rng.choice([0, 0, 0, 1, 1, 2, 3])
        out = []
        for _ in range(k):
            n = rng.choice([0, 3, 8, 20, 40])
            alpha = DOC_FULL if (full and rng.random() < 0.5) else DOC_SAFE
            if rng.random() < 0.35:
                alpha = alpha + DOC_UNI * 3
            body = "".join(rng.choice(alpha) for _ in range(n)).rstrip(" \t")
            form = rng.choice(["sl", "sl", "sl_nospace", "attr"])
            if form == "sl":
                out.append({"text": " " + body if body else "", "form": "sl"})
            elif form == "sl_nospace":
                # `///x`: no leading blank; must not start with '/' (that would be a plain comment)
                if body.startswith("/") or body.startswith(" "):
                    body = "x" + body
                out.append({"text": body, "form": "sl"})
            else:
                out.append({"text": body, "form": "attr"})
        if k >= 2 and rng.random() < 0.3:
            out[rng.choice([k // 2, k - 1])] = {"text": "", "form": "sl"}       # a blank `///` line
        if k >= 1 and rng.random() < 0.015:
            # a doc attribute whose text spans lines: a block comment or an explicit #[doc = "a\nb"]
            a = "".join(rng.choice(DOC_SAFE) for _ in range(8)).strip()
            b = "".join(rng.choice(DOC_SAFE) for _ in range(8)).strip()
            out[rng.randrange(k)] = rng.choice([{"text": " %s\n * %s " % (a, b), "form": "block"},
                                                {"text": "%s\n%s" % (a, b), "form": "attr"}])
        return out

    def field_names(self, k, allow_raw):
        rng, names = self.rng, []
        if getattr(self, "names_override", None):
            return [(n, False) for n in self.names_override[:k]]
        used = set()
        while len(names) < k:
            style = rng.random()
            w = rng.choice(WORDS)
            if style < 0.55:
                nm, raw = w, False
            elif style < 0.75:
                nm, raw = w + "_" + rng.choice(WORDS), False
            elif style < 0.85:
                nm, raw = w + rng.choice(WORDS).capitalize(), False      # camelCase field
            elif style < 0.93:
                nm, raw = w + str(rng.randrange(0, 100)), False
            else:
                if not allow_raw:
                    continue
                nm, raw = rng.choice(KEYWORDS), True
            if nm.lower() in used or nm in KEYWORDS and not raw:
                continue
            used.add(nm.lower())
            names.append((nm, raw))
        return names

    def variant_names(self, k, allow_raw, pascal_only=False):
        rng, names, used = self.rng, [], set()
        while len(names) < k:
            style = rng.random()
            w = rng.choice(WORDS)
            if pascal_only:
                # error names must be legal IDL type names: [A-Z][A-Za-z0-9]*
                nm = w.capitalize() + rng.choice(["", rng.choice(WORDS).capitalize(), rng.choice(WORDS).upper()[:3],
                                                  str(rng.randrange(100))])
                raw = False
            elif style < 0.6:
                nm, raw = w.capitalize() + rng.choice(["", "", rng.choice(WORDS).capitalize()]), False
            elif style < 0.75:
                nm, raw = w, False                                        # lower-case variant (Varlink style)
            elif style < 0.85:
                nm, raw = w.upper()[:3] + rng.choice(WORDS).capitalize() + str(rng.randrange(10)), False
            elif style < 0.92:
                nm, raw = w + "_" + rng.choice(WORDS), False
            else:
                if not allow_raw:
                    continue
                nm, raw = rng.choice(KEYWORDS), True
            if nm.lower() in used or nm in KEYWORDS and not raw:
                continue
            used.add(nm.lower())
            names.append((nm, raw))
        return names

    # ------------------------------------------------------------ declarations
    def fields(self, k, pool, allow_raw, full_docs, forced=None):
        fs = []
        for i, (nm, raw) in enumerate(self.field_names(k, allow_raw)):
            t = self.ty(self.rng.choice([0, 1, 1, 2, 3]), pool, force=forced[i] if forced and i < len(forced) else None)
            fs.append({"name": nm, "raw": raw, "ty": t, "docs": self.docs(full_docs)})
        return fs

    def decl(self, derive, body, pool, allow_raw=False, forced=None, nfields=None):
        rng = self.rng
        # a third of the type names start with the spelling of a primitive IDL type in some case
        prefix = rng.choice(["T", "T", "T", "T", "T", "T", "Int", "Interval", "String", "StringPair", "Object", "Objective",
                             "Bool", "Boolean", "Float", "Floating", "INT", "STRING", "BOOLx", "OBJECT", "FLOATy"])
        d = {"id": self.n, "derive": derive, "body": body, "rname": "%s%d%s" % (prefix, self.n, rng.choice(
            ["", "Rec", "Info", "Reply", "State", "Cfg2", "IPv6Addr"])), "users": []}
        self.n += 1
        inline = derive == "type"
        d["docs"] = self.docs(not inline)
        d["crate_attr"] = rng.choice([None, None, None, "zlink", "::zlink"])
        if body == "struct":
            k = nfields if nfields is not None else rng.choice([0, 1, 1, 2, 2, 3, 3, 4, 5, 6])
            d["fields"] = self.fields(k, pool, allow_raw, not inline, forced)
        elif body == "unit":
            d["fields"] = []
        elif body == "enum":
            k = rng.choice([1, 1, 2, 3, 3, 4, 6]) if derive != "error" else rng.choice([0, 1, 2, 3, 3, 4, 6])
            d["variants"] = []
            for nm, raw in self.variant_names(k, allow_raw, pascal_only=(derive == "error")):
                v = {"name": nm, "raw": raw, "docs": self.docs(not inline)}
                if derive == "error":
                    kind = rng.choice(["unit", "named", "named", "tuple"])
                    objs = [p for p in pool if p["derive"] == "type" and p["body"] in ("struct", "unit")]
                    if kind == "tuple" and not objs and rng.random() < 0.7:
                        kind = "named"
                    v["kind"] = kind
                    if kind == "named":
                        v["fields"] = self.fields(rng.choice([0, 1, 1, 2, 3, 4]), pool, allow_raw, True)
                    elif kind == "tuple":
                        if objs:
                            t = self.user(rng.choice(objs))
                            if rng.random() < 0.3:
                                t = self.app(rng.choice([c for c in self.ctors if c["val"] == "ShTransparent"
                                                         and "Cow<" not in c["rust"]]), t)
                        else:
                            t = self.leaf([l for l in self.leaves if l["rust"] == "()"][0])
                        v["ty"] = t
                else:
                    v["kind"] = "unit"
                d["variants"].append(v)
        allf = list(d.get("fields", []))
        for v in d.get("variants", []):
            allf += v.get("fields", [])
        tys = [f["ty"] for f in allf] + [v["ty"] for v in d.get("variants", []) if "ty" in v]
        d["lt"] = any(t["lt"] for t in tys)
        for t in tys:
            for u in t["users"]:
                if u not in d["users"]:
                    d["users"].append(u)
        d["has_raw_field"] = any(f["raw"] for f in allf)
        d["has_raw"] = d["has_raw_field"] or any(v["raw"] for v in d.get("variants", []))
        d["coq"] = self.coq_decl(d)
        d["rust"] = self.rust_decl(d)
        self.decls.append(d)
        return d

    # ------------------------------------------------------------ rendering
    @staticmethod
    def coq_ident(nm, raw):
        return "(%s %s)" % ("rid" if raw else "id_", cg.cq(nm))

    def coq_fields(self, fs):
        return cg.cq_list(["{| fd_name := %s; fd_ty := %s; fd_docs := %s |}" % (
            self.coq_ident(f["name"], f["raw"]), f["ty"]["coq"], cg.cq_comments(comments_of(f["docs"])))
            for f in fs])

    def coq_decl(self, d):
        if d["body"] == "struct":
            body = "(DStruct %s)" % self.coq_fields(d["fields"])
        elif d["body"] == "unit":
            body = "DUnitStruct"
        else:
            vs = []
            for v in d["variants"]:
                if v["kind"] == "unit":
                    vb = "VUnit"
                elif v["kind"] == "named":
                    vb = "(VNamed %s)" % self.coq_fields(v["fields"])
                else:
                    vb = "(VTuple [%s])" % v["ty"]["coq"]
                vs.append("{| vd_name := %s; vd_docs := %s; vd_body := %s |}" % (
                    self.coq_ident(v["name"], v["raw"]), cg.cq_comments(comments_of(v["docs"])), vb))
            body = "(DEnum %s)" % cg.cq_list(vs)
        return "{| d_name := %s; d_docs := %s; d_body := %s |}" % (
            self.coq_ident(d["rname"], False), cg.cq_comments(comments_of(d["docs"])), body)

    @staticmethod
    def rust_docs(docs, ind):
        out = []
        # doc attributes do not have to come first: every third documented item carries another attribute
        # before its docs, every third one between its doc lines (deterministic in the doc text)
        pos = (sum(len(x["text"]) for x in docs) % 3) if docs else 2
        for i, x in enumerate(docs):
            if (pos == 0 and i == 0) or (pos == 1 and i == 1):
                out.append("%s#[allow(dead_code)]" % ind)
            if x["form"] == "sl":
                out.append("%s///%s" % (ind, x["text"]))
            elif x["form"] == "block":
                out.append("%s/**%s*/" % (ind, x["text"]))       # the text may span lines
            else:
                out.append('%s#[doc = "%s"]' % (ind, x["text"].replace("\\", "\\\\").replace('"', '\\"')
                                                  .replace("\t", "\\t").replace("\n", "\\n")))
        return out

    def rust_fields(self, fs, ind, pub=True):
        out = []
        for f in fs:
            out += self.rust_docs(f["docs"], ind)
            out.append("%s%s%s%s: %s," % (ind, "pub " if pub else "", "r#" if f["raw"] else "", f["name"],
                                           f["ty"]["rust"]))
        return out

    def rust_decl(self, d):
        L = self.rust_docs(d["docs"], "")
        der = {"type": "Type", "custom": "CustomType", "error": "ReplyError"}[d["derive"]]
        L.append("#[derive(%s)]" % der)
        if d["crate_attr"]:
            L.append('#[zlink(crate = "%s")]' % d["crate_attr"])
        lt = "<'a>" if d["lt"] else ""
        if d["body"] == "struct":
            L.append("pub struct %s%s {" % (d["rname"], lt))
            L += self.rust_fields(d["fields"], "    ")
            L.append("}")
        elif d["body"] == "unit":
            L.append("pub struct %s;" % d["rname"])
        else:
            L.append("pub enum %s%s {" % (d["rname"], lt))
            for v in d["variants"]:
                L += self.rust_docs(v["docs"], "    ")
                nm = ("r#" if v["raw"] else "") + v["name"]
                if v["kind"] == "unit":
                    L.append("    %s," % nm)
                elif v["kind"] == "named":
                    L.append("    %s {" % nm)
                    L += self.rust_fields(v["fields"], "        ", pub=False)
                    L.append("    },")
                else:
                    L.append("    %s(%s)," % (nm, v["ty"]["rust"]))
            L.append("}")
        return "\n".join(L)


def gen_corpus(ck, rows):
    """-> (gen, bins) where bins = [{name, decls:[ids], ifaces:[...]}]."""
    rng = ck.rng
    g = Gen(rng, rows)
    quick = ck.tier == "quick"
    nbins = 8 if quick else 32
    per_bin = 40 if quick else 150
    bins = []
    leaves = list(g.leaves)
    ctors = list(g.ctors)
    # every row of the table is forced into some field at least once (round-robin over the bins)
    forced_all = [("leaf", l) for l in leaves] + [("ctor", c) for c in ctors]
    for b in range(nbins):
        pool, ids = [], []
        mine = forced_all[b::nbins]
        while mine:
            k = min(len(mine), rng.choice([2, 3, 4, 6]))
            d = g.decl(rng.choice(["type", "type", "custom"]), "struct", pool, forced=mine[:k], nfields=k)
            mine = mine[k:]
            pool.append(d)
            ids.append(d["id"])
        while len(ids) < per_bin:
            r = rng.random()
            if r < 0.40:
                d = g.decl("type", "struct", pool)
            elif r < 0.45:
                d = g.decl(rng.choice(["type", "custom"]), "unit", pool)
            elif r < 0.55:
                d = g.decl("type", "enum", pool, allow_raw=True)
            elif r < 0.72:
                d = g.decl("custom", "struct", pool)
            elif r < 0.82:
                d = g.decl("custom", "enum", pool, allow_raw=True)
            else:
                d = g.decl("error", "enum", pool, allow_raw=False)
            if d["derive"] != "error":
                pool.append(d)
            ids.append(d["id"])
        bins.append({"name": "c16b%d" % b, "decls": ids, "ifaces": [], "isolated": False})
    # declarations with raw-identifier FIELDS, one per binary (a failing derive must not take the
    # rest of the corpus down)
    for k in range(3 if quick else 8):
        pool = []
        d = None
        while d is None or not d["has_raw_field"]:
            if d is not None:
                g.decls.pop()
            kind = rng.choice(["type", "custom", "error"])
            d = g.decl(kind, "enum" if kind == "error" else "struct", pool, allow_raw=True)
        bins.append({"name": "c16r%d" % k, "decls": [d["id"]], "ifaces": [], "isolated": True})
    # field names that meet the names the derives invent for their own statics (one static per field, named
    # after the field in upper case, next to a slice called FIELD_REFS): a field called `refs`, two fields
    # that differ only in case; one declaration per binary
    k = 0
    for names in (["refs", "count"], ["id", "ID"], ["field_refs", "Refs"]):
        for kind in ("type", "custom", "error"):
            g.names_override = names
            d = g.decl(kind, "enum" if kind == "error" else "struct", [], nfields=2)
            g.names_override = None
            if kind == "error" and not any(v.get("fields") for v in d["variants"]):
                g.decls.pop()
                continue
            bins.append({"name": "c16h%d" % k, "decls": [d["id"]], "ifaces": [], "isolated": True})
            k += 1
    # interfaces assembled from derived descriptions
    byid = {d["id"]: d for d in g.decls}
    for b in bins:
        ds = [byid[i] for i in b["decls"]]
        customs = [d for d in ds if d["derive"] == "custom"]
        objs = [d for d in ds if d["derive"] == "type" and d["body"] in ("struct", "unit")]
        errs = [d for d in ds if d["derive"] == "error"]
        n_if = 1 if b["isolated"] else (6 if quick else 20)
        for j in range(n_if):
            it = {"id": "%s.i%d" % (b["name"], j), "name": "org.example.%s.I%d" % (b["name"], j),
                  "docs": [x["text"] for x in g.docs(True) if "\t" not in x["text"] and "\n" not in x["text"]],
                  "types": [d["id"] for d in rng.sample(customs, min(len(customs), rng.choice([0, 1, 2, 3])))],
                  "methods": [], "errors": rng.choice(errs)["id"] if errs and rng.random() < 0.7 else None}
            for m in range(rng.choice([0, 1, 2, 3]) if objs else 0):
                it["methods"].append({"name": rng.choice(["Get", "Set", "List", "Do"]) + rng.choice(WORDS).capitalize()
                                      + str(m), "in": rng.choice(objs)["id"], "out": rng.choice(objs)["id"],
                                      "docs": [x["text"] for x in g.docs(True) if "\t" not in x["text"] and "\n" not in x["text"]]})
            b["ifaces"].append(it)
    return g, bins



EXPORT_KEYS = ("id", "derive", "body", "rname", "lt", "rust", "coq", "users", "has_raw", "expect_fail")


def export_decl(d):
    return {k: d.get(k) for k in EXPORT_KEYS}


def closure(byid, ids):
    """ids plus the declarations they use, in definition order."""
    need = set()
    for i in ids:
        need.add(i)
        need.update(byid[i].get("users") or [])
    return [byid[i] for i in sorted(need)]


def mini_bins(ck, path_or_obj, prefix, next_id):
    """Bins from mini corpora ({"decls": [...], "iface": {...}|None} per line): the regression corpus
    and replay files. Declaration ids are renumbered from next_id."""
    objs = []
    if isinstance(path_or_obj, dict):
        objs = [path_or_obj]
    elif os.path.exists(path_or_obj):
        objs = [json.loads(l) for l in open(path_or_obj) if l.strip() and not l.startswith("#")]
    bins, decls = [], []
    for k, o in enumerate(objs):
        remap = {}
        ids = []
        for d in o["decls"]:
            d = dict(d)
            remap[d["id"]] = next_id
            d["id"] = next_id
            next_id += 1
            d["users"] = [remap[u] for u in d.get("users") or []]
            if SPLIT_DOC_LINES[0] and d.get("coq_if_split"):
                d["coq"] = d["coq_if_split"]
            d.setdefault("has_raw", False)
            d.setdefault("docs", [])
            d["mini"] = True
            decls.append(d)
            ids.append(d["id"])
        b = {"name": "%s%d" % (prefix, k), "decls": ids, "ifaces": [], "isolated": len(ids) == 1,
             "expect_fail": any(d.get("expect_fail") for d in o["decls"])}
        it = o.get("iface")
        if it:
            it = dict(it)
            it["id"] = "%s.i0" % b["name"]
            it["types"] = [remap[t] for t in it.get("types", [])]
            it["errors"] = remap[it["errors"]] if it.get("errors") is not None else None
            it["methods"] = [dict(m, **{"in": remap[m["in"]], "out": remap[m["out"]]}) for m in it.get("methods", [])]
            it.setdefault("docs", [])
            b["ifaces"].append(it)
        bins.append(b)
    return bins, decls, next_id


def negative_cases():
    """Declarations the derives must reject (the model says: compile error)."""
    fld = '{| fd_name := id_ "a"; fd_ty := RLeaf L_u8; fd_docs := [] |}'
    obj = ('{| d_name := id_ "NegP"; d_docs := []; d_body := DStruct [%s] |}' % fld)
    cases = [
        ("type", "struct", "pub struct NegT1(pub u8, pub String);",
         '(DTupleStruct [RLeaf L_u8; RLeaf L_String])', "NegT1"),
        ("custom", "struct", "pub struct NegT2(pub u8);", '(DTupleStruct [RLeaf L_u8])', "NegT2"),
        ("type", "enum", "pub enum NegT3 { A, B(u8) }",
         '(DEnum [{| vd_name := id_ "A"; vd_docs := []; vd_body := VUnit |}; '
         '{| vd_name := id_ "B"; vd_docs := []; vd_body := VTuple [RLeaf L_u8] |}])', "NegT3"),
        ("custom", "enum", "pub enum NegT4 { A { a: u8 } }",
         '(DEnum [{| vd_name := id_ "A"; vd_docs := []; vd_body := VNamed [%s] |}])' % fld, "NegT4"),
        ("error", "enum", "pub enum NegT5 { A(u8, u8) }",
         '(DEnum [{| vd_name := id_ "A"; vd_docs := []; vd_body := VTuple [RLeaf L_u8; RLeaf L_u8] |}])', "NegT5"),
        ("error", "enum", "pub enum NegT6 { A(String) }",
         '(DEnum [{| vd_name := id_ "A"; vd_docs := []; vd_body := VTuple [RLeaf L_String] |}])', "NegT6"),
        ("error", "struct", "pub struct NegT7 { pub a: u8 }", '(DStruct [%s])' % fld, "NegT7"),
        ("type", "struct", "pub struct NegT8 { pub a: (u8, u8) }",
         '(DStruct [{| fd_name := id_ "a"; fd_ty := RUnsupported; fd_docs := [] |}])', "NegT8"),
        ("type", "struct", "pub struct NegT9 { pub a: std::collections::HashMap<u32, String> }",
         '(DStruct [{| fd_name := id_ "a"; fd_ty := RUnsupported; fd_docs := [] |}])', "NegT9"),
    ]
    out = []
    for k, (derive, body, rust, cbody, nm) in enumerate(cases):
        der = {"type": "Type", "custom": "CustomType", "error": "ReplyError"}[derive]
        out.append({"decls": [{"id": 0, "derive": derive, "body": body, "rname": nm, "lt": False,
                               "rust": "#[derive(%s)]\n%s" % (der, rust),
                               "coq": '{| d_name := id_ "%s"; d_docs := []; d_body := %s |}' % (nm, cbody),
                               "users": [], "expect_fail": True}]})
    return out


def rust_bin(byid, b):
    L = ["// GENERATED by checks/c16.py — corpus binary %s" % b["name"],
         "#![allow(dead_code, non_camel_case_types, non_snake_case, unused_imports, unused_variables)]",
         '#[path = "../dump.rs"]', "mod dump;",
         "use serde_json::json;", "use zlink::{idl, introspect::{CustomType, ReplyError, Type}};", ""]
    lines = {}
    for i in b["decls"]:
        d = byid[i]
        start = len(L) + 1
        L += d["rust"].split("\n")
        lines[i] = (start, len(L))
        L.append("")

    def path(d):
        return d["rname"] + ("<'static>" if d["lt"] else "")

    def cmts(cs):
        return "&[%s]" % ", ".join('&idl::Comment::new("%s")' % c.replace("\\", "\\\\").replace('"', '\\"') for c in cs)
    for it in b["ifaces"]:
        k = it["id"].replace(".", "_").upper()
        ms = []
        for m in it["methods"]:
            ms.append("        &idl::Method::new(\"%s\", <%s as Type>::TYPE.as_object().unwrap().as_borrowed().unwrap(), "
                      "<%s as Type>::TYPE.as_object().unwrap().as_borrowed().unwrap(), %s)," % (
                          m["name"], path(byid[m["in"]]), path(byid[m["out"]]), cmts(m["docs"])))
        L.append("const %s: &idl::Interface<'static> = &{" % k)
        L.append("    const METHODS: &[&idl::Method<'static>] = &[")
        L += ms
        L.append("    ];")
        L.append("    idl::Interface::new(\"%s\", METHODS, &[%s], %s, %s)" % (
            it["name"], ", ".join("<%s as CustomType>::CUSTOM_TYPE" % path(byid[t]) for t in it["types"]),
            ("<%s as ReplyError>::VARIANTS" % path(byid[it["errors"]])) if it["errors"] is not None else "&[]",
            cmts(it["docs"])))
        L.append("};")
        L.append("")
    L.append("fn main() {")
    for i in b["decls"]:
        d = byid[i]
        if d["derive"] == "type":
            L.append('    println!("{}", json!({"id": %d, "type": dump::ty(<%s as Type>::TYPE)}));' % (i, path(d)))
        elif d["derive"] == "custom":
            L.append('    println!("{}", json!({"id": %d, "type": dump::ty(<%s as Type>::TYPE), '
                     '"custom": dump::custom(<%s as CustomType>::CUSTOM_TYPE)}));' % (i, path(d), path(d)))
        else:
            L.append('    println!("{}", json!({"id": %d, "variants": <%s as ReplyError>::VARIANTS.iter()'
                     '.map(|e| dump::error(e)).collect::<Vec<_>>()}));' % (i, path(d)))
    for it in b["ifaces"]:
        k = it["id"].replace(".", "_").upper()
        L.append("    {")
        L.append("        let i: &idl::Interface<'static> = %s;" % k)
        L.append("        let text = i.to_string();")
        L.append("        match idl::Interface::try_from(text.as_str()) {")
        L.append('            Ok(p) => println!("{}", json!({"iface": "%s", "text": text, "parse_ok": true, "eq": p == *i, '
                 '"orig": dump::interface(i), "parsed": dump::interface(&p)})),' % it["id"])
        L.append('            Err(e) => println!("{}", json!({"iface": "%s", "text": text, "parse_ok": false, '
                 '"err": e.to_string(), "orig": dump::interface(i)})),' % it["id"])
        L.append("        }")
        L.append("    }")
    L.append("}")
    return "\n".join(L) + "\n", lines


def render_case(d, r):
    kind = {"type": "KType", "custom": "KCustom", "error": "KError"}[d["derive"]]
    r = r or {}
    return ("{| dc_decl := %s; dc_kind := %s; dc_type := %s; dc_custom := %s; dc_variants := %s |}" % (
        d["coq"], kind, cg.cq_opt(r.get("type"), cg.cq_idl), cg.cq_opt(r.get("custom"), cg.cq_custom),
        cg.cq_opt(r.get("variants"), lambda vs: cg.cq_list([cg.cq_error(e) for e in vs]))))


def has_variant_comments(j):
    """Does a dumped interface contain an enum (custom or inline) with a commented variant?"""
    def in_ty(t):
        if isinstance(t, str):
            return False
        (k, v), = t.items()
        if k in ("opt", "arr", "map"):
            return in_ty(v)
        if k == "enum":
            return any(c for _, c in v)
        if k == "obj":
            return any(in_ty(ft) for _, ft, _ in v)
        return False
    fs = []
    for m in j["methods"]:
        fs += m["inputs"] + m["outputs"]
    for e in j["errors"]:
        fs += e["fields"]
    for c in j["types"]:
        if c["kind"] == "enum":
            if any(cs for _, cs in c["variants"]):
                return True
        else:
            fs += c["fields"]
    return any(in_ty(t) for _, t, _ in fs)


def has_nested_option(j):
    """Does a dumped interface contain ??T (Option<Option<T>>, possibly through transparent wrappers)?"""
    return '{"opt": {"opt":' in json.dumps(j)


def has_multiline_comment(j):
    """Does a dumped interface carry a comment whose text contains a line end (a block doc comment or
    #[doc = "a\\nb"] described as ONE comment)?"""
    def walk(x):
        if isinstance(x, str):
            return False
        if isinstance(x, dict):
            if "comments" in x and any("\n" in c for c in x["comments"]):
                return True
            return any(walk(v) for v in x.values())
        if isinstance(x, list):
            if len(x) in (2, 3) and isinstance(x[0], str) and isinstance(x[-1], list) and \
                    all(isinstance(c, str) for c in x[-1]) and any("\n" in c for c in x[-1]):
                return True
            return any(walk(v) for v in x)
        return False
    return walk(j)


def norm_iface(j, with_comments=True, inline_comments=True):
    """Interface JSON with comment texts stripped of leading/trailing blanks (the renderer writes
    `# ` + text and the parser drops the blanks after `#`), or without comments at all, or without the
    comments INSIDE inline types (which zlink's parser drops)."""
    def cm(cs):
        return [c.strip(" \t") for c in cs] if with_comments else []

    def ty(t):
        if isinstance(t, str):
            return t
        (k, v), = t.items()
        if k in ("opt", "arr", "map"):
            return {k: ty(v)}
        if k == "enum":
            return {k: [[n, cm(c) if inline_comments else []] for n, c in v]}
        if k == "obj":
            return {k: [[n, ty(x), cm(c) if inline_comments else []] for n, x, c in v]}
        return t

    def fl(fs):
        return [[n, ty(t), cm(c)] for n, t, c in fs]
    return {"name": j["name"], "comments": cm(j["comments"]),
            "methods": [{"name": m["name"], "inputs": fl(m["inputs"]), "outputs": fl(m["outputs"]),
                         "comments": cm(m["comments"])} for m in j["methods"]],
            "types": [dict(c, comments=cm(c["comments"]), **({"fields": fl(c["fields"])} if c["kind"] == "object"
                      else {"variants": [[n, cm(x)] for n, x in c["variants"]]})) for c in j["types"]],
            "errors": [{"name": e["name"], "fields": fl(e["fields"]), "comments": cm(e["comments"])}
                       for e in j["errors"]]}


def main():
    ck = Check(PID)
    # ---- translate
    spec = importlib.util.spec_from_file_location("type_table", os.path.join(VERIF, "translate", "type_table.py"))
    rc, out = sh([sys.executable, os.path.join(VERIF, "translate", "type_table.py")])
    ck.samples.append("translator: " + " | ".join(l for l in out.splitlines() if "row" not in l)[:600])
    rc3, out3 = sh([sys.executable, os.path.join(VERIF, "translate", "doc_split.py")])
    if rc3 != 0:
        ck.violation("translator doc_split.py: " + out3.strip()[-200:], {"log": out3}, tag="doc_split", no_input=True)
    SPLIT_DOC_LINES[0] = "split_lines=true" in out3
    tt = importlib.util.module_from_spec(spec)
    spec.loader.exec_module(tt)
    translator_ok = rc == 0
    if translator_ok:
        live, dead, rows = tt.extract()
        for r in rows:
            r["id"] = tt.coq_ident("L_" if r["kind"] == "leaf" else "C_", r["rust"])
        ck.cov["table_rows"] = {"leaves": sum(r["kind"] == "leaf" for r in rows),
                                "constructors": sum(r["kind"] == "ctor" for r in rows)}
        ck.cov["dead_files_not_read"] = dead
        ck.cov["live_files"] = live
        rc4, out4 = sh([sys.executable, os.path.join(VERIF, "translate", "field_statics.py")])
        ck.samples.append("translator: " + out4.strip()[:300])
        if rc4 != 0:
            ck.proof_ok, ck.broken, ck.proof_log = False, "translator field_statics.py: " + out4.strip()[-300:], out4
        else:
            ck.prove(["gen/TypeTable.v", "gen/FieldStatics.v", "Codegen/DeriveExec.v", "Codegen/DeriveProofs.v",
                      "Codegen/DeriveStatics.v"], "props/C16.v")
    else:
        ck.proof_ok, ck.broken, ck.proof_log = False, "translator type_table.py: " + out.strip()[-400:], out
        ck.finish(rule="translator failed; no corpus could be generated")
    if not ck.proof_ok:
        # make sure the executable model is built even when a proof no longer goes through
        ck.coq_build(["Codegen/DeriveExec.v"])

    # ---- corpus
    bins, decls = [], []
    if ck.replay:
        rp = json.load(open(ck.replay))
        if "decls" not in rp:
            ck.violation("replay file carries no declarations", {"file": ck.replay}, tag="replay", no_input=True)
            ck.finish()
        bins, decls, _ = mini_bins(ck, {"decls": rp["decls"], "iface": rp.get("iface")}, "c16p", 0)
        g = None
    else:
        g, gbins = gen_corpus(ck, rows)
        nxt = g.n
        kb, kd, nxt = mini_bins(ck, os.path.join(VERIF, "corpus", "c16.jsonl"), "c16k", nxt)
        nb, nd = [], []
        for k, o in enumerate(negative_cases()):
            b1, d1, nxt = mini_bins(ck, o, "c16n%d_" % k, nxt)
            nb += b1
            nd += d1
        bins = kb + gbins + nb
        decls = kd + g.decls + nd
    byid = {d["id"]: d for d in decls}
    files = {"src/dump.rs": cg.DUMP_RS}
    linemap = {}
    for b in bins:
        src, lines = rust_bin(byid, b)
        files["src/bin/%s.rs" % b["name"]] = src
        linemap[b["name"]] = lines
    cdir = os.path.join(ck.cachedir, "replay-crate" if ck.replay else "crate")
    cg.write_crate(cdir, "c16replay" if ck.replay else "c16corpus", DEPS, files)
    ok, log = cg.cargo_build(cdir, keep_going=True)
    results, ifres, failed_bins = {}, {}, []
    for b in bins:
        exe = os.path.join(cg.TARGET, "debug", b["name"])
        m = re.search(r"could not compile `c16\w+` \(bin \"%s\"\)" % b["name"], log)
        if m or not os.path.exists(exe):
            failed_bins.append(b)
            continue
        rc, res, out = cg.run_bin(b["name"])
        if rc != 0:
            ck.violation("corpus binary %s crashed" % b["name"], {"log": out[-2000:], "tier": ck.tier}, tag="crash_" + b["name"])
        for r in res:
            if "id" in r:
                results[r["id"]] = r
            elif "iface" in r:
                ifres[r["iface"]] = r
    unexpected = [b for b in failed_bins if not b.get("expect_fail")]
    if not ok and not failed_bins:
        ck.violation("corpus crate does not build", {"log": log[-3000:]}, tag="build", no_input=True)
        ck.finish()
    ck.ran_correspondence = True
    # culprits of failed binaries: declarations at the error locations
    culprits = set()
    for b in failed_bins:
        for m in re.finditer(r"--> src/bin/%s\.rs:(\d+):" % b["name"], log):
            ln = int(m.group(1))
            for i, (a, z) in linemap[b["name"]].items():
                if a <= ln <= z:
                    culprits.add(i)
        if b["isolated"]:
            culprits.add(b["decls"][0])
        if not any(i in culprits for i in b["decls"]):
            errs = cg.first_errors(log)
            ck.violation("corpus binary %s does not compile and no declaration could be blamed" % b["name"],
                         {"errors": errs, "log": log[-3000:], "tier": ck.tier}, tag="build_" + b["name"], no_input=True)
    items, skipped = [], 0
    for b in bins:
        for i in b["decls"]:
            if b in failed_bins and i not in culprits:
                skipped += 1
                continue
            items.append((byid[i], results.get(i)))
    try:
        bad = ck.coq_eval("cases", HEADER, items, lambda it: render_case(it[0], it[1]), per_shard=25)
    except RuntimeError as e:
        ck.violation("model evaluation failed: " + str(e)[:300], {"log": str(e)}, tag="eval", no_input=True)
        bad = {}
    nv = 0
    for idx in sorted(bad):
        d, r = items[idx]
        code = bad[idx]
        if nv >= 6:
            break
        nv += 1
        term = render_case(d, r)
        shown = ck.coq_show(HEADER, "(model_outcome (%s), spec_outcome (%s))" % (term, term))
        rp = {"decls": [export_decl(x) for x in closure(byid, [d["id"]])], "target": d["rname"],
              "decl_rust": d["rust"], "impl": r, "model_and_spec": shown[-3000:],
              "tier": ck.tier, "compile_log": log[-1500:] if r is None else ""}
        if code & 2:
            what = ("derived description differs from the declaration (%s derive, %s)" % (d["derive"], d["body"]))
            if r is None:
                what = "the %s derive fails to compile for a valid declaration" % d["derive"]
            elif d.get("expect_fail"):
                what = "the %s derive accepts a declaration it has no description for (%s)" % (
                    d["derive"], d["rust"].split("\n")[-1][:80])
            ck.violation(what, rp, tag="d_" + d["rname"])
        else:
            rp["correspondence"] = "Codegen/Derive.v vs zlink-macros/src/introspect"
            ck.violation("implementation differs from the derive model (description agrees with the spec)", rp,
                         tag="m_" + d["rname"], no_input=True)
    # ---- interfaces: render -> parse -> equal
    n_if, n_rt_ok, n_f8, n_optopt, n_comment_loss, comment_loss_sample = 0, 0, 0, 0, 0, []
    n_ml = 0
    for b in bins:
        if b in failed_bins:
            continue
        for it in b["ifaces"]:
            r = ifres.get(it["id"])
            n_if += 1
            if r is None:
                ck.violation("no round-trip result for interface " + it["id"], {"iface": it}, tag="if_missing", no_input=True)
                continue
            # equal = zlink's own PartialEq on Interface AND structural equality of names, types and
            # order (a guard against a degenerate PartialEq). Comment texts are compared too, but a
            # difference in comments alone is only counted: zlink's equality deliberately ignores
            # comments everywhere except on enum variants.
            same_struct = r["parse_ok"] and norm_iface(r["orig"], False) == norm_iface(r["parsed"], False)
            good = r["parse_ok"] and r["eq"] and same_struct
            # comments on the interface, on members and on their direct fields / parameters / variants must
            # survive (modulo surrounding blanks); comments INSIDE inline types are dropped by zlink's
            # parser (Known class of C16_interface_roundtrips) and are only counted
            top_ok = r["parse_ok"] and norm_iface(r["orig"], True, False) == norm_iface(r["parsed"], True, False)
            if good and top_ok:
                n_rt_ok += 1
                if norm_iface(r["orig"]) != norm_iface(r["parsed"]):
                    n_comment_loss += 1
                    if not comment_loss_sample:
                        comment_loss_sample.append(r["text"][:400])
                continue
            used = it["types"] + ([it["errors"]] if it["errors"] is not None else []) + \
                [m["in"] for m in it["methods"]] + [m["out"] for m in it["methods"]]
            rp = {"iface": it, "result": r, "tier": ck.tier,
                  "decls": [export_decl(x) for x in closure(byid, used)]}
            what = "interface assembled from derived descriptions does not render/parse back to an equal description: "
            what += ("parse error " + r.get("err", "")[:120]) if not r["parse_ok"] else (
                "parsed != original" if not r["eq"] else ("names, types or order differ after the round trip"
                                                          if not same_struct else "a comment is lost or changed by the round trip"))
            if has_multiline_comment(r["orig"]):
                n_ml += 1
                ck.violation(what, rp, tag="if_" + it["id"], sig=SIG_ML)
            elif has_variant_comments(r["orig"]):
                n_f8 += 1
                ck.violation(what, rp, tag="if_" + it["id"], sig=SIG_F8)
            elif has_nested_option(r["orig"]):
                n_optopt += 1
                ck.violation(what, rp, tag="if_" + it["id"], sig=SIG_OPTOPT)
            else:
                ck.violation(what, rp, tag="if_" + it["id"])
    # ---- coverage
    shapes = {}
    gdecls = g.decls if g else []
    for d in decls:
        k = "%s/%s" % (d["derive"], d["body"])
        shapes[k] = shapes.get(k, 0) + 1
    unused = [r["rust"] for r in rows if g and ((r["kind"] == "leaf" and r["rust"] not in g.leaf_uses)
              or (r["kind"] == "ctor" and r["rust"] not in g.ctor_uses))]
    nontriv = set()
    for d, r in items:
        nf = len(d.get("fields", [])) + sum(len(v.get("fields", [])) + 1 for v in d.get("variants", []))
        if nf >= 2:
            nontriv.add(case_hash(d["rust"]))
    ck.cov.update({
        "evaluations": len(items) + n_if, "distinct_nontrivial": len(nontriv), "programs": len(decls),
        "traces_validated_against_impl": len([1 for _, r in items if r is not None]),
        "corpus_binaries": len(bins), "binaries_failed_to_compile": [b["name"] for b in unexpected],
        "negative_declarations_rejected_as_the_model_says": len([b for b in failed_bins if b.get("expect_fail")]),
        "declarations_skipped_in_failed_binaries": skipped,
        "declaration_kinds": shapes, "interfaces_round_tripped": n_if, "interfaces_equal_after_round_trip": n_rt_ok,
        "interfaces_hitting_known_variant_comment_defect": n_f8,
        "interfaces_hitting_known_nested_option_defect": n_optopt,
        "interfaces_hitting_known_multiline_doc_defect": n_ml,
        "doc_attributes_split_into_lines_by_the_derive": SPLIT_DOC_LINES[0],
        "interfaces_equal_but_comments_of_inline_struct_fields_lost_by_the_parser": n_comment_loss,
        "comment_loss_sample": comment_loss_sample,
        "table_rows_never_used_in_corpus": unused,
        "field_count_histogram": {str(k): sum(1 for d in gdecls if len(d.get("fields", [])) == k and d["body"] == "struct")
                                  for k in range(7)},
        "decls_with_lifetimes": sum(1 for d in decls if d["lt"]),
        "decls_with_doc_comments": sum(1 for d in gdecls if d["docs"] or any(f["docs"] for f in d.get("fields", []))),
        "decls_with_raw_identifiers": sum(1 for d in decls if d.get("has_raw")),
    })
    for d in gdecls[:2] + gdecls[len(gdecls) // 2:len(gdecls) // 2 + 2]:
        ck.samples.append({"rust": d["rust"], "impl": results.get(d["id"])})
    ck.assumptions += [
        "the derive model Codegen/Derive.v is hand-written; its tie to zlink-macros/src/introspect is the "
        "per-declaration comparison of TYPE / CUSTOM_TYPE / VARIANTS on the generated corpus",
        "the table gen/TypeTable.v is regenerated from the live files under introspect/type/ on every run",
        "that the derives' output compiles is established by compiling the corpus (testing, not proof)",
        "C16_interface_roundtrips relies on the IDL family's models of Display and the parser (coq/Idl, theorem "
        "parse_render_normalise_wf, tied to zlink-core by C13/C14's checks); this check additionally runs the real "
        "Display/parser on every assembled interface (equality = zlink's PartialEq AND structural equality of names, "
        "types and order)",
    ]
    ck.finish(rule="a case = one generated declaration with one derive (or one assembled interface); distinct by "
                   "source text; non-trivial = at least two fields/variants")


if __name__ == "__main__":
    main()
