#!/usr/bin/env python3
"""C03 — the built-in JSON serializer is byte-identical to serde_json's compact output."""
import os, sys, json
sys.path.insert(0, os.path.join(os.path.dirname(os.path.abspath(__file__)), "..", "lib"))
from vlib import *
import sergen as sg

PID = "C03"
HEADER = "From ZV Require Import Common.Exec Ser.SerdeModel Ser.SerdeExec.\nOpen Scope N_scope.\n"
MAXV = 3            # replay files written per class of disagreement


def hx(s):
    return sg.hx(s)


def fixed_trees():
    """Every entry point alone, as a map key, and the shapes that exercise each branch of the
    Compound state machine (empty / one / two children, each kind of length hint)."""
    S = lambda s: ["s", hx(s)]
    leaves = [["b", True], ["b", False], ["i", "i8", "-128"], ["i", "u8", "255"], ["i", "i16", "-32768"],
              ["i", "u16", "65535"], ["i", "i32", "-2147483648"], ["i", "u32", "4294967295"],
              ["i", "i64", "-9223372036854775808"], ["i", "u64", "18446744073709551615"],
              ["i", "i128", str(-2**127)], ["i", "u128", str(2**128 - 1)], ["i", "i64", "0"],
              ["f32", 0x7FC00000], ["f32", 0x7F800000], ["f32", 0xFF800000], ["f32", 0x3DCCCCCD],
              ["f32", 0x80000000], ["f64", str(0x7FF8000000000000)], ["f64", str(0x7FF0000000000000)],
              ["f64", str(0xFFF0000000000000)], ["f64", str(0x3FB999999999999A)], ["f64", str(0x4341C37937E08000)],
              ["c", 0], ["c", 34], ["c", 92], ["c", 127], ["c", 0xE9], ["c", 0x20AC], ["c", 0x1F600],
              S(""), S("plain"), S("q\"b\\s/"), S("\b\f\n\r\t"), S("\x00\x01\x1f\x7f"), S("é€😀 "),
              ["y", ""], ["y", "00"], ["y", "00ff80"], ["none"], ["unit"], ["us", hx("Unit")],
              ["uv", hx("E"), 3, hx("Va\"r")],
              # Display values through collect_str, one write_str per fragment
              ["cs", []], ["cs", [hx("whole")]], ["cs", [hx("2024"), hx("-"), hx("01"), hx("-"), hx("02")]],
              ["cs", [hx("a\"b"), hx(""), hx("\n\\"), hx("é€"), hx("😀\x01")]],
              ["cs", [hx("k%02d." % i) for i in range(12)]],
              ["cs", [hx("k"), hx("a-long-fragment-of-display-text"), hx("z")]],
              # Serialize impls that consult is_human_readable(): a probe and the std::net types
              ["hr", S("human"), ["tup", 2, [["i", "u8", "1"], ["i", "u8", "2"]]]],
              ["hr", ["hr", S("hh"), ["unit"]], ["unit"]],
              ["net", "v4", "c0a80114", 0], ["net", "v6", "20010db8000000000000000000000001", 0],
              ["net", "ip4", "7f000001", 0], ["net", "ip6", "00000000000000000000ffffc0a80114", 0],
              ["net", "sa4", "0a000001", 8080], ["net", "sa6", "fe800000000000000000000000000001", 65535],
              # serde_json::Value (free-form parameters): every kind of Number, nesting, member order
              ["json", None], ["json", ["jb", True]], ["json", ["js", hx("a\"\n")]],
              ["json", ["ju", "0"]], ["json", ["ju", "10"]], ["json", ["ju", str(2**64 - 1)]],
              ["json", ["ji", "-1"]], ["json", ["ji", str(-2**63)]],
              ["json", ["jf", str(0x3FF8000000000000)]], ["json", ["jf", str(0x8000000000000000)]],
              ["json", ["jf", str(0x4341C37937E08000)]], ["json", ["jf", str(0x3EB0C6F7A0B5ED8D)]],
              ["json", ["ja", []]], ["json", ["jo", []]],
              ["json", ["ja", [["ju", "1"], None, ["ji", "-2"], ["jf", str(0x3FB999999999999A)]]]],
              ["json", ["jo", [[hx("b"), ["ju", "10"]], [hx("a"), ["ja", [["ju", "1"]]]], [hx("b"), ["ji", "-7"]],
                               [hx("é"), ["jo", [[hx("n"), ["jf", str(0x400921FB54442D18)]]]]]]]],
              # the struct names serde_json's own serializer treats as magic tokens when its
              # arbitrary_precision / raw_value features are on: plain structs for both otherwise
              ["st", hx("$serde_json::private::Number"), 1, [[hx("$serde_json::private::Number"), S("10")]]],
              ["st", hx("$serde_json::private::RawValue"), 1, [[hx("$serde_json::private::RawValue"), S("[1, 2]")]]]]
    out = list(leaves)
    for l in leaves:
        out.append(["map", 1, [[l, ["unit"]]]])
        out.append(["map", None, [[["ns", hx("N"), l], ["b", True]], [S("z"), ["none"]]]])
        out.append(["some", l])
        out.append(["ns", hx("N"), l])
        out.append(["nv", hx("E"), 1, hx("V"), l])
    one, two = [["i", "u8", "1"]], [["i", "u8", "1"], S("x")]
    f1, f2 = [[hx("a"), ["i", "u8", "1"]]], [[hx("a"), ["i", "u8", "1"]], [hx("b\n"), S("x")]]
    k1, k2 = [[S("a"), ["i", "u8", "1"]]], [[S("a"), ["i", "u8", "1"]], [["i", "i8", "-1"], S("x")]]
    for es, fs, ks in (([], [], []), (one, f1, k1), (two, f2, k2)):
        n = len(es)
        for h in (None, n, 0, n + 1):
            out.append(["seq", h, es])
            out.append(["map", h, ks])
            if h is not None:
                out.append(["tup", h, es])
                out.append(["ts", hx("T"), h, es])
                out.append(["tv", hx("E"), 2, hx("Tv"), h, es])
                out.append(["st", hx("S"), h, fs])
                out.append(["sv", hx("E"), 2, hx("Sv"), h, fs])
    # nesting of every compound inside every compound position
    inner = [["seq", 1, one], ["tup", 0, []], ["map", 1, k1], ["st", hx("S"), 1, f1], ["tv", hx("E"), 0, hx("V"), 2, two],
             ["sv", hx("E"), 0, hx("V"), 2, f2], ["nv", hx("E"), 0, hx("V"), ["seq", None, []]]]
    for a in inner:
        out.append(["seq", 2, [a, a]])
        out.append(["map", 2, [[S("k"), a], [S("l"), a]]])
        out.append(["st", hx("S"), 2, [[hx("f"), a], [hx("g"), a]]])
        out.append(["sv", hx("E"), 0, hx("V"), 2, [[hx("f"), a], [hx("g"), a]]])
        out.append(["tv", hx("E"), 0, hx("V"), 2, [a, a]])
        out.append(["map", 1, [[a, ["unit"]]]])          # compound as a key: refused
        out.append(["map", 2, [[S("ok"), a], [["b", False], a]]])   # bad key after output was produced
    return out


def gen_cases(ck):
    rng = ck.rng
    g = sg.Gen(rng)
    quick = ck.tier == "quick"
    cases = []

    def add(v, tag, sweep="all", send="auto", cont=None, extra=None):
        c = {"id": len(cases), "v": v, "sweep": sweep, "send": send, "cont": cont, "tag": tag}
        if extra:
            c.update(extra)
        cases.append(c)

    corpus = os.path.join(VERIF, "corpus", "c03.jsonl")
    if os.path.exists(corpus):
        for line in open(corpus):
            if line.strip():
                c = json.loads(line)
                add(c["v"], "corpus", c.get("sweep", "all"), c.get("send", "auto"), c.get("cont"))
    for i, v in enumerate(fixed_trees()):
        add(v, "fixed", send="all" if i % 23 == 0 else "auto", cont=[None, True, False][i % 3])
    # random trees of serializer calls, acceptable keys only
    for i in range(4500 if quick else 60000):
        v = g.tree(rng.choice([1, 2, 2, 3, 3, 4]), 0.0, rng.choice([2, 3, 4, 6]))
        if sg.size(v) > 60:
            continue
        add(v, "tree", send="all" if i % 400 == 0 else "auto", cont=rng.choice([None, None, True, False]),
            extra={"pad": rng.randrange(0, 600)})
    # stratified sample of Unicode scalars through the model: as char, as 1-char string, inside a
    # longer string, as map key and as field name
    edges = [0, 0x20, 0x7F, 0x80, 0x7FF, 0x800, 0xD7FF, 0xE000, 0xFFFF, 0x10000, 0x10FFFF]
    for i in range(160 if quick else 2500):
        cps = []
        for _ in range(48):
            x = rng.random()
            if x < 0.2:
                c = rng.choice(edges) + rng.choice([-2, -1, 0, 1, 2])
            elif x < 0.4:
                c = rng.randrange(0, 0x80)
            elif x < 0.6:
                c = rng.randrange(0x80, 0x800)
            elif x < 0.8:
                c = rng.randrange(0x800, 0x10000)
            else:
                c = rng.randrange(0x10000, 0x110000)
            if 0 <= c < 0x110000 and not 0xD800 <= c < 0xE000:
                cps.append(c)
        shape = i % 4
        if shape == 0:
            v = ["seq", len(cps), [["c", c] for c in cps]]
        elif shape == 1:
            v = ["tup", len(cps), [["s", hx(chr(c))] for c in cps]]
        elif shape == 2:
            v = ["map", None, [[["c", c] if j % 2 else ["s", hx("k" + chr(c))], ["s", hx(chr(c) + "." + chr(c))]]
                               for j, c in enumerate(cps)]]
        else:
            v = ["st", hx("S"), len(cps), [[hx(chr(c) + "f"), ["uv", hx("E"), 0, hx(chr(c))]] for c in cps]]
        g.stats["scalars_through_model"] = g.stats.get("scalars_through_model", 0) + len(cps)
        add(v, "scalars", sweep="boundary", send="auto" if i % 8 == 0 else None)
    # the malformed stream: trees with unacceptable keys somewhere
    for i in range(1200 if quick else 15000):
        v = g.tree(rng.choice([0, 1, 2, 3, 3]), rng.choice([0.0, 0.15, 0.4]), rng.choice([2, 3, 4]))
        v = sg.inject_bad_key(g, v)
        if sg.size(v) > 60:
            continue
        add(v, "badkey_tree", cont=rng.choice([None, True]))
    if not quick:
        for i in range(250000):
            v = g.tree(rng.choice([2, 3, 3, 4, 5]), rng.choice([0.0, 0.0, 0.1]), rng.choice([2, 3, 4, 6]))
            if sg.size(v) > 150:
                continue
            add(v, "tree_rust_only", sweep="boundary", send="auto" if i % 4 == 0 else None,
                cont=rng.choice([None, True]), extra={"nomodel": True})
    # large values: output sizes around multiples of the 256-byte growth step (and its hook limit)
    sizes = [256 * m + d for m in ((1, 2, 3) if quick else range(1, 13)) for d in (-12, -3, -2, -1, 0, 1, 2, 3)]
    for sz in sizes:
        for kind in ("str", "seq", "bytes", "nested"):
            body = max(0, sz - rng.choice([2, 16, 17, 18, 40]))
            if kind == "str":
                s = "".join(rng.choice(["a", "b", "\n", "\"", "é", "\x01", "😀"]) for _ in range(body))
                v = ["s", hx(s[:body])]
            elif kind == "seq":
                v = ["seq", body // 2, [["i", "u8", str(rng.randrange(10))] for _ in range(body // 2)]]
            elif kind == "bytes":
                v = ["y", bytes(rng.randrange(256) for _ in range(body // 3)).hex()]
            else:
                v = ["st", hx("Big"), 2, [[hx("name"), ["s", hx("x" * (body // 2))]],
                                          [hx("items"), ["seq", None, [g.tree(1) for _ in range(body // 24)]]]]]
            add(v, "large", sweep="boundary", extra={"ns": [rng.randrange(0, 4096) for _ in range(6)],
                                                     "pad": rng.randrange(0, 600)})
    return cases, g


def job_cases(ck, first_id):
    quick = ck.tier == "quick"
    seed = ck.rng.randrange(1, 2**31)
    jobs = []

    def add(j):
        j["id"] = first_id + len(jobs)
        jobs.append(j)
    step = 0x110000 // 32
    for i in range(32):
        add({"job": "unicode", "lo": i * step, "hi": (i + 1) * step})
    add({"job": "pairs"})
    add({"job": "ints16"})
    add({"job": "collect"})
    add({"job": "json", "seed": seed + 60, "n": 400 if quick else 40000})
    add({"job": "net", "seed": seed + 50, "n": 3000 if quick else 300000})
    for i in range(4 if quick else 16):
        add({"job": "intswide", "seed": seed + i, "n": 20000 if quick else 1000000})
    if quick:
        for i in range(8):
            add({"job": "f32", "lo": i * 2**29, "hi": (i + 1) * 2**29, "step": 1021, "edges": i == 0,
                 "seed": seed + 100 + i, "n": 100000})
        for i in range(8):
            add({"job": "f64", "seed": seed + 200 + i, "n": 60000})
    else:
        for i in range(256):
            add({"job": "f32", "lo": i * 2**24, "hi": (i + 1) * 2**24, "step": 1, "edges": i == 0,
                 "seed": seed + 100, "n": 1000000})
        for i in range(32):
            add({"job": "f64", "seed": seed + 200 + i, "n": 2000000})
    return jobs


def minimise(ck, case, still_fails):
    """Smallest value-position subtree of a failing tree on which the two implementations still
    disagree (one extra harness run over all subtrees); the original case if none does."""
    subs = sorted(sg.subtrees(case["v"]), key=sg.size)[:400]
    cands = [dict(case, id=i, v=t) for i, t in enumerate(subs)]
    try:
        res = ck.harness_run("ser", cands)
    except Exception:
        return case
    for c, r in zip(cands, res):
        if still_fails(r):
            return dict(c, id=case["id"], minimised_from=case["v"])
    return case


def frames_summary(r):
    """(kind, frame_hex, problem): kind 0 = not run, 1 = one frame at every free space, 2 = refused"""
    fr = r.get("frames")
    if fr is None:
        return 0, "", None
    # BufferOverflow is the documented outcome when what is already enqueued plus this frame and
    # its terminator exceed the (hook-lowered) buffer limit; those runs say nothing about encoding
    sf = r.get("serde_frame")
    if sf is not None:
        need = len(sf) // 2 + 1
        fr = [f for f in fr if not (f["st"] == "err:overflow" and f["pad"] + need > r.get("limit", 0))]
    if not fr:
        return 0, "", None
    sts = set(f["st"] for f in fr)
    if sts == {"ok"}:
        fs = set(f["frame"] for f in fr)
        if len(fs) != 1:
            return 1, fr[0]["frame"], "frames differ between initial free-space values"
        return 1, fr[0]["frame"], None
    if sts == {"err:json"}:
        return 2, "", None
    return 0, "", "send path results: %s" % sorted(sts)


def ranges(sweep):
    """[(n, code)] -> [(lo, hi, code)] over maximal runs of consecutive n with the same code"""
    out = []
    for n, k in sweep:
        if out and out[-1][2] == k and out[-1][1] + 1 == n:
            out[-1][1] = n
        else:
            out.append([n, n, k])
    return out


def wrap_text(out_hex, cont):
    t = b'{"parameters":' + bytes.fromhex(out_hex)
    if cont is not None:
        t += b',"continues":' + (b"true" if cont else b"false")
    return (t + b"}").hex()


def render_case(c, r):
    kind, frame, _ = frames_summary(r)
    cont = c.get("cont")
    out, serde = r.get("out"), r.get("serde")
    sk, sx = (0, "") if serde is None else ((1, "") if serde == out else (2, serde))
    fx = ""
    if kind == 1:
        if out is not None and frame == wrap_text(out, cont):
            kind = 1
        else:
            kind, fx = 3, frame
    return ("{| sc_v := %s; sc_sweep := [%s]; sc_out := %s; sc_serde := %d; sc_serde_x := %s; "
            "sc_send := %d; sc_cont := %s; sc_frame_x := %s |}") % (
        sg.coq_sval(c["v"], r.get("ftoks", {})),
        "; ".join("(%d, %d, %d)" % (lo, hi, k) for lo, hi, k in ranges(r["sweep"])),
        sg.copt(out), sk, sg.cb(sx), kind,
        "None" if cont is None else "(Some %s)" % ("true" if cont else "false"),
        sg.cb(fx))


def main():
    ck = Check(PID)
    phases, t_last = {}, [time.time()]

    def phase(name):
        now = time.time()
        phases[name] = round(now - t_last[0], 1)
        t_last[0] = now
    rc, out = sh([sys.executable, os.path.join(VERIF, "translate", "escape.py")])
    if rc != 0:
        ck.proof_ok, ck.broken, ck.proof_log = False, "translator escape.py: " + out.strip()[-400:], out
        ck.obligations += 1
    else:
        ck.samples.append("translated: " + out.strip()[:400])
        ck.prove(["gen/Escape.v", "Ser/SerdeExec.v", "Ser/SerdeProofs.v"], "props/C03.v")

    phase("translate+prove")
    if ck.replay:
        rp = json.load(open(ck.replay))
        cases = [rp["case"]] if "case" in rp else []
        for i, c in enumerate(cases):
            c["id"] = i
        jobs, gen = [], None
    else:
        cases, gen = gen_cases(ck)
        jobs = job_cases(ck, len(cases))

    phase("generate")
    ok, log = ck.harness_build(["ser"])
    if not ok:
        ck.violation("harness does not build against /repo", {"log": log[-3000:]}, tag="build", no_input=True)
        ck.finish()
    results = ck.harness_run("ser", cases)
    jres = ck.harness_run("ser", jobs, timeout=3000, shards=16) if jobs else []
    ck.ran_correspondence = True
    phase("harness")

    counts = {"panic": 0, "direct": 0, "send": 0, "spec": 0, "model": 0, "ref": 0, "job": 0}

    def viol(cls, what, obj, tag, **kw):
        counts[cls] += 1
        if counts[cls] <= MAXV:
            ck.violation(what, obj, tag=tag, **kw)

    # ---- Rust-vs-Rust sweeps (no model involved)
    swept = {}
    for j, r in zip(jobs, jres):
        if r.get("panic") or r.get("crash"):
            viol("job", "sweep %s panicked/crashed: %s" % (j["job"], r.get("msg", r.get("log", ""))[:200]),
                 {"job": j, "impl": r}, "job%d" % j["id"], no_input=True)
            continue
        swept[j["job"]] = swept.get(j["job"], 0) + r["count"]
        swept[j["job"] + ":refused"] = swept.get(j["job"] + ":refused", 0) + r["refused"]
        swept[j["job"] + ":null"] = swept.get(j["job"] + ":null", 0) + r["nulls"]
        for f in r["fails"]:
            viol("job", "%s sweep: %s" % (j["job"], f["why"]),
                 {"case": {"v": f["v"], "sweep": "all", "send": "auto", "cont": None, "tag": "sweep:" + j["job"]},
                  "why": f["why"]}, "s%d_%d" % (j["id"], counts["job"]))

    # ---- tree cases: direct differential first
    items = []
    tokbad = rust_only = 0
    hist_extra = {}
    for c, r in zip(cases, results):
        if r.get("panic") or r.get("crash"):
            viol("panic", "serializer/harness panicked or crashed on a value: %s" % r.get("msg", "")[:200],
                 {"case": c, "impl": r}, "panic%d" % c["id"])
            continue
        if not r["direct"]:
            cm = c
            if counts["direct"] < MAXV and not ck.replay:
                cm = minimise(ck, c, lambda x: x.get("direct") is False or x.get("panic"))
            viol("direct", "to_slice output differs from serde_json::to_vec on the same value",
                 {"case": cm, "impl": r if cm is c else None, "original_case": c}, "d%d" % c["id"])
        kind, frame, problem = frames_summary(r)
        if problem:
            viol("send", "send_reply: " + problem, {"case": c, "impl": r}, "f%d" % c["id"])
        elif kind == 1 and frame != r.get("serde_frame"):
            viol("send", "frame written by send_reply differs from serde_json::to_vec(&Reply)",
                 {"case": c, "impl": r}, "f%d" % c["id"])
        tokbad += len(sg.float_roundtrips(r.get("ftoks", {})))
        if c.get("nomodel"):
            rust_only += 1
            hist_extra[c["tag"]] = hist_extra.get(c["tag"], 0) + 1
        else:
            items.append((c, r))
    if tokbad:
        ck.violation("a float token written by serde_json/ryu does not read back as the same float "
                     "(%d tokens); the model's assumption about ryu is broken" % tokbad, {}, tag="ryu", no_input=True)

    # ---- model and specification, evaluated inside Coq on the same cases
    bad = {}
    try:
        bad = ck.coq_eval("cases", HEADER, items, lambda it: render_case(it[0], it[1]), per_shard=120)
        evaluated = len(items)
    except RuntimeError as e:
        evaluated = 0
        if getattr(ck, "proof_ok", True):
            ck.violation("model evaluation failed: " + str(e)[:300], {"log": str(e)}, tag="eval", no_input=True)
        else:
            ck.notes.append("model not evaluated (the Coq development does not build): " + str(e)[:200])
    for idx in sorted(bad):
        c, r = items[idx]
        code = bad[idx]
        shown = None
        if counts["spec"] + counts["model"] + counts["ref"] < 3 * MAXV:
            shown = ck.coq_show(HEADER, "show (%s)" % render_case(c, r))
        obj = {"case": c, "impl": r, "code": code, "model_and_spec": shown,
               "legend": "code bit0 impl<>model, bit1 impl<>spec, bit2 serde_json<>ref_enc; sweep codes: "
                         "0 ok 1 too-small 2 key-must-be-a-string 3 ok-with-other-bytes"}
        if code & 2:
            viol("spec", "serializer result violates the specification (reference bytes / buffer "
                 "contract / clean bytes / bad keys refused) on a value of class %s" % c["tag"],
                 obj, "c%d" % c["id"])
        elif code & 1:
            obj["correspondence"] = "Ser/SerdeModel.v zser vs zlink_core::verif::to_slice and send_reply"
            viol("model", "implementation differs from the serializer model (results satisfy the spec)",
                 obj, "m%d" % c["id"], no_input=True)
        if code & 4:
            obj["correspondence"] = "Ser/SerdeModel.v ref_enc vs serde_json::to_vec"
            viol("ref", "serde_json differs from the reference encoder", obj, "r%d" % c["id"], no_input=True)

    phase("coq_eval")
    # ---- coverage
    hashes, nontriv, hist = set(), set(), {}
    n_sweep = n_frames = n_badkey = n_refused = n_lying = 0
    for c, r in items:
        h = case_hash(c["v"])
        hashes.add(h)
        if sg.size(c["v"]) >= 3:
            nontriv.add(h)
        hist[c["tag"]] = hist.get(c["tag"], 0) + 1
        n_sweep += len(r["sweep"])
        n_frames += len(r.get("frames") or [])
        n_badkey += 1 if sg.has_bad_key(c["v"]) else 0
        n_refused += 1 if r.get("top") == "key" else 0
    ck.cov.update({
        "evaluations": len(items) + rust_only + sum(v for k, v in swept.items() if ":" not in k),
        "distinct_nontrivial": len(nontriv),
        "traces_validated_against_impl": evaluated,
        "tree_cases": len(items), "distinct_trees": len(hashes), "case_classes": hist,
        "trees_compared_rust_vs_rust_only": hist_extra,
        "to_slice_runs_in_buffer_sweeps": n_sweep, "send_reply_frames": n_frames,
        "trees_with_unacceptable_key": n_badkey, "trees_refused_by_zlink": n_refused,
        "rust_vs_rust_sweeps": swept,
        "generator_distribution": dict(sorted(gen.stats.items())) if gen else {},
        "disagreements": counts, "phase_seconds": phases,
    })
    for c, r in items[:2] + items[len(items) // 2: len(items) // 2 + 3]:
        ck.samples.append({"v": c["v"], "tag": c["tag"], "out": bytes.fromhex(r["out"]).decode("utf-8", "replace")[:120]
                           if r.get("out") else None, "sizes_tried": len(r["sweep"])})
    ck.assumptions += [
        "the text of a finite float (ryu::Buffer::format_finite) is an opaque token in the model; both "
        "serializers call ryu, the float leg is the direct Rust-vs-Rust sweep; each token seen is checked to "
        "read back as the same float",
        "integers: the model's decimal formatter (proved correct) stands for itoa; tied by the exhaustive "
        "i8/u8/i16/u16 and boundary/random wider sweeps",
        "the model is hand-written (Ser/SerdeModel.v); its tie to json_ser.rs is the escape-table translator plus "
        "the correspondence on generated call trees at every buffer size 0..len+1 and through send_reply",
        "strings handed to the real serializer are valid UTF-8 (a Rust &str); the theorems also cover "
        "arbitrary bytes",
    ]
    ck.finish(rule="a case = one tree of serde Serializer calls (plus the buffer sizes / initial free space "
                   "tried); distinct by hash of the tree; non-trivial = at least three serializer calls; "
                   "sweep evaluations are single values compared Rust-vs-Rust")


if __name__ == "__main__":
    main()
