#!/usr/bin/env python3
"""C10 — streaming replies are delivered in order and the connection resumes afterwards."""
import os, sys, json
sys.path.insert(0, os.path.join(os.path.dirname(os.path.abspath(__file__)), "..", "lib"))
from vlib import *
import servergen as sg

PID = "C10"


def client(rng, tags, cid, nsub, nplain_before, nplain_behind, lengths, ending, split, mores=None):
    """A client mixing streaming calls with plain calls before/behind them.
    Returns (arrival sequence, stream-event sequence, number of writes per call)."""
    frames, sevs = [], []
    for _ in range(nplain_before):
        frames.append(sg.call(rng.choice(["Echo", "Count", "Fail"]), cid, tags.next(), v=rng.randrange(0, 1000),
                              oneway=rng.random() < 0.1, more=rng.choice([False, False, True])))
    for j in range(nsub):
        # whether the answer is a stream is the service's decision: the flag is absent, false or true
        sub_ow = (not mores) and rng.random() < 0.15
        frames.append(sg.call("Sub", cid, tags.next(), more=mores[j] if mores else rng.choice(sg.MORE),
                              oneway=sub_ow, upgrade=rng.choice([False, False, True, "false"]),
                              shuffle=rng if rng.random() < 0.2 else None))
        if sub_ow:
            # the stream is thrown away: what is queued for it goes to the next stream of this client
            for _ in range(nplain_behind):
                frames.append(sg.call(rng.choice(["Echo", "Count"]), cid, tags.next(), v=3))
            continue
        n = lengths[j]
        for i in range(n):
            # the service decides the flag: usually continues=true and false on the last item
            flag = 2 if (i == n - 1 and rng.random() < 0.7) else rng.choice([1, 1, 0])
            sevs.append(["si", cid, rng.randrange(0, 1000), flag])
        if ending[j]:
            sevs.append(["se", cid])
        for _ in range(nplain_behind):
            frames.append(sg.call(rng.choice(["Echo", "Count", "Fail", "Ping"]), cid, tags.next(),
                                  v=rng.randrange(0, 1000), oneway=rng.random() < 0.1,
                                  more=rng.choice([False, False, True, "false"]),
                                  upgrade=rng.choice([False, False, False, True, "false"]),
                                  shuffle=rng if rng.random() < 0.2 else None))
    stream = sg.wire(frames)
    if split == "one_burst":
        cuts = []
    elif split == "per_frame":
        cuts, p = [], 0
        for f in frames:
            p += len(f) + 1
            cuts.append(p)
    else:
        cuts = [rng.randrange(1, len(stream)) for _ in range(rng.randrange(1, 4))] if len(stream) > 1 else []
    return [["n", cid]] + [["a", cid, ch.hex()] for ch in sg.cut(stream, cuts)], sevs


def without_fw(script):
    return [e for e in script if e[0] != "fw"]


def gen_cases(ck):
    rng = ck.rng
    quick = ck.tier == "quick"
    cases = sg.load_corpus("c10.jsonl")

    def add(script, hyp, tag, info, failing=None):
        cases.append({"script": script, "hyp": hyp, "tag": tag, "info": info, "failing": failing or []})
        if failing:
            cases.append({"script": without_fw(script), "hyp": hyp + failing, "tag": tag + "_nofail",
                          "info": info, "pair": len(cases) - 1, "failing": failing})

    # (a) one connection: every stream length 0..4, ending or not, plain calls before/behind,
    #     pipelined in one burst or frame by frame; all interleavings of arrivals and stream events
    for n in range(0, 5):
        for ending in (True, False):
            for before, behind in ((0, 0), (1, 0), (0, 2), (1, 1)):
                for split in ("one_burst", "per_frame"):
                    tags = sg.Tags()
                    more = sg.MORE[(n + before + behind + (split == "per_frame") + ending) % 3]
                    seq, sevs = client(rng, tags, 0, 1, before, behind, [n], [ending], split, mores=[more])
                    merges = list(sg.interleavings([seq, sevs]))
                    if len(merges) > (14 if quick else 200):
                        merges = rng.sample(merges, 14 if quick else 200)
                    for m in merges:
                        add(sg.with_polls(m, (1 << len(m)) - 1), [0], "one_conn_stream",
                            {"len": n, "ending": ending, "before": before, "behind": behind, "split": split,
                             "more": more})
                        add(sg.with_polls(m, 0), [0], "one_conn_stream_single_poll",
                            {"len": n, "ending": ending, "before": before, "behind": behind, "split": split})
    # (b) write failure at every item of a stream (and at the replies around it), other client unaffected
    for n in range(1, 5):
        for k in range(0, n + 2):
            tags = sg.Tags()
            seq0, sev0 = client(rng, tags, 0, 1, 1, 1, [n], [True], "one_burst")
            seq1, sev1 = client(rng, tags, 1, 1, 0, 1, [rng.randrange(0, 4)], [True], rng.choice(["one_burst", "per_frame"]))
            for _i in range(8 if quick else 30):
                kind = sg.IO_KINDS[(n + k + _i) % len(sg.IO_KINDS)]
                m = sg.random_merge(rng, [[seq0[0], sg.fw(0, k, kind)] + seq0[1:], sev0, seq1, sev1])
                mask = rng.choice([(1 << len(m)) - 1, rng.getrandbits(len(m))])
                add(sg.with_polls(m, mask), [1], "write_failure_at_item", {"len": n, "fail_at_write": k, "kind": kind}, failing=[0])
    # (f) flag combinations on the streaming call (oneway / more / upgrade absent, true, written-out false; any
    #     member position): a oneway call answered Multi gets nothing and its stream is dropped, the
    #     connection keeps taking calls and the calls pipelined behind it are answered in order; otherwise the
    #     items are delivered and the calls behind are answered after the end
    for fi, (o, m, u) in enumerate(sg.FLAG_COMBOS):
        for burst in (True, False):
            tags = sg.Tags()
            order = sg.MEMBER_ORDERS[fi % len(sg.MEMBER_ORDERS)]
            fr = [sg.call("Echo", 0, tags.next(), v=1), sg.call("Sub", 0, tags.next(), oneway=o, more=m, upgrade=u,
                                                                 order=order if burst else None,
                                                                 shuffle=None if burst else rng),
                  sg.call("Count", 0, tags.next()), sg.call("Fail", 0, tags.next(), v=2, oneway=(o == "false"))]
            arr = [["a", 0, sg.wire(fr).hex()]] if burst else [["a", 0, sg.wire([f]).hex()] for f in fr]
            sev = [["si", 0, 31, 1], ["si", 0, 32, 2], ["se", 0]]
            m_ = [["n", 0]] + (arr + sev if burst else sg.random_merge(rng, [arr, sev]))
            add(sg.with_polls(m_, (1 << len(m_)) - 1), [0], "flag_combinations_stream",
                {"oneway": o, "more": m, "upgrade": u, "one_burst": burst})
    # (h) another client hangs up (end of stream) or gets a read error WHILE a subscription is open; the
    #     service produces items / ends the stream only afterwards: they are delivered, the end is noticed and
    #     the calls pipelined behind the streaming call are answered
    for how in ("c", "fr"):
        for other_calls in (0, 1, 2):
            for n_items in (0, 1, 3):
                for behind in (0, 2):
                    tags = sg.Tags()
                    fr0 = [sg.call("Sub", 0, tags.next(), more=rng.choice(sg.MORE))] + \
                          [sg.call(rng.choice(["Echo", "Count"]), 0, tags.next(), v=4) for _ in range(behind)]
                    fr1 = [sg.call("Echo", 1, tags.next(), v=5) for _ in range(other_calls)]
                    ev = [["n", 0], ["n", 1], ["a", 0, sg.wire(fr0).hex()], ["p"]]
                    if fr1:
                        ev += [["a", 1, sg.wire(fr1).hex()]]
                    ev += [[how, 1], ["p"]]
                    for j in range(n_items):
                        ev += [["si", 0, 40 + j, 1], ["p"]]
                    ev += [["se", 0], ["p"], ["p"]]
                    add(ev, [0], "hangup_during_stream", {"how": how, "items": n_items, "behind": behind})
    # (g) suspension points: the write of a stream item (or Service::handle of the streaming call) stays
    #     pending for k polls while another client connects / calls / another stream yields: every item is
    #     still written once, in order, and the others lose nothing (sequential reference only)
    for k in (1, 2):
        for what in ("item_write", "handle", "both"):
            for meanwhile in ("connect", "call", "item"):
                tags = sg.Tags()
                t0 = tags.next()
                fr0 = [sg.call("Sub", 0, t0, more=rng.choice(sg.MORE)), sg.call("Echo", 0, tags.next(), v=1)]
                fr1 = [sg.call("Sub", 1, tags.next(), more=True), sg.call("Count", 1, tags.next())]
                fr2 = [sg.call("Echo", 2, tags.next(), v=2), sg.call("Count", 2, tags.next())]
                ev = [["n", 0], ["n", 1], ["a", 1, sg.wire(fr1).hex()], ["p"]]
                if what in ("handle", "both"):
                    ev.append(["hg", t0, k])
                if what in ("item_write", "both"):
                    ev.append(["wp", 0, 0, k])
                ev += [["a", 0, sg.wire(fr0).hex()], ["si", 0, 10, 1], ["p"], ["p"]]
                if meanwhile == "connect":
                    ev += [["n", 2], ["a", 2, sg.wire(fr2).hex()]]
                elif meanwhile == "call":
                    ev += [["n", 2], ["p"], ["a", 2, sg.wire(fr2).hex()]]
                else:
                    ev += [["si", 1, 20, 1], ["si", 1, 21, 1]]
                ev += [["p"]] * (2 * k + 2) + [["si", 0, 11, 2], ["se", 0], ["se", 1]] + [["p"]] * 3
                cases.append({"script": ev, "hyp": [0, 1] + ([2] if meanwhile != "item" else []),
                              "tag": "suspended_item_write_or_handle", "spec_only": True, "failing": [],
                              "info": {"k": k, "what": what, "meanwhile": meanwhile}})
    # (s) items of two (three) open streams become available between the same two polls of the server, with
    #     every previous stream winner (both round-robin orders): none may be consumed and thrown away; the
    #     calls pipelined behind the streaming calls are answered after the ends, which also arrive together
    for nconn in (2, 3):
        for last in range(nconn):
            for n_items in (1, 2):
                tags = sg.Tags()
                ev = []
                for c in range(nconn):
                    ev += [["n", c], ["a", c, sg.wire([sg.call("Sub", c, tags.next(), more=sg.MORE[(c + last) % 3]),
                                                       sg.call("Echo", c, tags.next(), v=c)]).hex()]]
                ev += [["p"], ["si", last, 50, 1], ["p"]]
                items = [["si", c, 60 + j, 1] for c in range(nconn) for j in range(n_items)]
                ends = [["se", c] for c in range(nconn)]
                for its, es in ((items, ends), (items[::-1], ends[::-1])):
                    add(ev + its + [["p"]] + es + [["p"], ["p"]], list(range(nconn)), "items_same_poll",
                        {"conns": nconn, "last_stream_winner": last, "items": n_items})
    # (c) random: 1..3 connections, several streams each, random interleaving and polls, some write failures
    for i in range(1400 if quick else 10000):
        nconn = rng.randrange(1, 4)
        tags = sg.Tags()
        seqs, hyp, failing = [], [], []
        for cid in range(nconn):
            nsub = rng.randrange(0, 3)
            lengths = [rng.randrange(0, 5) for _ in range(nsub)]
            ending = [rng.random() < 0.8 for _ in range(nsub)]
            seq, sevs = client(rng, tags, cid, nsub, rng.randrange(0, 3), rng.randrange(0, 3), lengths, ending,
                               rng.choice(["one_burst", "per_frame", "random"]))
            if nsub == 0 and len(seq) == 1:
                seq.append(["a", cid, sg.wire([sg.call("Echo", cid, tags.next(), v=1)]).hex()])
            if rng.random() < 0.15:
                seq.insert(1, sg.fw(cid, rng.randrange(0, 6), rng.choice(sg.IO_KINDS)))
                failing.append(cid)
            else:
                hyp.append(cid)
            seqs.append(seq)
            if sevs:
                seqs.append(sevs)
        m = sg.random_merge(rng, seqs)
        mask = rng.choice([(1 << len(m)) - 1, 0, rng.getrandbits(len(m)), rng.getrandbits(len(m))])
        add(sg.with_polls(m, mask), hyp, "random", {"conns": nconn}, failing=failing)
    return cases


def main():
    ck = Check(PID)
    step, limit = sg.consts(ck)
    if getattr(ck, "proof_ok", True):
        ck.prove(["gen/Consts.v", "Server/ServerExec.v"], "props/C10.v")
    if ck.replay:
        rp = json.load(open(ck.replay))
        cases = []
        if "case" in rp:
            c = rp["case"]
            c.pop("pair", None)
            cases = [c]
            if c.get("failing"):
                cases.append(dict(c, script=without_fw(c["script"]), hyp=c["hyp"] + c["failing"], pair=0))
    else:
        cases = gen_cases(ck)
    out = sg.run_cases(ck, cases, step, limit, per_shard=40)
    byid = {c["id"]: (c, r, code) for c, r, code in out}
    def classify(c, r, code):
        detail = {"case": c, "impl_trace": sg.pretty_trace(r), "script": sg.script_summary(c["script"])}
        msg = None
        if code & 2:
            msg = ("a connection's output differs from the sequential reference (items in order with the "
                   "service's flags, pipelined calls answered in order after the stream ends)")
            detail["want_model"] = True
        elif "pair" in c and c["pair"] in byid:
            # c is the run without write failures, c0 the run with them
            c0, r0, _ = byid[c["pair"]]
            for k in sorted(set(e[1] for e in c["script"] if e[0] == "n")):
                w, w0 = sg.writes_of(r, k), sg.writes_of(r0, k)
                if k in c["failing"]:
                    bad = w0 != w[:len(w0)] or sg.dropped(r0).count(k) > 1
                    what = "connection %d (write failure) got something else than a prefix of its replies" % k
                else:
                    bad = w0 != w or k in sg.dropped(r0)
                    what = "connection %d was affected by a write failure on another connection" % k
                if bad:
                    msg = what
                    detail.update({"case": c0, "script": sg.script_summary(c0["script"]),
                                   "impl_trace": sg.pretty_trace(r0), "impl_trace_without_failure": sg.pretty_trace(r)})
        return msg, detail
    n_viol = 0
    verdicts = [(c, r, code) + classify(c, r, code) for c, r, code in out]
    for c, r, code, msg, detail in verdicts:
        if msg and n_viol < 5:
            n_viol += 1
            if detail.pop("want_model", False):
                detail["model_and_spec"] = sg.show_model(ck, c, r, step, limit)
            ck.violation(msg + " [%s]" % c["tag"], detail, tag="c%d" % c["id"])
    for c, r, code, msg, detail in verdicts:
        if not msg and code and n_viol < 5:
            n_viol += 1
            sg.report_model_mismatch(ck, c, r, step, limit, " (outputs agree with the sequential reference)")
    sg.coverage(ck, cases, out, step, limit, {
        "stream_lengths": "0..4, ending or not; write failure at every item position",
        "pairs_compared": sum(1 for c in cases if "pair" in c),
        "stream_items_written": sum(1 for _, r, _ in out for p in r["polls"] for e in p["tr"]
                                    if e[0] == 3 and b'"t":' not in bytes(e[2:]) and b'"v":' in bytes(e[2:])),
    })
    ck.finish(rule=sg.RULE)


if __name__ == "__main__":
    main()
