#!/usr/bin/env python3
"""C19 — end to end over real Unix sockets (tokio and smol) nothing is lost or corrupted
(partial; open finding C19.flush_cancelled_after_partial_write)."""
import os, sys, json
sys.path.insert(0, os.path.join(os.path.dirname(os.path.abspath(__file__)), "..", "lib"))
from vlib import *
from rconn import constants

PID = "C19"
HEADER = "From ZV Require Import Common.Exec Framing.WriteConn Framing.Pipe Framing.PipeExec.\nOpen Scope N_scope.\n"
SIG = "C19.flush_cancelled_after_partial_write"


def gen_cases(ck):
    rng = ck.rng
    quick = ck.tier == "quick"
    intact, cancel = [], []
    big = [70000, 131072, 262144, 300000] if quick else [70000, 131072, 262144, 300000, 524288, 1048576]
    n_int = 6 if quick else 40
    for i in range(n_int):
        for rt in ("tokio", "smol"):
            def sizes():
                n = rng.randrange(1, 7)
                return [rng.choice([1, 2, 17, 255, 256, 257, 4000, rng.randrange(1, 70000)] + big[: 2 if i % 2 else len(big)])
                        if rng.random() < 0.8 else rng.choice(big) for _ in range(n)]
            c2s, s2c = sizes(), sizes()
            conns = rng.choice([1, 1, 2, 3, 8 if not quick else 4])
            # sending one huge message is quadratic in zlink (grow by 256 B, re-serialise): keep the
            # total work of a scenario bounded so that the harness' time-outs mean "stuck", not "slow"
            heavy = sum(1 for x in c2s + s2c if x >= 262144)
            if heavy * conns > 4:
                conns = 1
                c2s = [x for x in c2s if x < 262144][:4] + [x for x in c2s if x >= 262144][:2]
                s2c = [x for x in s2c if x < 262144][:4] + [x for x in s2c if x >= 262144][:2]
            intact.append({"id": len(intact), "runtime": rt, "kind": "intact",
                           "conns": conns, "timeout_s": 60 if quick else 240,
                           "c2s": c2s or [1], "s2c": s2c or [1],
                           "server_delay_ms": rng.choice([0, 0, 2, 10]), "client_delay_ms": rng.choice([0, 0, 2, 10]),
                           "from_fd": rng.random() < 0.5, "pipeline": rng.random() < 0.4,
                           # every third scenario: the inherited listener is bound in the abstract namespace
                           "abstract": i % 3 == 1})
    # pipelined small messages of every size 1..N: the end of the queued data passes through every
    # alignment relative to the write buffer's growth steps
    for rt in ("tokio", "smol"):
        intact.append({"id": len(intact), "runtime": rt, "kind": "intact", "conns": 1,
                       "c2s": list(range(1, 420 if quick else 900)), "s2c": list(range(300, 1, -1)),
                       "server_delay_ms": 0, "client_delay_ms": 0, "from_fd": False, "pipeline": True})
    # ... and, deterministically, groups of three pipelined calls (the harness flushes every third)
    # whose SECOND document ends exactly at the end of the write buffer (pos > 0, pos + len == cap)
    def doc(size, idx):
        return 62 + size + len(str(idx))
    for rt in ("tokio", "smol"):
        sizes, cap, idx = [], 256, 0
        for g in range(25 if quick else 120):
            s1 = rng.randrange(1, 200)
            pos = doc(s1, idx) + 1
            cap = max(cap, ((pos) // 256 + 1) * 256)
            k = max(cap, ((pos + 70) // 256 + 1) * 256) + 256 * rng.randrange(0, 2)
            s2 = k - pos - 62 - len(str(idx + 1))
            sizes += [s1, s2, rng.randrange(1, 50)]
            cap = max(cap, k + 256)
            idx += 3
        intact.append({"id": len(intact), "runtime": rt, "kind": "intact", "conns": 1, "c2s": sizes, "s2c": [5],
                       "server_delay_ms": 0, "client_delay_ms": 0, "from_fd": False, "pipeline": True})
    n_c = 8 if quick else 60
    for i in range(n_c):
        for rt in ("tokio", "smol"):
            cancel.append({"id": 1000 + len(cancel), "runtime": rt, "kind": "cancel",
                           "pre": [rng.randrange(1, 300) for _ in range(rng.randrange(0, 3))],
                           # small ones complete at once (k = whole frame), large ones block part-way
                           "big": rng.choice([5, 200, 1500, 6000, 9000, 14000, 20000, 30000]),
                           "after": [rng.randrange(1, 100) for _ in range(rng.randrange(1, 3))],
                           "timeout_ms": 80})
    return intact, cancel


def gen_ids(ck):
    quick = ck.tier == "quick"
    return [{"id": 5000 + i, "runtime": rt, "kind": "ids", "threads": 8, "per_thread": 12000 if quick else 60000}
            for i, rt in enumerate(("tokio", "smol"))]


def render(c, r, step, limit):
    frames = [bytes.fromhex(f) for f in r["frames"]]
    npre = len(c["pre"])
    sched = ["Acc %d%%nat" % (len(f) + 1) for f in frames[:npre]]
    bigf = frames[npre]
    if r["completed"]:
        sched.append("Acc %d%%nat" % (len(bigf) + 1))
        known = False
    else:
        if r["k"] > 0:
            sched.append("Acc %d%%nat" % r["k"])
        sched.append("Cancel")
        known = 0 < r["k"] < len(bigf) + 1
    return ("{| pc_step := %d; pc_limit := %d; pc_K := %d; pc_frames := %s; pc_sched := %s; pc_known := %s; "
            "pc_raw := %s |}") % (step, limit, limit // step, coq_list([coq_bytes(f) for f in frames]),
                                  coq_list(sched), "true" if known else "false", coq_bytes(bytes.fromhex(r["raw"])))


def main():
    ck = Check(PID)
    step, hook_limit, prod = constants(ck)
    if getattr(ck, "proof_ok", True):
        ck.prove(["gen/Consts.v", "Framing/PipeExec.v"], "props/C19.v")
    intact, cancel = gen_cases(ck)
    if ck.replay:
        rp = json.load(open(ck.replay))
        intact = [rp["case"]] if rp.get("case", {}).get("kind") == "intact" else []
        cancel = [rp["case"]] if rp.get("case", {}).get("kind") == "cancel" else []
    # the socket harness is built WITHOUT the hook cfg: production buffer limit, real sizes
    root = harness_root()
    NOHOOK = os.path.join(root, "target-nohook")
    lock = os.path.join(root, "Cargo.lock")
    if not os.path.exists(lock):
        sh("cp %s/Cargo.lock %s" % (REPO, lock))
    rc, log = sh("cargo build --offline --bin sock --target-dir %s" % NOHOOK, timeout=1500, cwd=root,
                 env={"RUSTFLAGS": ""})
    if rc != 0:
        ck.violation("socket harness does not build against /repo", {"log": log[-3000:]}, tag="build", no_input=True)
        ck.finish()
    exe = os.path.join(NOHOOK, "debug", "sock")

    def run(cases, shards):
        from concurrent.futures import ThreadPoolExecutor
        parts = [cases[i::shards] for i in range(shards)]
        res = {}

        def one(part):
            if not part:
                return []
            inp = "\n".join(json.dumps(c) for c in part) + "\n"
            rc, out = sh(exe, timeout=900, input=inp)
            return [json.loads(l) for l in out.splitlines() if l.startswith("{")]
        with ThreadPoolExecutor(max_workers=shards) as ex:
            for rs in ex.map(one, parts):
                for r in rs:
                    res[r["id"]] = r
        return [res.get(c["id"], {"id": c["id"], "crash": True}) for c in cases]
    ires = run(intact, 8)
    cres = run(cancel, 8)
    # backed-up send direction: the writer is stalled on a full socket while the reader waits; a frame from
    # the peer must be received before the peer starts to drain (arriving data wakes the receive whatever
    # the state of the send direction), and what the peer drains afterwards must be intact
    bp = [] if ck.replay else [{"id": i, "runtime": rt, "kind": "backpressure", "n": n, "size": sz}
                               for i, (rt, n, sz) in enumerate((rt, n, sz) for rt in ("tokio", "smol")
                                                               for n, sz in ((32, 8192), (64, 16384)))]
    if ck.replay and json.load(open(ck.replay)).get("case", {}).get("kind") == "backpressure":
        bp = [json.load(open(ck.replay))["case"]]
    for c, r in zip(bp, run(bp, 4)):
        ok = (r.get("recv") == "ok" and r.get("recv_before_drain") is True and r.get("intact") is True
              and r.get("write") is None and r.get("frames") == c["n"])
        if not ok:
            ck.violation("with the send direction backed up (%s, %d frames of %d bytes queued towards a peer that does not "
                         "read yet) a frame from the peer was not received before the peer started to drain, or the drained "
                         "frames were not intact: %s" % (c["runtime"], c["n"], c["size"], json.dumps(r)[:300]),
                         {"case": c, "impl": r}, tag="bp%d" % c["id"])
    ck.cov["backpressure_scenarios"] = len(bp)
    idcases = [] if ck.replay else gen_ids(ck)
    idres = run(idcases, 1)      # one at a time: each uses 8 threads itself
    ids_created = 0
    for c, r in zip(idcases, idres):
        ids_created += r.get("created", 0)
        if r.get("panic") or r.get("crash") or r.get("duplicates", 1) != 0:
            ck.violation("connections created concurrently from %d threads (%s) did not all get distinct identifiers: "
                         "%s duplicates among %s" % (c["threads"], c["runtime"], r.get("duplicates"), r.get("created")),
                         {"case": c, "impl": r}, tag="ids%d" % c["id"])
    ck.ran_correspondence = True
    # ---- intact delivery: spec-level comparison (the theorem says the result does not depend on how
    # the kernel splits the writes, so there is no schedule to feed to the model)
    msgs = 0
    allids = []
    for c, r in zip(intact, ires):
        if r.get("panic") or r.get("crash"):
            ck.violation("socket run panicked or hung (%s)" % c["runtime"], {"case": c, "impl": r}, tag="ip%d" % c["id"])
            continue
        if r.get("listener_error"):
            ck.violation("a listener could not be built from an inherited descriptor bound in the abstract namespace "
                         "(%s): %s" % (c["runtime"], r["listener_error"]), {"case": c, "impl": r}, tag="il%d" % c["id"])
            continue
        bad = r["write_errors"] or len(r["recv"]) != c["conns"]
        for rc_ in r["recv"]:
            bad = bad or rc_["c2s"] != ["ok"] * len(c["c2s"]) or rc_["s2c"] != ["ok"] * len(c["s2c"])
            msgs += len(rc_["c2s"]) + len(rc_["s2c"])
        if len(set(r["ids"])) != len(r["ids"]):
            bad = True
        allids.append(len(r["ids"]))
        if bad:
            ck.violation("messages sent over a real socket (%s, %d connections, listener %s) were not all received "
                         "intact and in order / ids not distinct" % (c["runtime"], c["conns"],
                                                                      "from inherited fd (abstract namespace)" if c.get("abstract") else
                                                                      "from inherited fd" if c["from_fd"] else "bound"),
                         {"case": c, "impl": r}, tag="i%d" % c["id"])
    # ---- abandoned sends: model correspondence with the measured number of bytes the kernel took
    items = []
    not_run = 0
    for c, r in zip(cancel, cres):
        if r.get("panic") or r.get("crash"):
            ck.violation("cancel scenario crashed (%s)" % c["runtime"], {"case": c, "impl": r}, tag="cp%d" % c["id"],
                         no_input=True)
            continue
        if not r.get("pre_ok", False) or "timeout" in r.get("after", []):
            not_run += 1      # the machine was too slow for the set-up sends: inconclusive, not a finding
            continue
        items.append((c, r))
    if cancel and not_run * 2 > len(cancel):
        ck.violation("more than half of the cancel scenarios could not be set up (%d of %d)" % (not_run, len(cancel)),
                     {"not_run": not_run}, tag="cancel_setup", no_input=True)
    try:
        bad = ck.coq_eval("cases", HEADER, items, lambda it: render(it[0], it[1], step, prod), per_shard=2)
    except RuntimeError as e:
        ck.violation("model evaluation failed: " + str(e)[:300], {"log": str(e)}, tag="eval", no_input=True)
        bad = {}
    known = 0
    for idx in sorted(bad):
        c, r = items[idx]
        code = bad[idx]
        slim = {k: v for k, v in r.items() if k not in ("raw", "frames")}
        slim["frame_lengths"] = [len(f) // 2 + 1 for f in r["frames"]]
        slim["raw_length"] = len(r["raw"]) // 2
        if code & 1:
            ck.violation("the peer's byte stream differs from the Pipe model's for the measured k=%d (%s)" % (r["k"], c["runtime"]),
                         {"case": c, "impl": slim, "correspondence": "Framing/Pipe.v krun vs real socket"},
                         tag="m%d" % c["id"], no_input=not (code & 2))
        elif code & 4:
            known += 1
            ck.violation("a send abandoned after the kernel took %d of %d bytes was re-sent from the start: the peer "
                         "received a corrupted frame (%s)" % (r["k"], slim["frame_lengths"][len(c["pre"])], c["runtime"]),
                         {"case": c, "impl": slim}, tag="k%d" % c["id"], sig=SIG)
        elif code & 2:
            ck.violation("the peer did not receive whole frames each once in order although no send was abandoned "
                         "after a partial write (%s)" % c["runtime"], {"case": c, "impl": slim}, tag="c%d" % c["id"])
    ks = [(r["k"], r["completed"]) for _, r in items]
    ck.cov.update({
        "evaluations": len(intact) + len(cancel), "distinct_nontrivial": len({case_hash(c) for c in intact + cancel}),
        "traces_validated_against_impl": len(items),
        "intact_runs": len(intact), "messages_received_intact": msgs,
        "largest_message": max([max(c["c2s"] + c["s2c"]) for c in intact] or [0]),
        "connection_ids_checked": sum(allids), "connection_ids_created_concurrently": ids_created,
        "cancel_runs": len(cancel), "cancel_runs_inconclusive": not_run, "abandoned_after_partial_write": known,
        "abandoned_sends_completed_or_nothing_written": sum(1 for k, comp in ks if comp or k == 0),
        "runtimes": ["tokio", "smol"], "step": step, "production_limit": prod,
    })
    for c in intact[:1] + cancel[:1]:
        ck.samples.append(c)
    ck.assumptions += [
        "PARTIAL: kernel buffering, wake-ups and real timing are outside the Gallina model; the intact-delivery runs "
        "are testing of the composed system against the theorem's conclusion (received = sent), the cancel runs are a "
        "model correspondence using the number of bytes the kernel took as measured at the peer",
        "the socket harness is built without cfg(zlink_verif), i.e. with the production buffer limit",
    ]
    ck.finish(rule="a case = an intact-delivery scenario (runtime, connections, message sizes both ways, reader delays, "
                   "listener kind) or a cancel scenario (runtime, sizes, abandoned send); distinct by hash")


if __name__ == "__main__":
    main()
