#!/usr/bin/env python3
"""Translate the `impl Type for ...` rows of zlink-core's introspection into coq/gen/TypeTable.v.

Starts at zlink-core/src/introspect/type/mod.rs and follows its `mod` declarations, i.e. reads the
files rustc compiles (not the dead `type/impls/` directory), understands

  * `impl_type!(T1, T2 => idl::Type::V);`            (local macro of primitives.rs; its body is checked)
  * `impl[<G>] [super::]Type for TY { const TYPE: &'static [crate::]idl::Type<'static> = EXPR; }`
    with an optional `#[cfg(feature = "...")]`, where EXPR is
        &idl::Type::{Bool,Int,Float,String,ForeignObject}          leaf row
        &idl::Type::Object(idl::List::Borrowed(&[]))                leaf row (empty object)
        &idl::Type::{Optional,Array,Map}(TypeRef::new(P::TYPE))     constructor row
        P::TYPE                                                      transparent wrapper row
  * invocations of the exported helper macros of macros.rs (impl_collection_type!, impl_map_type!,
    impl_transparent_wrapper!) after checking their definitions,

and fails loudly (exit 2) on anything else that looks like a Type impl or an unknown macro call.
Prints what it matched and the unreferenced (dead) files."""
import os, re, sys
REPO = os.environ.get("ZV_REPO", "/repo")
VERIF = os.path.dirname(os.path.dirname(os.path.abspath(__file__)))
OUT = os.path.join(VERIF, "coq", "gen", "TypeTable.v")
BASE = "zlink-core/src/introspect/type"


def die(msg):
    sys.stderr.write("translate/type_table: " + msg + "\n")
    print("type_table: FAILED " + msg)
    sys.exit(2)


def strip_comments(src):
    """Remove // and /* */ comments (string literals do not occur in the rows we read, but keep
    quoted strings intact anyway)."""
    out, i, n = [], 0, len(src)
    while i < n:
        c = src[i]
        if src.startswith("//", i):
            j = src.find("\n", i)
            i = n if j < 0 else j
        elif src.startswith("/*", i):
            depth, i = 1, i + 2
            while i < n and depth:
                if src.startswith("/*", i):
                    depth, i = depth + 1, i + 2
                elif src.startswith("*/", i):
                    depth, i = depth - 1, i + 2
                else:
                    i += 1
        elif c == '"':
            j = i + 1
            while j < n and src[j] != '"':
                j += 2 if src[j] == "\\" else 1
            out.append(src[i:j + 1])
            i = j + 1
        else:
            out.append(c)
            i += 1
    return "".join(out)


def follow_mods(start_rel):
    """Return the list of live files (relative to REPO) reachable through `mod x;` declarations,
    skipping #[cfg(test)] modules."""
    live, todo = [], [start_rel]
    while todo:
        rel = todo.pop(0)
        if rel in live:
            continue
        path = os.path.join(REPO, rel)
        if not os.path.exists(path):
            die("module file %s not found" % rel)
        live.append(rel)
        src = strip_comments(open(path).read())
        d = os.path.dirname(rel)
        stem = os.path.splitext(os.path.basename(rel))[0]
        sub = d if stem == "mod" else os.path.join(d, stem)
        for m in re.finditer(r"((?:#\[[^\]]*\]\s*)*)(?:pub(?:\([a-z]+\))?\s+)?mod\s+(r#)?(\w+)\s*;", src):
            attrs, name = m.group(1), m.group(3)
            if re.search(r"cfg\(\s*test\s*\)", attrs):
                continue
            pm = re.search(r'#\[path\s*=\s*"([^"]+)"\]', attrs)
            cands = [os.path.join(d, pm.group(1))] if pm else \
                [os.path.join(sub, name + ".rs"), os.path.join(sub, name, "mod.rs")]
            for c in cands:
                if os.path.exists(os.path.join(REPO, c)):
                    todo.append(os.path.normpath(c))
                    break
            else:
                die("cannot resolve `mod %s;` declared in %s" % (name, rel))
    return live


def split_top(s, sep=","):
    """Split at separators that are not nested in <>, (), []."""
    parts, depth, cur = [], 0, []
    for ch in s:
        if ch in "<([":
            depth += 1
        elif ch in ">)]":
            depth -= 1
        if ch == sep and depth == 0:
            parts.append("".join(cur))
            cur = []
        else:
            cur.append(ch)
    if "".join(cur).strip():
        parts.append("".join(cur))
    return [p.strip() for p in parts]


def norm(s):
    s = re.sub(r"\s+", " ", s.strip())
    s = re.sub(r"\s*([<>,\[\]()&:])\s*", r"\1", s)
    return s


LEAF = {"Bool": "TBool", "Int": "TInt", "Float": "TFloat", "String": "TString",
        "ForeignObject": "TForeign"}
SHAPE = {"Optional": "ShOptional", "Array": "ShArray", "Map": "ShMap"}
IDLP = r"(?:\$?crate::)?idl::Type::"
TREF = r"(?:(?:\$?crate::)?idl::)?TypeRef::new"


def classify_expr(expr):
    """-> ('leaf', coq_idl_ty) | ('ctor', shape, param)"""
    e = norm(expr)
    m = re.fullmatch(r"&" + IDLP + r"(\w+)", e)
    if m and m.group(1) in LEAF:
        return ("leaf", LEAF[m.group(1)])
    if re.fullmatch(r"&" + IDLP + r"Object\((?:(?:\$?crate::)?idl::)?List::Borrowed\(&\[\]\)\)", e):
        return ("leaf", "(TObject [])")
    m = re.fullmatch(r"&" + IDLP + r"(\w+)\(" + TREF + r"\((\w+)::TYPE\)\)", e)
    if m and m.group(1) in SHAPE:
        return ("ctor", SHAPE[m.group(1)], m.group(2))
    m = re.fullmatch(r"(\w+)::TYPE", e)
    if m:
        return ("ctor", "ShTransparent", m.group(1))
    die("unsupported TYPE expression: " + e)


def parse_generics(g):
    """'<T: Type + ?Sized, V>' -> {name: bounds}"""
    res = {}
    if not g:
        return res
    for p in split_top(g.strip()[1:-1]):
        if p.startswith("'"):
            continue
        name, _, bounds = p.partition(":")
        res[name.strip()] = [b.strip() for b in bounds.split("+") if b.strip()]
    return res


def coq_ident(prefix, name):
    s = name.replace("'_,", "").replace("'_", "")
    s = s.replace("&", "ref_").replace("::", "_").replace("()", "unit")
    s = re.sub(r"[<>,\[\]() ]", "_", s)
    s = re.sub(r"_+", "_", s).strip("_")
    if not re.fullmatch(r"\w+", s):
        die("cannot make a Coq identifier out of %r" % name)
    return prefix + s


def extract():
    """-> (live files, dead files, rows)"""
    live = follow_mods(BASE + "/mod.rs")
    allrs = []
    for root, _, files in os.walk(os.path.join(REPO, BASE)):
        for f in files:
            if f.endswith(".rs"):
                allrs.append(os.path.relpath(os.path.join(root, f), REPO))
    dead = sorted(set(allrs) - set(live))
    # `#[cfg(test)] mod tests;` is a live test module, not a row source
    dead_reported = [d for d in dead if not d.endswith("/tests.rs")]

    rows = []          # dicts: kind, rust, coq (row value), file, feature, param
    macro_defs = {}
    for rel in live:
        src = strip_comments(open(os.path.join(REPO, rel)).read())
        # --- macro definitions
        for m in re.finditer(r"macro_rules!\s*(\w+)\s*\{", src):
            # take the balanced body
            i, depth = m.end(), 1
            while i < len(src) and depth:
                depth += {"{": 1, "}": -1}.get(src[i], 0)
                i += 1
            macro_defs.setdefault(m.group(1), []).append((rel, src[m.end():i - 1]))
        # remove macro definitions before looking for items
        body = src
        for m in reversed(list(re.finditer(r"macro_rules!\s*(\w+)\s*\{", src))):
            i, depth = m.end(), 1
            while i < len(src) and depth:
                depth += {"{": 1, "}": -1}.get(src[i], 0)
                i += 1
            body = body[:m.start()] + body[i:]
        # --- explicit impls
        n_impl = len(re.findall(r"\bimpl\b[^;{]*\bType\s+for\b", body))
        pat = re.compile(
            r"((?:#\[[^\]]*\]\s*)*)impl\s*(<[^{]*?>)?\s*(?:super::|crate::introspect::)?Type\s+for\s+"
            r"([^{]+?)\s*\{\s*const\s+TYPE\s*:\s*&'static\s+(?:crate::)?idl::Type<'static>\s*=\s*"
            r"([^;]+);\s*\}", re.S)
        found = 0
        for m in pat.finditer(body):
            found += 1
            attrs, gen, ty, expr = m.group(1), m.group(2), norm(m.group(3)), m.group(4)
            feat = ""
            for a in re.findall(r"#\[([^\]]*)\]", attrs):
                fm = re.fullmatch(r'\s*cfg\(\s*feature\s*=\s*"([^"]+)"\s*\)\s*', a)
                if fm:
                    feat = fm.group(1)
                elif re.match(r"\s*(doc|allow)", a):
                    pass
                else:
                    die("unsupported attribute #[%s] on impl Type for %s in %s" % (a, ty, rel))
            gens = parse_generics(gen)
            cls = classify_expr(expr)
            if cls[0] == "leaf":
                for g, b in gens.items():
                    if any(x.endswith("Type") and not x.endswith("TimeZone") and x in ("Type", "super::Type") for x in b):
                        die("leaf row %s has a Type-bounded parameter %s" % (ty, g))
                rows.append({"kind": "leaf", "rust": ty, "val": cls[1], "file": rel, "feature": feat})
            else:
                _, shape, p = cls
                if p not in gens or not any(x in ("Type", "super::Type") for x in gens[p]):
                    die("row %s uses %s::TYPE but %s is not a `Type`-bounded parameter" % (ty, p, p))
                if len(re.findall(r"\b%s\b" % re.escape(p), ty)) != 1:
                    die("row %s does not mention its parameter %s exactly once" % (ty, p))
                name = re.sub(r"\b%s\b" % re.escape(p), "_", ty)
                rows.append({"kind": "ctor", "rust": name, "val": shape, "file": rel, "feature": feat,
                             "unsized": any("?Sized" in x for x in gens[p])})
        if found != n_impl:
            die("%s: %d `impl … Type for` items but only %d understood" % (rel, n_impl, found))
        # --- macro invocations
        for m in re.finditer(r"((?:#\[[^\]]*\]\s*)*)\b(\w+)!\s*\(([^;]*)\)\s*;", body):
            attrs, mac, args = m.group(1), m.group(2), m.group(3)
            feat = ""
            fm = re.search(r'cfg\(\s*feature\s*=\s*"([^"]+)"\s*\)', attrs)
            if fm:
                feat = fm.group(1)
            if mac == "impl_type":
                lhs, _, rhs = args.rpartition("=>")
                cls = classify_expr("&" + rhs.strip())
                if cls[0] != "leaf":
                    die("impl_type! with a non-leaf variant: " + args)
                for t in split_top(lhs):
                    rows.append({"kind": "leaf", "rust": norm(t), "val": cls[1], "file": rel, "feature": feat})
            elif mac == "impl_collection_type":
                mm = re.fullmatch(r"\s*([\w:]+)<(\w+)>\s*=>\s*Array\s*", args)
                if not mm:
                    die("unsupported impl_collection_type! arguments: " + args)
                rows.append({"kind": "ctor", "rust": "%s<_>" % mm.group(1), "val": "ShArray", "file": rel,
                             "feature": feat, "unsized": False})
            elif mac == "impl_map_type":
                mm = re.fullmatch(r"\s*([\w:]+)<\s*(String|&str)\s*,\s*(\w+)\s*>\s*", args)
                if not mm:
                    die("unsupported impl_map_type! arguments: " + args)
                rows.append({"kind": "ctor", "rust": "%s<%s,_>" % (mm.group(1), mm.group(2)), "val": "ShMap",
                             "file": rel, "feature": feat, "unsized": False})
            elif mac == "impl_transparent_wrapper":
                mm = re.fullmatch(r"\s*([\w:]+)<(\w+)>\s*", args)
                if not mm:
                    die("unsupported impl_transparent_wrapper! arguments: " + args)
                rows.append({"kind": "ctor", "rust": "%s<_>" % mm.group(1), "val": "ShTransparent",
                             "file": rel, "feature": feat, "unsized": True})
            else:
                die("unknown macro invocation %s!(…) in %s" % (mac, rel))

    # --- the macro definitions we rely on must have the expected bodies
    used = set()
    for rel in live:
        used |= set(re.findall(r"\b(impl_type|impl_collection_type|impl_map_type|impl_transparent_wrapper)!\s*\(",
                               strip_comments(open(os.path.join(REPO, rel)).read())))
    shapes = {
        "impl_type": r"impl\s+(?:\$crate::introspect::)?Type\s+for\s+\$ty\s*\{\s*const\s+TYPE\s*:\s*&'static\s+"
                     r"(?:\$crate::)?idl::Type<'static>\s*=\s*&\$variant\s*;\s*\}",
        "impl_collection_type": r"Type::Array\(\$crate::idl::TypeRef::new\(\$generic::TYPE\)\)",
        "impl_map_type": r"Type::Map\(\$crate::idl::TypeRef::new\(\$value::TYPE\)\)",
        "impl_transparent_wrapper": r"=\s*\$inner::TYPE\s*;",
    }
    for mac in used:
        defs = macro_defs.get(mac)
        if not defs:
            die("macro %s! is invoked but its definition was not found in the live files" % mac)
        for rel, body in defs:
            if not re.search(shapes[mac], body):
                die("definition of %s! in %s does not have the expected body" % (mac, rel))

    leaves = [r for r in rows if r["kind"] == "leaf"]
    ctors = [r for r in rows if r["kind"] == "ctor"]
    if len(leaves) < 10 or len(ctors) < 5:
        die("only %d leaf rows and %d constructor rows found — the table moved or changed shape"
            % (len(leaves), len(ctors)))
    seen = {}
    for r in rows:
        r["id"] = coq_ident("L_" if r["kind"] == "leaf" else "C_", r["rust"])
        if r["id"] in seen:
            die("two rows map to the Coq identifier %s: %s and %s" % (r["id"], r["rust"], seen[r["id"]]))
        seen[r["id"]] = r["rust"]

    return live, dead_reported, rows


def main():
    live, dead_reported, rows = extract()
    leaves = [r for r in rows if r["kind"] == "leaf"]
    ctors = [r for r in rows if r["kind"] == "ctor"]

    def q(s):
        return '"' + s.replace('"', '""') + '"'

    L = []
    L.append("(* GENERATED by translate/type_table.py from %s/{%s} — do not edit. *)" % (
        BASE, ",".join(os.path.basename(f) for f in live)))
    L.append("From ZV Require Import Codegen.IdlTy.")
    L.append("Open Scope string_scope.\n")
    L.append("(* leaf rows: `impl Type for T` with a constant description *)")
    L.append("Inductive rust_leaf :=\n" + "\n".join("| %s" % r["id"] for r in leaves) + ".\n")
    L.append("(* constructor rows: `impl<P: Type> Type for F<P>` built from P::TYPE *)")
    L.append("Inductive rust_ctor :=\n" + "\n".join("| %s" % r["id"] for r in ctors) + ".\n")
    for nm, rs, ty, key in (("leaf_row", leaves, "idl_ty", "val"), ("ctor_row", ctors, "shape", "val")):
        L.append("Definition %s (x : %s) : %s :=\n  match x with\n%s\n  end.\n" % (
            nm, "rust_leaf" if rs is leaves else "rust_ctor", ty,
            "\n".join("  | %s => %s" % (r["id"], r[key]) for r in rs)))
    for nm, rs, key in (("leaf_name", leaves, "rust"), ("ctor_name", ctors, "rust"),
                        ("leaf_feature", leaves, "feature"), ("ctor_feature", ctors, "feature")):
        L.append("Definition %s (x : %s) : string :=\n  match x with\n%s\n  end.\n" % (
            nm, "rust_leaf" if rs is leaves else "rust_ctor",
            "\n".join("  | %s => %s" % (r["id"], q(r[key])) for r in rs)))
    L.append("Definition all_leaves : list rust_leaf :=\n  [%s].\n" % "; ".join(r["id"] for r in leaves))
    L.append("Definition all_ctors : list rust_ctor :=\n  [%s].\n" % "; ".join(r["id"] for r in ctors))
    L.append("""(* Rust types built from the rows. RUser d: a user-defined type whose own `Type::TYPE` is d (what
   its derive produced — Codegen/Derive.v); RUnsupported: a type without a Type impl (the derive's
   output does not compile). *)
Inductive rust_ty :=
| RLeaf (l : rust_leaf)
| RApp (c : rust_ctor) (t : rust_ty)
| RUser (d : idl_ty)
| RUnsupported.

(* <T as Type>::TYPE, by structural recursion over the rows *)
Fixpoint type_of (t : rust_ty) : option idl_ty :=
  match t with
  | RLeaf l => Some (leaf_row l)
  | RApp c a => option_map (apply_shape (ctor_row c)) (type_of a)
  | RUser d => Some d
  | RUnsupported => None
  end.

Lemma all_leaves_complete : forall l, In l all_leaves.
Proof. intros l; destruct l; vm_compute; tauto. Qed.
Lemma all_ctors_complete : forall c, In c all_ctors.
Proof. intros c; destruct c; vm_compute; tauto. Qed.
""")
    txt = "\n".join(L)
    os.makedirs(os.path.dirname(OUT), exist_ok=True)
    old = open(OUT).read() if os.path.exists(OUT) else None
    if old != txt:
        open(OUT, "w").write(txt)
    print("type_table: live=%s" % ",".join(live))
    print("type_table: dead=%s" % (",".join(dead_reported) or "-"))
    print("type_table: leaves=%d ctors=%d" % (len(leaves), len(ctors)))
    for r in rows:
        print("type_table: row %s %s => %s%s [%s]" % (
            r["kind"], r["rust"], r["val"], (" feature=" + r["feature"]) if r["feature"] else "",
            os.path.basename(r["file"])))


if __name__ == "__main__":
    main()
