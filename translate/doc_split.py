#!/usr/bin/env python3
"""Does zlink-macros' extract_doc_comments (src/utils.rs) turn one doc attribute into one comment, or into
one comment per LINE of its text? The derive corpus of checks/c16.py contains block doc comments and
`#[doc = "a\\nb"]`; the expected description lists the comments accordingly. Fails loudly (exit 2) when
the function is not found. Prints `doc_split: split_lines=<true|false>`."""
import os, re, sys
REPO = os.environ.get("ZV_REPO", "/repo")


def main():
    path = os.path.join(REPO, "zlink-macros/src/utils.rs")
    src = open(path).read() if os.path.exists(path) else ""
    m = re.search(r"fn\s+extract_doc_comments\s*\([^)]*\)\s*->\s*Vec<String>\s*\{(.*?)\n\}", src, re.S)
    if not m:
        sys.stderr.write("translate/doc_split: fn extract_doc_comments not found in zlink-macros/src/utils.rs\n")
        print("doc_split: FAILED")
        sys.exit(2)
    body = re.sub(r"//[^\n]*", "", m.group(1))
    split = bool(re.search(r"\.split\(\s*'\\n'\s*\)|\.lines\(\)|split_terminator\(\s*'\\n'\s*\)", body))
    # helper functions called from it may do the splitting
    for h in re.findall(r"\b(\w+)\(", body):
        hm = re.search(r"fn\s+%s\s*\([^)]*\)[^{]*\{(.*?)\n\}" % re.escape(h), src, re.S)
        if hm and re.search(r"\.split\(\s*'\\n'\s*\)|\.lines\(\)", hm.group(1)):
            split = True
    print("doc_split: split_lines=%s" % ("true" if split else "false"))


if __name__ == "__main__":
    main()
