#!/usr/bin/env python3
"""Translate the string-escaping data of zlink-core/src/json_ser.rs into coq/gen/Escape.v.

Read from the CURRENT source on every run:
  * the `const XX: u8 = ...;` definitions used by the table,
  * `static ESCAPE: [u8; 256] = [...]` (16 rows x 16 entries),
  * the `match escape { self::XX => CharEscape::Y, ... }` arms of format_escaped_str_contents
    (in source order, incl. the catch-all that is `unreachable_unchecked`),
  * the `match char_escape { CharEscape::Y => writer.write_all(..), ... }` arms of
    Formatter::write_char_escape incl. the HEX_DIGITS table and the three writes of AsciiControl,
  * the two places where the table is consulted (`ESCAPE[byte as usize]`, `if escape == 0 { continue; }`).
Fails loudly (exit 2) when a construct is not found or has an unexpected shape.
The generated file re-proves, against these data, that exactly the RFC 8259 mandatory bytes are
escaped and that each is written as serde_json writes it.
"""
import os, re, sys

REPO = os.environ.get("ZV_REPO", "/repo")
SRC = os.path.join(REPO, "zlink-core/src/json_ser.rs")
OUT = os.path.join(os.path.dirname(os.path.dirname(os.path.abspath(__file__))), "coq", "gen", "Escape.v")

VARIANTS = ["Quote", "ReverseSolidus", "Solidus", "Backspace", "FormFeed", "LineFeed",
            "CarriageReturn", "Tab", "AsciiControl"]


def die(msg):
    sys.stderr.write("translate/escape: " + msg + "\n")
    print("translate/escape: FAILED: " + msg)
    sys.exit(2)


def strip_line_comments(s):
    # the anchored items contain no string literal with `//` in it except none; byte strings
    # are matched before stripping where it matters
    return re.sub(r"//[^\n]*", "", s)


def u8_literal(tok):
    """Value of a Rust u8 expression of the shapes used here."""
    tok = tok.strip()
    m = re.fullmatch(r"b'(\\.|[^\\'])'", tok)
    if m:
        c = m.group(1)
        if len(c) == 1:
            return ord(c)
        esc = {"\\\\": 92, "\\'": 39, '\\"': 34, "\\n": 10, "\\r": 13, "\\t": 9, "\\0": 0}
        if c in esc:
            return esc[c]
        die("unsupported byte literal " + tok)
    m = re.fullmatch(r"b'\\x([0-9a-fA-F]{2})'", tok)
    if m:
        return int(m.group(1), 16)
    m = re.fullmatch(r"(0x[0-9a-fA-F_]+|[0-9_]+)(u8)?", tok)
    if m:
        return int(m.group(1).replace("_", ""), 0)
    die("unsupported u8 constant expression: " + tok)


def byte_string(lit):
    """Bytes of a Rust byte-string literal body (between the quotes of b"...")."""
    out, i = [], 0
    while i < len(lit):
        c = lit[i]
        if c == "\\":
            n = lit[i + 1]
            if n == "x":
                out.append(int(lit[i + 2:i + 4], 16))
                i += 4
                continue
            tab = {"\\": 92, '"': 34, "'": 39, "n": 10, "r": 13, "t": 9, "0": 0}
            if n not in tab:
                die("unsupported escape in byte string: " + lit)
            out.append(tab[n])
            i += 2
        else:
            if ord(c) > 127:
                die("non-ASCII in byte string: " + lit)
            out.append(ord(c))
            i += 1
    return out


def coq_list(xs):
    return "[" + "; ".join(str(x) for x in xs) + "]"


def main():
    try:
        src = open(SRC).read()
    except OSError as e:
        die("cannot read %s: %s" % (SRC, e))

    # ---- the table
    m = re.search(r"static\s+ESCAPE\s*:\s*\[u8;\s*256\]\s*=\s*\[(.*?)\];", src, re.S)
    if not m:
        die("`static ESCAPE: [u8; 256] = [...]` not found")
    rows = []
    for line in m.group(1).splitlines():
        line = strip_line_comments(line).strip()
        if not line:
            continue
        ents = [t.strip() for t in line.split(",") if t.strip()]
        rows.append(ents)
    if len(rows) != 16 or any(len(r) != 16 for r in rows):
        die("ESCAPE is not a 16x16 table (rows: %s)" % [len(r) for r in rows])
    names = [t for r in rows for t in r]

    # ---- the constants it uses
    consts = {}
    for nm in sorted(set(names)):
        if re.fullmatch(r"[0-9]+|0x[0-9a-fA-F]+|b'.*'", nm):
            continue
        cm = re.search(r"const\s+%s\s*:\s*u8\s*=\s*([^;]+);" % re.escape(nm), src)
        if not cm:
            die("constant `%s` used in ESCAPE has no `const %s: u8 = ..;` definition" % (nm, nm))
        consts[nm] = u8_literal(cm.group(1))
    table = [consts[t] if t in consts else u8_literal(t) for t in names]

    # ---- how the table is consulted
    fm = re.search(r"fn\s+format_escaped_str_contents\b.*?\n\}\n", src, re.S)
    if not fm:
        die("fn format_escaped_str_contents not found")
    body = fm.group(0)
    if not re.search(r"let\s+escape\s*=\s*ESCAPE\[\s*byte\s+as\s+usize\s*\]\s*;", body):
        die("`let escape = ESCAPE[byte as usize];` not found in format_escaped_str_contents")
    if not re.search(r"if\s+escape\s*==\s*0\s*\{\s*continue;\s*\}", body):
        die("`if escape == 0 { continue; }` not found in format_escaped_str_contents")

    # ---- match escape arms
    mm = re.search(r"let\s+char_escape\s*=\s*match\s+escape\s*\{(.*?)\n\s*\};", body, re.S)
    if not mm:
        die("`let char_escape = match escape { .. };` not found")
    arms_src = strip_line_comments(mm.group(1))
    arms = []          # (const name, variant, carries_byte)
    catch_all = None
    for arm in re.finditer(r"(self::(\w+)|_|\w+)\s*=>\s*([^,]+(?:\{[^}]*\})?[^,]*),", arms_src):
        pat, cname, rhs = arm.group(1), arm.group(2), arm.group(3).strip()
        if pat == "_":
            if "unreachable_unchecked" in rhs:
                catch_all = "unreachable"
            else:
                die("catch-all arm of `match escape` is not unreachable_unchecked: " + rhs)
            continue
        if not cname:
            die("unsupported pattern in `match escape`: " + pat)
        if cname not in consts:
            cm = re.search(r"const\s+%s\s*:\s*u8\s*=\s*([^;]+);" % re.escape(cname), src)
            if not cm:
                die("`match escape` uses unknown constant " + cname)
            consts[cname] = u8_literal(cm.group(1))
        vm = re.fullmatch(r"CharEscape::(\w+)(\(\s*byte\s*\))?", rhs)
        if not vm or vm.group(1) not in VARIANTS:
            die("unsupported right-hand side in `match escape`: " + rhs)
        if (vm.group(1) == "AsciiControl") != bool(vm.group(2)):
            die("unexpected payload in `match escape` arm: " + rhs)
        arms.append((cname, vm.group(1), bool(vm.group(2))))
    if not arms or catch_all is None:
        die("`match escape` arms / catch-all not recognised")

    # ---- write_char_escape arms
    wm = re.search(r"fn\s+write_char_escape\b.*?match\s+char_escape\s*\{(.*?)\n        \}\n", src, re.S)
    if not wm:
        die("fn write_char_escape / `match char_escape { .. }` not found")
    wsrc = wm.group(1)
    writes = {}
    for arm in re.finditer(r'CharEscape::(\w+)\s*=>\s*writer\.write_all\(b"((?:\\.|[^"\\])*)"\)\s*,', wsrc):
        writes[arm.group(1)] = [byte_string(arm.group(2))]
    am = re.search(r"CharEscape::AsciiControl\(\s*byte\s*\)\s*=>\s*\{(.*?)\n\s*\}", wsrc, re.S)
    if not am:
        die("`CharEscape::AsciiControl(byte) => { .. }` arm not found")
    ab = am.group(1)
    hm = re.search(r'const\s+HEX_DIGITS\s*:\s*\[u8;\s*16\]\s*=\s*\*b"((?:\\.|[^"\\])*)"\s*;', ab)
    if not hm:
        die("HEX_DIGITS table not found in the AsciiControl arm")
    hexd = byte_string(hm.group(1))
    if len(hexd) != 16:
        die("HEX_DIGITS does not have 16 entries")
    ac = []            # Coq terms of the successive write_all arguments
    rest = ab[hm.end():]
    for w in re.finditer(r"writer\.write_all\((.*?)\)\s*(\?\s*;|$|\n)", rest, re.S):
        arg = w.group(1).strip()
        bm = re.fullmatch(r'b"((?:\\.|[^"\\])*)"', arg)
        if bm:
            ac.append(coq_list(byte_string(bm.group(1))))
        elif re.fullmatch(r"&\[\s*HEX_DIGITS\[\s*\(\s*byte\s*>>\s*4\s*\)\s*as\s+usize\s*\]\s*\]", arg):
            ac.append("[hexd (N.shiftr byte 4)]")
        elif re.fullmatch(r"&\[\s*HEX_DIGITS\[\s*\(\s*byte\s*&\s*0x[fF]\s*\)\s*as\s+usize\s*\]\s*\]", arg):
            ac.append("[hexd (N.land byte 15)]")
        else:
            die("unsupported write in the AsciiControl arm: " + arg)
    if not ac:
        die("no writes recognised in the AsciiControl arm")
    missing = [v for v in VARIANTS if v != "AsciiControl" and v not in writes]
    if missing:
        die("write_char_escape has no arm for " + ", ".join(missing))
    em = re.search(r"enum\s+CharEscape\s*\{(.*?)\n\}", src, re.S)
    if not em:
        die("enum CharEscape not found")
    evs = re.findall(r"^\s*(\w+)(?:\(u8\))?,\s*$", strip_line_comments(re.sub(r"#\[[^\]]*\]", "", em.group(1))), re.M)
    if evs != VARIANTS:
        die("enum CharEscape variants changed: %r" % evs)

    # ---- emit
    L = []
    L.append("(* GENERATED by translate/escape.py from zlink-core/src/json_ser.rs — do not edit. *)")
    L.append("From Coq Require Import List NArith Bool Lia.")
    L.append("Import ListNotations.")
    L.append("Local Open Scope N_scope.")
    L.append("")
    L.append("(* const XX: u8 = ..; *)")
    for nm in sorted(consts):
        L.append("Definition C_%s : N := %d." % (nm.strip("_") or "ZZ", consts[nm]))
    L.append("")
    L.append("(* static ESCAPE: [u8; 256] *)")
    L.append("Definition ESCAPE : list N := [")
    for r in range(16):
        L.append("  " + "; ".join("%3d" % x for x in table[16 * r:16 * r + 16]) + (";" if r < 15 else ""))
    L.append("].")
    L.append("(* `ESCAPE[byte as usize]` *)")
    L.append("Definition escape_of (b : N) : N := nth (N.to_nat b) ESCAPE 0.")
    L.append("")
    L.append("(* enum CharEscape *)")
    L.append("Inductive char_escape := " + " | ".join(
        v if v != "AsciiControl" else "AsciiControl (byte : N)" for v in VARIANTS) + ".")
    L.append("")
    L.append("(* `let char_escape = match escape { .. }`, arms in source order; None = the")
    L.append("   `unreachable_unchecked()` catch-all (undefined behaviour if reached) *)")
    L.append("Definition classify (escape byte : N) : option char_escape :=")
    for cname, var, carries in arms:
        L.append("  if escape =? %d (* %s *) then Some %s else" % (
            consts[cname], cname, "(AsciiControl byte)" if carries else var))
    L.append("  None.")
    L.append("")
    L.append("(* const HEX_DIGITS *)")
    L.append("Definition HEX_DIGITS : list N := %s." % coq_list(hexd))
    L.append("Definition hexd (i : N) : N := nth (N.to_nat i) HEX_DIGITS 0.")
    L.append("")
    L.append("(* Formatter::write_char_escape: the successive write_all calls of each arm *)")
    L.append("Definition escape_writes (ce : char_escape) : list (list N) :=")
    L.append("  match ce with")
    for v in VARIANTS:
        if v == "AsciiControl":
            L.append("  | AsciiControl byte => [%s]" % "; ".join(ac))
        else:
            L.append("  | %s => [%s]" % (v, "; ".join(coq_list(x) for x in writes[v])))
    L.append("  end.")
    L.append("")
    L.append(REFERENCE)
    txt = "\n".join(L) + "\n"
    os.makedirs(os.path.dirname(OUT), exist_ok=True)
    old = open(OUT).read() if os.path.exists(OUT) else None
    if old != txt:
        open(OUT, "w").write(txt)
    esc = [i for i, x in enumerate(table) if x]
    print("escape: table 16x16 read, %d escaped bytes (%s), %d match arms, hex=%s, consts=%s" % (
        len(esc), ",".join(str(i) for i in esc), len(arms), bytes(hexd).decode(),
        " ".join("%s=%d" % kv for kv in sorted(consts.items()))))


# The reference side is fixed text (it does not depend on the source): RFC 8259 §7 as serde_json
# writes it (two-character escapes where they exist, \u00xx with lower-case hex otherwise).
REFERENCE = r"""(* ---- reference: RFC 8259 section 7, in serde_json's choice of spelling ---- *)
Definition needs_escape (b : N) : bool := (b <? 32) || (b =? 34) || (b =? 92).
Definition hexl (d : N) : N := if d <? 10 then 48 + d else 87 + d.   (* 0-9 a-f *)
Definition rfc_escape (b : N) : list N :=
  if b =? 34 then [92; 34]        (* backslash, quotation mark *)
  else if b =? 92 then [92; 92]   (* backslash, backslash *)
  else if b =? 8 then [92; 98]    (* backslash, b *)
  else if b =? 12 then [92; 102]  (* backslash, f *)
  else if b =? 10 then [92; 110]  (* backslash, n *)
  else if b =? 13 then [92; 114]  (* backslash, r *)
  else if b =? 9 then [92; 116]   (* backslash, t *)
  else [92; 117; 48; 48; hexl (b / 16); hexl (b mod 16)].  (* backslash, u, 0, 0, two lower-case hex digits *)

Fixpoint nlist_eqb (a b : list N) : bool :=
  match a, b with
  | [], [] => true
  | x :: a', y :: b' => (x =? y) && nlist_eqb a' b'
  | _, _ => false
  end.
Lemma nlist_eqb_eq : forall a b, nlist_eqb a b = true -> a = b.
Proof.
  induction a as [|x a IH]; destruct b as [|y b]; cbn [nlist_eqb]; intros H; try discriminate.
  - reflexivity.
  - apply andb_true_iff in H. destruct H as [H1 H2]. apply N.eqb_eq in H1. subst.
    f_equal. apply IH. exact H2.
Qed.

(* what is checked for one byte: escaped exactly when RFC 8259 demands it, and then written as
   the reference spells it *)
Definition esc_ok (b : N) : bool :=
  Bool.eqb (negb (escape_of b =? 0)) (needs_escape b) &&
  (if escape_of b =? 0 then true
   else match classify (escape_of b) b with
        | Some ce => nlist_eqb (concat (escape_writes ce)) (rfc_escape b)
        | None => false
        end).

Definition bytes256 : list N := map N.of_nat (seq 0 256).

Lemma escape_sweep : forallb esc_ok bytes256 = true.
Proof. vm_compute. reflexivity. Qed.

Lemma in_bytes256 : forall b, b < 256 -> In b bytes256.
Proof.
  intros b Hb. unfold bytes256. rewrite <- (N2Nat.id b). apply in_map. apply in_seq. lia.
Qed.

Lemma esc_ok_all : forall b, b < 256 -> esc_ok b = true.
Proof.
  intros b Hb. exact (proj1 (forallb_forall esc_ok bytes256) escape_sweep b (in_bytes256 b Hb)).
Qed.

Lemma needs_escape_spec : forall b, needs_escape b = true <-> (b < 32 \/ b = 34 \/ b = 92).
Proof.
  intros b. unfold needs_escape. rewrite !orb_true_iff, N.ltb_lt, !N.eqb_eq. tauto.
Qed.

(* For every byte value: the table marks it iff it is a control character, the quotation mark or
   the reverse solidus; and a marked byte is classified (never the unreachable arm) and written
   exactly as the reference escape. Re-proved on every run against the regenerated data. *)
Theorem C03_escape_table : forall b, b < 256 ->
  (escape_of b <> 0 <-> (b < 32 \/ b = 34 \/ b = 92)) /\
  (escape_of b <> 0 -> exists ce, classify (escape_of b) b = Some ce /\
                                  concat (escape_writes ce) = rfc_escape b).
Proof.
  intros b Hb. pose proof (esc_ok_all b Hb) as H. unfold esc_ok in H.
  apply andb_true_iff in H. destruct H as [H1 H2]. apply eqb_prop in H1.
  rewrite <- needs_escape_spec. split.
  - rewrite <- H1. rewrite negb_true_iff. rewrite N.eqb_neq. tauto.
  - intros Hne. apply N.eqb_neq in Hne. rewrite Hne in H2.
    destruct (classify (escape_of b) b) as [ce|]; [|discriminate].
    exists ce. split; [reflexivity|]. apply nlist_eqb_eq. exact H2.
Qed.

(* outside the table (cannot happen for a u8; the model's bytes are N) nothing is escaped *)
Lemma escape_len : length ESCAPE = 256%nat.
Proof. reflexivity. Qed.
Lemma escape_of_big : forall b, 256 <= b -> escape_of b = 0.
Proof. intros b Hb. unfold escape_of. apply nth_overflow. rewrite escape_len. lia. Qed.
"""

if __name__ == "__main__":
    main()
